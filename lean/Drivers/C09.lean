import NmlVerif.Model.Factory
import NmlVerif.Gen.Members
import NmlVerif.Gen.Factory
import NmlVerif.Gen.AddImpl
import NmlVerif.DrvCommon
import Std.Data.HashMap
/-!
Driver for C09 (line protocol, see harness/props/c09.py).  Runs the REGENERATED definitions of `Gen/Factory.lean`
(`Props/C09Gen.lean` proves them equal to the hand model) over `Gen.Members.table` and `Gen.Factory.ctorTable`.

  CALL = {"cls":str,"form":"str"|"class","kw":[[key,VAL]…],"flag":b,"cv":b,"oid":n,
          "casts":[["int"|"float",VAL,VAL|null]…],"cellset":[[member,VAL]…]}
         cv: the real validate() accepts the component; casts: Python's int()/float() on the values involved
         (null = ValueError); cellset: the attributes `Cell.setup_nml_cell` leaves behind (`Env.setupCell`)
  {"op":"factory","en":b,"ep":"cls"|"utils", CALL…}      -> {"r":TAG,"fields":[[name,CANON]…]|null}
  {"op":"ctor", CALL…}                                   -> {"r":"ok"|"err:ctor","fields":[[name,CANON]…]|null}
  {"op":"session","init":b,"cmds":[["enable"]|["disable"]|["make",CALL]|["addt",CALL+{"parent":OBJ,"hint","force","pv","sok"}]…]}
                                                          -> {"switch":b,"res":[TAG…]}
  {"op":"addtype","parent":OBJ,"calls":[{CALL…,"en":b,"hint":s|null,"force":b,"pv":b,"sok":b}…]}
                                                          -> {"res":[{"r":TAG,"w":…,"ret":oid|null,"ch":[[attr,CANON]…]}…]}
  {"op":"sites"}                                         -> {"sites":[[class,method,callee,type|null,flag,[keys…],passkw]…]}
  TAG = "ok" | "err:attr" | "err:ctor" | "err:badArg:<key>" | "err:invalid" | "err:add:<tag>"
  VAL/OBJ/CANON as in Drivers/C10.lean.
-/
open Lean NmlVerif NmlVerif.Add NmlVerif.Factory Drv

def allNames : List String := Gen.Members.names ++ Gen.Factory.extraNames

def nameMap : Std.HashMap String Nat :=
  (allNames.zipIdx).foldl (fun m (s, i) => m.insert s i) {}

def nNames : Nat := allNames.length

def intern (s : String) : Nat :=
  match nameMap[s]? with
  | some i => i
  | none => nNames + 1 + s.toUTF8.foldl (fun acc b => acc * 257 + b.toNat + 1) 0

partial def decodeBytes (n : Nat) (acc : List UInt8) : List UInt8 :=
  if n == 0 then acc else decodeBytes ((n - 1) / 257) (UInt8.ofNat ((n - 1) % 257) :: acc)

def extern (i : Nat) : String :=
  if i < nNames then allNames.getD i "?"
  else (String.fromUTF8? (ByteArray.mk (decodeBytes (i - nNames - 1) []).toArray)).getD "?"

instance : Inhabited Val := ⟨.none⟩
instance : Inhabited Obj := ⟨.mk 0 0 []⟩

mutual
partial def parseVal (j : Json) : Val :=
  match j with
  | .null => .none
  | .arr a =>
    match a.toList with
    | [.str "a", .str r, .bool t] => .atom r t
    | [.str "n", n] => .node ((n.getNat?.toOption).getD 0)
    | [.str "l", .arr items] => .list (items.toList.map parseVal)
    | .str "o" :: _ => .obj (parseObj j)
    | _ => .atom ("?" ++ j.compress) true
  | _ => .atom ("?" ++ j.compress) true
partial def parseObj (j : Json) : Obj :=
  match j with
  | .arr a =>
    match a.toList with
    | [.str "o", oid, .str cls, .arr fs] =>
      .mk ((oid.getNat?.toOption).getD 0) (intern cls)
        (fs.toList.map (fun f => match f with
          | .arr p => match p.toList with
            | [.str k, v] => (intern k, parseVal v)
            | _ => (0, .none)
          | _ => (0, .none)))
    | _ => .mk 0 0 []
  | _ => .mk 0 0 []
end

partial def canon : Val → Json
  | .none => .null
  | .atom r _ => Json.arr #["a", r]
  | .node n => Json.arr #["n", n]
  | .obj o => Json.arr #["o", o.oid]
  | .list l => Json.arr #["l", Json.arr (l.map canon).toArray]

def diff (before after : Obj) : List Json :=
  after.fields.filterMap (fun (k, v) =>
    let c := canon v
    match before.get k with
    | some w => if (canon w).compress == c.compress then none else some (Json.arr #[extern k, c])
    | none => some (Json.arr #[extern k, c]))

def parseKw (j : Json) : Kwargs :=
  (getArr j "kw").toList.map (fun f => match f with
    | .arr p => match p.toList with
      | [.str k, v] => (intern k, parseVal v)
      | _ => (0, .none)
    | _ => (0, .none))

def parseT (j : Json) : TypeArg :=
  if getStr j "form" == "class" then .byClass (intern (getStr j "cls")) else .byName (intern (getStr j "cls"))

def errTag : Factory.Err → String
  | .attrError => "err:attr"
  | .ctorValueError => "err:ctor"
  | .badArg k => "err:badArg:" ++ extern k
  | .invalid => "err:invalid"

def addErrTag : Add.Err → String
  | .noMember => "noMember" | .ambiguous => "ambiguous" | .badHint => "badHint"
  | .keyError => "keyError" | .notAList => "notAList" | .invalid => "invalid" | .strFails => "strFails"

def warnJ : Option Warn → Json
  | none => .null | some .occupied => "occupied" | some .duplicate => "duplicate"

def resTag : Except Factory.Err Obj → String
  | .ok _ => "ok"
  | .error e => errTag e

def parseFields (j : Json) (k : String) : List (Nat × Val) :=
  (getArr j k).toList.map (fun f => match f with
    | .arr p => match p.toList with
      | [.str k, v] => (intern k, parseVal v)
      | _ => (0, .none)
    | _ => (0, .none))

/-- measured `int()` / `float()`: (kind, canonical argument, result) -/
def parseCasts (js : List Json) : List (String × String × Option Val) :=
  js.flatMap (fun j => (getArr j "casts").toList.filterMap (fun c => match c with
    | .arr a => match a.toList with
      | [.str k, v, r] => some (k, (canon (parseVal v)).compress, match r with | .null => none | _ => some (parseVal r))
      | _ => none
    | _ => none))

def castWith (tbl : List (String × String × Option Val)) (kind : String) (v : Val) : Option Val :=
  let key := (canon v).compress
  match tbl.find? (fun e => e.1 == kind && e.2.1 == key) with
  | some e => e.2.2
  | none => none

/-- environment from what the harness measured on the real library / on Python -/
def mkEnv (calls : List Json) (valid : Obj → Bool) : Env :=
  let casts := parseCasts calls
  let cellset := calls.flatMap (fun c => (parseFields c "cellset").map (fun p => (getNat c "oid", p)))
  { valid := valid
    pyInt := castWith casts "int"
    pyFloat := castWith casts "float"
    cellCls := Gen.Factory.setupClass
    setupCell := fun o => (cellset.filter (fun e => e.1 == o.oid)).foldl (fun o e => o.set e.2.1 e.2.2) o }

def fieldsJ (o : Obj) : Json :=
  Json.arr (o.fields.map (fun (k, v) => Json.arr #[extern k, canon v])).toArray

def flagJ : Flag → Json
  | .dflt => "dflt" | .lit true => "lit:True" | .lit false => "lit:False" | .param => "param" | .opaque => "opaque"

def calleeJ : Callee → Json
  | .factory => "factory" | .add => "add" | .validate => "validate"

def addTag (r : AddOutcome) : String :=
  match r.result with
  | .ok _ => "ok"
  | .error (.inl e) => errTag e
  | .error (.inr .invalid) => "err:invalid"     -- the same ValueError("Validation failed…"), raised for the parent
  | .error (.inr e) => "err:add:" ++ addErrTag e

/-- the shape of `__add` in the tree under test (read off the source by C10's translator, `Gen/AddImpl.lean`) -/
def shape : PlaceShape := ⟨Gen.AddImpl.dupTest, Gen.AddImpl.warnFmt, Gen.AddImpl.bookKeeping.map intern⟩

def handle (j : Json) : Json :=
  let T := Gen.Members.table
  let C := Gen.Factory.ctorTable
  match getStr j "op" with
  | "factory" =>
    let t := parseT j
    let kw := parseKw j
    let env := mkEnv [j] (fun _ => getBool j "cv")
    let r := if getStr j "ep" == "utils"
      then Gen.Factory.utilsComponentFactory T C env (getBool j "en") (getBool j "flag") t kw (getNat j "oid")
      else Gen.Factory.componentFactory T C env (getBool j "en") (getBool j "flag") t kw (getNat j "oid")
    Json.mkObj [("r", resTag r), ("fields", match construct C env t.resolve kw (getNat j "oid") with
      | some o => fieldsJ (built env t.resolve o)
      | none => .null)]
  | "ctor" =>
    let t := parseT j
    let env := mkEnv [j] (fun _ => true)
    match construct C env t.resolve (parseKw j) (getNat j "oid") with
    | some o => Json.mkObj [("r", "ok"), ("fields", fieldsJ o)]
    | none => Json.mkObj [("r", "err:ctor"), ("fields", .null)]
  | "session" =>
    let calls := (getArr j "cmds").toList.filterMap (fun c => match c with
      | .arr a => if a[0]? == some (Json.str "make") || a[0]? == some (Json.str "addt") then a[1]? else none
      | _ => none)
    let validOids := calls.filterMap (fun c => if getBool c "cv" then some (getNat c "oid") else none)
    let validParents := calls.filterMap (fun c => if getBool c "pv" then some (parseObj (getObj c "parent")).oid else none)
    let env := mkEnv calls (fun o => validOids.contains o.oid || validParents.contains o.oid)
    -- the session of the model, but with the REGENERATED functions (equal by `c09_gen_factory` / `c09_gen_add`)
    let step := fun (acc : Bool × List Json) (c : Json) =>
      match c with
      | .arr a =>
        match (a[0]? : Option Json), (a[1]? : Option Json) with
        | some (Json.str "enable"), _ => (Gen.Factory.enableSwitch acc.1, acc.2)
        | some (Json.str "disable"), _ => (Gen.Factory.disableSwitch acc.1, acc.2)
        | some (Json.str "make"), some c =>
          (acc.1, Json.str (resTag (Gen.Factory.componentFactory T C env acc.1 (getBool c "flag") (parseT c) (parseKw c)
            (getNat c "oid"))) :: acc.2)
        | some (Json.str "addt"), some c =>
          let hint := (getStr? c "hint").bind (fun s => if s.isEmpty then none else some (intern s))
          (acc.1, Json.str (addTag (Gen.Factory.addByType shape T C env (fun _ => getBool c "sok") acc.1 (getBool c "flag")
            (parseObj (getObj c "parent")) (parseT c) (parseKw c) hint (getBool c "force") (getNat c "oid"))) :: acc.2)
        | _, _ => acc
      | _ => acc
    let fin := (getArr j "cmds").foldl step (getBool j "init", [])
    Json.mkObj [("switch", Gen.Factory.getSwitch fin.1), ("res", Json.arr fin.2.reverse.toArray)]
  | "addtype" =>
    let step := fun (acc : Obj × List Json) (c : Json) =>
      let parent := acc.1
      let t := parseT c
      let kw := parseKw c
      let oid := getNat c "oid"
      let env := mkEnv [c] (fun o => if o.oid == oid then getBool c "cv" else getBool c "pv")
      let hint := (getStr? c "hint").bind (fun s => if s.isEmpty then none else some (intern s))
      let r := Gen.Factory.addByType shape T C env (fun _ => getBool c "sok") (getBool c "en") (getBool c "flag") parent t kw hint
                (getBool c "force") oid
      let out := Json.mkObj [("r", addTag r), ("w", warnJ r.warn),
        ("ret", match r.result with | .ok o => Json.num o.oid | .error _ => .null),
        ("ch", Json.arr (diff parent r.parent).toArray)]
      (r.parent, out :: acc.2)
    let fin := (getArr j "calls").foldl step (parseObj (getObj j "parent"), [])
    Json.mkObj [("res", Json.arr fin.2.reverse.toArray)]
  | "sites" =>
    Json.mkObj [("sites", Json.arr (Gen.Factory.helperSites.map (fun s => Json.arr #[extern s.cls, s.method, calleeJ s.callee,
      (match s.typ with | some t => Json.str (extern t) | none => .null), flagJ s.flag,
      Json.arr (s.kwKeys.map (fun k => Json.str (extern k))).toArray, s.passKw])).toArray),
      ("initial", Gen.Factory.initialSwitch),
      ("place", Json.arr #[toString (repr Gen.AddImpl.dupTest), toString (repr Gen.AddImpl.warnFmt)])]
  | _ => Json.mkObj [("error", "unknown op")]

def main : IO Unit := loop handle
