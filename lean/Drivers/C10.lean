import NmlVerif.Model.Add
import NmlVerif.Gen.Members
import NmlVerif.Gen.AddImpl
import NmlVerif.DrvCommon
import Std.Data.HashMap
/-!
Driver for C10 (line protocol, see harness/props/c10.py).

  {"op":"members","cls":"Cell"}
      -> {"members":[[name,dataType,container,optional],…]}            (chain order; the harness sorts)
  {"op":"members_seq","classes":["Cell",…]}
      -> {"res":[{"members":[…],"dicts":[[ownerClass,[keyClass…]],…]},…]}   (the `__all_members_` dicts after each call)
  {"op":"seq","parent":OBJ,"pool":[OBJ…],"calls":[{"c":poolIndex,"hint":str|null,"force":b,"en":b,"val":b,"pv":b,"sok":b},…]}
      -> {"res":[{"r":"ok"|"err:<tag>","w":null|"occupied"|"duplicate","ret":oid|null,"ch":[[attr,CANON],…]},…]}
  {"op":"eq","a":OBJ,"b":OBJ} -> {"strict":bool,"loose":bool}      (`a == b` by the generated `__eq__`; lxml nodes ignored)
  VAL   = null | ["a",repr,truthy] | ["n",id] | ["l",[VAL…]] | OBJ        OBJ = ["o",oid,"Class",[[attr,VAL],…]]
  CANON = null | ["a",repr] | ["n",id] | ["o",oid] | ["l",[CANON…]]        (shallow: objects by identity)
`pv` is the verdict of the real `validate()` on the real parent after the call, `sok` whether the real `str(child)`
returns (`valid`, `strOk` are parameters of the model).
-/
open Lean NmlVerif NmlVerif.Add Drv

def nameMap : Std.HashMap String Nat :=
  (Gen.Members.names.zipIdx).foldl (fun m (s, i) => m.insert s i) {}

def nNames : Nat := Gen.Members.names.length

/-- names outside the table get an injective code above every table id -/
def intern (s : String) : Nat :=
  match nameMap[s]? with
  | some i => i
  | none => nNames + 1 + s.toUTF8.foldl (fun acc b => acc * 257 + b.toNat + 1) 0

partial def decodeBytes (n : Nat) (acc : List UInt8) : List UInt8 :=
  if n == 0 then acc else decodeBytes ((n - 1) / 257) (UInt8.ofNat ((n - 1) % 257) :: acc)

def extern (i : Nat) : String :=
  if i < nNames then Gen.Members.names.getD i "?"
  else (String.fromUTF8? (ByteArray.mk (decodeBytes (i - nNames - 1) []).toArray)).getD "?"

instance : Inhabited Val := ⟨.none⟩
instance : Inhabited Obj := ⟨.mk 0 0 []⟩

mutual
partial def parseVal (j : Json) : Val :=
  match j with
  | .null => .none
  | .arr a =>
    match a.toList with
    | [.str "a", .str r, .bool t] => .atom r t
    | [.str "n", n] => .node ((n.getNat?.toOption).getD 0)
    | [.str "l", .arr items] => .list (items.toList.map parseVal)
    | .str "o" :: _ => .obj (parseObj j)
    | _ => .atom ("?" ++ j.compress) true
  | _ => .atom ("?" ++ j.compress) true
partial def parseObj (j : Json) : Obj :=
  match j with
  | .arr a =>
    match a.toList with
    | [.str "o", oid, .str cls, .arr fs] =>
      .mk ((oid.getNat?.toOption).getD 0) (intern cls)
        (fs.toList.map (fun f => match f with
          | .arr p => match p.toList with
            | [.str k, v] => (intern k, parseVal v)
            | _ => (0, .none)
          | _ => (0, .none)))
    | _ => .mk 0 0 []
  | _ => .mk 0 0 []
end

partial def canon : Val → Json
  | .none => .null
  | .atom r _ => Json.arr #["a", r]
  | .node n => Json.arr #["n", n]
  | .obj o => Json.arr #["o", o.oid]
  | .list l => Json.arr #["l", Json.arr (l.map canon).toArray]

/-- attributes whose (shallow) value differs between two states, in the order of the later state -/
def diff (before after : Obj) : List Json :=
  after.fields.filterMap (fun (k, v) =>
    let c := canon v
    match before.get k with
    | some w => if (canon w).compress == c.compress then none else some (Json.arr #[extern k, c])
    | none => some (Json.arr #[extern k, c]))

def errTag : Err → String
  | .noMember => "noMember" | .ambiguous => "ambiguous" | .badHint => "badHint"
  | .keyError => "keyError" | .notAList => "notAList" | .invalid => "invalid" | .strFails => "strFails"

def warnJ : Option Warn → Json
  | none => .null | some .occupied => "occupied" | some .duplicate => "duplicate"

def memberJ (m : MemberSpec) : Json :=
  Json.arr #[extern m.name, extern m.dataType, m.container, m.optional]

/-- `GeneratedsSuper`, `GeneratedsSuperSuper`, `object`: the tail of every generated class's MRO -/
def rootNames : List Nat := [intern "GeneratedsSuper", intern "GeneratedsSuperSuper", intern "object"]

def handle (j : Json) : Json :=
  match getStr j "op" with
  | "members" =>
    -- the TRANSLATED `_get_members`, no `__all_members_` dict anywhere yet
    match GM.call Gen.AddImpl.getMembers Gen.Members.table rootNames [] (intern (getStr j "cls")) with
    | .returned _ v => Json.mkObj [("members", Json.arr (v.map (fun it => memberJ it.spec)).toArray)]
    | _ => Json.mkObj [("members", Json.arr #[]), ("stuck", true)]
  | "members_seq" =>
    -- a history of `_get_members()` calls: the dicts are carried from call to call
    let step := fun (acc : List (Nat × GM.Dict) × List Json) (c : Json) =>
      match GM.call Gen.AddImpl.getMembers Gen.Members.table rootNames acc.1 (intern (c.getStr?.toOption.getD "")) with
      | .returned σ v =>
        (σ.dicts, Json.mkObj [("members", Json.arr (v.map (fun it => memberJ it.spec)).toArray),
                              ("dicts", Json.arr (σ.dicts.map (fun d => Json.arr #[extern d.1,
                                  Json.arr (d.2.map (fun kv => (extern kv.1 : Json))).toArray])).toArray)] :: acc.2)
      | _ => (acc.1, Json.mkObj [("stuck", true)] :: acc.2)
    let fin := (getArr j "classes").foldl step ([], [])
    Json.mkObj [("res", Json.arr fin.2.reverse.toArray)]
  | "seq" =>
    let pool := (getArr j "pool").map parseObj
    let old := getStr j "algo" == "old"
    let step := fun (acc : Obj × List Json) (c : Json) =>
      let parent := acc.1
      let child := pool.getD (getNat c "c") (.mk 0 0 [])
      let hint := (getStr? c "hint").bind (fun s => if s.isEmpty then none else some (intern s))
      let pv := getBool c "pv"
      let sok := getBool c "sok"
      let members := Gen.Members.table.getMembers parent.cls
      -- the TRANSLATED `add` / `__add` (`algo: old` = the hand model of the loop before the bad-hint repair)
      let r : Option Outcome :=
        if old then some (addCore false (fun _ => pv) (fun _ => sok) members ⟨getBool c "en", getBool c "val"⟩
                            parent child hint (getBool c "force"))
        else IR.outcomeOf (Gen.AddImpl.add
                ⟨members, fun _ => pv, fun _ => sok, .component, getBool c "en", Gen.AddImpl.bookKeeping.map intern⟩
                (IR.start parent child hint (getBool c "force") (getBool c "val")))
      match r with
      | none => (parent, Json.mkObj [("r", "stuck")] :: acc.2)
      | some r =>
        let ch := Json.arr (diff parent r.parent).toArray
        let out := match r.result with
          | .ok o => Json.mkObj [("r", "ok"), ("w", warnJ r.warn), ("ret", o.oid), ("ch", ch)]
          | .error e => Json.mkObj [("r", "err:" ++ errTag e), ("w", warnJ r.warn), ("ret", .null), ("ch", ch)]
        (r.parent, out :: acc.2)
    let fin := (getArr j "calls").foldl step (parseObj (getObj j "parent"), [])
    Json.mkObj [("res", Json.arr fin.2.reverse.toArray)]
  | "eq" =>
    let a := parseObj (getObj j "a")
    let b := parseObj (getObj j "b")
    Json.mkObj [("strict", pyEq true (.obj a) (.obj b)), ("loose", pyEq false (.obj a) (.obj b))]
  | _ => Json.mkObj [("error", "unknown op")]

def main : IO Unit := loop handle
