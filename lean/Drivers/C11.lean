import NmlVerif.Model.Introspect
import NmlVerif.Gen.Bindings
import NmlVerif.Gen.Xsd
import NmlVerif.Gen.Introspect
import NmlVerif.DrvCommon
open Lean NmlVerif.Binding NmlVerif.Introspect Drv

def T := NmlVerif.Gen.Bindings.table
def P := NmlVerif.Gen.Introspect.progs

def fmtOf (s : String) : Fmt := if s == "list" then .list else if s == "dict" then .dict else .string

def idOf (j : Json) (k : String) : IdVal :=
  match j.getObjVal? k with
  | .ok (.str s) => .str s
  | .ok (.num n) => .int n.mantissa
  | _ => .none

def compOf (c : Json) : Comp := { hasId := getBool c "h", id := idOf c "i", tag := getNat c "t" }

def valOf (v : Json) : Nat × MVal :=
  let n := getNat v "n"
  match getStr v "k" with
  | "chars" => (n, .chars (getNat v "c"))
  | "comps" => (n, .comps ((getArr v "l").toList.map compOf))
  | "scalar" => (n, .scalar)
  | _ => (n, .none)

def opOf (j : Json) : Op :=
  match getStr j "k" with
  | "members" => .members (getNat j "cls")
  | "info" => .info (getNat j "cls") (getBool j "sc") (fmtOf (getStr j "fmt"))
  | "pinfo" => .parentinfo (getNat j "cls") (fmtOf (getStr j "fmt"))
  | "check" => .checkArg (getNat j "cls") (natList (getObj j "kws"))
  | _ => .getById (getBool j "doc") (getNat j "cls") ((getArr j "vals").toList.map valOf) (getNat j "wc") (idOf j "id")

def triple (x : Nat × Bool × Nat) : Json := Json.arr #[x.1, x.2.1, x.2.2]

def ansJson : Ans → Json
  | .members none => Json.null
  | .members (some l) => Json.arr (l.map fun s => Json.arr #[s.name, s.dtype, s.container, s.optional]).toArray
  | .info none => Json.null
  | .info (some (.names l)) => Json.mkObj [("names", Json.arr (l.map fun (n : Nat) => Json.num n).toArray)]
  | .info (some (.dict l)) => Json.mkObj [("dict", Json.arr (l.map triple).toArray)]
  | .info (some (.lines l)) => Json.mkObj [("lines", Json.arr (l.map fun x => Json.arr #[x.1, x.2.1, x.2.2]).toArray)]
  | .pinfo none => Json.null
  | .pinfo (some (.parents l)) => Json.mkObj [("parents", Json.arr (l.map fun (n : Nat) => Json.num n).toArray)]
  | .pinfo (some (.dict l)) => Json.mkObj [("dict", Json.arr (l.map fun x => Json.arr #[x.1, Json.arr (x.2.map triple).toArray]).toArray)]
  | .pinfo (some (.lines l)) => Json.mkObj [("lines", Json.arr (l.map fun x => Json.arr #[x.1, Json.arr (x.2.map triple).toArray]).toArray)]
  | .check none => Json.null
  | .check (some b) => Json.bool b
  | .got r wc =>
    Json.mkObj [("r", match r with
                      | .ret none => Json.null
                      | .ret (some c) => Json.num c.tag
                      | .typeError => Json.str "TypeError"
                      | .attrError => Json.str "AttributeError"),
                ("wc", Json.num wc)]

def handle (j : Json) : Json :=
  match getStr j "op" with
  | "info" =>
    Json.arr ((info T (getNat j "cls")).map fun (n, d, r) => Json.arr #[n, d, r]).toArray
  | "parentinfo" =>
    Json.arr ((parentinfo T (getNat j "cls")).map fun (p, s) => Json.arr #[p, s.name, s.dtype, !s.optional]).toArray
  | "ctor" =>
    Json.arr ((ctorKeywords T [] (getNat j "cls")).map fun (n : Nat) => Json.num n).toArray
  | "checkarg" => Json.bool (checkArg T (getNat j "cls") (getNat j "kw"))
  | "hist" =>
    -- a call history on the freshly imported module, run through the TRANSLATED bodies
    let ops := (getArr j "ops").toList.map opOf
    let (as, S) := run T P (initState T) ops
    Json.mkObj [("ans", Json.arr (as.map ansJson).toArray),
                ("tables_unchanged", Json.bool (decide (S.tables = (initState T).tables)))]
  | _ => Json.mkObj [("err", "op")]

def main : IO Unit := loop handle
