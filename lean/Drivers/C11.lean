import NmlVerif.Model.Introspect
import NmlVerif.Gen.Bindings
import NmlVerif.Gen.Xsd
import NmlVerif.DrvCommon
open Lean NmlVerif.Binding NmlVerif.Introspect Drv

def T := NmlVerif.Gen.Bindings.table

def handle (j : Json) : Json :=
  match getStr j "op" with
  | "info" =>
    Json.arr ((info T (getNat j "cls")).map fun (n, d, r) => Json.arr #[n, d, r]).toArray
  | "parentinfo" =>
    Json.arr ((parentinfo T (getNat j "cls")).map fun (p, s) => Json.arr #[p, s.name, s.dtype, !s.optional]).toArray
  | "ctor" =>
    Json.arr ((ctorKeywords T [] (getNat j "cls")).map fun (n : Nat) => Json.num n).toArray
  | "checkarg" => Json.bool (checkArg T (getNat j "cls") (getNat j "kw"))
  | "getbyid" =>
    let lists := (getArr j "lists").toList.map fun l =>
      match l with
      | .arr xs => xs.toList.map fun c => ({ hasId := getBool c "h", id := getStr c "i", tag := getNat c "t" } : Comp)
      | _ => []
    match getById (getBool j "doc") lists (getStr j "id") with
    | some c => Json.num c.tag
    | none => Json.null
  | _ => Json.mkObj [("err", "op")]

def main : IO Unit := loop handle
