import NmlVerif.Model.Geom
import NmlVerif.Model.GeomHand
import NmlVerif.DrvCommon
open Lean NmlVerif.Geom NmlVerif.Gen.Geom Drv

/-! C12 driver: evaluates the *generated* definitions (`Gen/Geom.lean`) at `Float`.
Doubles travel as their 64-bit patterns (JSON integers), so nothing is lost in text conversion.

* `{"op":"seg","p":[x,y,z,diam]|null,"d":[x,y,z,diam]}` -> `{"length":R,"volume":R,"area":R,"dist_pd":R,"dist_dp":R}`
* `{"op":"cell","segs":[[id, p|null, d, [parentId, fract]|null], ...],"q":id,"fuel":n}`
      -> `{"prox":RP,"length":R,"volume":R,"area":R}`

* `"segh"` / `"cellh"`: same inputs and outputs, evaluated with the HAND-WRITTEN model (`Model/GeomHand.lean`)
  instead of the generated definitions (directed search: generated vs hand on a systematic grid).

`R = {"ok":bits} | {"err":[kind,msg]}`, `RP = {"ok":[x,y,z,diam]} | {"err":…}`. -/

def fOfJ (j : Json) : Float := Float.ofBits ((j.getNat?.toOption.getD 0).toUInt64)
def fToJ (f : Float) : Json := Json.num (JsonNumber.fromNat f.toBits.toNat)

def ptOfJ (j : Json) : Option (Pt Float) :=
  match j with
  | .arr #[x, y, z, d] => some ⟨fOfJ x, fOfJ y, fOfJ z, fOfJ d⟩
  | _ => none

def zeroPt : Pt Float := ⟨0, 0, 0, 0⟩

def errJ (e : Err) : Json := Json.mkObj [("err", Json.arr #[Json.str e.kind, Json.str e.msg])]
def resJ : Except Err Float → Json
  | .ok v => Json.mkObj [("ok", fToJ v)]
  | .error e => errJ e
def resPJ : Except Err (Pt Float) → Json
  | .ok p => Json.mkObj [("ok", Json.arr #[fToJ p.x, fToJ p.y, fToJ p.z, fToJ p.diameter])]
  | .error e => errJ e

def parOfJ (j : Json) : Option (Par Float) :=
  match j with
  | .arr #[i, f] => some ⟨i.getNat?.toOption.getD 0, fOfJ f⟩
  | _ => none

def segOfJ (j : Json) : Nat × Seg Float :=
  match j with
  | .arr #[i, p, d, par] => (i.getNat?.toOption.getD 0, ⟨ptOfJ p, (ptOfJ d).getD zeroPt, parOfJ par⟩)
  | _ => (0, ⟨none, zeroPt, none⟩)

def handle (j : Json) : Json :=
  match getStr j "op" with
  | "seg" =>
    let p := ptOfJ (getObj j "p")
    let d := (ptOfJ (getObj j "d")).getD zeroPt
    let s : Seg Float := ⟨p, d, none⟩
    let dd : List (String × Json) := match p with
      | some p => [("dist_pd", resJ (Point3DWithDiam.distance_to p d)), ("dist_dp", resJ (Point3DWithDiam.distance_to d p))]
      | none => []
    Json.mkObj ([("length", resJ (Segment.length s)), ("volume", resJ (Segment.volume s)),
                 ("area", resJ (Segment.surface_area s))] ++ dd)
  | "cell" =>
    let c : Cell Float := (getArr j "segs").toList.map segOfJ
    let q := getNat j "q"
    let fuel := getNat j "fuel"
    Json.mkObj [("prox", resPJ (actualProximal c fuel q)), ("length", resJ (segmentLength c fuel q)),
                ("volume", resJ (segmentVolume c fuel q)), ("area", resJ (segmentSurfaceArea c fuel q))]
  | "segh" =>
    let p := ptOfJ (getObj j "p")
    let d := (ptOfJ (getObj j "d")).getD zeroPt
    let s : Seg Float := ⟨p, d, none⟩
    let dd : List (String × Json) := match p with
      | some p => [("dist_pd", resJ (Hand.distanceTo p d)), ("dist_dp", resJ (Hand.distanceTo d p))]
      | none => []
    Json.mkObj ([("length", resJ (Hand.length s)), ("volume", resJ (Hand.volume s)),
                 ("area", resJ (Hand.surfaceArea s))] ++ dd)
  | "cellh" =>
    let c : Cell Float := (getArr j "segs").toList.map segOfJ
    let q := getNat j "q"
    let fuel := getNat j "fuel"
    Json.mkObj [("prox", resPJ (Hand.actualProximal c fuel q)), ("length", resJ (Hand.segmentLength c fuel q)),
                ("volume", resJ (Hand.segmentVolume c fuel q)), ("area", resJ (Hand.segmentSurfaceArea c fuel q))]
  | "pi" => Json.mkObj [("ok", fToJ (GeomOps.pi : Float))]
  | _ => Json.mkObj [("error", "unknown op")]

def main : IO Unit := loop handle
