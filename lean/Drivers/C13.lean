import NmlVerif.Model.MorphCell
import NmlVerif.DrvCommon
open Lean NmlVerif.Morph Drv

/-! Line protocol for C13. Input: one morphology + queries per line; rationals travel as "num/den" strings.
    Output: the result of every modelled method (`null` = the method raises).
    A line with `"ops"` is a CALL HISTORY on one cell object (`Model/MorphCell.lean`): calls and edits of the segment
    list; the output lists, per operation, the result and the two caches of the object afterwards. -/

def parseRat (s : String) : Rat :=
  match s.splitOn "/" with
  | [a] => ((a.toInt?.getD 0 : Int) : Rat)
  | [a, b] => mkRat (a.toInt?.getD 0) (b.toNat?.getD 1)
  | _ => 0

def ratOf (j : Json) : Rat := match j with | .str s => parseRat s | _ => 0

def parsePt (j : Json) : Option Pt :=
  match j with
  | .arr a => if a.size = 4 then some ⟨ratOf a[0]!, ratOf a[1]!, ratOf a[2]!, ratOf a[3]!⟩ else none
  | _ => none

def parseSeg (j : Json) : Seg :=
  let par : Option (Nat × Rat) :=
    match getObj j "par" with
    | .arr a => if a.size = 2 then some ((a[0]!.getNat?.toOption).getD 0, ratOf a[1]!) else none
    | _ => none
  ⟨getNat j "id", par, parsePt (getObj j "prox"), (parsePt (getObj j "dist")).getD default⟩

def rJ (r : Rat) : Json := Json.str (toString r)
def nJ (n : Nat) : Json := Json.num (n : Int)
def ptJ (p : Pt) : Json := Json.arr #[rJ p.x, rJ p.y, rJ p.z, rJ p.d]
def optJ {α : Type} (f : α → Json) : Option α → Json | none => Json.null | some a => f a
def listJ {α : Type} (f : α → Json) (l : List α) : Json := Json.arr (l.map f).toArray
def pairJ (e : Nat × Rat) : Json := Json.arr #[nJ e.1, rJ e.2]

def edgeJ (e : Edge) : Json := Json.arr #[nJ e.src, nJ e.dst, rJ e.w]
def adjJ (a : Adj) : Json := listJ (fun e => Json.arr #[nJ e.1, listJ nJ e.2]) a
def graphJ (g : Graph) : Json := Json.mkObj [("nodes", listJ nJ g.nodes), ("edges", listJ edgeJ g.edges)]

def valJ : Val → Json
  | .adj a => adjJ a
  | .graph g => graphJ g
  | .num x => rJ x
  | .dists l => listJ pairJ l
  | .idl l => listJ nJ l
  | .nat n => nJ n

def natOr (j : Json) (k : String) (dflt : Nat) : Nat :=
  match getObj j k with
  | .null => dflt
  | v => (v.getNat?.toOption).getD dflt

/-- one operation of a history; a missing `src` is the Python default argument (segment id 0) -/
def parseOp (j : Json) : Option Op :=
  match getStr j "op" with
  | "adj" => some (.call .adjacency)
  | "graph" => some (.call .graph)
  | "dist" => some (.call (.distance (getNat j "dst") (natOr j "src" 0)))
  | "alld" => some (.call (.allDistances (natOr j "src" 0)))
  | "atd" => some (.call (.atDistance (ratOf (getObj j "d")) (natOr j "src" 0)))
  | "branch" => some (.call .branching)
  | "root" => some (.call .root)
  | "tips" => some (.call .tips)
  | "edit" => some (.edit ((getArr j "segs").toList.map parseSeg))
  | _ => none

def histJ (j : Json) : Json :=
  let m : Morph := (getArr j "segs").toList.map parseSeg
  match mapOpt parseOp (getArr j "ops").toList with
  | none => Json.mkObj [("res", "bad-op")]
  | some ops =>
    let out := runOps (fun m i => exactLength m i) (CellS.fresh m) ops
    Json.mkObj [("res", "ok"), ("steps", listJ (fun (r : CellS × Option Val) =>
      Json.mkObj [("r", optJ valJ r.2), ("adj", optJ adjJ r.1.adjacency_list), ("g", optJ graphJ r.1.cell_graph)]) out)]

def handle (j : Json) : Json :=
  if (getObj j "ops") != Json.null then histJ j else
  let m : Morph := (getArr j "segs").toList.map parseSeg
  let fuel := m.length + 1
  if !wfForestB m then Json.mkObj [("res", "not-wf")] else
  let lenTab := m.map (fun s => (s.id, exactLength m s.id))
  if lenTab.any (fun e => e.2.isNone) then Json.mkObj [("res", "not-exact")] else
  let len : Nat → Rat := fun i => ((lenTab.find? (fun e => e.1 == i)).bind (·.2)).getD 0
  let g := getGraph m len
  let gOld := getGraphOld m len
  let srcs := natList (getObj j "srcs")
  let pairs := (getArr j "pairs").toList.map natList
  let atd := (getArr j "atd").toList
  let groups := (getArr j "groups").toList.map natList
  let loc := natList (getObj j "loc")
  Json.mkObj [
    ("res", "ok"),
    ("aprox", listJ (fun s => Json.arr #[nJ s.id, optJ ptJ (actualProximal m fuel s.id)]) m),
    ("len", listJ (fun s => Json.arr #[nJ s.id, rJ (len s.id)]) m),
    ("adj", listJ (fun e => Json.arr #[nJ e.1, listJ nJ e.2]) (adjacencyList m)),
    ("nodes", listJ nJ g.nodes),
    ("edges", listJ (fun e => Json.arr #[nJ e.src, nJ e.dst, rJ e.w]) g.edges),
    ("root", optJ nJ (morphologyRootG m g)),
    ("branch", listJ nJ (branchingPointsG g)),
    ("tips", optJ (listJ pairJ) (extremitiesG m g fuel)),
    ("old_root", optJ nJ (morphologyRootG m gOld)),
    ("old_tips", optJ (listJ pairJ) (extremitiesOldG gOld fuel)),
    ("alld", listJ (fun s => Json.arr #[nJ s, optJ (listJ pairJ) (allDistancesG g fuel s)]) srcs),
    ("dist", listJ (fun p => match p with
        | [s, d] => Json.arr #[nJ s, nJ d, optJ rJ (distanceG g fuel s d)]
        | _ => Json.null) pairs),
    ("atd", listJ (fun q =>
        let d := ratOf (q.getArrVal? 0 |>.toOption |>.getD Json.null)
        let s := ((q.getArrVal? 1).toOption.bind (·.getNat?.toOption)).getD 0
        Json.arr #[rJ d, nJ s, optJ (listJ pairJ) (segmentsAtDistanceG g len fuel d s)]) atd),
    ("loc", listJ (fun i => Json.arr #[nJ i, optJ (fun (r : LocInfo) => Json.arr #[rJ r.length, rJ r.fromRoot, rJ r.fromBranch])
        (segmentLocationInfoG m len g fuel i)]) loc),
    ("ordered", listJ (fun grp => optJ (fun (r : List Nat × OrdState) =>
        Json.mkObj [("ord", listJ nJ r.1), ("cum", listJ rJ r.2.cum), ("prox", listJ pairJ r.2.prox),
                    ("dist", listJ pairJ r.2.dist)]) (orderedSegments m len fuel grp)) groups)
  ]

def main : IO Unit := loop handle
