import NmlVerif.Model.Groups
import NmlVerif.DrvCommon
open Lean NmlVerif.Groups Drv

def parseGroup (j : Json) : Group :=
  ⟨getNat j "id", natList (getObj j "members"), natList (getObj j "includes")⟩

def parseKey (j : Json) : Nat → Nat :=
  let tbl : List (Nat × Nat) := (getArr j "keys").toList.filterMap (fun p =>
    match natList p with | [a, b] => some (a, b) | _ => none)
  fun i => match tbl.find? (fun p => p.1 == i) with | some p => p.2 | none => 0

def errJ : Err → Json
  | .unknownGroup => "unknownGroup"
  | .notFound => "notFound"
  | .outOfFuel => "outOfFuel"
  | .attributeError => "attributeError"

def natsJ (l : List Nat) : Json := Json.arr (l.map (fun (n : Nat) => (n : Json))).toArray

def resJ : Except Err (List Nat) → Json
  | .ok l => natsJ l
  | .error e => errJ e

def groupJ (G : Group) : Json :=
  Json.mkObj [("id", (G.id : Json)), ("members", natsJ G.members), ("includes", natsJ G.includes)]

def cellJ : Except Err Cell → Json
  | .ok c => Json.arr (c.groups.map groupJ).toArray
  | .error e => errJ e

/-- resolved list of every group id that occurs (as a group or as an include), plus `"all"` -/
def resolvedAll (c : Cell) (fuel : Nat) (ids : List Nat) : Json :=
  Json.arr (ids.map (fun (g : Nat) => Json.arr #[(g : Json), resJ (resolve c fuel g)])).toArray

/-- the same ids asked with `assume_all_means_all=False` -/
def resolvedNoAll (c : Cell) (fuel : Nat) (ids : List Nat) : Json :=
  Json.arr (ids.map (fun (g : Nat) => Json.arr #[(g : Json), resJ (resolveArg c fuel (.str g) false)])).toArray

/-- every `SegmentGroup` object of the cell (also one hidden behind an earlier group with the same id) and one
    object that does not belong to the cell, passed instead of an id -/
def resolvedObjs (c : Cell) (fuel : Nat) (extra : List Group) : Json :=
  Json.arr ((c.groups ++ extra).map (fun G => resJ (resolveArg c fuel (.obj G) true))).toArray

def handleFull (j : Json) : Json :=
  let c : Cell := ⟨natList (getObj j "segs"), (getArr j "groups").toList.map parseGroup⟩
  let key := parseKey j
  let fuel := getNat j "fuel"
  let ids := natList (getObj j "ask")
  let op : Cell → Except Err Cell :=
    if getStr j "op" == "group" then fun c => optimiseGroup key c fuel (getNat j "g")
    else fun c => optimiseAll key c fuel
  let once := op c
  let after := match once with | .ok c' => resolvedAll c' fuel ids | .error _ => Json.null
  let twice := match once with | .ok c' => cellJ (op c') | .error _ => Json.null
  let extra := (getArr j "foreign").toList.map parseGroup
  Json.mkObj [("before", resolvedAll c fuel ids), ("once", cellJ once), ("after", after), ("twice", twice),
    ("noall", resolvedNoAll c fuel ids), ("objs", resolvedObjs c fuel extra)]

/-- `op = "none"`: only the resolutions asked for (the deep-chain stream: thousands of groups) -/
def handle (j : Json) : Json :=
  if getStr j "op" == "none" then
    let c : Cell := ⟨natList (getObj j "segs"), (getArr j "groups").toList.map parseGroup⟩
    Json.mkObj [("before", resolvedAll c (getNat j "fuel") (natList (getObj j "ask")))]
  else handleFull j

def main : IO Unit := loop handle
