import NmlVerif.Model.Builder
import NmlVerif.DrvCommon
open Lean NmlVerif.Builder Drv

def optStr (j : Json) (k : String) : Option String := getStr? j k
def optNat (j : Json) (k : String) : Option Nat :=
  match j.getObjVal? k with
  | .ok v => v.getNat?.toOption
  | _ => none

def parseKind (s : String) : PKind :=
  if s == "SpikeThresh" then .spikeThresh
  else if s == "InitMembPotential" then .initMembPotential
  else if s == "SpecificCapacitance" then .specificCapacitance
  else .resistivity

def parseProp (j : Json) : BioProp := ⟨parseKind (getStr j "kind"), getStr j "value", getStr j "group"⟩

def parseOp (j : Json) : Op :=
  let op := getStr j "op"
  if op == "addSegment" then
    .addSegment { hasProx := getBool j "prox", segId := optNat j "seg_id", name := optStr j "name",
                  parent := optNat j "parent", frac4 := getInt j "frac4", groupId := optStr j "group_id",
                  useConv := getBool j "use_convention", segType := optStr j "seg_type",
                  reorder := getBool j "reorder", optimise := getBool j "optimise" }
  else if op == "addUnbranched" then
    .addUnbranched { npoints := getNat j "npoints", parent := optNat j "parent", frac4 := getInt j "frac4",
                     groupId := optStr j "group_id", useConv := getBool j "use_convention",
                     segType := optStr j "seg_type", reorder := getBool j "reorder", optimise := getBool j "optimise" }
  else if op == "addSegmentGroup" then .addSegmentGroup (optStr j "group_id")
  else if op == "addUnbranchedSegmentGroup" then .addUnbranchedSegmentGroup (optStr j "group_id")
  else if op == "setupDefault" then .setupDefault (getBool j "use_convention") (strList (getObj j "names"))
  else if op == "setupNmlCell" then
    .setupNmlCell (getBool j "use_convention") (getBool j "overwrite") (strList (getObj j "names"))
  else if op == "reorder" then .reorder
  else if op == "optimise" then .optimise
  else if op == "addMembrane" then .addMembrane (parseProp j)
  else .addIntra (parseProp j)

def errS : Err → String
  | .valueError => "ValueError"
  | .exception => "Exception"
  | .indexError => "IndexError"
  | .recursionError => "RecursionError"

def kindS : PKind → String
  | .spikeThresh => "SpikeThresh"
  | .initMembPotential => "InitMembPotential"
  | .specificCapacitance => "SpecificCapacitance"
  | .resistivity => "Resistivity"

def optJ {α} (f : α → Json) : Option α → Json
  | some a => f a
  | none => Json.null

def natJ (n : Nat) : Json := Json.num (JsonNumber.fromNat n)
def intJ (n : Int) : Json := Json.num (JsonNumber.fromInt n)

def segJ (x : Seg) : Json :=
  Json.arr #[natJ x.id, optJ natJ x.parent, if x.parent.isSome then intJ x.frac4 else Json.null, Json.bool x.hasProx, Json.str x.name]

def groupJ (s : State) (G : Group) : Json :=
  let r := match resolve s G.id with
    | .ok l => Json.arr ((natSort l).map natJ).toArray
    | .error e => Json.str ("err:" ++ errS e)
  Json.arr #[Json.str G.id, optJ Json.str G.nlx, r]

def propJ (p : BioProp) : Json := Json.arr #[Json.str (kindS p.kind), Json.str p.value, Json.str p.group]

def dumpJ (s : State) : Json :=
  Json.mkObj [("segs", Json.arr (s.segs.map segJ).toArray), ("groups", Json.arr (s.groups.map (groupJ s)).toArray),
              ("memb", Json.arr (s.memb.map propJ).toArray), ("intra", Json.arr (s.intra.map propJ).toArray)]

def handle (j : Json) : Json :=
  let cfg : Cfg := ⟨getBool j "optFixed"⟩
  let pick := if getBool j "old" then pickIdOld else pickId
  let ops := (getArr j "ops").toList.map parseOp
  let rec go (s : State) (ops : List Op) (acc : Array Json) : Array Json × Option State :=
    match ops with
    | [] => (acc, some s)
    | op :: rest =>
      match stepWith pick (optimiseAll cfg) s op with
      | .ok s' => go s' rest (acc.push (Json.mkObj [("ok", dumpJ s')]))
      | .error e => (acc.push (Json.mkObj [("err", Json.str (errS e))]), none)
  let (steps, fin) := go init ops #[]
  match fin with
  | none => Json.mkObj [("steps", Json.arr steps)]
  | some s =>
    match finish cfg s with
    | .ok s' => Json.mkObj [("steps", Json.arr steps), ("finish", Json.mkObj [("ok", dumpJ s')]), ("shapeOK", Json.bool (shapeOK s'))]
    | .error e => Json.mkObj [("steps", Json.arr steps), ("finish", Json.mkObj [("err", Json.str (errS e))]), ("shapeOK", Json.bool (shapeOK s))]

def main : IO Unit := loop handle
