import NmlVerif.Model.BuilderObj
import NmlVerif.Gen.Bindings
import NmlVerif.DrvCommon
open Lean NmlVerif.Builder Drv

def optStr (j : Json) (k : String) : Option String := getStr? j k
def optNat (j : Json) (k : String) : Option Nat :=
  match j.getObjVal? k with
  | .ok v => v.getNat?.toOption
  | _ => none

def parseKind (s : String) : PKind :=
  if s == "SpikeThresh" then .spikeThresh
  else if s == "InitMembPotential" then .initMembPotential
  else if s == "SpecificCapacitance" then .specificCapacitance
  else .resistivity

def parseProp (j : Json) : BioProp := ⟨parseKind (getStr j "kind"), getStr j "value", getStr j "group"⟩

def parsePt (s : String) : Pt :=
  if s == "absent" then .absent else if s == "short" then .short else if s == "badDiam" then .badDiam else .ok

/-- `idFx`: the tree has the proposed repair `fixes/C15-segment-id-as-stored.patch` (the id is normalised with
    `int(seg_id)` before the check, so a lexical variant is an ordinary call and the name uses the stored id) -/
def parseOp (idFx : Bool) (j : Json) : Op :=
  let op := getStr j "op"
  if op == "addSegment" then
    let a : AddSeg :=
      { prox := parsePt (getStr j "prox"), dist := parsePt (getStr j "dist"), segId := getInt? j "seg_id",
        idText := if idFx then none else optStr j "id_text", name := optStr j "name",
        parent := getInt? j "parent", frac4 := getInt j "frac4", groupId := optStr j "group_id",
        useConv := getBool j "use_convention", segType := optStr j "seg_type",
        reorder := getBool j "reorder", optimise := getBool j "optimise" }
    if getBool j "lex" && !idFx then .addSegmentLex a else .addSegment a
  else if op == "addUnbranched" then
    .addUnbranched { npoints := getNat j "npoints", parent := getInt? j "parent", frac4 := getInt j "frac4",
                     groupId := optStr j "group_id", useConv := getBool j "use_convention",
                     segType := optStr j "seg_type", reorder := getBool j "reorder", optimise := getBool j "optimise" }
  else if op == "addSegmentGroup" then .addSegmentGroup (optStr j "group_id")
  else if op == "addUnbranchedSegmentGroup" then .addUnbranchedSegmentGroup (optStr j "group_id")
  else if op == "setupDefault" then .setupDefault (getBool j "use_convention") (strList (getObj j "names"))
  else if op == "setupNmlCell" then
    .setupNmlCell (getBool j "use_convention") (getBool j "overwrite") (strList (getObj j "names"))
  else if op == "reorder" then .reorder
  else if op == "optimise" then .optimise
  else if op == "addMembrane" then .addMembrane (parseProp j)
  else if op == "addChannelDensity" then
    .addChannelDensity ⟨getStr j "id", getStr j "ion_channel", getStr j "cond_density", getStr j "erev", getStr j "group",
                        getStr j "ion"⟩ (getStr j "def_file")
  else .addIntra (parseProp j)

def errS : Err → String
  | .valueError => "ValueError"
  | .exception => "Exception"
  | .indexError => "IndexError"
  | .recursionError => "RecursionError"
  | .unboundLocalError => "UnboundLocalError"

def kindS : PKind → String
  | .spikeThresh => "SpikeThresh"
  | .initMembPotential => "InitMembPotential"
  | .specificCapacitance => "SpecificCapacitance"
  | .resistivity => "Resistivity"

def optJ {α} (f : α → Json) : Option α → Json
  | some a => f a
  | none => Json.null

def natJ (n : Nat) : Json := Json.num (JsonNumber.fromNat n)
def intJ (n : Int) : Json := Json.num (JsonNumber.fromInt n)

def segJ (x : Seg) : Json :=
  Json.arr #[intJ x.id, optJ intJ x.parent, if x.parent.isSome then intJ x.frac4 else Json.null, Json.bool x.hasProx, Json.str x.name]

def groupJ (s : State) (G : Group) : Json :=
  let r := match resolve s G.id with
    | .ok l => Json.arr ((natSort l).map intJ).toArray
    | .error e => Json.str ("err:" ++ errS e)
  Json.arr #[if G.idNone then Json.null else Json.str G.id, optJ Json.str G.nlx, r]

def propJ (p : BioProp) : Json := Json.arr #[Json.str (kindS p.kind), Json.str p.value, Json.str p.group]

def chanJ (c : ChanDens) : Json :=
  Json.arr #[Json.str c.id, Json.str c.ionChannel, Json.str c.condDensity, Json.str c.erev, Json.str c.group, Json.str c.ion]

def dumpJ (s : State) : Json :=
  Json.mkObj [("segs", Json.arr (s.segs.map segJ).toArray), ("groups", Json.arr (s.groups.map (groupJ s)).toArray),
              ("memb", Json.arr (s.memb.map propJ).toArray), ("intra", Json.arr (s.intra.map propJ).toArray),
              ("chans", Json.arr (s.chans.map chanJ).toArray), ("docIncs", Json.arr (s.docIncs.map Json.str).toArray)]

/-- the harness draws every point with a positive diameter -/
def geom0 : Geom := fun _ _ => ("0.0", "0.0", "0.0", "1.0")

/-- the generated `validate_NonNegativeInteger` has no check at all (a facet-less restriction of a builtin type):
    what the REAL `validate` does; the schema itself is `stC` -/
def stValidate (v : Nat) (x : String) : Bool := if v = NmlVerif.Gen.Names.nm_NonNegativeInteger then true else stC v x

def sameSet (a b : List Int) : Bool := a.all (fun x => b.contains x) && b.all (fun x => a.contains x)

/-- which of the group clauses of the property FAIL on the model's final cell (the model is the code as it is: a
    failure it predicts on this very history is the known behaviour, a failure it does not predict is a regression) -/
def clauseFails (s : State) : List String :=
  let allBad :=
    match look s.groups "all" with
    | none => !s.segs.isEmpty
    | some _ => (match resolve s "all" with | .ok l => !(sameSet l s.ids) | .error _ => true)
  let typeBad := [SegType.soma, SegType.axon, SegType.dendrite].any fun t =>
    match look s.groups t.group with
    | none => false
    | some _ =>
      let want := (s.segs.filter (fun x => x.stype == some t)).map (·.id)
      (match resolve s t.group with | .ok l => !(sameSet l want) | .error _ => true)
  let rec orderBad (seen : List String) : List Group → Bool
    | [] => false
    | G :: gs => G.includes.any (fun u => !(seen.contains u)) || orderBad (seen ++ [G.id]) gs
  (if allBad then ["C15:all-mismatch:"] else []) ++ (if typeBad then ["C15:default-group-mismatch:"] else [])
    ++ (if orderBad [] s.groups then ["C15:include-before-definition:"] else [])

def verdictJ (s : State) : List (String × Json) :=
  let o := cellObj "c15" geom0 s
  [("shapeOK", Json.bool (shapeOK s)), ("idsNonNeg", Json.bool (idsNonNeg s)),
   ("validate", Json.bool (NmlVerif.Schema.validateAll NmlVerif.Gen.Bindings.table stValidate 4 o)),
   ("xsd", Json.bool (NmlVerif.Schema.validateAll NmlVerif.Gen.Bindings.table stC 4 o))]

def handle (j : Json) : Json :=
  let cfg : Cfg := ⟨getBool j "optFixed"⟩
  let idFx := getBool j "idFixed"
  let pick := if getBool j "old" then pickIdOld else pickCfg idFx (getBool j "namesFixed")
  let caught := getBool j "caught"      -- the caller catches every exception and goes on
  let ops := (getArr j "ops").toList.map (parseOp idFx)
  let rec go (s : State) (ops : List Op) (acc : Array Json) : Array Json × Option State :=
    match ops with
    | [] => (acc, some s)
    | op :: rest =>
      match stepWith pick (optimiseAll cfg) s op with
      | .ok s' => go s' rest (acc.push (Json.mkObj [("ok", dumpJ s')]))
      | .error e =>
        if caught then
          let sL := leaveWith pick (optimiseAll cfg) (optimiseAllLeave cfg) s op
          go sL rest (acc.push (Json.mkObj [("err", Json.str (errS e)), ("left", dumpJ sL)]))
        else (acc.push (Json.mkObj [("err", Json.str (errS e))]), none)
  let (steps, fin) := go init ops #[]
  match fin with
  | none => Json.mkObj [("steps", Json.arr steps)]
  | some s =>
    match finish cfg s with
    | .ok s' => Json.mkObj ([("steps", Json.arr steps), ("finish", Json.mkObj [("ok", dumpJ s')]),
                             ("clauseFails", Json.arr ((clauseFails s').map Json.str).toArray)] ++ verdictJ s')
    | .error e =>
      let sL := optimiseAllLeave cfg (reorder s)
      Json.mkObj ([("steps", Json.arr steps), ("finish", Json.mkObj [("err", Json.str (errS e)), ("left", dumpJ sL)]),
                   ("clauseFails", Json.arr #[Json.str "C15:finish-raises:"])] ++ verdictJ sL)

def main : IO Unit := loop handle
