import NmlVerif.Model.Section
import NmlVerif.DrvCommon
open Lean NmlVerif.Section Drv

/-! line protocol for C16: one cell object + a history of operations per line -> the model's state after every
    operation (segments, groups, cached adjacency list).  rationals travel as `[num, den]`. -/

def ratOf (j : Json) : Rat :=
  match j with
  | .arr #[a, b] => mkRat ((a.getInt?.toOption).getD 0) ((b.getNat?.toOption).getD 1)
  | _ => 0

def ptOf (j : Json) : Option Pt :=
  match j with
  | .arr #[a, b, c, d] => some ⟨ratOf a, ratOf b, ratOf c, ratOf d⟩
  | _ => none

def segOf (j : Json) : Seg :=
  let par : Option (Nat × Rat) := match getObj j "parent" with
    | .arr #[p, f] => some ((p.getNat?.toOption).getD 0, ratOf f)
    | _ => none
  ⟨getNat j "id", par, ptOf (getObj j "prox"), (ptOf (getObj j "dist")).getD ⟨0, 0, 0, 0⟩⟩

def groupOf (j : Json) : Group :=
  ⟨getStr j "id", getStr? j "nlx", natList (getObj j "members"), strList (getObj j "includes")⟩

def adjOf (j : Json) : Adj :=
  match j with
  | .arr a => a.toList.filterMap (fun e => match e with
      | .arr #[p, cs] => some ((p.getNat?.toOption).getD 0, natList cs)
      | _ => none)
  | _ => []

def ratJ (r : Rat) : Json := Json.arr #[Json.num (JsonNumber.fromInt r.num), Json.num (JsonNumber.fromNat r.den)]
def ptJ (p : Pt) : Json := Json.arr #[ratJ p.x, ratJ p.y, ratJ p.z, ratJ p.d]
def optJ {α : Type} (f : α → Json) : Option α → Json | none => Json.null | some a => f a
def natsJ (l : List Nat) : Json := Json.arr (l.map (fun n => Json.num (JsonNumber.fromNat n))).toArray

def segJ (s : Seg) : Json :=
  Json.mkObj [("id", Json.num (JsonNumber.fromNat s.id)),
    ("parent", optJ (fun (p : Nat × Rat) => Json.arr #[Json.num (JsonNumber.fromNat p.1), ratJ p.2]) s.parent),
    ("prox", optJ ptJ s.prox), ("dist", ptJ s.dist)]

/-- `opaque`: what `optimise_segment_group` did to a group with includes is not modelled (C14) -/
def groupJ (isOpaque : Bool) (g : Group) : Json :=
  Json.mkObj [("id", Json.str g.id), ("nlx", optJ Json.str g.nlx), ("members", natsJ g.members),
    ("includes", Json.arr (g.includes.map Json.str).toArray),
    ("opaque", Json.bool isOpaque)]

def errJ : Err → String
  | .recursion => "RecursionError"
  | .noSegment => "ValueError"
  | .noParent => "AttributeError"
  | .noGroup => "ValueError"
  | .fuel => "Diverges"

def adjJ (a : Adj) : Json :=
  Json.arr (a.map (fun (e : Nat × List Nat) => Json.arr #[Json.num (JsonNumber.fromNat e.1), natsJ e.2])).toArray

def opOf (j : Json) : Option Op :=
  match getStr j "op" with
  | "sect" => some (.sect (getNat j "root") (getBool j "reorder") (getBool j "optimise"))
  | "refresh" => some .refresh
  | "ensure" => some .ensure
  | "append" => some (.append (segOf (getObj j "seg")))
  | "addGroup" => some (.addGroup (groupOf (getObj j "group")))
  | _ => none

/-- the state of the cell object after a step.  `opaque` group ids: once `optimise_segment_groups` has run over a
    group with includes, what it did to that group's members is not modelled (C14) -/
def stateJ (c : CellS) (opaqueIds : List String) : List (String × Json) :=
  [("segs", Json.arr (c.segs.map segJ).toArray),
   ("groups", Json.arr (c.groups.map (fun g => groupJ (opaqueIds.contains g.id) g)).toArray),
   ("cache", optJ adjJ c.cache)]

/-- a history on one cell object: one outcome per operation, stopping at the first exception -/
def runHist (lim fuel : Nat) : CellS → List String → List Op → List Json
  | _, _, [] => []
  | c, opq, op :: ops =>
    let hyp : Json := match op with
      | .sect root _ _ => Json.bool (hypB c.st c.cache root lim fuel)
      | _ => Json.null
    let tree : Option Tree := match op with
      | .sect root _ _ => buildTree (c.cache.getD (adjacency c.segs)) (c.segs.length + 1) root
      | _ => none
    match step (fun _ g => g) lim fuel c op with
    | .error e => [Json.mkObj [("res", Json.str (errJ e)), ("hyp", hyp)]]
    | .ok c' =>
      let opq' := match op with
        | .sect _ _ true => opq ++ (c'.groups.filter (fun g => !g.includes.isEmpty)).map (·.id)
        | _ => opq
      Json.mkObj ([("res", Json.str "ok"), ("hyp", hyp),
        ("nest", match tree with | some t => Json.num (JsonNumber.fromNat (nest t)) | none => Json.null)] ++
        stateJ c' opq') :: runHist lim fuel c' opq' ops

def handle (j : Json) : Json :=
  let segs := (getArr j "segs").toList.map segOf
  let groups := (getArr j "groups").toList.map groupOf
  let cache : Option Adj := match getObj j "cache" with
    | .null => none
    | c => match c.getObjVal? "prefix" with
      | .ok m => some (adjacency (segs.take ((m.getNat?.toOption).getD 0)))
      | _ => some (adjOf (getObj c "adj"))
  let lim := getNat j "lim"
  let ops := (getArr j "ops").toList.filterMap opOf
  let appends := (ops.filter (fun o => match o with | .append _ => true | _ => false)).length
  let fuel := 2 * (segs.length + appends) + 4
  Json.mkObj [("steps", Json.arr (runHist lim fuel ⟨segs, groups, cache⟩ [] ops).toArray),
    ("nops", Json.num (JsonNumber.fromNat ops.length))]

def main : IO Unit := loop handle
