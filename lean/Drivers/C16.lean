import NmlVerif.Model.Section
import NmlVerif.DrvCommon
open Lean NmlVerif.Section Drv

/-! line protocol for C16: one cell + call description per line -> the model's outcome.
    rationals travel as `[num, den]`. -/

def ratOf (j : Json) : Rat :=
  match j with
  | .arr #[a, b] => mkRat ((a.getInt?.toOption).getD 0) ((b.getNat?.toOption).getD 1)
  | _ => 0

def ptOf (j : Json) : Option Pt :=
  match j with
  | .arr #[a, b, c, d] => some ⟨ratOf a, ratOf b, ratOf c, ratOf d⟩
  | _ => none

def segOf (j : Json) : Seg :=
  let par : Option (Nat × Rat) := match getObj j "parent" with
    | .arr #[p, f] => some ((p.getNat?.toOption).getD 0, ratOf f)
    | _ => none
  ⟨getNat j "id", par, ptOf (getObj j "prox"), (ptOf (getObj j "dist")).getD ⟨0, 0, 0, 0⟩⟩

def groupOf (j : Json) : Group :=
  ⟨getStr j "id", getStr? j "nlx", natList (getObj j "members"), strList (getObj j "includes")⟩

def adjOf (j : Json) : Adj :=
  match j with
  | .arr a => a.toList.filterMap (fun e => match e with
      | .arr #[p, cs] => some ((p.getNat?.toOption).getD 0, natList cs)
      | _ => none)
  | _ => []

def ratJ (r : Rat) : Json := Json.arr #[Json.num (JsonNumber.fromInt r.num), Json.num (JsonNumber.fromNat r.den)]
def ptJ (p : Pt) : Json := Json.arr #[ratJ p.x, ratJ p.y, ratJ p.z, ratJ p.d]
def optJ {α : Type} (f : α → Json) : Option α → Json | none => Json.null | some a => f a
def natsJ (l : List Nat) : Json := Json.arr (l.map (fun n => Json.num (JsonNumber.fromNat n))).toArray

def segJ (s : Seg) : Json :=
  Json.mkObj [("id", Json.num (JsonNumber.fromNat s.id)),
    ("parent", optJ (fun (p : Nat × Rat) => Json.arr #[Json.num (JsonNumber.fromNat p.1), ratJ p.2]) s.parent),
    ("prox", optJ ptJ s.prox), ("dist", ptJ s.dist)]

/-- `opaque`: with `optimise` on, what happens to a group with includes is not modelled (C14) -/
def groupJ (optimise : Bool) (g : Group) : Json :=
  Json.mkObj [("id", Json.str g.id), ("nlx", optJ Json.str g.nlx), ("members", natsJ g.members),
    ("includes", Json.arr (g.includes.map Json.str).toArray),
    ("opaque", Json.bool (optimise && !g.includes.isEmpty))]

def errJ : Err → String
  | .recursion => "RecursionError"
  | .noSegment => "ValueError"
  | .noParent => "AttributeError"
  | .noGroup => "ValueError"
  | .fuel => "Diverges"

def handle (j : Json) : Json :=
  let segs := (getArr j "segs").toList.map segOf
  let groups := (getArr j "groups").toList.map groupOf
  let cell : St := ⟨segs, groups⟩
  let cache : Option Adj := match getObj j "cache" with
    | .null => none
    | c => match c.getObjVal? "prefix" with
      | .ok m => some (adjacency (segs.take ((m.getNat?.toOption).getD 0)))
      | _ => some (adjOf (getObj c "adj"))
  let root := getNat j "root"
  let reorder := getBool j "reorder"
  let optimise := getBool j "optimise"
  let lim := getNat j "lim"
  let fuel := 2 * segs.length + 4
  let adj := match cache with | some a => a | none => adjacency segs
  let hyp := hypB cell cache root lim fuel
  match run (fun _ g => g) cell cache root reorder optimise lim fuel with
  | .error e => Json.mkObj [("res", Json.str (errJ e)), ("hyp", Json.bool hyp)]
  | .ok st =>
    let t := buildTree adj (segs.length + 1) root
    Json.mkObj [("res", "ok"), ("segs", Json.arr (st.segs.map segJ).toArray),
      ("groups", Json.arr (st.groups.map (groupJ optimise)).toArray),
      ("hyp", Json.bool hyp),
      ("nest", match t with | some t => Json.num (JsonNumber.fromNat (nest t)) | none => Json.null)]

def main : IO Unit := loop handle
