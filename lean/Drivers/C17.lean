import NmlVerif.Model.FixExternal
import NmlVerif.Model.FixExternalH
import NmlVerif.Gen.FixExternal
import NmlVerif.DrvCommon
open Lean NmlVerif.FixExternal Drv

/-! line protocol for C17: one call of `fix_external_morphs_biophys_in_cell` per line.
    in : {"doc": Doc, "overwrite": bool, "files": [[href, {"morphs":[Elem], "bios":[Elem]}], …], "n": counter}
    out: {"res": "ok" | "KeyError" | "SystemExit", "arg": str, "input": Doc, "ret": Doc | null, "next", "writes"} -/

def optNat (j : Json) (k : String) : Option Nat :=
  match j.getObjVal? k with
  | .ok v => v.getNat?.toOption
  | _ => none

partial def parseObj (j : Json) : Obj :=
  .mk (getNat j "o") (optNat j "p") (getStr j "s") ((getArr j "k").toList.map parseObj)

def parseElem (j : Json) : Elem := ⟨getStr j "id", parseObj (getObj j "obj")⟩

def parseElem? (j : Json) (k : String) : Option Elem :=
  match j.getObjVal? k with
  | .ok (.obj o) => some (parseElem (.obj o))
  | _ => none

def parseSlot (j : Json) : Slot := ⟨getStr? j "attr", parseElem? j "elem"⟩
def parseCell (j : Json) : Cell :=
  ⟨getNat j "o", optNat j "p", getStr j "s", parseSlot (getObj j "m"), parseSlot (getObj j "b")⟩
def parseInc (j : Json) : Inc := ⟨getNat j "o", optNat j "p", getStr j "href"⟩
def parseDoc (j : Json) : Doc :=
  ⟨getNat j "o", getStr j "s", (getArr j "includes").toList.map parseInc,
    (getArr j "morphs").toList.map parseElem, (getArr j "bios").toList.map parseElem,
    (getArr j "cells").toList.map parseCell, (getArr j "cells2").toList.map parseCell,
    (getArr j "other").toList.map parseObj⟩

def parseFile (j : Json) : Option (String × FileDoc) :=
  match j with
  | .arr #[.str h, fd] => some (h, ⟨(getArr fd "morphs").toList.map parseElem, (getArr fd "bios").toList.map parseElem⟩)
  | _ => none

def mkFiles (l : List (String × FileDoc)) : Files := fun h => (l.find? (fun x => x.1 == h)).map (·.2)

def optNatJ : Option Nat → Json
  | some n => Json.num n
  | none => Json.null
def optStrJ : Option String → Json
  | some s => Json.str s
  | none => Json.null

partial def objJ : Obj → Json
  | .mk i p s ks => Json.mkObj [("o", Json.num i), ("p", optNatJ p), ("s", s), ("k", Json.arr (ks.map objJ).toArray)]
def elemJ (e : Elem) : Json := Json.mkObj [("id", e.nmlId), ("obj", objJ e.obj)]
def slotJ (s : Slot) : Json :=
  Json.mkObj [("attr", optStrJ s.attr), ("elem", match s.elem with | some e => elemJ e | none => Json.null)]
def cellJ (c : Cell) : Json :=
  Json.mkObj [("o", Json.num c.oid), ("p", optNatJ c.parent), ("s", c.payload), ("m", slotJ c.m), ("b", slotJ c.b)]
def incJ (i : Inc) : Json := Json.mkObj [("o", Json.num i.oid), ("p", optNatJ i.parent), ("href", i.href)]
def docJ (d : Doc) : Json :=
  Json.mkObj [("o", Json.num d.oid), ("s", d.payload), ("includes", Json.arr (d.includes.map incJ).toArray),
    ("morphs", Json.arr (d.morphs.map elemJ).toArray), ("bios", Json.arr (d.bios.map elemJ).toArray),
    ("cells", Json.arr (d.cells.map cellJ).toArray), ("cells2", Json.arr (d.cells2.map cellJ).toArray),
    ("other", Json.arr (d.other.map objJ).toArray)]

def handle (j : Json) : Json :=
  let doc := parseDoc (getObj j "doc")
  let files := mkFiles ((getArr j "files").toList.filterMap parseFile)
  let r := fixExternal doc (getBool j "overwrite") files (getNat j "n")
  let (res, arg, ret) := match r.ret with
    | .ok d => ("ok", "", docJ d)
    | .error (.keyError a) => ("KeyError", a, Json.null)
    | .error (.includeUnreadable h) => ("SystemExit", h, Json.null)
  Json.mkObj [("res", res), ("arg", arg), ("input", docJ r.input), ("ret", ret), ("next", Json.num r.next),
    ("writes", Json.arr (r.writes.map (fun (w : Nat) => Json.num w)).toArray)]

/-! second protocol (object-graph heap, `Model/FixExternalH.lean`): a line with a key "heap".
    in : {"heap": [Node], "doc": id, "overwrite": bool, "files": [[href, [Node]], …]}   Node = {"c": class, "f": [[name, Val], …]}
         Val = null | "prim text" | object index
    out: {"res", "arg": Val, "n": size of the final heap, "new": [Node] (objects ≥ size of the input heap),
          "changed": [[i, Node]] (objects of the input heap that differ), "ret": id | null,
          "copies": [[cell, src, root, lo, hi]], "doccopy": objects allocated by deepcopy(doc)} -/
namespace H
open NmlVerif.PyHeap NmlVerif.FixExternalH

def parseVal : Json → Val
  | .str s => .prim s
  | .null => .none
  | j => match j.getNat? with | .ok n => .ref n | _ => .none

def parseNode (j : Json) : Node :=
  ⟨getStr j "c", (getArr j "f").toList.filterMap (fun kv =>
    match kv with
    | .arr #[.str k, v] => some (k, parseVal v)
    | _ => none)⟩

def valJ : Val → Json
  | .none => Json.null
  | .prim s => Json.str s
  | .ref i => Json.num i

def nodeJ (nd : Node) : Json :=
  Json.mkObj [("c", nd.cls), ("f", Json.arr (nd.fields.map (fun kv => Json.arr #[Json.str kv.1, valJ kv.2])).toArray)]

def parseFileH (j : Json) : Option (String × Template) :=
  match j with
  | .arr #[.str h, .arr nodes] => some (h, nodes.toList.map parseNode)
  | _ => none

def mkFilesH (l : List (String × Template)) : NmlVerif.FixExternalH.Files := fun h => (l.find? (fun x => x.1 == h)).map (·.2)

def changed (h0 h1 : Heap) : List Json :=
  ((List.range h0.length).zip (h0.zip h1)).filterMap (fun (i, a, b) =>
    if a = b then none else some (Json.arr #[Json.num i, nodeJ b]))

def sameRet : Except NmlVerif.FixExternalH.Err Val → Except NmlVerif.FixExternalH.Err Val → Bool
  | .ok a, .ok b => a == b
  | .error a, .error b => a == b
  | _, _ => false

/-- the program generated from the source (`Gen/FixExternal.lean`) run on the same input gives the same result
    (proved for all inputs in `Props/C17Gen.lean`; recomputed here on every case) -/
def genAgrees (files : NmlVerif.FixExternalH.Files) (h0 : Heap) (doc : Val) (ow : Bool) (r : NmlVerif.FixExternalH.Result) : Bool :=
  let g := NmlVerif.FixIR.runFix (NmlVerif.Gen.FixExternal.fix files) h0 doc ow
  g.heap == r.heap && sameRet g.ret r.ret && g.copies == r.copies && g.docCopy == r.docCopy

def handleH (j : Json) : Json :=
  let h0 : Heap := (getArr j "heap").toList.map parseNode
  let files := mkFilesH ((getArr j "files").toList.filterMap parseFileH)
  let r := NmlVerif.FixExternalH.fixExternal files h0 (.ref (getNat j "doc")) (getBool j "overwrite")
  let (res, arg, ret) := match r.ret with
    | .ok d => ("ok", Json.null, valJ d)
    | .error (.keyError a) => ("KeyError", valJ a, Json.null)
    | .error (.includeUnreadable h) => ("SystemExit", valJ h, Json.null)
    | .error .stuck => ("stuck", Json.null, Json.null)
  Json.mkObj [("res", res), ("arg", arg), ("ret", ret), ("n", Json.num r.heap.length), ("doccopy", Json.num r.docCopy),
    ("gen", Json.bool (genAgrees files h0 (.ref (getNat j "doc")) (getBool j "overwrite") r)),
    ("new", Json.arr ((r.heap.drop h0.length).map nodeJ).toArray),
    ("changed", Json.arr (changed h0 r.heap).toArray),
    ("copies", Json.arr (r.copies.map (fun (e : CopyEv) =>
      Json.arr #[valJ e.cell, valJ e.src, Json.num e.root, Json.num e.lo, Json.num e.hi])).toArray)]
end H

def dispatch (j : Json) : Json :=
  match j.getObjVal? "heap" with
  | .ok _ => H.handleH j
  | _ => handle j

def main : IO Unit := loop dispatch
