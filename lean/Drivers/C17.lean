import NmlVerif.Model.FixExternal
import NmlVerif.DrvCommon
open Lean NmlVerif.FixExternal Drv

/-! line protocol for C17: one call of `fix_external_morphs_biophys_in_cell` per line.
    in : {"doc": Doc, "overwrite": bool, "files": [[href, {"morphs":[Elem], "bios":[Elem]}], …], "n": counter}
    out: {"res": "ok" | "KeyError" | "SystemExit", "arg": str, "input": Doc, "ret": Doc | null, "next", "writes"} -/

def optNat (j : Json) (k : String) : Option Nat :=
  match j.getObjVal? k with
  | .ok v => v.getNat?.toOption
  | _ => none

partial def parseObj (j : Json) : Obj :=
  .mk (getNat j "o") (optNat j "p") (getStr j "s") ((getArr j "k").toList.map parseObj)

def parseElem (j : Json) : Elem := ⟨getStr j "id", parseObj (getObj j "obj")⟩

def parseElem? (j : Json) (k : String) : Option Elem :=
  match j.getObjVal? k with
  | .ok (.obj o) => some (parseElem (.obj o))
  | _ => none

def parseSlot (j : Json) : Slot := ⟨getStr? j "attr", parseElem? j "elem"⟩
def parseCell (j : Json) : Cell :=
  ⟨getNat j "o", optNat j "p", getStr j "s", parseSlot (getObj j "m"), parseSlot (getObj j "b")⟩
def parseInc (j : Json) : Inc := ⟨getNat j "o", optNat j "p", getStr j "href"⟩
def parseDoc (j : Json) : Doc :=
  ⟨getNat j "o", getStr j "s", (getArr j "includes").toList.map parseInc,
    (getArr j "morphs").toList.map parseElem, (getArr j "bios").toList.map parseElem,
    (getArr j "cells").toList.map parseCell, (getArr j "cells2").toList.map parseCell,
    (getArr j "other").toList.map parseObj⟩

def parseFile (j : Json) : Option (String × FileDoc) :=
  match j with
  | .arr #[.str h, fd] => some (h, ⟨(getArr fd "morphs").toList.map parseElem, (getArr fd "bios").toList.map parseElem⟩)
  | _ => none

def mkFiles (l : List (String × FileDoc)) : Files := fun h => (l.find? (fun x => x.1 == h)).map (·.2)

def optNatJ : Option Nat → Json
  | some n => Json.num n
  | none => Json.null
def optStrJ : Option String → Json
  | some s => Json.str s
  | none => Json.null

partial def objJ : Obj → Json
  | .mk i p s ks => Json.mkObj [("o", Json.num i), ("p", optNatJ p), ("s", s), ("k", Json.arr (ks.map objJ).toArray)]
def elemJ (e : Elem) : Json := Json.mkObj [("id", e.nmlId), ("obj", objJ e.obj)]
def slotJ (s : Slot) : Json :=
  Json.mkObj [("attr", optStrJ s.attr), ("elem", match s.elem with | some e => elemJ e | none => Json.null)]
def cellJ (c : Cell) : Json :=
  Json.mkObj [("o", Json.num c.oid), ("p", optNatJ c.parent), ("s", c.payload), ("m", slotJ c.m), ("b", slotJ c.b)]
def incJ (i : Inc) : Json := Json.mkObj [("o", Json.num i.oid), ("p", optNatJ i.parent), ("href", i.href)]
def docJ (d : Doc) : Json :=
  Json.mkObj [("o", Json.num d.oid), ("s", d.payload), ("includes", Json.arr (d.includes.map incJ).toArray),
    ("morphs", Json.arr (d.morphs.map elemJ).toArray), ("bios", Json.arr (d.bios.map elemJ).toArray),
    ("cells", Json.arr (d.cells.map cellJ).toArray), ("cells2", Json.arr (d.cells2.map cellJ).toArray),
    ("other", Json.arr (d.other.map objJ).toArray)]

def handle (j : Json) : Json :=
  let doc := parseDoc (getObj j "doc")
  let files := mkFiles ((getArr j "files").toList.filterMap parseFile)
  let r := fixExternal doc (getBool j "overwrite") files (getNat j "n")
  let (res, arg, ret) := match r.ret with
    | .ok d => ("ok", "", docJ d)
    | .error (.keyError a) => ("KeyError", a, Json.null)
    | .error (.includeUnreadable h) => ("SystemExit", h, Json.null)
  Json.mkObj [("res", res), ("arg", arg), ("input", docJ r.input), ("ret", ret), ("next", Json.num r.next),
    ("writes", Json.arr (r.writes.map (fun (w : Nat) => Json.num w)).toArray)]

def main : IO Unit := loop handle
