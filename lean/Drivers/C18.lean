import NmlVerif.Model.ArrayMorph
import NmlVerif.DrvCommon
open Lean NmlVerif.ArrayMorph Drv

def vec4 (j : Json) : Vec4 := match intList j with | [a, b, c, d] => (a, b, c, d) | _ => (0, 0, 0, 0)
def parseArr (j : Json) : Arr :=
  { vertices := (getArr j "v").toList.map vec4,
    conn := intList (getObj j "c"),
    mask := (intList (getObj j "m")).map (· != 0) }
def parseMorph (j : Json) : Morph := { id := getStr? j "id", arr := parseArr j }
def parseCell (j : Json) : Cell := { id := getStr? j "id", morph := { id := getStr? j "mid", arr := parseArr j } }

def intJ (i : Int) : Json := Json.num (JsonNumber.fromInt i)
def vecJ : Vec4 → Json | (a, b, c, d) => Json.arr #[intJ a, intJ b, intJ c, intJ d]
def segJ (s : Segment) : Json :=
  Json.arr #[intJ s.id, vecJ s.proximal, vecJ s.distal, match s.parent with | some p => intJ p | none => Json.null]
def errJ : Err → Json
  | .indexError => "IndexError" | .outOfFuel => "outOfFuel" | .nodeError => "NodeError"
  | .noSuchNode => "NoSuchNodeError" | .unboundLocal => "UnboundLocalError"
def arrJ (a : Arr) : Json :=
  Json.mkObj [("v", Json.arr (a.vertices.map vecJ).toArray), ("c", Json.arr (a.conn.map intJ).toArray),
    ("m", Json.arr (a.mask.map (fun b => intJ (if b then 1 else 0))).toArray)]
def exJ (f : α → Json) : Except Err α → Json | .ok x => f x | .error e => errJ e
def segsJ (l : List Segment) : Json := Json.arr (l.map segJ).toArray

def handle (j : Json) : Json :=
  match getStr j "op" with
  | "morph" =>
    let a := parseArr j
    Json.mkObj [("len", viewLen a), ("iter", segsJ (viewIter a)),
      ("get", Json.arr ((intList (getObj j "idx")).map (fun i => exJ segJ (viewGet a i))).toArray),
      ("conv", exJ segsJ (if getBool j "old" then toNeuromlMorphologyOld a else toNeuromlMorphology a))]
  | "toroot" =>
    let a := parseArr j
    match toRoot a (getInt j "j") with
    | .ok a' => Json.mkObj [("res", "ok"), ("arr", arrJ a')]
    | .error e => Json.mkObj [("res", errJ e)]
  | "single" =>
    match (writeMorph (parseMorph j)).bind load with
    | .ok ms => Json.mkObj [("res", "ok"), ("morphs", Json.arr (ms.map arrJ).toArray)]
    | .error e => Json.mkObj [("res", errJ e)]
  | "doc" =>
    let d : Doc := { cells := (getArr j "cells").toList.map parseCell, morphs := (getArr j "morphs").toList.map parseMorph }
    match ((if getBool j "old" then writeDocOld d else writeDoc d)).bind load with
    | .ok ms => Json.mkObj [("res", "ok"), ("morphs", Json.arr (ms.map arrJ).toArray)]
    | .error e => Json.mkObj [("res", errJ e)]
  | _ => Json.mkObj [("error", "unknown op")]

def main : IO Unit := loop handle
