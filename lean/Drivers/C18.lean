import NmlVerif.Model.ArrayMorph
import NmlVerif.DrvCommon
open Lean NmlVerif.ArrayMorph Drv

def vec4 (j : Json) : Vec4 := match intList j with | [a, b, c, d] => (a, b, c, d) | _ => (0, 0, 0, 0)
def parseArr (j : Json) : Arr :=
  { vertices := (getArr j "v").toList.map vec4,
    conn := intList (getObj j "c"),
    mask := (intList (getObj j "m")).map (· != 0) }
def parseMorph (j : Json) : Morph := { id := getStr? j "id", arr := parseArr j }

def intJ (i : Int) : Json := Json.num (JsonNumber.fromInt i)
def vecJ : Vec4 → Json | (a, b, c, d) => Json.arr #[intJ a, intJ b, intJ c, intJ d]
def segJ (s : Segment) : Json :=
  Json.arr #[intJ s.id, vecJ s.proximal, vecJ s.distal, match s.parent with | some p => intJ p | none => Json.null]
def errJ : Err → Json
  | .indexError => "IndexError" | .outOfFuel => "outOfFuel" | .nodeError => "NodeError"
  | .noSuchNode => "NoSuchNodeError" | .unboundLocal => "UnboundLocalError" | .keyError => "KeyError"
  | .attributeError => "AttributeError"
def arrJ (a : Arr) : Json :=
  Json.mkObj [("v", Json.arr (a.vertices.map vecJ).toArray), ("c", Json.arr (a.conn.map intJ).toArray),
    ("m", Json.arr (a.mask.map (fun b => intJ (if b then 1 else 0))).toArray)]
def exJ (f : α → Json) : Except Err α → Json | .ok x => f x | .error e => errJ e
def segsJ (l : List Segment) : Json := Json.arr (l.map segJ).toArray

def parseSeg (j : Json) : Segment :=
  match j with
  | .arr #[i, p, d, par] =>
    { id := (i.getInt?.toOption).getD 0, proximal := vec4 p, distal := vec4 d, parent := par.getInt?.toOption }
  | _ => default

/-- the live bindings of the cache dict, sorted by key -/
def cacheJ (c : Cache) : Json :=
  let rec dedup : List (Int × Segment) → List Int → List (Int × Segment)
    | [], _ => []
    | e :: es, seen => if seen.contains e.1 then dedup es seen else e :: dedup es (e.1 :: seen)
  let live := (dedup c []).mergeSort (fun x y => decide (x.1 ≤ y.1))
  Json.arr (live.map (fun e => Json.arr #[intJ e.1, segJ e.2])).toArray

def unitJ (r : Except Err Unit) (o : Obj) : Json :=
  match r with
  | .ok _ => Json.mkObj [("res", "ok"), ("c", Json.arr (o.arr.conn.map intJ).toArray)]
  | .error e => Json.mkObj [("res", errJ e)]

def resJ (o : Obj) : Res → Json
  | .seg r => exJ segJ r
  | .len n => n
  | .segs l => segsJ l
  | .conv r => exJ segsJ r
  | .unit r => unitJ r o

/-- one call of a history; `valid` (`valid_ids`) and `set` (`segments[i] = seg`) are outside the property's `Op` -/
def stepJ (o : Obj) (j : Json) : Json × Obj :=
  match getStr j "o" with
  | "get" => let r := step o (.get (getInt j "i")); (resJ r.2 r.1, r.2)
  | "len" => let r := step o .len; (resJ r.2 r.1, r.2)
  | "iter" => let r := step o .iter; (resJ r.2 r.1, r.2)
  | "sfv" => let r := step o (.sfv (getInt j "k")); (resJ r.2 r.1, r.2)
  | "conv" => let r := step o .conv; (resJ r.2 r.1, r.2)
  | "toroot" => let r := step o (.toRoot (getInt j "j")); (resJ r.2 r.1, r.2)
  | "valid" => (Json.bool (validIds o), o)
  | "append" => (Json.null, appendSeg o (parseSeg (getObj j "s")))
  | "iadd" => (Json.null, (getArr j "ss").toList.foldl (fun o' sj => appendSeg o' (parseSeg sj)) o)   -- `segments += [...]`
  -- plain accessors of ArrayMorphology (read-only, straight from the arrays)
  | "parent_id" => (exJ intJ (getI o.arr.conn (getInt j "i")), o)
  | "vertex" => (exJ vecJ (getI o.arr.vertices (getInt j "i")), o)
  | "children" => (Json.arr ((whereEq (getInt j "i") 0 o.arr.conn).map intJ).toArray, o)
  | "physical" => (Json.arr ((whereFalse 0 o.arr.mask).map intJ).toArray, o)
  | "root_vertex" =>
    (exJ vecJ (match rootIndex o.arr.conn with | .ok k => getI o.arr.vertices (k : Int) | .error e => .error e), o)
  | "alen" => (o.arr.conn.length, o)
  | "set" => (Json.null, setItem o (getInt j "i") (parseSeg (getObj j "s")))
  | _ => (Json.mkObj [("error", "unknown call")], o)

def histJ (o : Obj) : List Json → List Json × Obj
  | [] => ([], o)
  | c :: cs => let r := stepJ o c; let rs := histJ r.2 cs; (r.1 :: rs.1, rs.2)

def handle (j : Json) : Json :=
  match getStr j "op" with
  | "hist" =>
    let r := histJ (fresh (parseArr j)) (getArr j "calls").toList
    Json.mkObj [("steps", Json.arr r.1.toArray), ("arr", arrJ r.2.arr), ("cache", cacheJ r.2.cache)]
  | "morph" =>
    let a := parseArr j
    Json.mkObj [("len", viewLen a), ("iter", segsJ (viewIter a)),
      ("get", Json.arr ((intList (getObj j "idx")).map (fun i => exJ segJ (viewGet a i))).toArray),
      ("conv", exJ segsJ (toNeuromlMorphology a))]
  | "toroot" =>
    let a := parseArr j
    match toRoot a (getInt j "j") with
    | .ok a' => Json.mkObj [("res", "ok"), ("arr", arrJ a')]
    | .error e => Json.mkObj [("res", errJ e)]
  | "single" =>
    match (writeMorph (parseMorph j)).map load with
    | .ok ms => Json.mkObj [("res", "ok"), ("morphs", Json.arr (ms.map arrJ).toArray)]
    | .error e => Json.mkObj [("res", errJ e)]
  | "doc" =>
    -- "obj": which Python object the member's ArrayMorphology is (members with the same number share one object)
    let acell (c : Json) : ACell :=
      { id := getStr? c "id",
        morph := match getStr c "kind" with
          | "none" => .none
          | "plain" => .plain
          | _ => .array { key := (getInt c "obj").toNat, m := { id := getStr? c "mid", arr := parseArr c } } }
    let amorph (m : Json) : AMorph := match getStr m "kind" with
      | "plain" => .plain
      | _ => .array { key := (getInt m "obj").toNat, m := parseMorph m }
    let ad : ADoc := { cells := (getArr j "cells").toList.map acell, morphs := (getArr j "morphs").toList.map amorph }
    match (writeADoc ad).map load with
    | .ok ms => Json.mkObj [("res", "ok"), ("morphs", Json.arr (ms.map arrJ).toArray)]
    | .error e => Json.mkObj [("res", errJ e)]
  | _ => Json.mkObj [("error", "unknown op")]

def main : IO Unit := loop handle
