import NmlVerif.Model.Accessors
import NmlVerif.Model.Rx
import NmlVerif.Model.AccSummary
import NmlVerif.DrvCommon
open Lean NmlVerif.Acc Drv
open NmlVerif.Rx (accepts timeRx refRx nmlIdRx TimeNum RefParts)

/-! Line protocol for C19. Values: null | true/false | integer | string | {"f": "<decimal>"} (a float given by its
    exact decimal spelling) | {"objs": n}.  Floats go out as {"q": [num, den]} (exact rationals). -/

abbrev V := Val Rat

def valOfJson (j : Json) : Option V :=
  match j with
  | .null => some .none
  | .bool b => some (.bool b)
  | .str s => some (.str s.toList)
  | .num _ => (j.getInt?.toOption).map .int
  | .obj _ =>
    match j.getObjVal? "f" with
    | .ok (.str s) => (ratOfStr s.toList).map .num
    | _ => match j.getObjVal? "objs" with
      | .ok v => (v.getNat?.toOption).map .objs
      | _ => none
  | _ => none

def jsonOfVal : V → Json
  | .none => .null
  | .bool b => .bool b
  | .int i => Json.mkObj [("i", toString i)]
  | .num q => Json.mkObj [("q", Json.arr #[toString q.num, toString q.den])]
  | .str s => .str (String.ofList s)
  | .strs l => Json.arr (l.map (fun s => Json.str (String.ofList s))).toArray
  | .objs n => Json.mkObj [("objs", n)]

def errName : Err → String
  | .valueError => "ValueError"
  | .typeError => "TypeError"
  | .indexError => "IndexError"
  | .attributeError => "AttributeError"
  | .systemExit => "SystemExit"

def jsonOfRes (r : Res Rat) : Json :=
  match r with
  | .ok v => Json.mkObj [("ok", jsonOfVal v)]
  | .error e => Json.mkObj [("err", errName e)]

/-- attribute dictionary from a JSON object -/
def dictOf (j : Json) : String → Option V := fun name =>
  match j.getObjVal? name with
  | .ok v => valOfJson v
  | _ => none

/-- construct an object of the class from keyword arguments, then apply direct attribute assignments -/
def mkObj (c : Cls) (given sets : Json) : Except Err (Obj Rat) :=
  match construct RatSem c.fields (dictOf given) with
  | .error e => .error e
  | .ok o => .ok (fun name => match dictOf sets name with
      | some v => some v
      | none => o name)

def itemOf (tagged : Json) : Except String Item :=
  -- {"sub": {"connections": 2, ...}, "instances": n, "size": VAL}   (the last two only for populations)
  let sub := fun a => getNat (getObj tagged "sub") a
  match tagged.getObjVal? "instances" with
  | .ok inst =>
    let self : Obj Rat := fun name =>
      if name == "instances" then (inst.getNat?.toOption).map .objs
      else if name == "size" then valOfJson (getObj tagged "size")
      else none
    match getSize RatSem self with
    | .ok (.int i) => if i ≥ 0 then .ok ⟨sub, i.toNat⟩ else .error "negative size"
    | .ok _ => .error "non-int size"
    | .error e => .error (errName e)
  | _ => .ok ⟨sub, 0⟩

def netOf (j : Json) : Except String Net := do
  let mut lists : List (String × List Item) := []
  for name in ["populations", "projections", "electrical_projections", "continuous_projections", "input_lists"] do
    let items ← (getArr j name).toList.mapM itemOf
    lists := (name, items) :: lists
  return fun n => (lists.lookup n).getD []

/-! ### the object tree of a document, for the model of the whole of `summary()` -/

def optStrPairs (j : Json) : List (String × Option String) :=
  match j with
  | .obj kvs => kvs.toList.map (fun (k, v) => (k, match v with
      | .str s => some s
      | _ => none))
  | _ => []

def leafOf (j : Json) : Summ.Leaf :=
  ⟨getStr j "text", optStrPairs (getObj j "s"),
   (optStrPairs (getObj j "o")).filterMap (fun (k, v) => v.map (fun s => (k, s)))⟩

def subListsOf (j : Json) : List (String × Summ.SubList) :=
  match j with
  | .obj kvs => kvs.toList.map (fun (k, v) => (k, ⟨getNat v "n", (getArr v "elems").toList.map leafOf⟩))
  | _ => []

def itemOfTree (j : Json) : Summ.Item :=
  ⟨getStr j "cls", getStr j "text", optStrPairs (getObj j "s"), getInt? j "size", subListsOf (getObj j "lists")⟩

def netOfTree (j : Json) : Summ.NetD :=
  ⟨optStrPairs (getObj j "s"),
   match getObj j "lists" with
   | .obj kvs => kvs.toList.map (fun (k, v) => (k, match v with
       | .arr a => a.toList.map itemOfTree
       | _ => []))
   | _ => []⟩

def memberOfTree (j : Json) : Summ.Member :=
  ⟨getStr j "name", getStr j "cls", (getArr j "entries").toList.map (fun e =>
    match getStr e "k" with
    | "none" => Summ.Entry.skipped
    | "tag" => Summ.Entry.shown (getStr e "v" ++ " = " ++ getStr e "v2")
    | _ => Summ.Entry.shown (getStr e "v"))⟩

def docOfTree (j : Json) : Summ.DocD :=
  ⟨getStr? j "id", getBool j "show_includes", getBool j "show_non_network",
   (getArr j "members").toList.map memberOfTree, (getArr j "nets").toList.map netOfTree⟩

def handle (j : Json) : Json :=
  match getStr j "op" with
  | "acc" =>
    match Cls.ofName (getStr j "cls"), Meth.ofName (getStr j "m") with
    | some c, some m =>
      match Cls.accessor (F := Rat) c m with
      | none => Json.mkObj [("err", "NoSuchMethod")]
      | some f =>
        match mkObj c (getObj j "given") (getObj j "set") with
        | .error e => Json.mkObj [("err", "ctor:" ++ errName e)]
        | .ok o => jsonOfRes (f RatSem o)
    | _, _ => Json.mkObj [("error", "bad class or method")]
  | "cellid" =>
    match Cls.ofName (getStr j "cls") with
    | some c =>
      match Cls.cellIdFn (F := Rat) c, valOfJson (getObj j "arg") with
      | some f, some v => jsonOfRes (f RatSem (fun _ => none) (.ok v))
      | none, _ => Json.mkObj [("err", "NoSuchMethod")]
      | _, none => Json.mkObj [("error", "bad value")]
    | none => Json.mkObj [("error", "bad class")]
  | "parse_delay" =>
    match valOfJson (getObj j "arg") with
    | some v => jsonOfRes (parseDelay RatSem (fun _ => none) (.ok v))
    | none => Json.mkObj [("error", "bad value")]
  | "hsfi" =>
    match Cls.ofName (getStr j "cls") with
    | none => Json.mkObj [("error", "bad class")]
    | some c =>
      match (getArr j "conns").toList.mapM (fun g => mkObj c g Json.null) with
      | .error e => Json.mkObj [("err", "ctor:" ++ errName e)]
      | .ok conns =>
        match hasSegmentFractionInfo RatSem conns with
        | .ok b => Json.mkObj [("ok", b)]
        | .error e => Json.mkObj [("err", errName e)]
  | "summary" =>
    let nets := (getArr j "nets").toList.map netOf
    Json.mkObj [("nets", Json.arr (nets.map (fun n => match n with
      | .error e => Json.mkObj [("err", e)]
      | .ok net => Json.mkObj [
          ("lines", Json.arr (summaryLines.map (fun l => Json.str (renderLine summaryTable net l))).toArray),
          ("totals", Json.arr ([Tot.cells, .pops, .conns, .projs, .inputs, .inputLists].map
            (fun t => Json.num (total summaryTable net t : Nat))).toArray)])).toArray)]
  | "summary_text" =>
    match Summ.summaryText Summ.netProg (docOfTree (getObj j "doc")) with
    | .ok t => Json.mkObj [("ok", t)]
    | .error e => Json.mkObj [("err", errName e)]
  | "match_time" =>
    let s := (getStr j "s").toList
    Json.mkObj [("match", matchTime s), ("num", String.ofList (timeNumSplit s).1), ("rx", accepts timeRx s)]
  | "match_ref" =>
    let s := (getStr j "s").toList
    Json.mkObj [("rx", accepts refRx s)]
  | "match_id" =>
    let s := (getStr j "s").toList
    Json.mkObj [("rx", accepts nmlIdRx s), ("isNmlId", isNmlId s)]
  | "time_parts" =>
    -- the reading of a number spelling the theorems of Props/C19Rx quantify over: its text and its value
    let optL := fun (k : String) => match j.getObjVal? k with
      | .ok (.str x) => some x.toList
      | _ => none
    let ex : Option (Char × Bool × List Char) := match j.getObjVal? "ex" with
      | .ok e => match (getStr e "mark").toList with
        | [c] => some (c, getBool e "neg", (getStr e "digits").toList)
        | _ => none
      | _ => none
    let p : TimeNum := ⟨getBool j "neg", (getStr j "ip").toList, optL "fd", ex⟩
    Json.mkObj [("text", String.ofList p.text),
      ("value", match p.value with
        | some q => Json.arr #[toString q.num, toString q.den]
        | none => Json.null)]
  | "ref_parts" =>
    let optL := fun (k : String) => match j.getObjVal? k with
      | .ok (.str x) => some x.toList
      | _ => none
    let p : RefParts := ⟨getBool j "dots", (getStr j "pop").toList, (getStr j "d1").toList,
      (strList (getObj j "more")).map String.toList, optL "comp", getBool j "slash"⟩
    Json.mkObj [("text", String.ofList p.text),
      ("outcome", match p.outcome with
        | .ok n => Json.mkObj [("ok", Json.mkObj [("i", toString n)])]
        | .error e => Json.mkObj [("err", errName e)])]
  | "spec" =>
    -- the vocabulary of the theorem statements, so the harness can check it generates exactly these strings
    let pop := (getStr j "pop").toList
    let comp := (getStr j "comp").toList
    let ds := (getStr j "digits").toList
    Json.mkObj [
      ("pop_ok", isNmlId pop), ("comp_ok", isNmlId comp), ("digits_ok", isDigits ds),
      ("value", toString (decVal ds)),
      ("slash", String.ofList (slashPath pop ds comp)), ("slash_nocomp", String.ofList (slashPathNoComp pop ds)),
      ("bracket", String.ofList (bracketPath false pop ds)), ("dots_bracket", String.ofList (bracketPath true pop ds)),
      ("num_ok", (getStr j "num").toList.all isTimeNumChar), ("ws_ok", (getStr j "ws").toList.all isSpace)]
  | _ => Json.mkObj [("error", "unknown op")]

def main : IO Unit := loop handle
