import NmlVerif.Model.Regen
import NmlVerif.Gen.Regen
import NmlVerif.Gen.RegenNames
import NmlVerif.Gen.RegenFresh
import NmlVerif.Gen.RegenShipped
import NmlVerif.DrvCommon
open Lean NmlVerif.Regen Drv

/-! Line protocol for C20.
  {"q":"match","cn":{"kind":"str"|"list"|"other","v":…},"cls":"X"}            -> {"r":bool}       (insertionRule on Strings)
  {"q":"regen","specs":[{"name":…,"cn":…,"items":[[name,"digest"],…]}],"cls":…} -> {"items":[[name,"digest"],…]}
  {"q":"table","cls":"X"}   -> what the compiled Gen table says for class X: regenerated / shipped / isClass
  {"q":"summary"}           -> classes, complexTypes, versions of the compiled Gen table
  {"q":"regendiff"}         -> second pass: the whole-file comparison (regenerated vs shipped) and the helper comparison
                               evaluated by Lean on the compiled tables: which (class, position, names) differ -/

def parseCN (j : Json) : ClassNames String :=
  match getStr j "kind" with
  | "str" => .str (getStr j "v")
  | "list" => .list (strList (getObj j "v"))
  | _ => .other

def parseItem (j : Json) : Item String :=
  match j with
  | .arr #[.str n, .str d] => ⟨n, d.toNat!⟩
  | _ => ⟨"?", 0⟩

def parseSpec (j : Json) : Spec String :=
  ⟨getStr j "name", parseCN (getObj j "cn"), (getArr j "items").toList.map parseItem,
    (getArr j "perClass").toList.map (fun p => (getStr p "cls", (getArr p "items").toList.map parseItem))⟩

def itemJ (it : Item String) : Json := Json.arr #[Json.str it.name, Json.str (toString it.digest)]

def nameOf (i : Nat) : String := (NmlVerif.Gen.RegenNames.names[i]?).getD ("#" ++ toString i)
def idOf (s : String) : Option Nat := NmlVerif.Gen.RegenNames.names.toList.idxOf? s

def itemsJ (l : List (Item Nat)) : Json := Json.arr (l.map (fun it => itemJ ⟨nameOf it.name, it.digest⟩)).toArray
def namesJ (l : List Nat) : Json := Json.arr (l.map (fun i => Json.str (nameOf i))).toArray
def strsJ (l : List String) : Json := Json.arr (l.map Json.str).toArray
def optsJ (l : List (String × String)) : Json := Json.arr (l.map (fun p => Json.arr #[Json.str p.1, Json.str p.2])).toArray

/-- positionwise differences of two statement lists: (index, expected name or "-", shipped name or "-") -/
def posDiff : Nat → List (Item Nat) → List (Item Nat) → List Json
  | _, [], [] => []
  | i, a :: as, [] => Json.arr #[Json.num i, Json.str (nameOf a.name), Json.str "-"] :: posDiff (i + 1) as []
  | i, [], b :: bs => Json.arr #[Json.num i, Json.str "-", Json.str (nameOf b.name)] :: posDiff (i + 1) [] bs
  | i, a :: as, b :: bs =>
    if a = b then posDiff (i + 1) as bs
    else Json.arr #[Json.num i, Json.str (nameOf a.name), Json.str (nameOf b.name)] :: posDiff (i + 1) as bs

/-- whole-file comparison evaluated on the compiled tables: one entry per class that differs -/
def regenDiff (R S : FileTable) : List Json :=
  let fromS := S.classes.filterMap (fun s =>
    match R.classes.find? (·.name == s.name) with
    | none => some (Json.mkObj [("class", Json.str (nameOf s.name)), ("kind", Json.str "class-only-in-bindings")])
    | some r =>
      if r = s then none
      else some (Json.mkObj [("class", Json.str (nameOf s.name)), ("kind", Json.str "differs"),
        ("bases", Json.bool (r.bases = s.bases)), ("members", Json.arr (posDiff 0 r.members s.members).toArray)]))
  let fromR := R.classes.filterMap (fun r =>
    match S.classes.find? (·.name == r.name) with
    | none => some (Json.mkObj [("class", Json.str (nameOf r.name)), ("kind", Json.str "class-missing-in-bindings")])
    | some _ => none)
  fromS ++ fromR

def helperDiff (T : Tables) : List Json :=
  T.shipped.filterMap (fun c =>
    let e := regenerated T.specs c.1
    if e = c.2 then none
    else some (Json.mkObj [("class", Json.str (nameOf c.1)), ("members", Json.arr (posDiff 0 e c.2).toArray)]))

def handle (j : Json) : Json :=
  let T := NmlVerif.Gen.Regen.tables
  match getStr j "q" with
  | "match" =>
    let spec : Spec String := ⟨"", parseCN (getObj j "cn"), [], []⟩
    Json.mkObj [("r", Json.bool (insertionRule spec (getStr j "cls")))]
  | "regen" =>
    let specs := (getArr j "specs").toList.map parseSpec
    Json.mkObj [("items", Json.arr ((regenerated specs (getStr j "cls")).map itemJ).toArray)]
  | "table" =>
    match idOf (getStr j "cls") with
    | none => Json.mkObj [("isClass", Json.bool false), ("regenerated", Json.arr #[]), ("shipped", Json.null)]
    | some c =>
      let sh := (T.shipped.find? (·.1 == c)).map (·.2)
      Json.mkObj [("isClass", Json.bool (T.classes.contains c)),
        ("regenerated", itemsJ (regenerated T.specs c)),
        ("shipped", match sh with | some l => itemsJ l | none => Json.null)]
  | "regendiff" =>
    let R := NmlVerif.Gen.RegenFresh.table
    let S := NmlVerif.Gen.RegenShipped.table
    let I := NmlVerif.Gen.RegenFresh.info
    Json.mkObj [("classes", Json.arr (regenDiff R S).toArray),
      ("module", Json.arr (posDiff 0 R.moduleItems S.moduleItems).toArray),
      ("imports", Json.bool (R.imports = S.imports)),
      ("nclasses", Json.arr #[Json.num R.classes.length, Json.num S.classes.length]),
      ("nmembers", Json.arr #[Json.num (R.classes.flatMap (·.members)).length, Json.num (S.classes.flatMap (·.members)).length]),
      ("rawUserIsModel", Json.bool (I.rawUser.all (fun c => c.2 = regenerated T.specs c.1))),
      ("postprocessing", Json.bool (I.rawUser = I.sedUser && I.sedUser = userRows I.boundary R.classes)),
      ("drift", Json.arr #[Json.num I.driftRemoved, Json.num I.withBase]),
      ("helpers", Json.arr (helperDiff T).toArray)]
  | "summary" =>
    let V := T.versions
    Json.mkObj [("classes", namesJ T.classes), ("complexTypes", namesJ T.complexTypes),
      ("otherClasses", namesJ T.otherClasses), ("enumTypes", namesJ T.enumTypes),
      ("nspecs", Json.num T.specs.length),
      ("versions", Json.mkObj [("current", V.current), ("xsdRead", V.xsdRead), ("headerXsd", V.headerXsd),
        ("headerCmdXsd", V.headerCmdXsd), ("scriptVersion", V.scriptVersion),
        ("scriptFile", V.scriptPre ++ V.scriptVersion ++ V.scriptPost),
        ("writerFile", V.writerPre ++ V.current ++ V.writerPost), ("bundled", strsJ V.bundled),
        ("headerOptions", optsJ V.headerOptions), ("scriptOptions", optsJ V.scriptOptions),
        ("helperFile", V.helperFile)])]
  | q => Json.mkObj [("error", Json.str ("unknown query " ++ q))]

def main : IO Unit := loop handle
