import NmlVerif.Model.Regen
import NmlVerif.Gen.Regen
import NmlVerif.DrvCommon
open Lean NmlVerif.Regen Drv

/-! Line protocol for C20.
  {"q":"match","cn":{"kind":"str"|"list"|"other","v":…},"cls":"X"}            -> {"r":bool}       (insertionRule on Strings)
  {"q":"regen","specs":[{"name":…,"cn":…,"items":[[name,"digest"],…]}],"cls":…} -> {"items":[[name,"digest"],…]}
  {"q":"table","cls":"X"}   -> what the compiled Gen table says for class X: regenerated / shipped / isClass
  {"q":"summary"}           -> classes, complexTypes, versions of the compiled Gen table -/

def parseCN (j : Json) : ClassNames String :=
  match getStr j "kind" with
  | "str" => .str (getStr j "v")
  | "list" => .list (strList (getObj j "v"))
  | _ => .other

def parseItem (j : Json) : Item String :=
  match j with
  | .arr #[.str n, .str d] => ⟨n, d.toNat!⟩
  | _ => ⟨"?", 0⟩

def parseSpec (j : Json) : Spec String :=
  ⟨getStr j "name", parseCN (getObj j "cn"), (getArr j "items").toList.map parseItem⟩

def itemJ (it : Item String) : Json := Json.arr #[Json.str it.name, Json.str (toString it.digest)]

def nameOf (i : Nat) : String := (NmlVerif.Gen.Regen.names[i]?).getD ("#" ++ toString i)
def idOf (s : String) : Option Nat := NmlVerif.Gen.Regen.names.toList.idxOf? s

def itemsJ (l : List (Item Nat)) : Json := Json.arr (l.map (fun it => itemJ ⟨nameOf it.name, it.digest⟩)).toArray
def namesJ (l : List Nat) : Json := Json.arr (l.map (fun i => Json.str (nameOf i))).toArray
def strsJ (l : List String) : Json := Json.arr (l.map Json.str).toArray
def optsJ (l : List (String × String)) : Json := Json.arr (l.map (fun p => Json.arr #[Json.str p.1, Json.str p.2])).toArray

def handle (j : Json) : Json :=
  let T := NmlVerif.Gen.Regen.tables
  match getStr j "q" with
  | "match" =>
    let spec : Spec String := ⟨"", parseCN (getObj j "cn"), []⟩
    Json.mkObj [("r", Json.bool (insertionRule spec (getStr j "cls")))]
  | "regen" =>
    let specs := (getArr j "specs").toList.map parseSpec
    Json.mkObj [("items", Json.arr ((regenerated specs (getStr j "cls")).map itemJ).toArray)]
  | "table" =>
    match idOf (getStr j "cls") with
    | none => Json.mkObj [("isClass", Json.bool false), ("regenerated", Json.arr #[]), ("shipped", Json.null)]
    | some c =>
      let sh := (T.shipped.find? (·.1 == c)).map (·.2)
      Json.mkObj [("isClass", Json.bool (T.classes.contains c)),
        ("regenerated", itemsJ (regenerated T.specs c)),
        ("shipped", match sh with | some l => itemsJ l | none => Json.null)]
  | "summary" =>
    let V := T.versions
    Json.mkObj [("classes", namesJ T.classes), ("complexTypes", namesJ T.complexTypes),
      ("otherClasses", namesJ T.otherClasses), ("enumTypes", namesJ T.enumTypes),
      ("nspecs", Json.num T.specs.length),
      ("versions", Json.mkObj [("current", V.current), ("xsdRead", V.xsdRead), ("headerXsd", V.headerXsd),
        ("headerCmdXsd", V.headerCmdXsd), ("scriptVersion", V.scriptVersion),
        ("scriptFile", V.scriptPre ++ V.scriptVersion ++ V.scriptPost),
        ("writerFile", V.writerPre ++ V.current ++ V.writerPost), ("bundled", strsJ V.bundled),
        ("headerOptions", optsJ V.headerOptions), ("scriptOptions", optsJ V.scriptOptions),
        ("helperFile", V.helperFile)])]
  | q => Json.mkObj [("error", Json.str ("unknown query " ++ q))]

def main : IO Unit := loop handle
