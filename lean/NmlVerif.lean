-- This module serves as the root of the `NmlVerif` library.
-- Import modules here that should be built as part of the library.
import NmlVerif.Basic
