def hello := "world"
