import Lean.Data.Json
open Lean

namespace Drv

def getArr (j : Json) (k : String) : Array Json :=
  match j.getObjVal? k with
  | .ok (.arr a) => a
  | _ => #[]

def getStr (j : Json) (k : String) : String :=
  match j.getObjVal? k with
  | .ok (.str s) => s
  | _ => ""

def getStr? (j : Json) (k : String) : Option String :=
  match j.getObjVal? k with
  | .ok (.str s) => some s
  | _ => none

def getNat (j : Json) (k : String) : Nat :=
  match j.getObjVal? k with
  | .ok v => (v.getNat?.toOption).getD 0
  | _ => 0

def getInt (j : Json) (k : String) : Int :=
  match j.getObjVal? k with
  | .ok v => (v.getInt?.toOption).getD 0
  | _ => 0

def getInt? (j : Json) (k : String) : Option Int :=
  match j.getObjVal? k with
  | .ok v => v.getInt?.toOption
  | _ => none

def getBool (j : Json) (k : String) : Bool :=
  match j.getObjVal? k with
  | .ok (.bool b) => b
  | _ => false

def getObj (j : Json) (k : String) : Json :=
  match j.getObjVal? k with
  | .ok v => v
  | _ => Json.null

def strList (j : Json) : List String :=
  match j with
  | .arr a => a.toList.filterMap (fun x => match x with | .str s => some s | _ => none)
  | _ => []

def natList (j : Json) : List Nat :=
  match j with
  | .arr a => a.toList.filterMap (fun x => x.getNat?.toOption)
  | _ => []

def intList (j : Json) : List Int :=
  match j with
  | .arr a => a.toList.filterMap (fun x => x.getInt?.toOption)
  | _ => []

/-- run `f` on every input line that parses as JSON, print one compressed JSON line each -/
partial def loop (f : Json → Json) : IO Unit := do
  let stdin ← IO.getStdin
  let rec go : IO Unit := do
    let line ← stdin.getLine
    if line.isEmpty then return ()
    let t := line.trimAscii.toString
    if t.isEmpty then go else
    match Json.parse t with
    | .ok j => IO.println (f j).compress
    | .error e => IO.println (Json.mkObj [("error", Json.str e)]).compress
    go
  go

end Drv
