import NmlVerif.Model.Accessors
import NmlVerif.Model.Rx
import NmlVerif.Model.AccSummary
/-! GENERATED on every check run by harness/props/c19.py (regenerate) from the Python AST of
    neuroml/nml/helper_methods.py, neuroml/nml/nml.py and neuroml/hdf5/NeuroMLXMLParser.py. Do not edit. -/
set_option linter.unusedVariables false
namespace NmlVerif.Acc.Gen
variable {F : Type}

/-! ### accessors, Helper -/

def Helper.Connection._get_cell_id (fs : FloatSem F) (self : Obj F) (id_string : Res F) : Res F :=
  (pIfElse fs (pIn ['['] id_string) (pInt fs (pIndex 0 (pSplit ']' (pIndex 1 (pSplit '[' id_string))))) (pInt fs (pIndex 2 (pSplit '/' id_string))))

def Helper.Connection.get_pre_cell_id (fs : FloatSem F) (self : Obj F) : Res F :=
  (pCall1 (Helper.Connection._get_cell_id fs self) (attr self "pre_cell_id"))

def Helper.Connection.get_post_cell_id (fs : FloatSem F) (self : Obj F) : Res F :=
  (pCall1 (Helper.Connection._get_cell_id fs self) (attr self "post_cell_id"))

def Helper.Connection.get_pre_segment_id (fs : FloatSem F) (self : Obj F) : Res F :=
  (pInt fs (attr self "pre_segment_id"))

def Helper.Connection.get_post_segment_id (fs : FloatSem F) (self : Obj F) : Res F :=
  (pInt fs (attr self "post_segment_id"))

def Helper.Connection.get_pre_fraction_along (fs : FloatSem F) (self : Obj F) : Res F :=
  (pFloat fs (attr self "pre_fraction_along"))

def Helper.Connection.get_post_fraction_along (fs : FloatSem F) (self : Obj F) : Res F :=
  (pFloat fs (attr self "post_fraction_along"))

def Helper.ConnectionWD._get_cell_id (fs : FloatSem F) (self : Obj F) (id_string : Res F) : Res F :=
  (pIfElse fs (pIn ['['] id_string) (pInt fs (pIndex 0 (pSplit ']' (pIndex 1 (pSplit '[' id_string))))) (pInt fs (pIndex 2 (pSplit '/' id_string))))

def Helper.ConnectionWD.get_pre_cell_id (fs : FloatSem F) (self : Obj F) : Res F :=
  (pCall1 (Helper.ConnectionWD._get_cell_id fs self) (attr self "pre_cell_id"))

def Helper.ConnectionWD.get_post_cell_id (fs : FloatSem F) (self : Obj F) : Res F :=
  (pCall1 (Helper.ConnectionWD._get_cell_id fs self) (attr self "post_cell_id"))

def Helper.ConnectionWD.get_pre_segment_id (fs : FloatSem F) (self : Obj F) : Res F :=
  (pInt fs (attr self "pre_segment_id"))

def Helper.ConnectionWD.get_post_segment_id (fs : FloatSem F) (self : Obj F) : Res F :=
  (pInt fs (attr self "post_segment_id"))

def Helper.ConnectionWD.get_pre_fraction_along (fs : FloatSem F) (self : Obj F) : Res F :=
  (pFloat fs (attr self "pre_fraction_along"))

def Helper.ConnectionWD.get_post_fraction_along (fs : FloatSem F) (self : Obj F) : Res F :=
  (pFloat fs (attr self "post_fraction_along"))

def Helper.ConnectionWD.get_delay_in_ms (fs : FloatSem F) (self : Obj F) : Res F :=
  (pIfElse fs (pIn ['m', 's'] (attr self "delay")) (pFloat fs (pStrip (pDropRight 2 (attr self "delay")))) (pIfElse fs (pIn ['s'] (attr self "delay")) (pMulF fs (pFloat fs (pStrip (pDropRight 1 (attr self "delay")))) fs.thousand) pnone))

def Helper.ElectricalConnection._get_cell_id (fs : FloatSem F) (self : Obj F) (id_string : Res F) : Res F :=
  (pInt fs (pFloat fs id_string))

def Helper.ElectricalConnection.get_pre_cell_id (fs : FloatSem F) (self : Obj F) : Res F :=
  (pCall1 (Helper.ElectricalConnection._get_cell_id fs self) (attr self "pre_cell"))

def Helper.ElectricalConnection.get_post_cell_id (fs : FloatSem F) (self : Obj F) : Res F :=
  (pCall1 (Helper.ElectricalConnection._get_cell_id fs self) (attr self "post_cell"))

def Helper.ElectricalConnection.get_pre_segment_id (fs : FloatSem F) (self : Obj F) : Res F :=
  (pInt fs (attr self "pre_segment"))

def Helper.ElectricalConnection.get_post_segment_id (fs : FloatSem F) (self : Obj F) : Res F :=
  (pInt fs (attr self "post_segment"))

def Helper.ElectricalConnection.get_pre_fraction_along (fs : FloatSem F) (self : Obj F) : Res F :=
  (pFloat fs (attr self "pre_fraction_along"))

def Helper.ElectricalConnection.get_post_fraction_along (fs : FloatSem F) (self : Obj F) : Res F :=
  (pFloat fs (attr self "post_fraction_along"))

def Helper.ElectricalConnectionInstance._get_cell_id (fs : FloatSem F) (self : Obj F) (id_string : Res F) : Res F :=
  (pIfElse fs (pIn ['['] id_string) (pInt fs (pIndex 0 (pSplit ']' (pIndex 1 (pSplit '[' id_string))))) (pInt fs (pIndex 2 (pSplit '/' id_string))))

def Helper.ElectricalConnectionInstance.get_pre_cell_id (fs : FloatSem F) (self : Obj F) : Res F :=
  (pCall1 (Helper.ElectricalConnectionInstance._get_cell_id fs self) (attr self "pre_cell"))

def Helper.ElectricalConnectionInstance.get_post_cell_id (fs : FloatSem F) (self : Obj F) : Res F :=
  (pCall1 (Helper.ElectricalConnectionInstance._get_cell_id fs self) (attr self "post_cell"))

def Helper.ElectricalConnectionInstance.get_pre_segment_id (fs : FloatSem F) (self : Obj F) : Res F :=
  (pInt fs (attr self "pre_segment"))

def Helper.ElectricalConnectionInstance.get_post_segment_id (fs : FloatSem F) (self : Obj F) : Res F :=
  (pInt fs (attr self "post_segment"))

def Helper.ElectricalConnectionInstance.get_pre_fraction_along (fs : FloatSem F) (self : Obj F) : Res F :=
  (pFloat fs (attr self "pre_fraction_along"))

def Helper.ElectricalConnectionInstance.get_post_fraction_along (fs : FloatSem F) (self : Obj F) : Res F :=
  (pFloat fs (attr self "post_fraction_along"))

def Helper.ElectricalConnectionInstanceW._get_cell_id (fs : FloatSem F) (self : Obj F) (id_string : Res F) : Res F :=
  (pIfElse fs (pIn ['['] id_string) (pInt fs (pIndex 0 (pSplit ']' (pIndex 1 (pSplit '[' id_string))))) (pInt fs (pIndex 2 (pSplit '/' id_string))))

def Helper.ElectricalConnectionInstanceW.get_pre_cell_id (fs : FloatSem F) (self : Obj F) : Res F :=
  (pCall1 (Helper.ElectricalConnectionInstanceW._get_cell_id fs self) (attr self "pre_cell"))

def Helper.ElectricalConnectionInstanceW.get_post_cell_id (fs : FloatSem F) (self : Obj F) : Res F :=
  (pCall1 (Helper.ElectricalConnectionInstanceW._get_cell_id fs self) (attr self "post_cell"))

def Helper.ElectricalConnectionInstanceW.get_pre_segment_id (fs : FloatSem F) (self : Obj F) : Res F :=
  (pInt fs (attr self "pre_segment"))

def Helper.ElectricalConnectionInstanceW.get_post_segment_id (fs : FloatSem F) (self : Obj F) : Res F :=
  (pInt fs (attr self "post_segment"))

def Helper.ElectricalConnectionInstanceW.get_pre_fraction_along (fs : FloatSem F) (self : Obj F) : Res F :=
  (pFloat fs (attr self "pre_fraction_along"))

def Helper.ElectricalConnectionInstanceW.get_post_fraction_along (fs : FloatSem F) (self : Obj F) : Res F :=
  (pFloat fs (attr self "post_fraction_along"))

def Helper.ElectricalConnectionInstanceW.get_weight (fs : FloatSem F) (self : Obj F) : Res F :=
  (pIfElse fs (pNeNone (attr self "weight")) (pFloat fs (attr self "weight")) (pnum fs.one))

def Helper.ContinuousConnection._get_cell_id (fs : FloatSem F) (self : Obj F) (id_string : Res F) : Res F :=
  (pInt fs (pFloat fs id_string))

def Helper.ContinuousConnection.get_pre_cell_id (fs : FloatSem F) (self : Obj F) : Res F :=
  (pCall1 (Helper.ContinuousConnection._get_cell_id fs self) (attr self "pre_cell"))

def Helper.ContinuousConnection.get_post_cell_id (fs : FloatSem F) (self : Obj F) : Res F :=
  (pCall1 (Helper.ContinuousConnection._get_cell_id fs self) (attr self "post_cell"))

def Helper.ContinuousConnection.get_pre_segment_id (fs : FloatSem F) (self : Obj F) : Res F :=
  (pInt fs (attr self "pre_segment"))

def Helper.ContinuousConnection.get_post_segment_id (fs : FloatSem F) (self : Obj F) : Res F :=
  (pInt fs (attr self "post_segment"))

def Helper.ContinuousConnection.get_pre_fraction_along (fs : FloatSem F) (self : Obj F) : Res F :=
  (pFloat fs (attr self "pre_fraction_along"))

def Helper.ContinuousConnection.get_post_fraction_along (fs : FloatSem F) (self : Obj F) : Res F :=
  (pFloat fs (attr self "post_fraction_along"))

def Helper.ContinuousConnectionInstance._get_cell_id (fs : FloatSem F) (self : Obj F) (id_string : Res F) : Res F :=
  (pIfElse fs (pIn ['['] id_string) (pInt fs (pIndex 0 (pSplit ']' (pIndex 1 (pSplit '[' id_string))))) (pInt fs (pIndex 2 (pSplit '/' id_string))))

def Helper.ContinuousConnectionInstance.get_pre_cell_id (fs : FloatSem F) (self : Obj F) : Res F :=
  (pCall1 (Helper.ContinuousConnectionInstance._get_cell_id fs self) (attr self "pre_cell"))

def Helper.ContinuousConnectionInstance.get_post_cell_id (fs : FloatSem F) (self : Obj F) : Res F :=
  (pCall1 (Helper.ContinuousConnectionInstance._get_cell_id fs self) (attr self "post_cell"))

def Helper.ContinuousConnectionInstance.get_pre_segment_id (fs : FloatSem F) (self : Obj F) : Res F :=
  (pInt fs (attr self "pre_segment"))

def Helper.ContinuousConnectionInstance.get_post_segment_id (fs : FloatSem F) (self : Obj F) : Res F :=
  (pInt fs (attr self "post_segment"))

def Helper.ContinuousConnectionInstance.get_pre_fraction_along (fs : FloatSem F) (self : Obj F) : Res F :=
  (pFloat fs (attr self "pre_fraction_along"))

def Helper.ContinuousConnectionInstance.get_post_fraction_along (fs : FloatSem F) (self : Obj F) : Res F :=
  (pFloat fs (attr self "post_fraction_along"))

def Helper.ContinuousConnectionInstanceW._get_cell_id (fs : FloatSem F) (self : Obj F) (id_string : Res F) : Res F :=
  (pIfElse fs (pIn ['['] id_string) (pInt fs (pIndex 0 (pSplit ']' (pIndex 1 (pSplit '[' id_string))))) (pInt fs (pIndex 2 (pSplit '/' id_string))))

def Helper.ContinuousConnectionInstanceW.get_pre_cell_id (fs : FloatSem F) (self : Obj F) : Res F :=
  (pCall1 (Helper.ContinuousConnectionInstanceW._get_cell_id fs self) (attr self "pre_cell"))

def Helper.ContinuousConnectionInstanceW.get_post_cell_id (fs : FloatSem F) (self : Obj F) : Res F :=
  (pCall1 (Helper.ContinuousConnectionInstanceW._get_cell_id fs self) (attr self "post_cell"))

def Helper.ContinuousConnectionInstanceW.get_pre_segment_id (fs : FloatSem F) (self : Obj F) : Res F :=
  (pInt fs (attr self "pre_segment"))

def Helper.ContinuousConnectionInstanceW.get_post_segment_id (fs : FloatSem F) (self : Obj F) : Res F :=
  (pInt fs (attr self "post_segment"))

def Helper.ContinuousConnectionInstanceW.get_pre_fraction_along (fs : FloatSem F) (self : Obj F) : Res F :=
  (pFloat fs (attr self "pre_fraction_along"))

def Helper.ContinuousConnectionInstanceW.get_post_fraction_along (fs : FloatSem F) (self : Obj F) : Res F :=
  (pFloat fs (attr self "post_fraction_along"))

def Helper.ContinuousConnectionInstanceW.get_weight (fs : FloatSem F) (self : Obj F) : Res F :=
  (pIfElse fs (pNeNone (attr self "weight")) (pFloat fs (attr self "weight")) (pnum fs.one))

def Helper.Input._get_cell_id (fs : FloatSem F) (self : Obj F) (id_string : Res F) : Res F :=
  (pIfElse fs (pIn ['['] id_string) (pInt fs (pIndex 0 (pSplit ']' (pIndex 1 (pSplit '[' id_string))))) (pInt fs (pIndex 2 (pSplit '/' id_string))))

def Helper.Input.get_target_cell_id (fs : FloatSem F) (self : Obj F) : Res F :=
  (pCall1 (Helper.Input._get_cell_id fs self) (attr self "target"))

def Helper.Input.get_segment_id (fs : FloatSem F) (self : Obj F) : Res F :=
  (pIfElse fs (pIsNotNone (attr self "segment_id")) (pInt fs (attr self "segment_id")) (pint 0))

def Helper.Input.get_fraction_along (fs : FloatSem F) (self : Obj F) : Res F :=
  (pIfElse fs (pIsNotNone (attr self "fraction_along")) (pFloat fs (attr self "fraction_along")) (pnum fs.half))

def Helper.InputW._get_cell_id (fs : FloatSem F) (self : Obj F) (id_string : Res F) : Res F :=
  (pIfElse fs (pIn ['['] id_string) (pInt fs (pIndex 0 (pSplit ']' (pIndex 1 (pSplit '[' id_string))))) (pInt fs (pIndex 2 (pSplit '/' id_string))))

def Helper.InputW.get_weight (fs : FloatSem F) (self : Obj F) : Res F :=
  (pIfElse fs (pNeNone (attr self "weight")) (pFloat fs (attr self "weight")) (pnum fs.one))

def Helper.InputW.get_target_cell_id (fs : FloatSem F) (self : Obj F) : Res F :=
  (pCall1 (Helper.InputW._get_cell_id fs self) (attr self "target"))

def Helper.InputW.get_segment_id (fs : FloatSem F) (self : Obj F) : Res F :=
  (pIfElse fs (pIsNotNone (attr self "segment_id")) (pInt fs (attr self "segment_id")) (pint 0))

def Helper.InputW.get_fraction_along (fs : FloatSem F) (self : Obj F) : Res F :=
  (pIfElse fs (pIsNotNone (attr self "fraction_along")) (pFloat fs (attr self "fraction_along")) (pnum fs.half))

def Helper.ExplicitInput._get_cell_id (fs : FloatSem F) (self : Obj F) (id_string : Res F) : Res F :=
  (pIfElse fs (pIn ['['] id_string) (pInt fs (pIndex 0 (pSplit ']' (pIndex 1 (pSplit '[' id_string))))) (pInt fs (pIndex 2 (pSplit '/' id_string))))

def Helper.ExplicitInput.get_target_cell_id (fs : FloatSem F) (self : Obj F) : Res F :=
  (pIfElse fs (pIn ['['] (attr self "target")) (pInt fs (pIndex 0 (pSplit ']' (pIndex 1 (pSplit '[' (attr self "target")))))) (pInt fs (pIndex 2 (pSplit '/' (attr self "target")))))

def Helper.ExplicitInput.get_segment_id (fs : FloatSem F) (self : Obj F) : Res F :=
  (pint 0)

def Helper.ExplicitInput.get_fraction_along (fs : FloatSem F) (self : Obj F) : Res F :=
  (pnum fs.half)

def Helper.SynapticConnection._get_cell_id (fs : FloatSem F) (self : Obj F) (ref : Res F) : Res F :=
  (pIfElse fs (pIn ['['] ref) (pInt fs (pIndex 0 (pSplit ']' (pIndex 1 (pSplit '[' ref))))) (pInt fs (pIndex 2 (pSplit '/' ref))))

def Helper.Population.get_size (fs : FloatSem F) (self : Obj F) : Res F :=
  (pIfElse fs (pGtInt 0 (pLen (attr self "instances"))) (pLen (attr self "instances")) (pIfElse fs (attr self "size") (attr self "size") (pint 0)))

def Helper.index : List (String × List String) :=
  [("Connection", ["_get_cell_id", "get_pre_cell_id", "get_post_cell_id", "get_pre_segment_id", "get_post_segment_id", "get_pre_fraction_along", "get_post_fraction_along"]),
   ("ConnectionWD", ["_get_cell_id", "get_pre_cell_id", "get_post_cell_id", "get_pre_segment_id", "get_post_segment_id", "get_pre_fraction_along", "get_post_fraction_along", "get_delay_in_ms"]),
   ("ElectricalConnection", ["_get_cell_id", "get_pre_cell_id", "get_post_cell_id", "get_pre_segment_id", "get_post_segment_id", "get_pre_fraction_along", "get_post_fraction_along"]),
   ("ElectricalConnectionInstance", ["_get_cell_id", "get_pre_cell_id", "get_post_cell_id", "get_pre_segment_id", "get_post_segment_id", "get_pre_fraction_along", "get_post_fraction_along"]),
   ("ElectricalConnectionInstanceW", ["_get_cell_id", "get_pre_cell_id", "get_post_cell_id", "get_pre_segment_id", "get_post_segment_id", "get_pre_fraction_along", "get_post_fraction_along", "get_weight"]),
   ("ContinuousConnection", ["_get_cell_id", "get_pre_cell_id", "get_post_cell_id", "get_pre_segment_id", "get_post_segment_id", "get_pre_fraction_along", "get_post_fraction_along"]),
   ("ContinuousConnectionInstance", ["_get_cell_id", "get_pre_cell_id", "get_post_cell_id", "get_pre_segment_id", "get_post_segment_id", "get_pre_fraction_along", "get_post_fraction_along"]),
   ("ContinuousConnectionInstanceW", ["_get_cell_id", "get_pre_cell_id", "get_post_cell_id", "get_pre_segment_id", "get_post_segment_id", "get_pre_fraction_along", "get_post_fraction_along", "get_weight"]),
   ("Input", ["_get_cell_id", "get_target_cell_id", "get_segment_id", "get_fraction_along"]),
   ("InputW", ["_get_cell_id", "get_weight", "get_target_cell_id", "get_segment_id", "get_fraction_along"]),
   ("ExplicitInput", ["_get_cell_id", "get_target_cell_id", "get_segment_id", "get_fraction_along"]),
   ("SynapticConnection", ["_get_cell_id"]),
   ("Population", ["get_size"])]

def Helper.summaryTable : List Add :=
  [⟨"populations", .pops, .one⟩,
   ⟨"populations", .cells, .size⟩,
   ⟨"projections", .projs, .one⟩,
   ⟨"projections", .conns, .len "connections"⟩,
   ⟨"projections", .conns, .len "connection_wds"⟩,
   ⟨"electrical_projections", .projs, .one⟩,
   ⟨"electrical_projections", .conns, .len "electrical_connections"⟩,
   ⟨"electrical_projections", .conns, .len "electrical_connection_instances"⟩,
   ⟨"electrical_projections", .conns, .len "electrical_connection_instance_ws"⟩,
   ⟨"continuous_projections", .projs, .one⟩,
   ⟨"continuous_projections", .conns, .len "continuous_connections"⟩,
   ⟨"continuous_projections", .conns, .len "continuous_connection_instances"⟩,
   ⟨"continuous_projections", .conns, .len "continuous_connection_instance_ws"⟩,
   ⟨"input_lists", .inputLists, .one⟩,
   ⟨"input_lists", .inputs, .lenIfPos "input"⟩,
   ⟨"input_lists", .inputs, .lenIfPos "input_ws"⟩]

def Helper.summaryLines : List (List Seg) :=
  [[.lit "*   ", .tot .cells, .lit " cells in ", .tot .pops, .lit " populations "],
   [.lit "*   ", .tot .conns, .lit " connections in ", .tot .projs, .lit " projections "],
   [.lit "*   ", .tot .inputs, .lit " inputs in ", .tot .inputLists, .lit " input lists "]]

/-- the body of `for network in self.networks:` of `summary` (Helper) -/
def Helper.netProg : List Summ.L3 :=
  [(.base (.base (.base (.addS "info" [.lit "*  Network: ", .netS "id"])))),
   (.ifC (.netTruthy "temperature") [(.base (.base (.addS "info" [.lit " (temperature: ", .netS "temperature", .lit ")"])))]),
   (.base (.base (.base (.addS "info" [.lit "\n*\n"])))),
   (.base (.base (.base (.setN "tot_pop" 0)))),
   (.base (.base (.base (.setN "tot_cells" 0)))),
   (.base (.base (.base (.setS "pop_info" "")))),
   (.forNet "populations" true [(.base (.base (.addS "pop_info" [.lit "*     ", .itemText, .lit "\n"]))), (.base (.base (.addN "tot_pop" .one))), (.base (.base (.addN "tot_cells" .itemSize))), (.ifC (.itemLenPos "instances") [(.base (.addS "pop_info" [.lit "*       Locations: [", .itemFirstObj "instances" "location", .lit ", ...]\n"]))]), (.ifC (.itemLenPos "properties") [(.base (.addS "pop_info" [.lit "*       Properties: "])), (.forItem "properties" [(.addS "pop_info" [.leafStr "tag", .lit "=", .leafStr "value", .lit "; "])]), (.base (.addS "pop_info" [.lit "\n"]))])]),
   (.base (.base (.base (.addS "info" [.lit "*   ", .nv "tot_cells", .lit " cells in ", .nv "tot_pop", .lit " populations \n", .sv "pop_info", .lit "*\n"])))),
   (.base (.base (.base (.setN "tot_proj" 0)))),
   (.base (.base (.base (.setN "tot_conns" 0)))),
   (.base (.base (.base (.setS "proj_info" "")))),
   (.forNet "projections" true [(.base (.base (.addS "proj_info" [.lit "*     ", .itemText, .lit "\n"]))), (.base (.base (.addN "tot_proj" .one))), (.base (.base (.addN "tot_conns" (.itemLen "connections")))), (.base (.base (.addN "tot_conns" (.itemLen "connection_wds")))), (.ifC (.itemLenPos "connections") [(.base (.addS "proj_info" [.lit "*       ", .itemLen "connections", .lit " connections: [(", .itemFirst "connections", .lit "), ...]\n"]))]), (.ifC (.itemLenPos "connection_wds") [(.base (.addS "proj_info" [.lit "*       ", .itemLen "connection_wds", .lit " connections (wd): [(", .itemFirst "connection_wds", .lit "), ...]\n"]))])]),
   (.forNet "electrical_projections" true [(.base (.base (.addS "proj_info" [.lit "*     Electrical projection: ", .itemS "id", .lit " from ", .itemS "presynaptic_population", .lit " to ", .itemS "postsynaptic_population", .lit "\n"]))), (.base (.base (.addN "tot_proj" .one))), (.base (.base (.addN "tot_conns" (.itemLen "electrical_connections")))), (.base (.base (.addN "tot_conns" (.itemLen "electrical_connection_instances")))), (.base (.base (.addN "tot_conns" (.itemLen "electrical_connection_instance_ws")))), (.ifC (.itemLenPos "electrical_connections") [(.base (.addS "proj_info" [.lit "*       ", .itemLen "electrical_connections", .lit " connections: [(", .itemFirst "electrical_connections", .lit "), ...]\n"]))]), (.ifC (.itemLenPos "electrical_connection_instances") [(.base (.addS "proj_info" [.lit "*       ", .itemLen "electrical_connection_instances", .lit " connections: [(", .itemFirst "electrical_connection_instances", .lit "), ...]\n"]))]), (.ifC (.itemLenPos "electrical_connection_instance_ws") [(.base (.addS "proj_info" [.lit "*       ", .itemLen "electrical_connection_instance_ws", .lit " connections: [(", .itemFirst "electrical_connection_instance_ws", .lit "), ...]\n"]))])]),
   (.forNet "continuous_projections" true [(.base (.base (.addS "proj_info" [.lit "*     Continuous projection: ", .itemS "id", .lit " from ", .itemS "presynaptic_population", .lit " to ", .itemS "postsynaptic_population", .lit "\n"]))), (.base (.base (.addN "tot_proj" .one))), (.base (.base (.addN "tot_conns" (.itemLen "continuous_connections")))), (.base (.base (.addN "tot_conns" (.itemLen "continuous_connection_instances")))), (.base (.base (.addN "tot_conns" (.itemLen "continuous_connection_instance_ws")))), (.ifC (.itemLenPos "continuous_connections") [(.base (.addS "proj_info" [.lit "*       ", .itemLen "continuous_connections", .lit " connections: [(", .itemFirst "continuous_connections", .lit "), ...]\n"]))]), (.ifC (.itemLenPos "continuous_connection_instances") [(.base (.addS "proj_info" [.lit "*       ", .itemLen "continuous_connection_instances", .lit " connections: [(", .itemFirst "continuous_connection_instances", .lit "), ...]\n"]))]), (.ifC (.itemLenPos "continuous_connection_instance_ws") [(.base (.addS "proj_info" [.lit "*       ", .itemLen "continuous_connection_instance_ws", .lit " connections (w): [(", .itemFirst "continuous_connection_instance_ws", .lit "), ...]\n"]))])]),
   (.base (.base (.base (.addS "info" [.lit "*   ", .nv "tot_conns", .lit " connections in ", .nv "tot_proj", .lit " projections \n", .sv "proj_info", .lit "*\n"])))),
   (.ifC (.netLenPos "synaptic_connections") [(.base (.base (.addS "info" [.lit "*   ", .netLen "synaptic_connections", .lit " explicit synaptic connections (outside of projections)\n"]))), (.forNet "synaptic_connections" false [(.base (.addS "info" [.lit "*     ", .itemText, .lit "\n"]))]), (.base (.base (.addS "info" [.lit "*\n"])))]),
   (.base (.base (.base (.setN "tot_input_lists" 0)))),
   (.base (.base (.base (.setN "tot_inputs" 0)))),
   (.base (.base (.base (.setS "input_info" "")))),
   (.forNet "input_lists" true [(.base (.base (.addS "input_info" [.lit "*     ", .itemText, .lit "\n"]))), (.base (.base (.addN "tot_input_lists" .one))), (.ifC (.itemLenPos "input") [(.base (.addS "input_info" [.lit "*       ", .itemLen "input", .lit " inputs: [(", .itemFirst "input", .lit "), ...]\n"])), (.base (.addN "tot_inputs" (.itemLen "input")))]), (.ifC (.itemLenPos "input_ws") [(.base (.addS "input_info" [.lit "*       ", .itemLen "input_ws", .lit " inputs: [(", .itemFirst "input_ws", .lit "), ...]\n"])), (.base (.addN "tot_inputs" (.itemLen "input_ws")))])]),
   (.base (.base (.base (.addS "info" [.lit "*   ", .nv "tot_inputs", .lit " inputs in ", .nv "tot_input_lists", .lit " input lists \n", .sv "input_info", .lit "*\n"])))),
   (.ifC (.netLenPos "explicit_inputs") [(.base (.base (.addS "info" [.lit "*   ", .netLen "explicit_inputs", .lit " explicit inputs (outside of input lists)\n"]))), (.forNet "explicit_inputs" false [(.base (.addS "info" [.lit "*     ", .itemText, .lit "\n"]))]), (.base (.base (.addS "info" [.lit "*\n"])))])]

/-! ### accessors, Nml -/

def Nml.Connection._get_cell_id (fs : FloatSem F) (self : Obj F) (id_string : Res F) : Res F :=
  (pIfElse fs (pIn ['['] id_string) (pInt fs (pIndex 0 (pSplit ']' (pIndex 1 (pSplit '[' id_string))))) (pInt fs (pIndex 2 (pSplit '/' id_string))))

def Nml.Connection.get_pre_cell_id (fs : FloatSem F) (self : Obj F) : Res F :=
  (pCall1 (Nml.Connection._get_cell_id fs self) (attr self "pre_cell_id"))

def Nml.Connection.get_post_cell_id (fs : FloatSem F) (self : Obj F) : Res F :=
  (pCall1 (Nml.Connection._get_cell_id fs self) (attr self "post_cell_id"))

def Nml.Connection.get_pre_segment_id (fs : FloatSem F) (self : Obj F) : Res F :=
  (pInt fs (attr self "pre_segment_id"))

def Nml.Connection.get_post_segment_id (fs : FloatSem F) (self : Obj F) : Res F :=
  (pInt fs (attr self "post_segment_id"))

def Nml.Connection.get_pre_fraction_along (fs : FloatSem F) (self : Obj F) : Res F :=
  (pFloat fs (attr self "pre_fraction_along"))

def Nml.Connection.get_post_fraction_along (fs : FloatSem F) (self : Obj F) : Res F :=
  (pFloat fs (attr self "post_fraction_along"))

def Nml.ConnectionWD._get_cell_id (fs : FloatSem F) (self : Obj F) (id_string : Res F) : Res F :=
  (pIfElse fs (pIn ['['] id_string) (pInt fs (pIndex 0 (pSplit ']' (pIndex 1 (pSplit '[' id_string))))) (pInt fs (pIndex 2 (pSplit '/' id_string))))

def Nml.ConnectionWD.get_pre_cell_id (fs : FloatSem F) (self : Obj F) : Res F :=
  (pCall1 (Nml.ConnectionWD._get_cell_id fs self) (attr self "pre_cell_id"))

def Nml.ConnectionWD.get_post_cell_id (fs : FloatSem F) (self : Obj F) : Res F :=
  (pCall1 (Nml.ConnectionWD._get_cell_id fs self) (attr self "post_cell_id"))

def Nml.ConnectionWD.get_pre_segment_id (fs : FloatSem F) (self : Obj F) : Res F :=
  (pInt fs (attr self "pre_segment_id"))

def Nml.ConnectionWD.get_post_segment_id (fs : FloatSem F) (self : Obj F) : Res F :=
  (pInt fs (attr self "post_segment_id"))

def Nml.ConnectionWD.get_pre_fraction_along (fs : FloatSem F) (self : Obj F) : Res F :=
  (pFloat fs (attr self "pre_fraction_along"))

def Nml.ConnectionWD.get_post_fraction_along (fs : FloatSem F) (self : Obj F) : Res F :=
  (pFloat fs (attr self "post_fraction_along"))

def Nml.ConnectionWD.get_delay_in_ms (fs : FloatSem F) (self : Obj F) : Res F :=
  (pIfElse fs (pIn ['m', 's'] (attr self "delay")) (pFloat fs (pStrip (pDropRight 2 (attr self "delay")))) (pIfElse fs (pIn ['s'] (attr self "delay")) (pMulF fs (pFloat fs (pStrip (pDropRight 1 (attr self "delay")))) fs.thousand) pnone))

def Nml.ElectricalConnection._get_cell_id (fs : FloatSem F) (self : Obj F) (id_string : Res F) : Res F :=
  (pInt fs (pFloat fs id_string))

def Nml.ElectricalConnection.get_pre_cell_id (fs : FloatSem F) (self : Obj F) : Res F :=
  (pCall1 (Nml.ElectricalConnection._get_cell_id fs self) (attr self "pre_cell"))

def Nml.ElectricalConnection.get_post_cell_id (fs : FloatSem F) (self : Obj F) : Res F :=
  (pCall1 (Nml.ElectricalConnection._get_cell_id fs self) (attr self "post_cell"))

def Nml.ElectricalConnection.get_pre_segment_id (fs : FloatSem F) (self : Obj F) : Res F :=
  (pInt fs (attr self "pre_segment"))

def Nml.ElectricalConnection.get_post_segment_id (fs : FloatSem F) (self : Obj F) : Res F :=
  (pInt fs (attr self "post_segment"))

def Nml.ElectricalConnection.get_pre_fraction_along (fs : FloatSem F) (self : Obj F) : Res F :=
  (pFloat fs (attr self "pre_fraction_along"))

def Nml.ElectricalConnection.get_post_fraction_along (fs : FloatSem F) (self : Obj F) : Res F :=
  (pFloat fs (attr self "post_fraction_along"))

def Nml.ElectricalConnectionInstance._get_cell_id (fs : FloatSem F) (self : Obj F) (id_string : Res F) : Res F :=
  (pIfElse fs (pIn ['['] id_string) (pInt fs (pIndex 0 (pSplit ']' (pIndex 1 (pSplit '[' id_string))))) (pInt fs (pIndex 2 (pSplit '/' id_string))))

def Nml.ElectricalConnectionInstance.get_pre_cell_id (fs : FloatSem F) (self : Obj F) : Res F :=
  (pCall1 (Nml.ElectricalConnectionInstance._get_cell_id fs self) (attr self "pre_cell"))

def Nml.ElectricalConnectionInstance.get_post_cell_id (fs : FloatSem F) (self : Obj F) : Res F :=
  (pCall1 (Nml.ElectricalConnectionInstance._get_cell_id fs self) (attr self "post_cell"))

def Nml.ElectricalConnectionInstance.get_pre_segment_id (fs : FloatSem F) (self : Obj F) : Res F :=
  (pInt fs (attr self "pre_segment"))

def Nml.ElectricalConnectionInstance.get_post_segment_id (fs : FloatSem F) (self : Obj F) : Res F :=
  (pInt fs (attr self "post_segment"))

def Nml.ElectricalConnectionInstance.get_pre_fraction_along (fs : FloatSem F) (self : Obj F) : Res F :=
  (pFloat fs (attr self "pre_fraction_along"))

def Nml.ElectricalConnectionInstance.get_post_fraction_along (fs : FloatSem F) (self : Obj F) : Res F :=
  (pFloat fs (attr self "post_fraction_along"))

def Nml.ElectricalConnectionInstanceW._get_cell_id (fs : FloatSem F) (self : Obj F) (id_string : Res F) : Res F :=
  (pIfElse fs (pIn ['['] id_string) (pInt fs (pIndex 0 (pSplit ']' (pIndex 1 (pSplit '[' id_string))))) (pInt fs (pIndex 2 (pSplit '/' id_string))))

def Nml.ElectricalConnectionInstanceW.get_pre_cell_id (fs : FloatSem F) (self : Obj F) : Res F :=
  (pCall1 (Nml.ElectricalConnectionInstanceW._get_cell_id fs self) (attr self "pre_cell"))

def Nml.ElectricalConnectionInstanceW.get_post_cell_id (fs : FloatSem F) (self : Obj F) : Res F :=
  (pCall1 (Nml.ElectricalConnectionInstanceW._get_cell_id fs self) (attr self "post_cell"))

def Nml.ElectricalConnectionInstanceW.get_pre_segment_id (fs : FloatSem F) (self : Obj F) : Res F :=
  (pInt fs (attr self "pre_segment"))

def Nml.ElectricalConnectionInstanceW.get_post_segment_id (fs : FloatSem F) (self : Obj F) : Res F :=
  (pInt fs (attr self "post_segment"))

def Nml.ElectricalConnectionInstanceW.get_pre_fraction_along (fs : FloatSem F) (self : Obj F) : Res F :=
  (pFloat fs (attr self "pre_fraction_along"))

def Nml.ElectricalConnectionInstanceW.get_post_fraction_along (fs : FloatSem F) (self : Obj F) : Res F :=
  (pFloat fs (attr self "post_fraction_along"))

def Nml.ElectricalConnectionInstanceW.get_weight (fs : FloatSem F) (self : Obj F) : Res F :=
  (pIfElse fs (pNeNone (attr self "weight")) (pFloat fs (attr self "weight")) (pnum fs.one))

def Nml.ContinuousConnection._get_cell_id (fs : FloatSem F) (self : Obj F) (id_string : Res F) : Res F :=
  (pInt fs (pFloat fs id_string))

def Nml.ContinuousConnection.get_pre_cell_id (fs : FloatSem F) (self : Obj F) : Res F :=
  (pCall1 (Nml.ContinuousConnection._get_cell_id fs self) (attr self "pre_cell"))

def Nml.ContinuousConnection.get_post_cell_id (fs : FloatSem F) (self : Obj F) : Res F :=
  (pCall1 (Nml.ContinuousConnection._get_cell_id fs self) (attr self "post_cell"))

def Nml.ContinuousConnection.get_pre_segment_id (fs : FloatSem F) (self : Obj F) : Res F :=
  (pInt fs (attr self "pre_segment"))

def Nml.ContinuousConnection.get_post_segment_id (fs : FloatSem F) (self : Obj F) : Res F :=
  (pInt fs (attr self "post_segment"))

def Nml.ContinuousConnection.get_pre_fraction_along (fs : FloatSem F) (self : Obj F) : Res F :=
  (pFloat fs (attr self "pre_fraction_along"))

def Nml.ContinuousConnection.get_post_fraction_along (fs : FloatSem F) (self : Obj F) : Res F :=
  (pFloat fs (attr self "post_fraction_along"))

def Nml.ContinuousConnectionInstance._get_cell_id (fs : FloatSem F) (self : Obj F) (id_string : Res F) : Res F :=
  (pIfElse fs (pIn ['['] id_string) (pInt fs (pIndex 0 (pSplit ']' (pIndex 1 (pSplit '[' id_string))))) (pInt fs (pIndex 2 (pSplit '/' id_string))))

def Nml.ContinuousConnectionInstance.get_pre_cell_id (fs : FloatSem F) (self : Obj F) : Res F :=
  (pCall1 (Nml.ContinuousConnectionInstance._get_cell_id fs self) (attr self "pre_cell"))

def Nml.ContinuousConnectionInstance.get_post_cell_id (fs : FloatSem F) (self : Obj F) : Res F :=
  (pCall1 (Nml.ContinuousConnectionInstance._get_cell_id fs self) (attr self "post_cell"))

def Nml.ContinuousConnectionInstance.get_pre_segment_id (fs : FloatSem F) (self : Obj F) : Res F :=
  (pInt fs (attr self "pre_segment"))

def Nml.ContinuousConnectionInstance.get_post_segment_id (fs : FloatSem F) (self : Obj F) : Res F :=
  (pInt fs (attr self "post_segment"))

def Nml.ContinuousConnectionInstance.get_pre_fraction_along (fs : FloatSem F) (self : Obj F) : Res F :=
  (pFloat fs (attr self "pre_fraction_along"))

def Nml.ContinuousConnectionInstance.get_post_fraction_along (fs : FloatSem F) (self : Obj F) : Res F :=
  (pFloat fs (attr self "post_fraction_along"))

def Nml.ContinuousConnectionInstanceW._get_cell_id (fs : FloatSem F) (self : Obj F) (id_string : Res F) : Res F :=
  (pIfElse fs (pIn ['['] id_string) (pInt fs (pIndex 0 (pSplit ']' (pIndex 1 (pSplit '[' id_string))))) (pInt fs (pIndex 2 (pSplit '/' id_string))))

def Nml.ContinuousConnectionInstanceW.get_pre_cell_id (fs : FloatSem F) (self : Obj F) : Res F :=
  (pCall1 (Nml.ContinuousConnectionInstanceW._get_cell_id fs self) (attr self "pre_cell"))

def Nml.ContinuousConnectionInstanceW.get_post_cell_id (fs : FloatSem F) (self : Obj F) : Res F :=
  (pCall1 (Nml.ContinuousConnectionInstanceW._get_cell_id fs self) (attr self "post_cell"))

def Nml.ContinuousConnectionInstanceW.get_pre_segment_id (fs : FloatSem F) (self : Obj F) : Res F :=
  (pInt fs (attr self "pre_segment"))

def Nml.ContinuousConnectionInstanceW.get_post_segment_id (fs : FloatSem F) (self : Obj F) : Res F :=
  (pInt fs (attr self "post_segment"))

def Nml.ContinuousConnectionInstanceW.get_pre_fraction_along (fs : FloatSem F) (self : Obj F) : Res F :=
  (pFloat fs (attr self "pre_fraction_along"))

def Nml.ContinuousConnectionInstanceW.get_post_fraction_along (fs : FloatSem F) (self : Obj F) : Res F :=
  (pFloat fs (attr self "post_fraction_along"))

def Nml.ContinuousConnectionInstanceW.get_weight (fs : FloatSem F) (self : Obj F) : Res F :=
  (pIfElse fs (pNeNone (attr self "weight")) (pFloat fs (attr self "weight")) (pnum fs.one))

def Nml.Input._get_cell_id (fs : FloatSem F) (self : Obj F) (id_string : Res F) : Res F :=
  (pIfElse fs (pIn ['['] id_string) (pInt fs (pIndex 0 (pSplit ']' (pIndex 1 (pSplit '[' id_string))))) (pInt fs (pIndex 2 (pSplit '/' id_string))))

def Nml.Input.get_target_cell_id (fs : FloatSem F) (self : Obj F) : Res F :=
  (pCall1 (Nml.Input._get_cell_id fs self) (attr self "target"))

def Nml.Input.get_segment_id (fs : FloatSem F) (self : Obj F) : Res F :=
  (pIfElse fs (pIsNotNone (attr self "segment_id")) (pInt fs (attr self "segment_id")) (pint 0))

def Nml.Input.get_fraction_along (fs : FloatSem F) (self : Obj F) : Res F :=
  (pIfElse fs (pIsNotNone (attr self "fraction_along")) (pFloat fs (attr self "fraction_along")) (pnum fs.half))

def Nml.InputW._get_cell_id (fs : FloatSem F) (self : Obj F) (id_string : Res F) : Res F :=
  (pIfElse fs (pIn ['['] id_string) (pInt fs (pIndex 0 (pSplit ']' (pIndex 1 (pSplit '[' id_string))))) (pInt fs (pIndex 2 (pSplit '/' id_string))))

def Nml.InputW.get_weight (fs : FloatSem F) (self : Obj F) : Res F :=
  (pIfElse fs (pNeNone (attr self "weight")) (pFloat fs (attr self "weight")) (pnum fs.one))

def Nml.InputW.get_target_cell_id (fs : FloatSem F) (self : Obj F) : Res F :=
  (pCall1 (Nml.InputW._get_cell_id fs self) (attr self "target"))

def Nml.InputW.get_segment_id (fs : FloatSem F) (self : Obj F) : Res F :=
  (pIfElse fs (pIsNotNone (attr self "segment_id")) (pInt fs (attr self "segment_id")) (pint 0))

def Nml.InputW.get_fraction_along (fs : FloatSem F) (self : Obj F) : Res F :=
  (pIfElse fs (pIsNotNone (attr self "fraction_along")) (pFloat fs (attr self "fraction_along")) (pnum fs.half))

def Nml.ExplicitInput._get_cell_id (fs : FloatSem F) (self : Obj F) (id_string : Res F) : Res F :=
  (pIfElse fs (pIn ['['] id_string) (pInt fs (pIndex 0 (pSplit ']' (pIndex 1 (pSplit '[' id_string))))) (pInt fs (pIndex 2 (pSplit '/' id_string))))

def Nml.ExplicitInput.get_target_cell_id (fs : FloatSem F) (self : Obj F) : Res F :=
  (pIfElse fs (pIn ['['] (attr self "target")) (pInt fs (pIndex 0 (pSplit ']' (pIndex 1 (pSplit '[' (attr self "target")))))) (pInt fs (pIndex 2 (pSplit '/' (attr self "target")))))

def Nml.ExplicitInput.get_segment_id (fs : FloatSem F) (self : Obj F) : Res F :=
  (pint 0)

def Nml.ExplicitInput.get_fraction_along (fs : FloatSem F) (self : Obj F) : Res F :=
  (pnum fs.half)

def Nml.SynapticConnection._get_cell_id (fs : FloatSem F) (self : Obj F) (ref : Res F) : Res F :=
  (pIfElse fs (pIn ['['] ref) (pInt fs (pIndex 0 (pSplit ']' (pIndex 1 (pSplit '[' ref))))) (pInt fs (pIndex 2 (pSplit '/' ref))))

def Nml.Population.get_size (fs : FloatSem F) (self : Obj F) : Res F :=
  (pIfElse fs (pGtInt 0 (pLen (attr self "instances"))) (pLen (attr self "instances")) (pIfElse fs (attr self "size") (attr self "size") (pint 0)))

def Nml.index : List (String × List String) :=
  [("Connection", ["_get_cell_id", "get_pre_cell_id", "get_post_cell_id", "get_pre_segment_id", "get_post_segment_id", "get_pre_fraction_along", "get_post_fraction_along"]),
   ("ConnectionWD", ["_get_cell_id", "get_pre_cell_id", "get_post_cell_id", "get_pre_segment_id", "get_post_segment_id", "get_pre_fraction_along", "get_post_fraction_along", "get_delay_in_ms"]),
   ("ElectricalConnection", ["_get_cell_id", "get_pre_cell_id", "get_post_cell_id", "get_pre_segment_id", "get_post_segment_id", "get_pre_fraction_along", "get_post_fraction_along"]),
   ("ElectricalConnectionInstance", ["_get_cell_id", "get_pre_cell_id", "get_post_cell_id", "get_pre_segment_id", "get_post_segment_id", "get_pre_fraction_along", "get_post_fraction_along"]),
   ("ElectricalConnectionInstanceW", ["_get_cell_id", "get_pre_cell_id", "get_post_cell_id", "get_pre_segment_id", "get_post_segment_id", "get_pre_fraction_along", "get_post_fraction_along", "get_weight"]),
   ("ContinuousConnection", ["_get_cell_id", "get_pre_cell_id", "get_post_cell_id", "get_pre_segment_id", "get_post_segment_id", "get_pre_fraction_along", "get_post_fraction_along"]),
   ("ContinuousConnectionInstance", ["_get_cell_id", "get_pre_cell_id", "get_post_cell_id", "get_pre_segment_id", "get_post_segment_id", "get_pre_fraction_along", "get_post_fraction_along"]),
   ("ContinuousConnectionInstanceW", ["_get_cell_id", "get_pre_cell_id", "get_post_cell_id", "get_pre_segment_id", "get_post_segment_id", "get_pre_fraction_along", "get_post_fraction_along", "get_weight"]),
   ("Input", ["_get_cell_id", "get_target_cell_id", "get_segment_id", "get_fraction_along"]),
   ("InputW", ["_get_cell_id", "get_weight", "get_target_cell_id", "get_segment_id", "get_fraction_along"]),
   ("ExplicitInput", ["_get_cell_id", "get_target_cell_id", "get_segment_id", "get_fraction_along"]),
   ("SynapticConnection", ["_get_cell_id"]),
   ("Population", ["get_size"])]

def Nml.summaryTable : List Add :=
  [⟨"populations", .pops, .one⟩,
   ⟨"populations", .cells, .size⟩,
   ⟨"projections", .projs, .one⟩,
   ⟨"projections", .conns, .len "connections"⟩,
   ⟨"projections", .conns, .len "connection_wds"⟩,
   ⟨"electrical_projections", .projs, .one⟩,
   ⟨"electrical_projections", .conns, .len "electrical_connections"⟩,
   ⟨"electrical_projections", .conns, .len "electrical_connection_instances"⟩,
   ⟨"electrical_projections", .conns, .len "electrical_connection_instance_ws"⟩,
   ⟨"continuous_projections", .projs, .one⟩,
   ⟨"continuous_projections", .conns, .len "continuous_connections"⟩,
   ⟨"continuous_projections", .conns, .len "continuous_connection_instances"⟩,
   ⟨"continuous_projections", .conns, .len "continuous_connection_instance_ws"⟩,
   ⟨"input_lists", .inputLists, .one⟩,
   ⟨"input_lists", .inputs, .lenIfPos "input"⟩,
   ⟨"input_lists", .inputs, .lenIfPos "input_ws"⟩]

def Nml.summaryLines : List (List Seg) :=
  [[.lit "*   ", .tot .cells, .lit " cells in ", .tot .pops, .lit " populations "],
   [.lit "*   ", .tot .conns, .lit " connections in ", .tot .projs, .lit " projections "],
   [.lit "*   ", .tot .inputs, .lit " inputs in ", .tot .inputLists, .lit " input lists "]]

/-- the body of `for network in self.networks:` of `summary` (Nml) -/
def Nml.netProg : List Summ.L3 :=
  [(.base (.base (.base (.addS "info" [.lit "*  Network: ", .netS "id"])))),
   (.ifC (.netTruthy "temperature") [(.base (.base (.addS "info" [.lit " (temperature: ", .netS "temperature", .lit ")"])))]),
   (.base (.base (.base (.addS "info" [.lit "\n*\n"])))),
   (.base (.base (.base (.setN "tot_pop" 0)))),
   (.base (.base (.base (.setN "tot_cells" 0)))),
   (.base (.base (.base (.setS "pop_info" "")))),
   (.forNet "populations" true [(.base (.base (.addS "pop_info" [.lit "*     ", .itemText, .lit "\n"]))), (.base (.base (.addN "tot_pop" .one))), (.base (.base (.addN "tot_cells" .itemSize))), (.ifC (.itemLenPos "instances") [(.base (.addS "pop_info" [.lit "*       Locations: [", .itemFirstObj "instances" "location", .lit ", ...]\n"]))]), (.ifC (.itemLenPos "properties") [(.base (.addS "pop_info" [.lit "*       Properties: "])), (.forItem "properties" [(.addS "pop_info" [.leafStr "tag", .lit "=", .leafStr "value", .lit "; "])]), (.base (.addS "pop_info" [.lit "\n"]))])]),
   (.base (.base (.base (.addS "info" [.lit "*   ", .nv "tot_cells", .lit " cells in ", .nv "tot_pop", .lit " populations \n", .sv "pop_info", .lit "*\n"])))),
   (.base (.base (.base (.setN "tot_proj" 0)))),
   (.base (.base (.base (.setN "tot_conns" 0)))),
   (.base (.base (.base (.setS "proj_info" "")))),
   (.forNet "projections" true [(.base (.base (.addS "proj_info" [.lit "*     ", .itemText, .lit "\n"]))), (.base (.base (.addN "tot_proj" .one))), (.base (.base (.addN "tot_conns" (.itemLen "connections")))), (.base (.base (.addN "tot_conns" (.itemLen "connection_wds")))), (.ifC (.itemLenPos "connections") [(.base (.addS "proj_info" [.lit "*       ", .itemLen "connections", .lit " connections: [(", .itemFirst "connections", .lit "), ...]\n"]))]), (.ifC (.itemLenPos "connection_wds") [(.base (.addS "proj_info" [.lit "*       ", .itemLen "connection_wds", .lit " connections (wd): [(", .itemFirst "connection_wds", .lit "), ...]\n"]))])]),
   (.forNet "electrical_projections" true [(.base (.base (.addS "proj_info" [.lit "*     Electrical projection: ", .itemS "id", .lit " from ", .itemS "presynaptic_population", .lit " to ", .itemS "postsynaptic_population", .lit "\n"]))), (.base (.base (.addN "tot_proj" .one))), (.base (.base (.addN "tot_conns" (.itemLen "electrical_connections")))), (.base (.base (.addN "tot_conns" (.itemLen "electrical_connection_instances")))), (.base (.base (.addN "tot_conns" (.itemLen "electrical_connection_instance_ws")))), (.ifC (.itemLenPos "electrical_connections") [(.base (.addS "proj_info" [.lit "*       ", .itemLen "electrical_connections", .lit " connections: [(", .itemFirst "electrical_connections", .lit "), ...]\n"]))]), (.ifC (.itemLenPos "electrical_connection_instances") [(.base (.addS "proj_info" [.lit "*       ", .itemLen "electrical_connection_instances", .lit " connections: [(", .itemFirst "electrical_connection_instances", .lit "), ...]\n"]))]), (.ifC (.itemLenPos "electrical_connection_instance_ws") [(.base (.addS "proj_info" [.lit "*       ", .itemLen "electrical_connection_instance_ws", .lit " connections: [(", .itemFirst "electrical_connection_instance_ws", .lit "), ...]\n"]))])]),
   (.forNet "continuous_projections" true [(.base (.base (.addS "proj_info" [.lit "*     Continuous projection: ", .itemS "id", .lit " from ", .itemS "presynaptic_population", .lit " to ", .itemS "postsynaptic_population", .lit "\n"]))), (.base (.base (.addN "tot_proj" .one))), (.base (.base (.addN "tot_conns" (.itemLen "continuous_connections")))), (.base (.base (.addN "tot_conns" (.itemLen "continuous_connection_instances")))), (.base (.base (.addN "tot_conns" (.itemLen "continuous_connection_instance_ws")))), (.ifC (.itemLenPos "continuous_connections") [(.base (.addS "proj_info" [.lit "*       ", .itemLen "continuous_connections", .lit " connections: [(", .itemFirst "continuous_connections", .lit "), ...]\n"]))]), (.ifC (.itemLenPos "continuous_connection_instances") [(.base (.addS "proj_info" [.lit "*       ", .itemLen "continuous_connection_instances", .lit " connections: [(", .itemFirst "continuous_connection_instances", .lit "), ...]\n"]))]), (.ifC (.itemLenPos "continuous_connection_instance_ws") [(.base (.addS "proj_info" [.lit "*       ", .itemLen "continuous_connection_instance_ws", .lit " connections (w): [(", .itemFirst "continuous_connection_instance_ws", .lit "), ...]\n"]))])]),
   (.base (.base (.base (.addS "info" [.lit "*   ", .nv "tot_conns", .lit " connections in ", .nv "tot_proj", .lit " projections \n", .sv "proj_info", .lit "*\n"])))),
   (.ifC (.netLenPos "synaptic_connections") [(.base (.base (.addS "info" [.lit "*   ", .netLen "synaptic_connections", .lit " explicit synaptic connections (outside of projections)\n"]))), (.forNet "synaptic_connections" false [(.base (.addS "info" [.lit "*     ", .itemText, .lit "\n"]))]), (.base (.base (.addS "info" [.lit "*\n"])))]),
   (.base (.base (.base (.setN "tot_input_lists" 0)))),
   (.base (.base (.base (.setN "tot_inputs" 0)))),
   (.base (.base (.base (.setS "input_info" "")))),
   (.forNet "input_lists" true [(.base (.base (.addS "input_info" [.lit "*     ", .itemText, .lit "\n"]))), (.base (.base (.addN "tot_input_lists" .one))), (.ifC (.itemLenPos "input") [(.base (.addS "input_info" [.lit "*       ", .itemLen "input", .lit " inputs: [(", .itemFirst "input", .lit "), ...]\n"])), (.base (.addN "tot_inputs" (.itemLen "input")))]), (.ifC (.itemLenPos "input_ws") [(.base (.addS "input_info" [.lit "*       ", .itemLen "input_ws", .lit " inputs: [(", .itemFirst "input_ws", .lit "), ...]\n"])), (.base (.addN "tot_inputs" (.itemLen "input_ws")))])]),
   (.base (.base (.base (.addS "info" [.lit "*   ", .nv "tot_inputs", .lit " inputs in ", .nv "tot_input_lists", .lit " input lists \n", .sv "input_info", .lit "*\n"])))),
   (.ifC (.netLenPos "explicit_inputs") [(.base (.base (.addS "info" [.lit "*   ", .netLen "explicit_inputs", .lit " explicit inputs (outside of input lists)\n"]))), (.forNet "explicit_inputs" false [(.base (.addS "info" [.lit "*     ", .itemText, .lit "\n"]))]), (.base (.base (.addS "info" [.lit "*\n"])))])]

/-! ### constructors (nml.py) -/

def Nml.Connection.fields : List CtorField :=
  [⟨"pre_cell_id", .asIs, .none⟩,
   ⟨"pre_segment_id", .toInt, (.str ['0'])⟩,
   ⟨"pre_fraction_along", .toFloat, (.str ['0', '.', '5'])⟩,
   ⟨"post_cell_id", .asIs, .none⟩,
   ⟨"post_segment_id", .toInt, (.str ['0'])⟩,
   ⟨"post_fraction_along", .toFloat, (.str ['0', '.', '5'])⟩]

def Nml.ConnectionWD.fields : List CtorField :=
  [⟨"pre_cell_id", .asIs, .none⟩,
   ⟨"pre_segment_id", .toInt, (.str ['0'])⟩,
   ⟨"pre_fraction_along", .toFloat, (.str ['0', '.', '5'])⟩,
   ⟨"post_cell_id", .asIs, .none⟩,
   ⟨"post_segment_id", .toInt, (.str ['0'])⟩,
   ⟨"post_fraction_along", .toFloat, (.str ['0', '.', '5'])⟩,
   ⟨"weight", .toFloat, .none⟩,
   ⟨"delay", .asIs, .none⟩]

def Nml.ElectricalConnection.fields : List CtorField :=
  [⟨"pre_cell", .asIs, .none⟩,
   ⟨"pre_segment", .toInt, (.str ['0'])⟩,
   ⟨"pre_fraction_along", .toFloat, (.str ['0', '.', '5'])⟩,
   ⟨"post_cell", .asIs, .none⟩,
   ⟨"post_segment", .toInt, (.str ['0'])⟩,
   ⟨"post_fraction_along", .toFloat, (.str ['0', '.', '5'])⟩]

def Nml.ElectricalConnectionInstance.fields : List CtorField :=
  [⟨"pre_cell", .asIs, .none⟩,
   ⟨"pre_segment", .toInt, (.str ['0'])⟩,
   ⟨"pre_fraction_along", .toFloat, (.str ['0', '.', '5'])⟩,
   ⟨"post_cell", .asIs, .none⟩,
   ⟨"post_segment", .toInt, (.str ['0'])⟩,
   ⟨"post_fraction_along", .toFloat, (.str ['0', '.', '5'])⟩]

def Nml.ElectricalConnectionInstanceW.fields : List CtorField :=
  [⟨"pre_cell", .asIs, .none⟩,
   ⟨"pre_segment", .toInt, (.str ['0'])⟩,
   ⟨"pre_fraction_along", .toFloat, (.str ['0', '.', '5'])⟩,
   ⟨"post_cell", .asIs, .none⟩,
   ⟨"post_segment", .toInt, (.str ['0'])⟩,
   ⟨"post_fraction_along", .toFloat, (.str ['0', '.', '5'])⟩,
   ⟨"weight", .toFloat, .none⟩]

def Nml.ContinuousConnection.fields : List CtorField :=
  [⟨"pre_cell", .asIs, .none⟩,
   ⟨"pre_segment", .toInt, (.str ['0'])⟩,
   ⟨"pre_fraction_along", .toFloat, (.str ['0', '.', '5'])⟩,
   ⟨"post_cell", .asIs, .none⟩,
   ⟨"post_segment", .toInt, (.str ['0'])⟩,
   ⟨"post_fraction_along", .toFloat, (.str ['0', '.', '5'])⟩]

def Nml.ContinuousConnectionInstance.fields : List CtorField :=
  [⟨"pre_cell", .asIs, .none⟩,
   ⟨"pre_segment", .toInt, (.str ['0'])⟩,
   ⟨"pre_fraction_along", .toFloat, (.str ['0', '.', '5'])⟩,
   ⟨"post_cell", .asIs, .none⟩,
   ⟨"post_segment", .toInt, (.str ['0'])⟩,
   ⟨"post_fraction_along", .toFloat, (.str ['0', '.', '5'])⟩]

def Nml.ContinuousConnectionInstanceW.fields : List CtorField :=
  [⟨"pre_cell", .asIs, .none⟩,
   ⟨"pre_segment", .toInt, (.str ['0'])⟩,
   ⟨"pre_fraction_along", .toFloat, (.str ['0', '.', '5'])⟩,
   ⟨"post_cell", .asIs, .none⟩,
   ⟨"post_segment", .toInt, (.str ['0'])⟩,
   ⟨"post_fraction_along", .toFloat, (.str ['0', '.', '5'])⟩,
   ⟨"weight", .toFloat, .none⟩]

def Nml.Input.fields : List CtorField :=
  [⟨"target", .asIs, .none⟩,
   ⟨"segment_id", .toInt, .none⟩,
   ⟨"fraction_along", .toFloat, .none⟩]

def Nml.InputW.fields : List CtorField :=
  [⟨"target", .asIs, .none⟩,
   ⟨"segment_id", .toInt, .none⟩,
   ⟨"fraction_along", .toFloat, .none⟩,
   ⟨"weight", .toFloat, .none⟩]

def Nml.ExplicitInput.fields : List CtorField :=
  [⟨"target", .asIs, .none⟩]

def Nml.SynapticConnection.fields : List CtorField :=
  [⟨"from_", .asIs, .none⟩,
   ⟨"to", .asIs, .none⟩]

def Nml.Population.fields : List CtorField :=
  [⟨"size", .toInt, .none⟩]

def XmlParser.NeuroMLXMLParser._parse_delay (fs : FloatSem F) (self : Obj F) (delay_string : Res F) : Res F :=
  (pIfElse fs (pEndsWith ['m', 's'] delay_string) (pFloat fs (pStrip (pDropRight 2 delay_string))) (pIfElse fs (pEndsWith ['s'] delay_string) (pMulF fs (pFloat fs (pStrip (pDropRight 1 delay_string))) fs.thousand) pexit))

/-! ### schema patterns (NeuroML_v2.3.1.xsd and nml.py), parsed by Python's `re._parser` -/

/-- Xsd `-?([0-9]*(\.[0-9]+)?)([eE]-?[0-9]+)?[\s]*(s|ms)` -/
def Xsd.timeRx : Rx.Rx :=
  (.seq (Rx.Rx.opt (Rx.Rx.chr '-')) (.seq (.seq (.star (.set ⟨[(48, 57)], false⟩)) (Rx.Rx.opt (.seq (Rx.Rx.chr '.') (Rx.Rx.plus (.set ⟨[(48, 57)], false⟩))))) (.seq (Rx.Rx.opt (.seq (.set ⟨[(101, 101), (69, 69)], false⟩) (.seq (Rx.Rx.opt (Rx.Rx.chr '-')) (Rx.Rx.plus (.set ⟨[(48, 57)], false⟩))))) (.seq (.star (.set ⟨[], true⟩)) (.alt (Rx.Rx.chr 's') (.seq (Rx.Rx.chr 'm') (Rx.Rx.chr 's')))))))

/-- Xsd `(\.\./)?([a-zA-Z_][a-zA-Z0-9_]*)((\[[0-9]+\])|(/[0-9]+)+((/[a-zA-Z_][a-zA-Z0-9_]*)?)/?)` -/
def Xsd.refRx : Rx.Rx :=
  (.seq (Rx.Rx.opt (.seq (Rx.Rx.chr '.') (.seq (Rx.Rx.chr '.') (Rx.Rx.chr '/')))) (.seq (.seq (.set ⟨[(97, 122), (65, 90), (95, 95)], false⟩) (.star (.set ⟨[(97, 122), (65, 90), (48, 57), (95, 95)], false⟩))) (.alt (.seq (Rx.Rx.chr '[') (.seq (Rx.Rx.plus (.set ⟨[(48, 57)], false⟩)) (Rx.Rx.chr ']'))) (.seq (Rx.Rx.plus (.seq (Rx.Rx.chr '/') (Rx.Rx.plus (.set ⟨[(48, 57)], false⟩)))) (.seq (Rx.Rx.opt (.seq (Rx.Rx.chr '/') (.seq (.set ⟨[(97, 122), (65, 90), (95, 95)], false⟩) (.star (.set ⟨[(97, 122), (65, 90), (48, 57), (95, 95)], false⟩))))) (Rx.Rx.opt (Rx.Rx.chr '/')))))))

/-- Xsd `[a-zA-Z_][a-zA-Z0-9_]*` -/
def Xsd.nmlIdRx : Rx.Rx :=
  (.seq (.set ⟨[(97, 122), (65, 90), (95, 95)], false⟩) (.star (.set ⟨[(97, 122), (65, 90), (48, 57), (95, 95)], false⟩)))

/-- Nml `^(-?([0-9]*(\.[0-9]+)?)([eE]-?[0-9]+)?[\s]*(s|ms))$` -/
def Nml.timeRx : Rx.Rx :=
  (.seq (Rx.Rx.opt (Rx.Rx.chr '-')) (.seq (.seq (.star (.set ⟨[(48, 57)], false⟩)) (Rx.Rx.opt (.seq (Rx.Rx.chr '.') (Rx.Rx.plus (.set ⟨[(48, 57)], false⟩))))) (.seq (Rx.Rx.opt (.seq (.set ⟨[(101, 101), (69, 69)], false⟩) (.seq (Rx.Rx.opt (Rx.Rx.chr '-')) (Rx.Rx.plus (.set ⟨[(48, 57)], false⟩))))) (.seq (.star (.set ⟨[], true⟩)) (.alt (Rx.Rx.chr 's') (.seq (Rx.Rx.chr 'm') (Rx.Rx.chr 's')))))))

/-- Nml `^((\.\./)?([a-zA-Z_][a-zA-Z0-9_]*)((\[[0-9]+\])|(/[0-9]+)+((/[a-zA-Z_][a-zA-Z0-9_]*)?)/?))$` -/
def Nml.refRx : Rx.Rx :=
  (.seq (Rx.Rx.opt (.seq (Rx.Rx.chr '.') (.seq (Rx.Rx.chr '.') (Rx.Rx.chr '/')))) (.seq (.seq (.set ⟨[(97, 122), (65, 90), (95, 95)], false⟩) (.star (.set ⟨[(97, 122), (65, 90), (48, 57), (95, 95)], false⟩))) (.alt (.seq (Rx.Rx.chr '[') (.seq (Rx.Rx.plus (.set ⟨[(48, 57)], false⟩)) (Rx.Rx.chr ']'))) (.seq (Rx.Rx.plus (.seq (Rx.Rx.chr '/') (Rx.Rx.plus (.set ⟨[(48, 57)], false⟩)))) (.seq (Rx.Rx.opt (.seq (Rx.Rx.chr '/') (.seq (.set ⟨[(97, 122), (65, 90), (95, 95)], false⟩) (.star (.set ⟨[(97, 122), (65, 90), (48, 57), (95, 95)], false⟩))))) (Rx.Rx.opt (Rx.Rx.chr '/')))))))

/-- Nml `^([a-zA-Z_][a-zA-Z0-9_]*)$` -/
def Nml.nmlIdRx : Rx.Rx :=
  (.seq (.set ⟨[(97, 122), (65, 90), (95, 95)], false⟩) (.star (.set ⟨[(97, 122), (65, 90), (48, 57), (95, 95)], false⟩)))

end NmlVerif.Acc.Gen
