import NmlVerif.Model.Accessors
/-! GENERATED on every check run by harness/props/c19.py (regenerate) from the Python AST of
    neuroml/nml/helper_methods.py, neuroml/nml/nml.py and neuroml/hdf5/NeuroMLXMLParser.py. Do not edit. -/
set_option linter.unusedVariables false
namespace NmlVerif.Acc.Gen
variable {F : Type}

/-! ### accessors, Helper -/

def Helper.Connection._get_cell_id (fs : FloatSem F) (self : Obj F) (id_string : Res F) : Res F :=
  (pIfElse fs (pIn ['['] id_string) (pInt fs (pIndex 0 (pSplit ']' (pIndex 1 (pSplit '[' id_string))))) (pInt fs (pIndex 2 (pSplit '/' id_string))))

def Helper.Connection.get_pre_cell_id (fs : FloatSem F) (self : Obj F) : Res F :=
  (pCall1 (Helper.Connection._get_cell_id fs self) (attr self "pre_cell_id"))

def Helper.Connection.get_post_cell_id (fs : FloatSem F) (self : Obj F) : Res F :=
  (pCall1 (Helper.Connection._get_cell_id fs self) (attr self "post_cell_id"))

def Helper.Connection.get_pre_segment_id (fs : FloatSem F) (self : Obj F) : Res F :=
  (pInt fs (attr self "pre_segment_id"))

def Helper.Connection.get_post_segment_id (fs : FloatSem F) (self : Obj F) : Res F :=
  (pInt fs (attr self "post_segment_id"))

def Helper.Connection.get_pre_fraction_along (fs : FloatSem F) (self : Obj F) : Res F :=
  (pFloat fs (attr self "pre_fraction_along"))

def Helper.Connection.get_post_fraction_along (fs : FloatSem F) (self : Obj F) : Res F :=
  (pFloat fs (attr self "post_fraction_along"))

def Helper.ConnectionWD._get_cell_id (fs : FloatSem F) (self : Obj F) (id_string : Res F) : Res F :=
  (pIfElse fs (pIn ['['] id_string) (pInt fs (pIndex 0 (pSplit ']' (pIndex 1 (pSplit '[' id_string))))) (pInt fs (pIndex 2 (pSplit '/' id_string))))

def Helper.ConnectionWD.get_pre_cell_id (fs : FloatSem F) (self : Obj F) : Res F :=
  (pCall1 (Helper.ConnectionWD._get_cell_id fs self) (attr self "pre_cell_id"))

def Helper.ConnectionWD.get_post_cell_id (fs : FloatSem F) (self : Obj F) : Res F :=
  (pCall1 (Helper.ConnectionWD._get_cell_id fs self) (attr self "post_cell_id"))

def Helper.ConnectionWD.get_pre_segment_id (fs : FloatSem F) (self : Obj F) : Res F :=
  (pInt fs (attr self "pre_segment_id"))

def Helper.ConnectionWD.get_post_segment_id (fs : FloatSem F) (self : Obj F) : Res F :=
  (pInt fs (attr self "post_segment_id"))

def Helper.ConnectionWD.get_pre_fraction_along (fs : FloatSem F) (self : Obj F) : Res F :=
  (pFloat fs (attr self "pre_fraction_along"))

def Helper.ConnectionWD.get_post_fraction_along (fs : FloatSem F) (self : Obj F) : Res F :=
  (pFloat fs (attr self "post_fraction_along"))

def Helper.ConnectionWD.get_delay_in_ms (fs : FloatSem F) (self : Obj F) : Res F :=
  (pIfElse fs (pIn ['m', 's'] (attr self "delay")) (pFloat fs (pStrip (pDropRight 2 (attr self "delay")))) (pIfElse fs (pIn ['s'] (attr self "delay")) (pMulF fs (pFloat fs (pStrip (pDropRight 1 (attr self "delay")))) fs.thousand) pnone))

def Helper.ElectricalConnection._get_cell_id (fs : FloatSem F) (self : Obj F) (id_string : Res F) : Res F :=
  (pInt fs (pFloat fs id_string))

def Helper.ElectricalConnection.get_pre_cell_id (fs : FloatSem F) (self : Obj F) : Res F :=
  (pCall1 (Helper.ElectricalConnection._get_cell_id fs self) (attr self "pre_cell"))

def Helper.ElectricalConnection.get_post_cell_id (fs : FloatSem F) (self : Obj F) : Res F :=
  (pCall1 (Helper.ElectricalConnection._get_cell_id fs self) (attr self "post_cell"))

def Helper.ElectricalConnection.get_pre_segment_id (fs : FloatSem F) (self : Obj F) : Res F :=
  (pInt fs (attr self "pre_segment"))

def Helper.ElectricalConnection.get_post_segment_id (fs : FloatSem F) (self : Obj F) : Res F :=
  (pInt fs (attr self "post_segment"))

def Helper.ElectricalConnection.get_pre_fraction_along (fs : FloatSem F) (self : Obj F) : Res F :=
  (pFloat fs (attr self "pre_fraction_along"))

def Helper.ElectricalConnection.get_post_fraction_along (fs : FloatSem F) (self : Obj F) : Res F :=
  (pFloat fs (attr self "post_fraction_along"))

def Helper.ElectricalConnectionInstance._get_cell_id (fs : FloatSem F) (self : Obj F) (id_string : Res F) : Res F :=
  (pIfElse fs (pIn ['['] id_string) (pInt fs (pIndex 0 (pSplit ']' (pIndex 1 (pSplit '[' id_string))))) (pInt fs (pIndex 2 (pSplit '/' id_string))))

def Helper.ElectricalConnectionInstance.get_pre_cell_id (fs : FloatSem F) (self : Obj F) : Res F :=
  (pCall1 (Helper.ElectricalConnectionInstance._get_cell_id fs self) (attr self "pre_cell"))

def Helper.ElectricalConnectionInstance.get_post_cell_id (fs : FloatSem F) (self : Obj F) : Res F :=
  (pCall1 (Helper.ElectricalConnectionInstance._get_cell_id fs self) (attr self "post_cell"))

def Helper.ElectricalConnectionInstance.get_pre_segment_id (fs : FloatSem F) (self : Obj F) : Res F :=
  (pInt fs (attr self "pre_segment"))

def Helper.ElectricalConnectionInstance.get_post_segment_id (fs : FloatSem F) (self : Obj F) : Res F :=
  (pInt fs (attr self "post_segment"))

def Helper.ElectricalConnectionInstance.get_pre_fraction_along (fs : FloatSem F) (self : Obj F) : Res F :=
  (pFloat fs (attr self "pre_fraction_along"))

def Helper.ElectricalConnectionInstance.get_post_fraction_along (fs : FloatSem F) (self : Obj F) : Res F :=
  (pFloat fs (attr self "post_fraction_along"))

def Helper.ElectricalConnectionInstanceW._get_cell_id (fs : FloatSem F) (self : Obj F) (id_string : Res F) : Res F :=
  (pIfElse fs (pIn ['['] id_string) (pInt fs (pIndex 0 (pSplit ']' (pIndex 1 (pSplit '[' id_string))))) (pInt fs (pIndex 2 (pSplit '/' id_string))))

def Helper.ElectricalConnectionInstanceW.get_pre_cell_id (fs : FloatSem F) (self : Obj F) : Res F :=
  (pCall1 (Helper.ElectricalConnectionInstanceW._get_cell_id fs self) (attr self "pre_cell"))

def Helper.ElectricalConnectionInstanceW.get_post_cell_id (fs : FloatSem F) (self : Obj F) : Res F :=
  (pCall1 (Helper.ElectricalConnectionInstanceW._get_cell_id fs self) (attr self "post_cell"))

def Helper.ElectricalConnectionInstanceW.get_pre_segment_id (fs : FloatSem F) (self : Obj F) : Res F :=
  (pInt fs (attr self "pre_segment"))

def Helper.ElectricalConnectionInstanceW.get_post_segment_id (fs : FloatSem F) (self : Obj F) : Res F :=
  (pInt fs (attr self "post_segment"))

def Helper.ElectricalConnectionInstanceW.get_pre_fraction_along (fs : FloatSem F) (self : Obj F) : Res F :=
  (pFloat fs (attr self "pre_fraction_along"))

def Helper.ElectricalConnectionInstanceW.get_post_fraction_along (fs : FloatSem F) (self : Obj F) : Res F :=
  (pFloat fs (attr self "post_fraction_along"))

def Helper.ElectricalConnectionInstanceW.get_weight (fs : FloatSem F) (self : Obj F) : Res F :=
  (pIfElse fs (pNeNone (attr self "weight")) (pFloat fs (attr self "weight")) (pnum fs.one))

def Helper.ContinuousConnection._get_cell_id (fs : FloatSem F) (self : Obj F) (id_string : Res F) : Res F :=
  (pInt fs (pFloat fs id_string))

def Helper.ContinuousConnection.get_pre_cell_id (fs : FloatSem F) (self : Obj F) : Res F :=
  (pCall1 (Helper.ContinuousConnection._get_cell_id fs self) (attr self "pre_cell"))

def Helper.ContinuousConnection.get_post_cell_id (fs : FloatSem F) (self : Obj F) : Res F :=
  (pCall1 (Helper.ContinuousConnection._get_cell_id fs self) (attr self "post_cell"))

def Helper.ContinuousConnection.get_pre_segment_id (fs : FloatSem F) (self : Obj F) : Res F :=
  (pInt fs (attr self "pre_segment"))

def Helper.ContinuousConnection.get_post_segment_id (fs : FloatSem F) (self : Obj F) : Res F :=
  (pInt fs (attr self "post_segment"))

def Helper.ContinuousConnection.get_pre_fraction_along (fs : FloatSem F) (self : Obj F) : Res F :=
  (pFloat fs (attr self "pre_fraction_along"))

def Helper.ContinuousConnection.get_post_fraction_along (fs : FloatSem F) (self : Obj F) : Res F :=
  (pFloat fs (attr self "post_fraction_along"))

def Helper.ContinuousConnectionInstance._get_cell_id (fs : FloatSem F) (self : Obj F) (id_string : Res F) : Res F :=
  (pIfElse fs (pIn ['['] id_string) (pInt fs (pIndex 0 (pSplit ']' (pIndex 1 (pSplit '[' id_string))))) (pInt fs (pIndex 2 (pSplit '/' id_string))))

def Helper.ContinuousConnectionInstance.get_pre_cell_id (fs : FloatSem F) (self : Obj F) : Res F :=
  (pCall1 (Helper.ContinuousConnectionInstance._get_cell_id fs self) (attr self "pre_cell"))

def Helper.ContinuousConnectionInstance.get_post_cell_id (fs : FloatSem F) (self : Obj F) : Res F :=
  (pCall1 (Helper.ContinuousConnectionInstance._get_cell_id fs self) (attr self "post_cell"))

def Helper.ContinuousConnectionInstance.get_pre_segment_id (fs : FloatSem F) (self : Obj F) : Res F :=
  (pInt fs (attr self "pre_segment"))

def Helper.ContinuousConnectionInstance.get_post_segment_id (fs : FloatSem F) (self : Obj F) : Res F :=
  (pInt fs (attr self "post_segment"))

def Helper.ContinuousConnectionInstance.get_pre_fraction_along (fs : FloatSem F) (self : Obj F) : Res F :=
  (pFloat fs (attr self "pre_fraction_along"))

def Helper.ContinuousConnectionInstance.get_post_fraction_along (fs : FloatSem F) (self : Obj F) : Res F :=
  (pFloat fs (attr self "post_fraction_along"))

def Helper.ContinuousConnectionInstanceW._get_cell_id (fs : FloatSem F) (self : Obj F) (id_string : Res F) : Res F :=
  (pIfElse fs (pIn ['['] id_string) (pInt fs (pIndex 0 (pSplit ']' (pIndex 1 (pSplit '[' id_string))))) (pInt fs (pIndex 2 (pSplit '/' id_string))))

def Helper.ContinuousConnectionInstanceW.get_pre_cell_id (fs : FloatSem F) (self : Obj F) : Res F :=
  (pCall1 (Helper.ContinuousConnectionInstanceW._get_cell_id fs self) (attr self "pre_cell"))

def Helper.ContinuousConnectionInstanceW.get_post_cell_id (fs : FloatSem F) (self : Obj F) : Res F :=
  (pCall1 (Helper.ContinuousConnectionInstanceW._get_cell_id fs self) (attr self "post_cell"))

def Helper.ContinuousConnectionInstanceW.get_pre_segment_id (fs : FloatSem F) (self : Obj F) : Res F :=
  (pInt fs (attr self "pre_segment"))

def Helper.ContinuousConnectionInstanceW.get_post_segment_id (fs : FloatSem F) (self : Obj F) : Res F :=
  (pInt fs (attr self "post_segment"))

def Helper.ContinuousConnectionInstanceW.get_pre_fraction_along (fs : FloatSem F) (self : Obj F) : Res F :=
  (pFloat fs (attr self "pre_fraction_along"))

def Helper.ContinuousConnectionInstanceW.get_post_fraction_along (fs : FloatSem F) (self : Obj F) : Res F :=
  (pFloat fs (attr self "post_fraction_along"))

def Helper.ContinuousConnectionInstanceW.get_weight (fs : FloatSem F) (self : Obj F) : Res F :=
  (pIfElse fs (pNeNone (attr self "weight")) (pFloat fs (attr self "weight")) (pnum fs.one))

def Helper.Input._get_cell_id (fs : FloatSem F) (self : Obj F) (id_string : Res F) : Res F :=
  (pIfElse fs (pIn ['['] id_string) (pInt fs (pIndex 0 (pSplit ']' (pIndex 1 (pSplit '[' id_string))))) (pInt fs (pIndex 2 (pSplit '/' id_string))))

def Helper.Input.get_target_cell_id (fs : FloatSem F) (self : Obj F) : Res F :=
  (pCall1 (Helper.Input._get_cell_id fs self) (attr self "target"))

def Helper.Input.get_segment_id (fs : FloatSem F) (self : Obj F) : Res F :=
  (pIfElse fs (pIsNotNone (attr self "segment_id")) (pInt fs (attr self "segment_id")) (pint 0))

def Helper.Input.get_fraction_along (fs : FloatSem F) (self : Obj F) : Res F :=
  (pIfElse fs (pIsNotNone (attr self "fraction_along")) (pFloat fs (attr self "fraction_along")) (pnum fs.half))

def Helper.InputW._get_cell_id (fs : FloatSem F) (self : Obj F) (id_string : Res F) : Res F :=
  (pIfElse fs (pIn ['['] id_string) (pInt fs (pIndex 0 (pSplit ']' (pIndex 1 (pSplit '[' id_string))))) (pInt fs (pIndex 2 (pSplit '/' id_string))))

def Helper.InputW.get_weight (fs : FloatSem F) (self : Obj F) : Res F :=
  (pIfElse fs (pNeNone (attr self "weight")) (pFloat fs (attr self "weight")) (pnum fs.one))

def Helper.InputW.get_target_cell_id (fs : FloatSem F) (self : Obj F) : Res F :=
  (pCall1 (Helper.InputW._get_cell_id fs self) (attr self "target"))

def Helper.InputW.get_segment_id (fs : FloatSem F) (self : Obj F) : Res F :=
  (pIfElse fs (pIsNotNone (attr self "segment_id")) (pInt fs (attr self "segment_id")) (pint 0))

def Helper.InputW.get_fraction_along (fs : FloatSem F) (self : Obj F) : Res F :=
  (pIfElse fs (pIsNotNone (attr self "fraction_along")) (pFloat fs (attr self "fraction_along")) (pnum fs.half))

def Helper.ExplicitInput._get_cell_id (fs : FloatSem F) (self : Obj F) (id_string : Res F) : Res F :=
  (pIfElse fs (pIn ['['] id_string) (pInt fs (pIndex 0 (pSplit ']' (pIndex 1 (pSplit '[' id_string))))) (pInt fs (pIndex 2 (pSplit '/' id_string))))

def Helper.ExplicitInput.get_target_cell_id (fs : FloatSem F) (self : Obj F) : Res F :=
  (pIfElse fs (pIn ['['] (attr self "target")) (pInt fs (pIndex 0 (pSplit ']' (pIndex 1 (pSplit '[' (attr self "target")))))) (pInt fs (pIndex 2 (pSplit '/' (attr self "target")))))

def Helper.ExplicitInput.get_segment_id (fs : FloatSem F) (self : Obj F) : Res F :=
  (pint 0)

def Helper.ExplicitInput.get_fraction_along (fs : FloatSem F) (self : Obj F) : Res F :=
  (pnum fs.half)

def Helper.SynapticConnection._get_cell_id (fs : FloatSem F) (self : Obj F) (ref : Res F) : Res F :=
  (pIfElse fs (pIn ['['] ref) (pInt fs (pIndex 0 (pSplit ']' (pIndex 1 (pSplit '[' ref))))) (pInt fs (pIndex 2 (pSplit '/' ref))))

def Helper.Population.get_size (fs : FloatSem F) (self : Obj F) : Res F :=
  (pIfElse fs (pGtInt 0 (pLen (attr self "instances"))) (pLen (attr self "instances")) (pIfElse fs (attr self "size") (attr self "size") (pint 0)))

def Helper.index : List (String × List String) :=
  [("Connection", ["_get_cell_id", "get_pre_cell_id", "get_post_cell_id", "get_pre_segment_id", "get_post_segment_id", "get_pre_fraction_along", "get_post_fraction_along"]),
   ("ConnectionWD", ["_get_cell_id", "get_pre_cell_id", "get_post_cell_id", "get_pre_segment_id", "get_post_segment_id", "get_pre_fraction_along", "get_post_fraction_along", "get_delay_in_ms"]),
   ("ElectricalConnection", ["_get_cell_id", "get_pre_cell_id", "get_post_cell_id", "get_pre_segment_id", "get_post_segment_id", "get_pre_fraction_along", "get_post_fraction_along"]),
   ("ElectricalConnectionInstance", ["_get_cell_id", "get_pre_cell_id", "get_post_cell_id", "get_pre_segment_id", "get_post_segment_id", "get_pre_fraction_along", "get_post_fraction_along"]),
   ("ElectricalConnectionInstanceW", ["_get_cell_id", "get_pre_cell_id", "get_post_cell_id", "get_pre_segment_id", "get_post_segment_id", "get_pre_fraction_along", "get_post_fraction_along", "get_weight"]),
   ("ContinuousConnection", ["_get_cell_id", "get_pre_cell_id", "get_post_cell_id", "get_pre_segment_id", "get_post_segment_id", "get_pre_fraction_along", "get_post_fraction_along"]),
   ("ContinuousConnectionInstance", ["_get_cell_id", "get_pre_cell_id", "get_post_cell_id", "get_pre_segment_id", "get_post_segment_id", "get_pre_fraction_along", "get_post_fraction_along"]),
   ("ContinuousConnectionInstanceW", ["_get_cell_id", "get_pre_cell_id", "get_post_cell_id", "get_pre_segment_id", "get_post_segment_id", "get_pre_fraction_along", "get_post_fraction_along", "get_weight"]),
   ("Input", ["_get_cell_id", "get_target_cell_id", "get_segment_id", "get_fraction_along"]),
   ("InputW", ["_get_cell_id", "get_weight", "get_target_cell_id", "get_segment_id", "get_fraction_along"]),
   ("ExplicitInput", ["_get_cell_id", "get_target_cell_id", "get_segment_id", "get_fraction_along"]),
   ("SynapticConnection", ["_get_cell_id"]),
   ("Population", ["get_size"])]

def Helper.summaryTable : List Add :=
  [⟨"populations", .pops, .one⟩,
   ⟨"populations", .cells, .size⟩,
   ⟨"projections", .projs, .one⟩,
   ⟨"projections", .conns, .len "connections"⟩,
   ⟨"projections", .conns, .len "connection_wds"⟩,
   ⟨"electrical_projections", .projs, .one⟩,
   ⟨"electrical_projections", .conns, .len "electrical_connections"⟩,
   ⟨"electrical_projections", .conns, .len "electrical_connection_instances"⟩,
   ⟨"electrical_projections", .conns, .len "electrical_connection_instance_ws"⟩,
   ⟨"continuous_projections", .projs, .one⟩,
   ⟨"continuous_projections", .conns, .len "continuous_connections"⟩,
   ⟨"continuous_projections", .conns, .len "continuous_connection_instances"⟩,
   ⟨"continuous_projections", .conns, .len "continuous_connection_instance_ws"⟩,
   ⟨"input_lists", .inputLists, .one⟩,
   ⟨"input_lists", .inputs, .lenIfPos "input"⟩,
   ⟨"input_lists", .inputs, .lenIfPos "input_ws"⟩]

def Helper.summaryLines : List (List Seg) :=
  [[.lit "*   ", .tot .cells, .lit " cells in ", .tot .pops, .lit " populations "],
   [.lit "*   ", .tot .conns, .lit " connections in ", .tot .projs, .lit " projections "],
   [.lit "*   ", .tot .inputs, .lit " inputs in ", .tot .inputLists, .lit " input lists "]]

/-! ### accessors, Nml -/

def Nml.Connection._get_cell_id (fs : FloatSem F) (self : Obj F) (id_string : Res F) : Res F :=
  (pIfElse fs (pIn ['['] id_string) (pInt fs (pIndex 0 (pSplit ']' (pIndex 1 (pSplit '[' id_string))))) (pInt fs (pIndex 2 (pSplit '/' id_string))))

def Nml.Connection.get_pre_cell_id (fs : FloatSem F) (self : Obj F) : Res F :=
  (pCall1 (Nml.Connection._get_cell_id fs self) (attr self "pre_cell_id"))

def Nml.Connection.get_post_cell_id (fs : FloatSem F) (self : Obj F) : Res F :=
  (pCall1 (Nml.Connection._get_cell_id fs self) (attr self "post_cell_id"))

def Nml.Connection.get_pre_segment_id (fs : FloatSem F) (self : Obj F) : Res F :=
  (pInt fs (attr self "pre_segment_id"))

def Nml.Connection.get_post_segment_id (fs : FloatSem F) (self : Obj F) : Res F :=
  (pInt fs (attr self "post_segment_id"))

def Nml.Connection.get_pre_fraction_along (fs : FloatSem F) (self : Obj F) : Res F :=
  (pFloat fs (attr self "pre_fraction_along"))

def Nml.Connection.get_post_fraction_along (fs : FloatSem F) (self : Obj F) : Res F :=
  (pFloat fs (attr self "post_fraction_along"))

def Nml.ConnectionWD._get_cell_id (fs : FloatSem F) (self : Obj F) (id_string : Res F) : Res F :=
  (pIfElse fs (pIn ['['] id_string) (pInt fs (pIndex 0 (pSplit ']' (pIndex 1 (pSplit '[' id_string))))) (pInt fs (pIndex 2 (pSplit '/' id_string))))

def Nml.ConnectionWD.get_pre_cell_id (fs : FloatSem F) (self : Obj F) : Res F :=
  (pCall1 (Nml.ConnectionWD._get_cell_id fs self) (attr self "pre_cell_id"))

def Nml.ConnectionWD.get_post_cell_id (fs : FloatSem F) (self : Obj F) : Res F :=
  (pCall1 (Nml.ConnectionWD._get_cell_id fs self) (attr self "post_cell_id"))

def Nml.ConnectionWD.get_pre_segment_id (fs : FloatSem F) (self : Obj F) : Res F :=
  (pInt fs (attr self "pre_segment_id"))

def Nml.ConnectionWD.get_post_segment_id (fs : FloatSem F) (self : Obj F) : Res F :=
  (pInt fs (attr self "post_segment_id"))

def Nml.ConnectionWD.get_pre_fraction_along (fs : FloatSem F) (self : Obj F) : Res F :=
  (pFloat fs (attr self "pre_fraction_along"))

def Nml.ConnectionWD.get_post_fraction_along (fs : FloatSem F) (self : Obj F) : Res F :=
  (pFloat fs (attr self "post_fraction_along"))

def Nml.ConnectionWD.get_delay_in_ms (fs : FloatSem F) (self : Obj F) : Res F :=
  (pIfElse fs (pIn ['m', 's'] (attr self "delay")) (pFloat fs (pStrip (pDropRight 2 (attr self "delay")))) (pIfElse fs (pIn ['s'] (attr self "delay")) (pMulF fs (pFloat fs (pStrip (pDropRight 1 (attr self "delay")))) fs.thousand) pnone))

def Nml.ElectricalConnection._get_cell_id (fs : FloatSem F) (self : Obj F) (id_string : Res F) : Res F :=
  (pInt fs (pFloat fs id_string))

def Nml.ElectricalConnection.get_pre_cell_id (fs : FloatSem F) (self : Obj F) : Res F :=
  (pCall1 (Nml.ElectricalConnection._get_cell_id fs self) (attr self "pre_cell"))

def Nml.ElectricalConnection.get_post_cell_id (fs : FloatSem F) (self : Obj F) : Res F :=
  (pCall1 (Nml.ElectricalConnection._get_cell_id fs self) (attr self "post_cell"))

def Nml.ElectricalConnection.get_pre_segment_id (fs : FloatSem F) (self : Obj F) : Res F :=
  (pInt fs (attr self "pre_segment"))

def Nml.ElectricalConnection.get_post_segment_id (fs : FloatSem F) (self : Obj F) : Res F :=
  (pInt fs (attr self "post_segment"))

def Nml.ElectricalConnection.get_pre_fraction_along (fs : FloatSem F) (self : Obj F) : Res F :=
  (pFloat fs (attr self "pre_fraction_along"))

def Nml.ElectricalConnection.get_post_fraction_along (fs : FloatSem F) (self : Obj F) : Res F :=
  (pFloat fs (attr self "post_fraction_along"))

def Nml.ElectricalConnectionInstance._get_cell_id (fs : FloatSem F) (self : Obj F) (id_string : Res F) : Res F :=
  (pIfElse fs (pIn ['['] id_string) (pInt fs (pIndex 0 (pSplit ']' (pIndex 1 (pSplit '[' id_string))))) (pInt fs (pIndex 2 (pSplit '/' id_string))))

def Nml.ElectricalConnectionInstance.get_pre_cell_id (fs : FloatSem F) (self : Obj F) : Res F :=
  (pCall1 (Nml.ElectricalConnectionInstance._get_cell_id fs self) (attr self "pre_cell"))

def Nml.ElectricalConnectionInstance.get_post_cell_id (fs : FloatSem F) (self : Obj F) : Res F :=
  (pCall1 (Nml.ElectricalConnectionInstance._get_cell_id fs self) (attr self "post_cell"))

def Nml.ElectricalConnectionInstance.get_pre_segment_id (fs : FloatSem F) (self : Obj F) : Res F :=
  (pInt fs (attr self "pre_segment"))

def Nml.ElectricalConnectionInstance.get_post_segment_id (fs : FloatSem F) (self : Obj F) : Res F :=
  (pInt fs (attr self "post_segment"))

def Nml.ElectricalConnectionInstance.get_pre_fraction_along (fs : FloatSem F) (self : Obj F) : Res F :=
  (pFloat fs (attr self "pre_fraction_along"))

def Nml.ElectricalConnectionInstance.get_post_fraction_along (fs : FloatSem F) (self : Obj F) : Res F :=
  (pFloat fs (attr self "post_fraction_along"))

def Nml.ElectricalConnectionInstanceW._get_cell_id (fs : FloatSem F) (self : Obj F) (id_string : Res F) : Res F :=
  (pIfElse fs (pIn ['['] id_string) (pInt fs (pIndex 0 (pSplit ']' (pIndex 1 (pSplit '[' id_string))))) (pInt fs (pIndex 2 (pSplit '/' id_string))))

def Nml.ElectricalConnectionInstanceW.get_pre_cell_id (fs : FloatSem F) (self : Obj F) : Res F :=
  (pCall1 (Nml.ElectricalConnectionInstanceW._get_cell_id fs self) (attr self "pre_cell"))

def Nml.ElectricalConnectionInstanceW.get_post_cell_id (fs : FloatSem F) (self : Obj F) : Res F :=
  (pCall1 (Nml.ElectricalConnectionInstanceW._get_cell_id fs self) (attr self "post_cell"))

def Nml.ElectricalConnectionInstanceW.get_pre_segment_id (fs : FloatSem F) (self : Obj F) : Res F :=
  (pInt fs (attr self "pre_segment"))

def Nml.ElectricalConnectionInstanceW.get_post_segment_id (fs : FloatSem F) (self : Obj F) : Res F :=
  (pInt fs (attr self "post_segment"))

def Nml.ElectricalConnectionInstanceW.get_pre_fraction_along (fs : FloatSem F) (self : Obj F) : Res F :=
  (pFloat fs (attr self "pre_fraction_along"))

def Nml.ElectricalConnectionInstanceW.get_post_fraction_along (fs : FloatSem F) (self : Obj F) : Res F :=
  (pFloat fs (attr self "post_fraction_along"))

def Nml.ElectricalConnectionInstanceW.get_weight (fs : FloatSem F) (self : Obj F) : Res F :=
  (pIfElse fs (pNeNone (attr self "weight")) (pFloat fs (attr self "weight")) (pnum fs.one))

def Nml.ContinuousConnection._get_cell_id (fs : FloatSem F) (self : Obj F) (id_string : Res F) : Res F :=
  (pInt fs (pFloat fs id_string))

def Nml.ContinuousConnection.get_pre_cell_id (fs : FloatSem F) (self : Obj F) : Res F :=
  (pCall1 (Nml.ContinuousConnection._get_cell_id fs self) (attr self "pre_cell"))

def Nml.ContinuousConnection.get_post_cell_id (fs : FloatSem F) (self : Obj F) : Res F :=
  (pCall1 (Nml.ContinuousConnection._get_cell_id fs self) (attr self "post_cell"))

def Nml.ContinuousConnection.get_pre_segment_id (fs : FloatSem F) (self : Obj F) : Res F :=
  (pInt fs (attr self "pre_segment"))

def Nml.ContinuousConnection.get_post_segment_id (fs : FloatSem F) (self : Obj F) : Res F :=
  (pInt fs (attr self "post_segment"))

def Nml.ContinuousConnection.get_pre_fraction_along (fs : FloatSem F) (self : Obj F) : Res F :=
  (pFloat fs (attr self "pre_fraction_along"))

def Nml.ContinuousConnection.get_post_fraction_along (fs : FloatSem F) (self : Obj F) : Res F :=
  (pFloat fs (attr self "post_fraction_along"))

def Nml.ContinuousConnectionInstance._get_cell_id (fs : FloatSem F) (self : Obj F) (id_string : Res F) : Res F :=
  (pIfElse fs (pIn ['['] id_string) (pInt fs (pIndex 0 (pSplit ']' (pIndex 1 (pSplit '[' id_string))))) (pInt fs (pIndex 2 (pSplit '/' id_string))))

def Nml.ContinuousConnectionInstance.get_pre_cell_id (fs : FloatSem F) (self : Obj F) : Res F :=
  (pCall1 (Nml.ContinuousConnectionInstance._get_cell_id fs self) (attr self "pre_cell"))

def Nml.ContinuousConnectionInstance.get_post_cell_id (fs : FloatSem F) (self : Obj F) : Res F :=
  (pCall1 (Nml.ContinuousConnectionInstance._get_cell_id fs self) (attr self "post_cell"))

def Nml.ContinuousConnectionInstance.get_pre_segment_id (fs : FloatSem F) (self : Obj F) : Res F :=
  (pInt fs (attr self "pre_segment"))

def Nml.ContinuousConnectionInstance.get_post_segment_id (fs : FloatSem F) (self : Obj F) : Res F :=
  (pInt fs (attr self "post_segment"))

def Nml.ContinuousConnectionInstance.get_pre_fraction_along (fs : FloatSem F) (self : Obj F) : Res F :=
  (pFloat fs (attr self "pre_fraction_along"))

def Nml.ContinuousConnectionInstance.get_post_fraction_along (fs : FloatSem F) (self : Obj F) : Res F :=
  (pFloat fs (attr self "post_fraction_along"))

def Nml.ContinuousConnectionInstanceW._get_cell_id (fs : FloatSem F) (self : Obj F) (id_string : Res F) : Res F :=
  (pIfElse fs (pIn ['['] id_string) (pInt fs (pIndex 0 (pSplit ']' (pIndex 1 (pSplit '[' id_string))))) (pInt fs (pIndex 2 (pSplit '/' id_string))))

def Nml.ContinuousConnectionInstanceW.get_pre_cell_id (fs : FloatSem F) (self : Obj F) : Res F :=
  (pCall1 (Nml.ContinuousConnectionInstanceW._get_cell_id fs self) (attr self "pre_cell"))

def Nml.ContinuousConnectionInstanceW.get_post_cell_id (fs : FloatSem F) (self : Obj F) : Res F :=
  (pCall1 (Nml.ContinuousConnectionInstanceW._get_cell_id fs self) (attr self "post_cell"))

def Nml.ContinuousConnectionInstanceW.get_pre_segment_id (fs : FloatSem F) (self : Obj F) : Res F :=
  (pInt fs (attr self "pre_segment"))

def Nml.ContinuousConnectionInstanceW.get_post_segment_id (fs : FloatSem F) (self : Obj F) : Res F :=
  (pInt fs (attr self "post_segment"))

def Nml.ContinuousConnectionInstanceW.get_pre_fraction_along (fs : FloatSem F) (self : Obj F) : Res F :=
  (pFloat fs (attr self "pre_fraction_along"))

def Nml.ContinuousConnectionInstanceW.get_post_fraction_along (fs : FloatSem F) (self : Obj F) : Res F :=
  (pFloat fs (attr self "post_fraction_along"))

def Nml.ContinuousConnectionInstanceW.get_weight (fs : FloatSem F) (self : Obj F) : Res F :=
  (pIfElse fs (pNeNone (attr self "weight")) (pFloat fs (attr self "weight")) (pnum fs.one))

def Nml.Input._get_cell_id (fs : FloatSem F) (self : Obj F) (id_string : Res F) : Res F :=
  (pIfElse fs (pIn ['['] id_string) (pInt fs (pIndex 0 (pSplit ']' (pIndex 1 (pSplit '[' id_string))))) (pInt fs (pIndex 2 (pSplit '/' id_string))))

def Nml.Input.get_target_cell_id (fs : FloatSem F) (self : Obj F) : Res F :=
  (pCall1 (Nml.Input._get_cell_id fs self) (attr self "target"))

def Nml.Input.get_segment_id (fs : FloatSem F) (self : Obj F) : Res F :=
  (pIfElse fs (pIsNotNone (attr self "segment_id")) (pInt fs (attr self "segment_id")) (pint 0))

def Nml.Input.get_fraction_along (fs : FloatSem F) (self : Obj F) : Res F :=
  (pIfElse fs (pIsNotNone (attr self "fraction_along")) (pFloat fs (attr self "fraction_along")) (pnum fs.half))

def Nml.InputW._get_cell_id (fs : FloatSem F) (self : Obj F) (id_string : Res F) : Res F :=
  (pIfElse fs (pIn ['['] id_string) (pInt fs (pIndex 0 (pSplit ']' (pIndex 1 (pSplit '[' id_string))))) (pInt fs (pIndex 2 (pSplit '/' id_string))))

def Nml.InputW.get_weight (fs : FloatSem F) (self : Obj F) : Res F :=
  (pIfElse fs (pNeNone (attr self "weight")) (pFloat fs (attr self "weight")) (pnum fs.one))

def Nml.InputW.get_target_cell_id (fs : FloatSem F) (self : Obj F) : Res F :=
  (pCall1 (Nml.InputW._get_cell_id fs self) (attr self "target"))

def Nml.InputW.get_segment_id (fs : FloatSem F) (self : Obj F) : Res F :=
  (pIfElse fs (pIsNotNone (attr self "segment_id")) (pInt fs (attr self "segment_id")) (pint 0))

def Nml.InputW.get_fraction_along (fs : FloatSem F) (self : Obj F) : Res F :=
  (pIfElse fs (pIsNotNone (attr self "fraction_along")) (pFloat fs (attr self "fraction_along")) (pnum fs.half))

def Nml.ExplicitInput._get_cell_id (fs : FloatSem F) (self : Obj F) (id_string : Res F) : Res F :=
  (pIfElse fs (pIn ['['] id_string) (pInt fs (pIndex 0 (pSplit ']' (pIndex 1 (pSplit '[' id_string))))) (pInt fs (pIndex 2 (pSplit '/' id_string))))

def Nml.ExplicitInput.get_target_cell_id (fs : FloatSem F) (self : Obj F) : Res F :=
  (pIfElse fs (pIn ['['] (attr self "target")) (pInt fs (pIndex 0 (pSplit ']' (pIndex 1 (pSplit '[' (attr self "target")))))) (pInt fs (pIndex 2 (pSplit '/' (attr self "target")))))

def Nml.ExplicitInput.get_segment_id (fs : FloatSem F) (self : Obj F) : Res F :=
  (pint 0)

def Nml.ExplicitInput.get_fraction_along (fs : FloatSem F) (self : Obj F) : Res F :=
  (pnum fs.half)

def Nml.SynapticConnection._get_cell_id (fs : FloatSem F) (self : Obj F) (ref : Res F) : Res F :=
  (pIfElse fs (pIn ['['] ref) (pInt fs (pIndex 0 (pSplit ']' (pIndex 1 (pSplit '[' ref))))) (pInt fs (pIndex 2 (pSplit '/' ref))))

def Nml.Population.get_size (fs : FloatSem F) (self : Obj F) : Res F :=
  (pIfElse fs (pGtInt 0 (pLen (attr self "instances"))) (pLen (attr self "instances")) (pIfElse fs (attr self "size") (attr self "size") (pint 0)))

def Nml.index : List (String × List String) :=
  [("Connection", ["_get_cell_id", "get_pre_cell_id", "get_post_cell_id", "get_pre_segment_id", "get_post_segment_id", "get_pre_fraction_along", "get_post_fraction_along"]),
   ("ConnectionWD", ["_get_cell_id", "get_pre_cell_id", "get_post_cell_id", "get_pre_segment_id", "get_post_segment_id", "get_pre_fraction_along", "get_post_fraction_along", "get_delay_in_ms"]),
   ("ElectricalConnection", ["_get_cell_id", "get_pre_cell_id", "get_post_cell_id", "get_pre_segment_id", "get_post_segment_id", "get_pre_fraction_along", "get_post_fraction_along"]),
   ("ElectricalConnectionInstance", ["_get_cell_id", "get_pre_cell_id", "get_post_cell_id", "get_pre_segment_id", "get_post_segment_id", "get_pre_fraction_along", "get_post_fraction_along"]),
   ("ElectricalConnectionInstanceW", ["_get_cell_id", "get_pre_cell_id", "get_post_cell_id", "get_pre_segment_id", "get_post_segment_id", "get_pre_fraction_along", "get_post_fraction_along", "get_weight"]),
   ("ContinuousConnection", ["_get_cell_id", "get_pre_cell_id", "get_post_cell_id", "get_pre_segment_id", "get_post_segment_id", "get_pre_fraction_along", "get_post_fraction_along"]),
   ("ContinuousConnectionInstance", ["_get_cell_id", "get_pre_cell_id", "get_post_cell_id", "get_pre_segment_id", "get_post_segment_id", "get_pre_fraction_along", "get_post_fraction_along"]),
   ("ContinuousConnectionInstanceW", ["_get_cell_id", "get_pre_cell_id", "get_post_cell_id", "get_pre_segment_id", "get_post_segment_id", "get_pre_fraction_along", "get_post_fraction_along", "get_weight"]),
   ("Input", ["_get_cell_id", "get_target_cell_id", "get_segment_id", "get_fraction_along"]),
   ("InputW", ["_get_cell_id", "get_weight", "get_target_cell_id", "get_segment_id", "get_fraction_along"]),
   ("ExplicitInput", ["_get_cell_id", "get_target_cell_id", "get_segment_id", "get_fraction_along"]),
   ("SynapticConnection", ["_get_cell_id"]),
   ("Population", ["get_size"])]

def Nml.summaryTable : List Add :=
  [⟨"populations", .pops, .one⟩,
   ⟨"populations", .cells, .size⟩,
   ⟨"projections", .projs, .one⟩,
   ⟨"projections", .conns, .len "connections"⟩,
   ⟨"projections", .conns, .len "connection_wds"⟩,
   ⟨"electrical_projections", .projs, .one⟩,
   ⟨"electrical_projections", .conns, .len "electrical_connections"⟩,
   ⟨"electrical_projections", .conns, .len "electrical_connection_instances"⟩,
   ⟨"electrical_projections", .conns, .len "electrical_connection_instance_ws"⟩,
   ⟨"continuous_projections", .projs, .one⟩,
   ⟨"continuous_projections", .conns, .len "continuous_connections"⟩,
   ⟨"continuous_projections", .conns, .len "continuous_connection_instances"⟩,
   ⟨"continuous_projections", .conns, .len "continuous_connection_instance_ws"⟩,
   ⟨"input_lists", .inputLists, .one⟩,
   ⟨"input_lists", .inputs, .lenIfPos "input"⟩,
   ⟨"input_lists", .inputs, .lenIfPos "input_ws"⟩]

def Nml.summaryLines : List (List Seg) :=
  [[.lit "*   ", .tot .cells, .lit " cells in ", .tot .pops, .lit " populations "],
   [.lit "*   ", .tot .conns, .lit " connections in ", .tot .projs, .lit " projections "],
   [.lit "*   ", .tot .inputs, .lit " inputs in ", .tot .inputLists, .lit " input lists "]]

/-! ### constructors (nml.py) -/

def Nml.Connection.fields : List CtorField :=
  [⟨"pre_cell_id", .asIs, .none⟩,
   ⟨"pre_segment_id", .toInt, (.str ['0'])⟩,
   ⟨"pre_fraction_along", .toFloat, (.str ['0', '.', '5'])⟩,
   ⟨"post_cell_id", .asIs, .none⟩,
   ⟨"post_segment_id", .toInt, (.str ['0'])⟩,
   ⟨"post_fraction_along", .toFloat, (.str ['0', '.', '5'])⟩]

def Nml.ConnectionWD.fields : List CtorField :=
  [⟨"pre_cell_id", .asIs, .none⟩,
   ⟨"pre_segment_id", .toInt, (.str ['0'])⟩,
   ⟨"pre_fraction_along", .toFloat, (.str ['0', '.', '5'])⟩,
   ⟨"post_cell_id", .asIs, .none⟩,
   ⟨"post_segment_id", .toInt, (.str ['0'])⟩,
   ⟨"post_fraction_along", .toFloat, (.str ['0', '.', '5'])⟩,
   ⟨"weight", .toFloat, .none⟩,
   ⟨"delay", .asIs, .none⟩]

def Nml.ElectricalConnection.fields : List CtorField :=
  [⟨"pre_cell", .asIs, .none⟩,
   ⟨"pre_segment", .toInt, (.str ['0'])⟩,
   ⟨"pre_fraction_along", .toFloat, (.str ['0', '.', '5'])⟩,
   ⟨"post_cell", .asIs, .none⟩,
   ⟨"post_segment", .toInt, (.str ['0'])⟩,
   ⟨"post_fraction_along", .toFloat, (.str ['0', '.', '5'])⟩]

def Nml.ElectricalConnectionInstance.fields : List CtorField :=
  [⟨"pre_cell", .asIs, .none⟩,
   ⟨"pre_segment", .toInt, (.str ['0'])⟩,
   ⟨"pre_fraction_along", .toFloat, (.str ['0', '.', '5'])⟩,
   ⟨"post_cell", .asIs, .none⟩,
   ⟨"post_segment", .toInt, (.str ['0'])⟩,
   ⟨"post_fraction_along", .toFloat, (.str ['0', '.', '5'])⟩]

def Nml.ElectricalConnectionInstanceW.fields : List CtorField :=
  [⟨"pre_cell", .asIs, .none⟩,
   ⟨"pre_segment", .toInt, (.str ['0'])⟩,
   ⟨"pre_fraction_along", .toFloat, (.str ['0', '.', '5'])⟩,
   ⟨"post_cell", .asIs, .none⟩,
   ⟨"post_segment", .toInt, (.str ['0'])⟩,
   ⟨"post_fraction_along", .toFloat, (.str ['0', '.', '5'])⟩,
   ⟨"weight", .toFloat, .none⟩]

def Nml.ContinuousConnection.fields : List CtorField :=
  [⟨"pre_cell", .asIs, .none⟩,
   ⟨"pre_segment", .toInt, (.str ['0'])⟩,
   ⟨"pre_fraction_along", .toFloat, (.str ['0', '.', '5'])⟩,
   ⟨"post_cell", .asIs, .none⟩,
   ⟨"post_segment", .toInt, (.str ['0'])⟩,
   ⟨"post_fraction_along", .toFloat, (.str ['0', '.', '5'])⟩]

def Nml.ContinuousConnectionInstance.fields : List CtorField :=
  [⟨"pre_cell", .asIs, .none⟩,
   ⟨"pre_segment", .toInt, (.str ['0'])⟩,
   ⟨"pre_fraction_along", .toFloat, (.str ['0', '.', '5'])⟩,
   ⟨"post_cell", .asIs, .none⟩,
   ⟨"post_segment", .toInt, (.str ['0'])⟩,
   ⟨"post_fraction_along", .toFloat, (.str ['0', '.', '5'])⟩]

def Nml.ContinuousConnectionInstanceW.fields : List CtorField :=
  [⟨"pre_cell", .asIs, .none⟩,
   ⟨"pre_segment", .toInt, (.str ['0'])⟩,
   ⟨"pre_fraction_along", .toFloat, (.str ['0', '.', '5'])⟩,
   ⟨"post_cell", .asIs, .none⟩,
   ⟨"post_segment", .toInt, (.str ['0'])⟩,
   ⟨"post_fraction_along", .toFloat, (.str ['0', '.', '5'])⟩,
   ⟨"weight", .toFloat, .none⟩]

def Nml.Input.fields : List CtorField :=
  [⟨"target", .asIs, .none⟩,
   ⟨"segment_id", .toInt, .none⟩,
   ⟨"fraction_along", .toFloat, .none⟩]

def Nml.InputW.fields : List CtorField :=
  [⟨"target", .asIs, .none⟩,
   ⟨"segment_id", .toInt, .none⟩,
   ⟨"fraction_along", .toFloat, .none⟩,
   ⟨"weight", .toFloat, .none⟩]

def Nml.ExplicitInput.fields : List CtorField :=
  [⟨"target", .asIs, .none⟩]

def Nml.SynapticConnection.fields : List CtorField :=
  [⟨"from_", .asIs, .none⟩,
   ⟨"to", .asIs, .none⟩]

def Nml.Population.fields : List CtorField :=
  [⟨"size", .toInt, .none⟩]

def XmlParser.NeuroMLXMLParser._parse_delay (fs : FloatSem F) (self : Obj F) (delay_string : Res F) : Res F :=
  (pIfElse fs (pEndsWith ['m', 's'] delay_string) (pFloat fs (pStrip (pDropRight 2 delay_string))) (pIfElse fs (pEndsWith ['s'] delay_string) (pMulF fs (pFloat fs (pStrip (pDropRight 1 delay_string))) fs.thousand) pexit))

end NmlVerif.Acc.Gen
