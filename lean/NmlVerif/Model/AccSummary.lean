import NmlVerif.Model.Accessors
/-
Model of the whole of `NeuroMLDocument.summary()` (`neuroml/nml/helper_methods.py` and the copy in `nml.py`).

The body of the `for network in self.networks:` loop is *translated*: `harness/props/c19.py`
(translators/c19_summary.py) maps its Python AST statement by statement to a program of the small imperative language
below (string / counter variables, `+=`, `if`, `for … in [sorted(]network.<list>[, key=id)]`, nested `for` over a list
of the current item) and emits it into `Gen/Accessors.lean`; `netProg` is the hand copy the theorems of
`Props/C19Summ.lean` are about, `rfl` ties the two.  The interpreter (`runNet`) is the meaning.

Objects are seen as far as `summary()` looks at them: string-or-None attributes, the length of list attributes and the
elements it reads, `str(obj)` as an opaque text (given by the harness from the real object), except
`Population.__str__`, which is modelled (it shows `get_size()`).

The prologue (banner, document id, the `inspect.getmembers` listing with `show_includes` / `show_non_network`) and the
epilogue are a hand model (`headerText`); the translator pins their source text.

Mathlib-free, executable.
-/
namespace NmlVerif.Acc.Summ

/-! ## 1. the objects -/

/-- an element of a list of an item (a connection, an input, an instance, a property) -/
structure Leaf where
  text : String                               -- `str(obj)`
  strs : List (String × Option String)        -- string-or-None attributes (`tag`, `value`)
  objs : List (String × String)               -- `str(obj.<attr>)` of object-valued attributes (`location`)
deriving Repr, Inhabited

/-- a list attribute of an item: its length and the elements `summary()` reads (the first; all `properties`) -/
structure SubList where
  n : Nat
  elems : List Leaf
deriving Repr, Inhabited

/-- an element of a list of a network (population, projection, input list, explicit input, synaptic connection) -/
structure Item where
  cls : String
  text : String                               -- `str(obj)` (not used for the classes whose `__str__` is modelled)
  strs : List (String × Option String)        -- `id`, `component`, `presynaptic_population`, …
  sizeAttr : Option Int                       -- `Population.size` (`None` = unset)
  lists : List (String × SubList)
deriving Repr, Inhabited

structure NetD where
  strs : List (String × Option String)        -- `id`, `temperature`
  lists : List (String × List Item)
deriving Repr, Inhabited

def strAttr (l : List (String × Option String)) (a : String) : Option String := (l.lookup a).join

def Item.sub (it : Item) (a : String) : SubList := (it.lists.lookup a).getD ⟨0, []⟩
def Item.id (it : Item) : String := (strAttr it.strs "id").getD ""
def NetD.list (net : NetD) (a : String) : List Item := (net.lists.lookup a).getD []

/-- `item.get_size()` through the translated accessor `Population.get_size` -/
def Item.size (it : Item) : Nat :=
  let self : Obj Rat := fun name =>
    if name = "instances" then some (.objs (it.sub "instances").n)
    else if name = "size" then some (match it.sizeAttr with
      | some i => .int i
      | Option.none => .none)
    else Option.none
  match getSize RatSem self with
  | .ok (.int i) => i.toNat
  | _ => 0

/-- `Population.__str__` / `PopulationContainer.__str__`:
    `"Population: "+str(self.id)+" with "+str(self.get_size())+" components of type "+(self.component if self.component else "???")` -/
def populationStr (it : Item) (label : String) : String :=
  label ++ (match strAttr it.strs "id" with
    | some s => s
    | Option.none => "None") ++ " with " ++ toString it.size ++ " components of type " ++
    (match strAttr it.strs "component" with
      | some c => if c.isEmpty then "???" else c
      | Option.none => "???")

/-- `str(item)` -/
def Item.str (it : Item) : String :=
  if it.cls = "Population" then populationStr it "Population: "
  else if it.cls = "PopulationContainer" then populationStr it "Population (optimized): "
  else it.text

/-! ## 2. the language of the network loop -/

/-- pieces of a `+`-concatenation of strings -/
inductive SE where
  | lit (s : String)
  | sv (x : String)                  -- a string variable (`info`, `pop_info`, …)
  | nv (x : String)                  -- `str(<counter variable>)`
  | netS (a : String)                -- `network.<a>` (a `str`; `None` makes `+` raise TypeError)
  | netLen (a : String)              -- `str(len(network.<a>))`
  | itemS (a : String)               -- `<item>.<a>`
  | itemText                         -- `str(<item>)`
  | itemLen (a : String)             -- `str(len(<item>.<a>))`
  | itemFirst (a : String)           -- `str(<item>.<a>[0])`
  | itemFirstObj (a b : String)      -- `str(<item>.<a>[0].<b>)`
  | leafText                         -- `str(<leaf>)`
  | leafStr (a : String)             -- `str(<leaf>.<a>)`
deriving DecidableEq, Repr, Inhabited

/-- right-hand sides of `counter += …` -/
inductive NE where
  | one                              -- `1`
  | itemLen (a : String)             -- `len(<item>.<a>)`
  | itemSize                         -- `<item>.get_size()`
deriving DecidableEq, Repr, Inhabited

inductive Cond where
  | netTruthy (a : String)           -- `if network.<a>:`
  | netLenPos (a : String)           -- `if len(network.<a>)>0:`
  | itemLenPos (a : String)          -- `if len(<item>.<a>)>0:`
deriving DecidableEq, Repr, Inhabited

inductive Simple where
  | setS (x : String) (v : String)   -- `x = "<literal>"`
  | setN (x : String) (n : Nat)      -- `x = <literal>`
  | addS (x : String) (es : List SE) -- `x += e1 + e2 + …`
  | addN (x : String) (e : NE)       -- `x += e`
deriving DecidableEq, Repr, Inhabited

/-- one level of control flow around statements of the level below -/
inductive Ctl (α : Type) where
  | base (a : α)
  | ifC (c : Cond) (body : List α)
  | forNet (attr : String) (sorted : Bool) (body : List α)   -- `for <item> in [sorted(]network.<attr>[, key=lambda x: x.id)]:`
  | forItem (attr : String) (body : List α)                  -- `for <leaf> in <item>.<attr>:`
deriving DecidableEq, Repr, Inhabited

abbrev L1 := Ctl Simple
abbrev L2 := Ctl L1
abbrev L3 := Ctl L2

/-! ## 3. the interpreter -/

structure St where
  strs : String → String
  nats : String → Nat
  err : Option Err                   -- the first exception a statement would have raised

structure Env where
  net : NetD
  item : Option Item
  leaf : Option Leaf

/-- `sorted(l, key=lambda x: x.id)` (stable; Python compares `str` by code point, as Lean does) -/
def sortById (l : List Item) : List Item := l.mergeSort (fun a b => !(b.id < a.id))

def evalSE (env : Env) (st : St) : SE → Except Err String
  | .lit s => .ok s
  | .sv x => .ok (st.strs x)
  | .nv x => .ok (toString (st.nats x))
  | .netS a => match strAttr env.net.strs a with
    | some s => .ok s
    | Option.none => .error .typeError
  | .netLen a => .ok (toString (env.net.list a).length)
  | .itemS a => match env.item with
    | some it => (match strAttr it.strs a with
      | some s => .ok s
      | Option.none => .error .typeError)
    | Option.none => .error .attributeError
  | .itemText => match env.item with
    | some it => .ok it.str
    | Option.none => .error .attributeError
  | .itemLen a => match env.item with
    | some it => .ok (toString (it.sub a).n)
    | Option.none => .error .attributeError
  | .itemFirst a => match env.item with
    | some it => (match (it.sub a).elems with
      | lf :: _ => .ok lf.text
      | [] => .error .indexError)
    | Option.none => .error .attributeError
  | .itemFirstObj a b => match env.item with
    | some it => (match (it.sub a).elems with
      | lf :: _ => (match lf.objs.lookup b with
        | some s => .ok s
        | Option.none => .error .attributeError)
      | [] => .error .indexError)
    | Option.none => .error .attributeError
  | .leafText => match env.leaf with
    | some lf => .ok lf.text
    | Option.none => .error .attributeError
  | .leafStr a => match env.leaf with
    | some lf => (match lf.strs.lookup a with
      | some (some s) => .ok s
      | some Option.none => .ok "None"
      | Option.none => .error .attributeError)
    | Option.none => .error .attributeError

/-- value of a concatenation; a failing piece contributes nothing and is reported -/
def evalCat (env : Env) (st : St) : List SE → String × Option Err
  | [] => ("", Option.none)
  | e :: es =>
    let r := evalCat env st es
    match evalSE env st e with
    | .ok s => (s ++ r.1, r.2)
    | .error x => (r.1, some x)

def evalNE (env : Env) : NE → Nat
  | .one => 1
  | .itemLen a => match env.item with
    | some it => (it.sub a).n
    | Option.none => 0
  | .itemSize => match env.item with
    | some it => it.size
    | Option.none => 0

def evalC (env : Env) : Cond → Bool
  | .netTruthy a => match strAttr env.net.strs a with
    | some s => !s.isEmpty
    | Option.none => false
  | .netLenPos a => decide ((env.net.list a).length > 0)
  | .itemLenPos a => match env.item with
    | some it => decide ((it.sub a).n > 0)
    | Option.none => false

def St.setStr (st : St) (x v : String) : St := { st with strs := fun y => if y = x then v else st.strs y }
def St.setNat (st : St) (x : String) (n : Nat) : St := { st with nats := fun y => if y = x then n else st.nats y }
def St.note (st : St) (e : Option Err) : St :=
  match st.err, e with
  | Option.none, some x => { st with err := some x }
  | _, _ => st

def execSimple (env : Env) (s : Simple) (st : St) : St :=
  match s with
  | .setS x v => st.setStr x v
  | .setN x n => st.setNat x n
  | .addS x es =>
    let r := evalCat env st es
    (st.setStr x (st.strs x ++ r.1)).note r.2
  | .addN x e => st.setNat x (st.nats x + evalNE env e)

def runList {α : Type} (f : Env → α → St → St) (env : Env) (body : List α) (st : St) : St :=
  body.foldl (fun st a => f env a st) st

/-- the elements a `for` over a network list visits -/
def netItems (env : Env) (attr : String) (sorted : Bool) : List Item :=
  if sorted then sortById (env.net.list attr) else env.net.list attr

/-- the elements a `for` over a list of the current item visits -/
def itemLeaves (env : Env) (attr : String) : List Leaf :=
  match env.item with
  | some it => (it.sub attr).elems
  | Option.none => []

def execCtl {α : Type} (f : Env → α → St → St) (env : Env) (c : Ctl α) (st : St) : St :=
  match c with
  | .base a => f env a st
  | .ifC cnd body => if evalC env cnd then runList f env body st else st
  | .forNet attr sorted body =>
    (netItems env attr sorted).foldl (fun st it => runList f { env with item := some it } body st) st
  | .forItem attr body =>
    (itemLeaves env attr).foldl (fun st lf => runList f { env with leaf := some lf } body st) st

def exec1 : Env → L1 → St → St := execCtl execSimple
def exec2 : Env → L2 → St → St := execCtl exec1
def exec3 : Env → L3 → St → St := execCtl exec2

/-- run (a segment of) the body of the network loop for one network -/
def runNet (prog : List L3) (net : NetD) (st : St) : St := runList exec3 ⟨net, Option.none, Option.none⟩ prog st

/-! ## 4. the body of `for network in self.networks:` (hand copy of the translation) -/

def s0 (s : Simple) : L3 := .base (.base (.base s))
def s1 (s : Simple) : L2 := .base (.base s)
def s2 (s : Simple) : L1 := .base s

def headSeg : List L3 :=
  [s0 (.addS "info" [.lit "*  Network: ", .netS "id"]),
   .ifC (.netTruthy "temperature") [s1 (.addS "info" [.lit " (temperature: ", .netS "temperature", .lit ")"])],
   s0 (.addS "info" [.lit "\n*\n"])]

def popSeg : List L3 :=
  [s0 (.setN "tot_pop" 0), s0 (.setN "tot_cells" 0), s0 (.setS "pop_info" ""),
   .forNet "populations" true
     [s1 (.addS "pop_info" [.lit "*     ", .itemText, .lit "\n"]),
      s1 (.addN "tot_pop" .one),
      s1 (.addN "tot_cells" .itemSize),
      .ifC (.itemLenPos "instances")
        [s2 (.addS "pop_info" [.lit "*       Locations: [", .itemFirstObj "instances" "location", .lit ", ...]\n"])],
      .ifC (.itemLenPos "properties")
        [s2 (.addS "pop_info" [.lit "*       Properties: "]),
         .forItem "properties" [.addS "pop_info" [.leafStr "tag", .lit "=", .leafStr "value", .lit "; "]],
         s2 (.addS "pop_info" [.lit "\n"])]]]

def cellsLine : L3 :=
  s0 (.addS "info" [.lit "*   ", .nv "tot_cells", .lit " cells in ", .nv "tot_pop", .lit " populations \n",
    .sv "pop_info", .lit "*\n"])

/-- the `if len(proj.<a>)>0: proj_info += … str(len(proj.<a>)) … str(proj.<a>[0]) …` statement -/
def listLine (a label : String) : L2 :=
  .ifC (.itemLenPos a)
    [s2 (.addS "proj_info" [.lit "*       ", .itemLen a, .lit label, .itemFirst a, .lit "), ...]\n"])]

def projSeg : List L3 :=
  [s0 (.setN "tot_proj" 0), s0 (.setN "tot_conns" 0), s0 (.setS "proj_info" ""),
   .forNet "projections" true
     [s1 (.addS "proj_info" [.lit "*     ", .itemText, .lit "\n"]),
      s1 (.addN "tot_proj" .one),
      s1 (.addN "tot_conns" (.itemLen "connections")),
      s1 (.addN "tot_conns" (.itemLen "connection_wds")),
      listLine "connections" " connections: [(",
      listLine "connection_wds" " connections (wd): [("],
   .forNet "electrical_projections" true
     [s1 (.addS "proj_info" [.lit "*     Electrical projection: ", .itemS "id", .lit " from ",
        .itemS "presynaptic_population", .lit " to ", .itemS "postsynaptic_population", .lit "\n"]),
      s1 (.addN "tot_proj" .one),
      s1 (.addN "tot_conns" (.itemLen "electrical_connections")),
      s1 (.addN "tot_conns" (.itemLen "electrical_connection_instances")),
      s1 (.addN "tot_conns" (.itemLen "electrical_connection_instance_ws")),
      listLine "electrical_connections" " connections: [(",
      listLine "electrical_connection_instances" " connections: [(",
      listLine "electrical_connection_instance_ws" " connections: [("],
   .forNet "continuous_projections" true
     [s1 (.addS "proj_info" [.lit "*     Continuous projection: ", .itemS "id", .lit " from ",
        .itemS "presynaptic_population", .lit " to ", .itemS "postsynaptic_population", .lit "\n"]),
      s1 (.addN "tot_proj" .one),
      s1 (.addN "tot_conns" (.itemLen "continuous_connections")),
      s1 (.addN "tot_conns" (.itemLen "continuous_connection_instances")),
      s1 (.addN "tot_conns" (.itemLen "continuous_connection_instance_ws")),
      listLine "continuous_connections" " connections: [(",
      listLine "continuous_connection_instances" " connections: [(",
      listLine "continuous_connection_instance_ws" " connections (w): [("]]

def connsLine : L3 :=
  s0 (.addS "info" [.lit "*   ", .nv "tot_conns", .lit " connections in ", .nv "tot_proj", .lit " projections \n",
    .sv "proj_info", .lit "*\n"])

def synSeg : List L3 :=
  [.ifC (.netLenPos "synaptic_connections")
     [s1 (.addS "info" [.lit "*   ", .netLen "synaptic_connections",
        .lit " explicit synaptic connections (outside of projections)\n"]),
      .forNet "synaptic_connections" false [s2 (.addS "info" [.lit "*     ", .itemText, .lit "\n"])],
      s1 (.addS "info" [.lit "*\n"])]]

def inputSeg : List L3 :=
  [s0 (.setN "tot_input_lists" 0), s0 (.setN "tot_inputs" 0), s0 (.setS "input_info" ""),
   .forNet "input_lists" true
     [s1 (.addS "input_info" [.lit "*     ", .itemText, .lit "\n"]),
      s1 (.addN "tot_input_lists" .one),
      .ifC (.itemLenPos "input")
        [s2 (.addS "input_info" [.lit "*       ", .itemLen "input", .lit " inputs: [(", .itemFirst "input",
           .lit "), ...]\n"]),
         s2 (.addN "tot_inputs" (.itemLen "input"))],
      .ifC (.itemLenPos "input_ws")
        [s2 (.addS "input_info" [.lit "*       ", .itemLen "input_ws", .lit " inputs: [(", .itemFirst "input_ws",
           .lit "), ...]\n"]),
         s2 (.addN "tot_inputs" (.itemLen "input_ws"))]]]

def inputsLine : L3 :=
  s0 (.addS "info" [.lit "*   ", .nv "tot_inputs", .lit " inputs in ", .nv "tot_input_lists", .lit " input lists \n",
    .sv "input_info", .lit "*\n"])

def xinSeg : List L3 :=
  [.ifC (.netLenPos "explicit_inputs")
     [s1 (.addS "info" [.lit "*   ", .netLen "explicit_inputs", .lit " explicit inputs (outside of input lists)\n"]),
      .forNet "explicit_inputs" false [s2 (.addS "info" [.lit "*     ", .itemText, .lit "\n"])],
      s1 (.addS "info" [.lit "*\n"])]]

/-- the whole body, in source order -/
def netProg : List L3 :=
  headSeg ++ (popSeg ++ (cellsLine :: (projSeg ++ (connsLine :: (synSeg ++ (inputSeg ++ (inputsLine :: xinSeg)))))))

/-! ## 5. prologue and epilogue (hand model) -/

/-- one entry of a document-level list, as `summary()` lists it: by `id`, else `name`, else `href`, else
    `tag = value`; an object with none of them is not listed -/
inductive Entry where
  | shown (s : String)
  | skipped
deriving Repr, Inhabited

structure Member where
  name : String              -- attribute name (`inspect.getmembers` order = sorted by name; given by the harness)
  cls : String               -- `memb[1][0].__class__.__name__`
  entries : List Entry
deriving Repr, Inhabited

/-- `repr` of a `str` without quotes, backslashes or non-printable characters (the generator's alphabet) -/
def pyReprStr (s : String) : String := "'" ++ s ++ "'"

/-- `str(sorted(listed))` -/
def pyListRepr (l : List String) : String :=
  "[" ++ ", ".intercalate ((l.mergeSort (fun a b => !(b < a))).map pyReprStr) ++ "]"

def memberShown (showIncludes showNonNetwork : Bool) (m : Member) : Bool :=
  !m.entries.isEmpty && !m.name.endsWith "_" && !(m.name == "networks") &&
    ((m.name == "includes" && showIncludes) || (!(m.name == "includes") && showNonNetwork))

def memberLine (m : Member) : String :=
  "*  " ++ m.cls ++ ": " ++ pyListRepr (m.entries.filterMap (fun e => match e with
    | .shown s => some s
    | .skipped => Option.none)) ++ "\n"

def banner : String := "*******************************************************"

structure DocD where
  id : Option String
  showIncludes : Bool
  showNonNetwork : Bool
  members : List Member
  nets : List NetD
deriving Inhabited

def initSt (info : String) : St := ⟨fun x => if x = "info" then info else "", fun _ => 0, Option.none⟩

def headerText (d : DocD) : String × Option Err :=
  let shown := d.members.filter (memberShown d.showIncludes d.showNonNetwork)
  let lines := String.join (shown.map memberLine)
  let post := if shown.isEmpty then "" else "*\n"
  match d.id with
  | some i => (banner ++ "\n* NeuroMLDocument: " ++ i ++ "\n*\n" ++ lines ++ post, Option.none)
  | Option.none => (banner ++ "\n", some .typeError)

/-- the whole of `summary()` -/
def summaryText (prog : List L3) (d : DocD) : Except Err String :=
  let h := headerText d
  let st := d.nets.foldl (fun st net => runNet prog net st) ((initSt h.1).note h.2)
  match st.err with
  | some e => .error e
  | Option.none => .ok (st.strs "info" ++ banner)

end NmlVerif.Acc.Summ
