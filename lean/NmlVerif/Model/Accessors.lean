/-
Model of the connection / input accessors and of the totals printed by `NeuroMLDocument.summary`
(`neuroml/nml/helper_methods.py` and the identical copies shipped in `neuroml/nml/nml.py`,
`NeuroMLXMLParser._parse_delay`, `neuroml/utils.py: has_segment_fraction_info`).  Mathlib-free, executable.

Three layers:

1. a small Python prelude (`Val`, `Res`, `split`, `strip`, `in`, `int()`, `float()`, truthiness ...).  Python
   `float` is an abstract parameter `FloatSem F` (parse / multiply / truncate / compare); `RatSem` instantiates
   it at exact rationals for the driver.
2. the accessors, written with the prelude combinators in exactly the shape the translator
   (`harness/props/c19.py: regenerate`) emits into `Gen/Accessors.lean` from the Python AST, so the tie
   `generated = hand model` is `rfl` (`Props/C19Gen.lean`).  The hand model is bug-for-bug for the tree it was
   written against (with the `is not None` repair of `Input.get_segment_id/get_fraction_along` and the
   `ExplicitInput` defaults).
3. `summary()` totals as an interpreter over the table of `tot_* += …` statements, and the three total lines.
-/
namespace NmlVerif.Acc

/-! ## 1. Python prelude -/

/-- exceptions, mapped to a small enum (the harness canonicalises the same way) -/
inductive Err where
  | valueError | typeError | indexError | attributeError | systemExit
deriving DecidableEq, Repr, Inhabited

/-- the Python values these accessors see. `strs` = list of `str` (results of `split`), `objs n` = a list of
    `n` objects of which only the length is observed (`Population.instances`). -/
inductive Val (F : Type) where
  | none
  | bool (b : Bool)
  | int (i : Int)
  | num (x : F)
  | str (s : List Char)
  | strs (l : List (List Char))
  | objs (n : Nat)
deriving Repr, Inhabited

abbrev Res (F : Type) := Except Err (Val F)

/-- an object = its attribute dictionary; `none` = no such attribute (`AttributeError`) -/
abbrev Obj (F : Type) := String → Option (Val F)

/-- Python `float` as a parameter. `parse = float(str)` (`none` = `ValueError`), `trunc = int(float)`. -/
structure FloatSem (F : Type) where
  parse : List Char → Option F
  ofInt : Int → F
  mul : F → F → F
  trunc : F → Option Int
  isZero : F → Bool
  beq : F → F → Bool
  /-- the literals `0.5`, `1.0`, `1000.0` of the source -/
  half : F
  one : F
  thousand : F

/-- `str.isspace` for one character (what `strip()` and `int()` / `float()` remove) -/
def isSpace (c : Char) : Bool :=
  let n := c.toNat
  (9 ≤ n && n ≤ 13) || (28 ≤ n && n ≤ 32) || n == 0x85 || n == 0xA0 || n == 0x1680
    || (0x2000 ≤ n && n ≤ 0x200A) || n == 0x2028 || n == 0x2029 || n == 0x202F || n == 0x205F || n == 0x3000

def lstrip (s : List Char) : List Char := s.dropWhile isSpace
def rstrip (s : List Char) : List Char := (s.reverse.dropWhile isSpace).reverse
/-- `s.strip()` -/
def strip (s : List Char) : List Char := rstrip (lstrip s)

/-- Python `s.split(sep)` for a one-character separator. -/
def split (sep : Char) : List Char → List (List Char)
  | [] => [[]]
  | c :: cs =>
    if c = sep then [] :: split sep cs
    else match split sep cs with
      | p :: ps => (c :: p) :: ps
      | [] => [[c]]

/-- `needle in hay` for strings -/
def contains (needle : List Char) : List Char → Bool
  | [] => needle.isEmpty
  | c :: cs => needle.isPrefixOf (c :: cs) || contains needle cs

/-- `s[:-k]` for a literal `k > 0` -/
def dropRight (k : Nat) (s : List α) : List α := s.take (s.length - k)

/-- first code points of the runs of ten decimal digits of every script (`unicodedata.decimal`, Unicode 15.0:
    the characters `int()` and `float()` accept as digits) -/
def ndZeros : List Nat :=
  [48, 1632, 1776, 1984, 2406, 2534, 2662, 2790, 2918, 3046, 3174, 3302, 3430, 3558, 3664, 3792, 3872, 4160, 4240,
   6112, 6160, 6470, 6608, 6784, 6800, 6992, 7088, 7232, 7248, 42528, 43216, 43264, 43472, 43504, 43600, 44016, 65296,
   66720, 68912, 69734, 69872, 69942, 70096, 70384, 70736, 70864, 71248, 71360, 71472, 71904, 72016, 72784, 73040,
   73120, 73552, 92768, 92864, 93008, 120782, 120792, 120802, 120812, 120822, 123200, 123632, 124144, 125264, 130032]

/-- what `int()` / `float()` read (CPython's `_PyUnicode_TransformDecimalAndSpaceToASCII`): a decimal digit of any
    script as the ASCII digit, white space as a space; any other non-ASCII character cannot be part of a number -/
def asciiDigit (c : Char) : Char :=
  if c.toNat < 128 then c
  else match ndZeros.find? (fun z => decide (z ≤ c.toNat) && decide (c.toNat < z + 10)) with
    | some z => Char.ofNat (48 + (c.toNat - z))
    | Option.none => if isSpace c then ' ' else '?'

/-- `int(str)`: surrounding whitespace, one optional sign, decimal digits (of any script) with single `_` between
    digits. -/
def intOfStr (s : List Char) : Option Int :=
  match (strip s).map asciiDigit with
  | [] => Option.none
  | c :: r =>
    if c = '-' then (String.ofList r).toNat?.map (fun n => - (n : Int))
    else if c = '+' then (String.ofList r).toNat?.map (fun n => (n : Int))
    else (String.ofList (c :: r)).toNat?.map (fun n => (n : Int))

variable {F : Type}

def pstr (s : List Char) : Res F := .ok (.str s)
def pint (i : Int) : Res F := .ok (.int i)
def pnum (x : F) : Res F := .ok (.num x)
def pnone : Res F := .ok .none
/-- `exit(1)` -/
def pexit : Res F := .error .systemExit

/-- `self.name` -/
def attr (self : Obj F) (name : String) : Res F :=
  match self name with
  | some v => .ok v
  | none => .error .attributeError

/-- `'lit' in a` -/
def pIn (needle : List Char) (a : Res F) : Res F :=
  match a with
  | .error e => .error e
  | .ok (.str s) => .ok (.bool (contains needle s))
  | .ok (.strs l) => .ok (.bool (l.contains needle))
  | .ok _ => .error .typeError

/-- `a.split('c')` -/
def pSplit (c : Char) (a : Res F) : Res F :=
  match a with
  | .error e => .error e
  | .ok (.str s) => .ok (.strs (split c s))
  | .ok _ => .error .attributeError

/-- `a.strip()` -/
def pStrip (a : Res F) : Res F :=
  match a with
  | .error e => .error e
  | .ok (.str s) => .ok (.str (strip s))
  | .ok _ => .error .attributeError

/-- `a.endswith('lit')` -/
def pEndsWith (suf : List Char) (a : Res F) : Res F :=
  match a with
  | .error e => .error e
  | .ok (.str s) => .ok (.bool (suf.isSuffixOf s))
  | .ok _ => .error .attributeError

/-- `a[:-k]` -/
def pDropRight (k : Nat) (a : Res F) : Res F :=
  match a with
  | .error e => .error e
  | .ok (.str s) => .ok (.str (dropRight k s))
  | .ok (.strs l) => .ok (.strs (dropRight k l))
  | .ok _ => .error .typeError

/-- `a[i]` for a literal `i ≥ 0` -/
def pIndex (i : Nat) (a : Res F) : Res F :=
  match a with
  | .error e => .error e
  | .ok (.strs l) => match l[i]? with
    | some x => .ok (.str x)
    | none => .error .indexError
  | .ok (.str s) => match s[i]? with
    | some c => .ok (.str [c])
    | none => .error .indexError
  | .ok _ => .error .typeError

/-- `len(a)` -/
def pLen (a : Res F) : Res F :=
  match a with
  | .error e => .error e
  | .ok (.str s) => .ok (.int s.length)
  | .ok (.strs l) => .ok (.int l.length)
  | .ok (.objs n) => .ok (.int n)
  | .ok _ => .error .typeError

/-- `a > k` for an int literal `k`; only ever applied to `len(...)` -/
def pGtInt (k : Int) (a : Res F) : Res F :=
  match a with
  | .error e => .error e
  | .ok (.int i) => .ok (.bool (decide (i > k)))
  | .ok (.bool b) => .ok (.bool (decide ((if b then 1 else 0) > k)))
  | .ok _ => .error .typeError

/-- `int(a)` -/
def pInt (fs : FloatSem F) (a : Res F) : Res F :=
  match a with
  | .error e => .error e
  | .ok (.int i) => .ok (.int i)
  | .ok (.bool b) => .ok (.int (if b then 1 else 0))
  | .ok (.num x) => match fs.trunc x with
    | some i => .ok (.int i)
    | none => .error .valueError
  | .ok (.str s) => match intOfStr s with
    | some i => .ok (.int i)
    | none => .error .valueError
  | .ok _ => .error .typeError

/-- `float(a)` -/
def pFloat (fs : FloatSem F) (a : Res F) : Res F :=
  match a with
  | .error e => .error e
  | .ok (.int i) => .ok (.num (fs.ofInt i))
  | .ok (.bool b) => .ok (.num (fs.ofInt (if b then 1 else 0)))
  | .ok (.num x) => .ok (.num x)
  | .ok (.str s) => match fs.parse s with
    | some x => .ok (.num x)
    | none => .error .valueError
  | .ok _ => .error .typeError

/-- `a * lit` for a float literal -/
def pMulF (fs : FloatSem F) (a : Res F) (lit : F) : Res F :=
  match a with
  | .error e => .error e
  | .ok (.num x) => .ok (.num (fs.mul x lit))
  | .ok (.int i) => .ok (.num (fs.mul (fs.ofInt i) lit))
  | .ok (.bool b) => .ok (.num (fs.mul (fs.ofInt (if b then 1 else 0)) lit))
  | .ok _ => .error .typeError

/-- Python truthiness -/
def truthy (fs : FloatSem F) : Val F → Bool
  | .none => false
  | .bool b => b
  | .int i => i != 0
  | .num x => !fs.isZero x
  | .str s => !s.isEmpty
  | .strs l => !l.isEmpty
  | .objs n => n != 0

/-- `a if c else b` and `if c: a else: b` (the test is evaluated first; only one branch runs) -/
def pIfElse (fs : FloatSem F) (c a b : Res F) : Res F :=
  match c with
  | .error e => .error e
  | .ok v => if truthy fs v then a else b

/-- `a != None` (identical to `a is not None` for every modelled value) -/
def pNeNone (a : Res F) : Res F :=
  match a with
  | .error e => .error e
  | .ok .none => .ok (.bool false)
  | .ok _ => .ok (.bool true)

/-- `a is not None` -/
def pIsNotNone (a : Res F) : Res F := pNeNone a

/-- `f(a)`: the argument is evaluated before the call -/
def pCall1 (f : Res F → Res F) (a : Res F) : Res F :=
  match a with
  | .error e => .error e
  | .ok v => f (.ok v)

/-! ## 2. The accessors (same shape as `Gen/Accessors.lean`) -/

/-- `_get_cell_id` of `Connection`, `ConnectionWD`, `ElectricalConnectionInstance(W)`,
    `ContinuousConnectionInstance(W)`, `Input(W)`, `ExplicitInput`, `SynapticConnection`:
    `int(s.split('[')[1].split(']')[0]) if '[' in s else int(s.split('/')[2])` -/
def getCellIdPath (fs : FloatSem F) (_self : Obj F) (id_string : Res F) : Res F :=
  (pIfElse fs (pIn ['['] id_string)
    (pInt fs (pIndex 0 (pSplit ']' (pIndex 1 (pSplit '[' id_string)))))
    (pInt fs (pIndex 2 (pSplit '/' id_string))))

/-- `_get_cell_id` of `ElectricalConnection` / `ContinuousConnection`: `int(float(id_string))` -/
def getCellIdIndex (fs : FloatSem F) (_self : Obj F) (id_string : Res F) : Res F :=
  (pInt fs (pFloat fs id_string))

/-- `self._get_cell_id(self.<field>)` for a given `_get_cell_id` -/
def cellIdOf (gci : FloatSem F → Obj F → Res F → Res F) (field : String)
    (fs : FloatSem F) (self : Obj F) : Res F :=
  (pCall1 (gci fs self) (attr self field))

/-- `int(self.<field>)` (connections: `get_pre_segment_id`, ...) -/
def intField (field : String) (fs : FloatSem F) (self : Obj F) : Res F :=
  (pInt fs (attr self field))

/-- `float(self.<field>)` (connections: `get_pre_fraction_along`, ...) -/
def floatField (field : String) (fs : FloatSem F) (self : Obj F) : Res F :=
  (pFloat fs (attr self field))

/-- `Input.get_segment_id` (repaired): `int(self.segment_id) if self.segment_id is not None else 0` -/
def inputSegmentId (fs : FloatSem F) (self : Obj F) : Res F :=
  (pIfElse fs (pIsNotNone (attr self "segment_id")) (pInt fs (attr self "segment_id")) (pint 0))

/-- `Input.get_fraction_along` (repaired): `float(self.fraction_along) if self.fraction_along is not None else 0.5` -/
def inputFractionAlong (fs : FloatSem F) (self : Obj F) : Res F :=
  (pIfElse fs (pIsNotNone (attr self "fraction_along")) (pFloat fs (attr self "fraction_along")) (pnum fs.half))

/-- the code before the repair (truthiness test): kept for the witness theorems -/
def inputSegmentIdTruthy (fs : FloatSem F) (self : Obj F) : Res F :=
  (pIfElse fs (attr self "segment_id") (pInt fs (attr self "segment_id")) (pint 0))
def inputFractionAlongTruthy (fs : FloatSem F) (self : Obj F) : Res F :=
  (pIfElse fs (attr self "fraction_along") (pFloat fs (attr self "fraction_along")) (pnum fs.half))

/-- `ExplicitInput.get_segment_id` / `get_fraction_along` (repaired: the class has no such fields) -/
def explicitSegmentId (_fs : FloatSem F) (_self : Obj F) : Res F := (pint 0)
def explicitFractionAlong (fs : FloatSem F) (_self : Obj F) : Res F := (pnum fs.half)

/-- `ExplicitInput.get_target_cell_id` (its own copy of the path logic on `self.target`) -/
def explicitTargetCellId (fs : FloatSem F) (self : Obj F) : Res F :=
  (pIfElse fs (pIn ['['] (attr self "target"))
    (pInt fs (pIndex 0 (pSplit ']' (pIndex 1 (pSplit '[' (attr self "target"))))))
    (pInt fs (pIndex 2 (pSplit '/' (attr self "target")))))

/-- `get_weight` (`ElectricalConnectionInstanceW`, `ContinuousConnectionInstanceW`, `InputW`):
    `float(self.weight) if self.weight != None else 1.0` -/
def getWeight (fs : FloatSem F) (self : Obj F) : Res F :=
  (pIfElse fs (pNeNone (attr self "weight")) (pFloat fs (attr self "weight")) (pnum fs.one))

/-- `ConnectionWD.get_delay_in_ms` (falls off the end = `None` when neither test holds) -/
def getDelayInMs (fs : FloatSem F) (self : Obj F) : Res F :=
  (pIfElse fs (pIn ['m', 's'] (attr self "delay"))
    (pFloat fs (pStrip (pDropRight 2 (attr self "delay"))))
    (pIfElse fs (pIn ['s'] (attr self "delay"))
      (pMulF fs (pFloat fs (pStrip (pDropRight 1 (attr self "delay")))) fs.thousand)
      pnone))

/-- `NeuroMLXMLParser._parse_delay` (`print(...); exit(1)` when there is no unit) -/
def parseDelay (fs : FloatSem F) (_self : Obj F) (delay_string : Res F) : Res F :=
  (pIfElse fs (pEndsWith ['m', 's'] delay_string)
    (pFloat fs (pStrip (pDropRight 2 delay_string)))
    (pIfElse fs (pEndsWith ['s'] delay_string)
      (pMulF fs (pFloat fs (pStrip (pDropRight 1 delay_string))) fs.thousand)
      pexit))

/-- `Population.get_size`: `len(self.instances) if len(self.instances)>0 else (self.size if self.size else 0)` -/
def getSize (fs : FloatSem F) (self : Obj F) : Res F :=
  (pIfElse fs (pGtInt 0 (pLen (attr self "instances")))
    (pLen (attr self "instances"))
    (pIfElse fs (attr self "size") (attr self "size") (pint 0)))

/-! ### constructors: defaults and `_cast` -/

inductive Cast where
  | asIs | toInt | toFloat
deriving DecidableEq, Repr, Inhabited

/-- literal defaults of `__init__` parameters -/
inductive Lit where
  | none
  | str (s : List Char)
deriving DecidableEq, Repr, Inhabited

def Lit.toVal : Lit → Val F
  | .none => .none
  | .str s => .str s

/-- one attribute set by `__init__`: `self.<name> = _cast(<cast>, <name>)` with the parameter's default -/
structure CtorField where
  name : String
  cast : Cast
  dflt : Lit
deriving DecidableEq, Repr, Inhabited

/-- `_cast(typ, value)`: `value` if `typ is None or value is None`, else `typ(value)` -/
def castVal (fs : FloatSem F) (c : Cast) (v : Val F) : Res F :=
  match c, v with
  | _, .none => .ok .none
  | .asIs, v => .ok v
  | .toInt, v => pInt fs (.ok v)
  | .toFloat, v => pFloat fs (.ok v)

/-- run `__init__`: every declared attribute gets the given keyword argument or the default, cast.
    (`given name = none`: argument not passed.) Fails with the first failing cast. -/
def construct (fs : FloatSem F) (fields : List CtorField) (given : String → Option (Val F)) :
    Except Err (Obj F) :=
  match fields with
  | [] => .ok (fun _ => Option.none)
  | f :: rest =>
    match castVal fs f.cast ((given f.name).getD f.dflt.toVal) with
    | .error e => .error e
    | .ok v => match construct fs rest given with
      | .error e => .error e
      | .ok o => .ok (fun n => if n = f.name then some v else o n)

def oldFormatFields : List CtorField :=
  [⟨"pre_cell_id", .asIs, .none⟩, ⟨"pre_segment_id", .toInt, .str ['0']⟩,
   ⟨"pre_fraction_along", .toFloat, .str ['0', '.', '5']⟩,
   ⟨"post_cell_id", .asIs, .none⟩, ⟨"post_segment_id", .toInt, .str ['0']⟩,
   ⟨"post_fraction_along", .toFloat, .str ['0', '.', '5']⟩]

def newFormatFields : List CtorField :=
  [⟨"pre_cell", .asIs, .none⟩, ⟨"pre_segment", .toInt, .str ['0']⟩,
   ⟨"pre_fraction_along", .toFloat, .str ['0', '.', '5']⟩,
   ⟨"post_cell", .asIs, .none⟩, ⟨"post_segment", .toInt, .str ['0']⟩,
   ⟨"post_fraction_along", .toFloat, .str ['0', '.', '5']⟩]

def inputFields : List CtorField :=
  [⟨"target", .asIs, .none⟩, ⟨"segment_id", .toInt, .none⟩, ⟨"fraction_along", .toFloat, .none⟩]

/-! ### the classes -/

inductive Cls where
  | Connection | ConnectionWD
  | ElectricalConnection | ElectricalConnectionInstance | ElectricalConnectionInstanceW
  | ContinuousConnection | ContinuousConnectionInstance | ContinuousConnectionInstanceW
  | Input | InputW | ExplicitInput | SynapticConnection | Population
deriving DecidableEq, Repr, Inhabited

def Cls.name : Cls → String
  | .Connection => "Connection"
  | .ConnectionWD => "ConnectionWD"
  | .ElectricalConnection => "ElectricalConnection"
  | .ElectricalConnectionInstance => "ElectricalConnectionInstance"
  | .ElectricalConnectionInstanceW => "ElectricalConnectionInstanceW"
  | .ContinuousConnection => "ContinuousConnection"
  | .ContinuousConnectionInstance => "ContinuousConnectionInstance"
  | .ContinuousConnectionInstanceW => "ContinuousConnectionInstanceW"
  | .Input => "Input"
  | .InputW => "InputW"
  | .ExplicitInput => "ExplicitInput"
  | .SynapticConnection => "SynapticConnection"
  | .Population => "Population"

def Cls.all : List Cls :=
  [.Connection, .ConnectionWD, .ElectricalConnection, .ElectricalConnectionInstance,
   .ElectricalConnectionInstanceW, .ContinuousConnection, .ContinuousConnectionInstance,
   .ContinuousConnectionInstanceW, .Input, .InputW, .ExplicitInput, .SynapticConnection, .Population]

def Cls.ofName (s : String) : Option Cls := Cls.all.find? (fun c => c.name == s)

/-- attributes set by `__init__` that the accessors read (in assignment order, base class first) -/
def Cls.fields : Cls → List CtorField
  | .Connection => oldFormatFields
  | .ConnectionWD => oldFormatFields ++ [⟨"weight", .toFloat, .none⟩, ⟨"delay", .asIs, .none⟩]
  | .ElectricalConnection => newFormatFields
  | .ElectricalConnectionInstance => newFormatFields
  | .ElectricalConnectionInstanceW => newFormatFields ++ [⟨"weight", .toFloat, .none⟩]
  | .ContinuousConnection => newFormatFields
  | .ContinuousConnectionInstance => newFormatFields
  | .ContinuousConnectionInstanceW => newFormatFields ++ [⟨"weight", .toFloat, .none⟩]
  | .Input => inputFields
  | .InputW => inputFields ++ [⟨"weight", .toFloat, .none⟩]
  | .ExplicitInput => [⟨"target", .asIs, .none⟩]
  | .SynapticConnection => [⟨"from_", .asIs, .none⟩, ⟨"to", .asIs, .none⟩]
  | .Population => [⟨"size", .toInt, .none⟩]

/-- which `_get_cell_id` a class ends up with (method resolution order) -/
def Cls.cellIdFn : Cls → Option (FloatSem F → Obj F → Res F → Res F)
  | .ElectricalConnection | .ContinuousConnection => some getCellIdIndex
  | .Population => Option.none
  | _ => some getCellIdPath

/-- the zero-argument accessors -/
inductive Meth where
  | get_pre_cell_id | get_post_cell_id | get_pre_segment_id | get_post_segment_id
  | get_pre_fraction_along | get_post_fraction_along | get_weight | get_delay_in_ms
  | get_target_cell_id | get_segment_id | get_fraction_along | get_size
deriving DecidableEq, Repr, Inhabited

def Meth.name : Meth → String
  | .get_pre_cell_id => "get_pre_cell_id"
  | .get_post_cell_id => "get_post_cell_id"
  | .get_pre_segment_id => "get_pre_segment_id"
  | .get_post_segment_id => "get_post_segment_id"
  | .get_pre_fraction_along => "get_pre_fraction_along"
  | .get_post_fraction_along => "get_post_fraction_along"
  | .get_weight => "get_weight"
  | .get_delay_in_ms => "get_delay_in_ms"
  | .get_target_cell_id => "get_target_cell_id"
  | .get_segment_id => "get_segment_id"
  | .get_fraction_along => "get_fraction_along"
  | .get_size => "get_size"

def Meth.ofName : String → Option Meth
  | "get_pre_cell_id" => some .get_pre_cell_id
  | "get_post_cell_id" => some .get_post_cell_id
  | "get_pre_segment_id" => some .get_pre_segment_id
  | "get_post_segment_id" => some .get_post_segment_id
  | "get_pre_fraction_along" => some .get_pre_fraction_along
  | "get_post_fraction_along" => some .get_post_fraction_along
  | "get_weight" => some .get_weight
  | "get_delay_in_ms" => some .get_delay_in_ms
  | "get_target_cell_id" => some .get_target_cell_id
  | "get_segment_id" => some .get_segment_id
  | "get_fraction_along" => some .get_fraction_along
  | "get_size" => some .get_size
  | _ => Option.none

/-- accessors shared by `Connection` and `ConnectionWD` (`pre_cell_id`, `pre_segment_id`, ... attributes) -/
def oldFormatAccessor : Meth → Option (FloatSem F → Obj F → Res F)
  | .get_pre_cell_id => some (cellIdOf getCellIdPath "pre_cell_id")
  | .get_post_cell_id => some (cellIdOf getCellIdPath "post_cell_id")
  | .get_pre_segment_id => some (intField "pre_segment_id")
  | .get_post_segment_id => some (intField "post_segment_id")
  | .get_pre_fraction_along => some (floatField "pre_fraction_along")
  | .get_post_fraction_along => some (floatField "post_fraction_along")
  | _ => Option.none

/-- accessors of the `pre_cell`, `pre_segment`, ... classes, for a given `_get_cell_id` -/
def newFormatAccessor (gci : FloatSem F → Obj F → Res F → Res F) : Meth → Option (FloatSem F → Obj F → Res F)
  | .get_pre_cell_id => some (cellIdOf gci "pre_cell")
  | .get_post_cell_id => some (cellIdOf gci "post_cell")
  | .get_pre_segment_id => some (intField "pre_segment")
  | .get_post_segment_id => some (intField "post_segment")
  | .get_pre_fraction_along => some (floatField "pre_fraction_along")
  | .get_post_fraction_along => some (floatField "post_fraction_along")
  | _ => Option.none

def inputAccessor : Meth → Option (FloatSem F → Obj F → Res F)
  | .get_target_cell_id => some (cellIdOf getCellIdPath "target")
  | .get_segment_id => some inputSegmentId
  | .get_fraction_along => some inputFractionAlong
  | _ => Option.none

/-- the zero-argument accessors a class ends up with (after method resolution) -/
def Cls.accessor (c : Cls) (m : Meth) : Option (FloatSem F → Obj F → Res F) :=
  match c, m with
  | .Connection, m => oldFormatAccessor m
  | .ConnectionWD, .get_delay_in_ms => some getDelayInMs
  | .ConnectionWD, m => oldFormatAccessor m
  | .ElectricalConnection, m => newFormatAccessor getCellIdIndex m
  | .ContinuousConnection, m => newFormatAccessor getCellIdIndex m
  | .ElectricalConnectionInstance, m => newFormatAccessor getCellIdPath m
  | .ContinuousConnectionInstance, m => newFormatAccessor getCellIdPath m
  | .ElectricalConnectionInstanceW, .get_weight => some getWeight
  | .ElectricalConnectionInstanceW, m => newFormatAccessor getCellIdPath m
  | .ContinuousConnectionInstanceW, .get_weight => some getWeight
  | .ContinuousConnectionInstanceW, m => newFormatAccessor getCellIdPath m
  | .Input, m => inputAccessor m
  | .InputW, .get_weight => some getWeight
  | .InputW, m => inputAccessor m
  | .ExplicitInput, .get_target_cell_id => some explicitTargetCellId
  | .ExplicitInput, .get_segment_id => some explicitSegmentId
  | .ExplicitInput, .get_fraction_along => some explicitFractionAlong
  | .Population, .get_size => some getSize
  | _, _ => Option.none

/-! ### `neuroml.utils.has_segment_fraction_info` -/

/-- `v == k` for an int literal -/
def valEqInt (fs : FloatSem F) (v : Val F) (k : Int) : Bool :=
  match v with
  | .int i => i == k
  | .bool b => (if b then 1 else 0) == k
  | .num x => fs.beq x (fs.ofInt k)
  | _ => false

/-- `v == lit` for a float literal -/
def valEqF (fs : FloatSem F) (v : Val F) (y : F) : Bool :=
  match v with
  | .num x => fs.beq x y
  | .int i => fs.beq (fs.ofInt i) y
  | .bool b => fs.beq (fs.ofInt (if b then 1 else 0)) y
  | _ => false

/-- `conn.pre_segment_id == 0 and conn.post_segment_id == 0 and conn.pre_fraction_along == 0.5 and
    conn.post_fraction_along == 0.5` (short-circuit: a later attribute is only read when the earlier tests hold) -/
def connNoInfo (fs : FloatSem F) (c : Obj F) : Except Err Bool :=
  match c "pre_segment_id" with
  | Option.none => .error .attributeError
  | some a => if !valEqInt fs a 0 then .ok false else
    match c "post_segment_id" with
    | Option.none => .error .attributeError
    | some b => if !valEqInt fs b 0 then .ok false else
      match c "pre_fraction_along" with
      | Option.none => .error .attributeError
      | some x => if !valEqF fs x fs.half then .ok false else
        match c "post_fraction_along" with
        | Option.none => .error .attributeError
        | some y => .ok (valEqF fs y fs.half)

/-- the `while no_seg_fract_info and i < len(connections)` loop; result = final `no_seg_fract_info` -/
def hsfiLoop (fs : FloatSem F) : List (Obj F) → Except Err Bool
  | [] => .ok true
  | c :: cs =>
    match connNoInfo fs c with
    | .error e => .error e
    | .ok true => hsfiLoop fs cs
    | .ok false => .ok false

def hasSegmentFractionInfo (fs : FloatSem F) (conns : List (Obj F)) : Except Err Bool :=
  if conns.isEmpty then .ok false
  else match hsfiLoop fs conns with
    | .error e => .error e
    | .ok b => .ok (!b)

/-! ## 3. `NeuroMLDocument.summary`: totals -/

/-- the running totals of one network -/
inductive Tot where
  | cells | pops | conns | projs | inputs | inputLists
deriving DecidableEq, Repr, Inhabited

/-- right-hand side of a `tot_x += …` statement inside `for item in sorted(network.<loop>, …)` -/
inductive Addend where
  | one                          -- `+= 1`
  | len (attr : String)          -- `+= len(item.<attr>)`
  | lenIfPos (attr : String)     -- `if len(item.<attr>)>0: … += len(item.<attr>)`
  | size                         -- `+= item.get_size()`
deriving DecidableEq, Repr, Inhabited

structure Add where
  loop : String
  total : Tot
  what : Addend
deriving DecidableEq, Repr, Inhabited

/-- one element of a network list, as far as the totals see it -/
structure Item where
  sub : String → Nat   -- `len(item.<attr>)`
  size : Nat           -- `item.get_size()`

/-- a network: its member lists by attribute name -/
abbrev Net := String → List Item

def addendVal (it : Item) : Addend → Nat
  | .one => 1
  | .len a => it.sub a
  | .lenIfPos a => if it.sub a > 0 then it.sub a else 0
  | .size => it.size

/-- value of a total after all loops: every `+=` statement of the table runs once per item of its loop -/
def total (tbl : List Add) (net : Net) (t : Tot) : Nat :=
  tbl.foldl (fun acc a =>
    if a.total = t then (net a.loop).foldl (fun acc it => acc + addendVal it a.what) acc else acc) 0

/-- the `tot_* += …` statements of `summary` in source order -/
def summaryTable : List Add :=
  [⟨"populations", .pops, .one⟩, ⟨"populations", .cells, .size⟩,
   ⟨"projections", .projs, .one⟩,
   ⟨"projections", .conns, .len "connections"⟩, ⟨"projections", .conns, .len "connection_wds"⟩,
   ⟨"electrical_projections", .projs, .one⟩,
   ⟨"electrical_projections", .conns, .len "electrical_connections"⟩,
   ⟨"electrical_projections", .conns, .len "electrical_connection_instances"⟩,
   ⟨"electrical_projections", .conns, .len "electrical_connection_instance_ws"⟩,
   ⟨"continuous_projections", .projs, .one⟩,
   ⟨"continuous_projections", .conns, .len "continuous_connections"⟩,
   ⟨"continuous_projections", .conns, .len "continuous_connection_instances"⟩,
   ⟨"continuous_projections", .conns, .len "continuous_connection_instance_ws"⟩,
   ⟨"input_lists", .inputLists, .one⟩,
   ⟨"input_lists", .inputs, .lenIfPos "input"⟩, ⟨"input_lists", .inputs, .lenIfPos "input_ws"⟩]

/-- a piece of a printed total line: literal text or `str(tot_x)` -/
inductive Seg where
  | lit (s : String)
  | tot (t : Tot)
deriving DecidableEq, Repr, Inhabited

/-- the three `info += "*   " + str(tot_a) + " … in " + str(tot_b) + " … \n"` lines (up to the newline) -/
def summaryLines : List (List Seg) :=
  [[.lit "*   ", .tot .cells, .lit " cells in ", .tot .pops, .lit " populations "],
   [.lit "*   ", .tot .conns, .lit " connections in ", .tot .projs, .lit " projections "],
   [.lit "*   ", .tot .inputs, .lit " inputs in ", .tot .inputLists, .lit " input lists "]]

def renderLine (tbl : List Add) (net : Net) (l : List Seg) : String :=
  l.foldl (fun acc s => acc ++ (match s with
    | .lit x => x
    | .tot t => toString (total tbl net t))) ""

/-! ## 4. vocabulary of the property statement (schema patterns, reference forms) -/

/-- characters of the NmlId pattern `[a-zA-Z0-9_]` -/
def isIdChar (c : Char) : Bool := c.isAlphanum || c == '_'

/-- the schema's `NmlId` pattern `[a-zA-Z_][a-zA-Z0-9_]*` -/
def isNmlId : List Char → Bool
  | [] => false
  | c :: r => (c.isAlpha || c == '_') && r.all isIdChar

/-- characters of the number part of the schema's `Nml2Quantity_time` pattern
    `-?([0-9]*(\.[0-9]+)?)([eE]-?[0-9]+)?` -/
def isTimeNumChar (c : Char) : Bool := c.isDigit || c == '-' || c == '.' || c == 'e' || c == 'E'

/-- an index spelling of the reference pattern: `[0-9]+` (leading zeros allowed) -/
def isDigits (ds : List Char) : Bool := !ds.isEmpty && ds.all Char.isDigit

/-- the number a digit string denotes -/
def decVal (ds : List Char) : Nat := Nat.ofDigitChars 10 ds 0

/-- `../<pop>/<index>/<comp>` -/
def slashPath (pop ds comp : List Char) : List Char :=
  '.' :: '.' :: '/' :: (pop ++ '/' :: (ds ++ '/' :: comp))

/-- `../<pop>/<index>` (the pattern's component part is optional) -/
def slashPathNoComp (pop ds : List Char) : List Char :=
  '.' :: '.' :: '/' :: (pop ++ '/' :: ds)

/-- `<pop>[<index>]`, with or without a leading `../` -/
def bracketPath (dots : Bool) (pop ds : List Char) : List Char :=
  (if dots then ['.', '.', '/'] else []) ++ (pop ++ '[' :: (ds ++ [']']))

/-! ### a recogniser for the schema's `Nml2Quantity_time` pattern
`-?([0-9]*(\.[0-9]+)?)([eE]-?[0-9]+)?[\s]*(s|ms)` (each optional group is taken when it can be: no later part of
the pattern starts with a character the group could have consumed, so the greedy reading is the only one) -/

/-- `-?` -/
def optMinus : List Char → List Char × List Char
  | '-' :: r => (['-'], r)
  | s => ([], s)

/-- `(\.[0-9]+)?` -/
def optFrac (s : List Char) : List Char × List Char :=
  match s with
  | '.' :: r =>
    if (r.takeWhile Char.isDigit).isEmpty then ([], s)
    else ('.' :: r.takeWhile Char.isDigit, r.dropWhile Char.isDigit)
  | _ => ([], s)

/-- `([eE]-?[0-9]+)?` -/
def optExp (s : List Char) : List Char × List Char :=
  match s with
  | c :: r =>
    if c = 'e' ∨ c = 'E' then
      if (((optMinus r).2).takeWhile Char.isDigit).isEmpty then ([], s)
      else (c :: ((optMinus r).1 ++ ((optMinus r).2).takeWhile Char.isDigit), ((optMinus r).2).dropWhile Char.isDigit)
    else ([], s)
  | [] => ([], s)

/-- number part of a time quantity and what follows it -/
def timeNumSplit (s : List Char) : List Char × List Char :=
  let a := optMinus s
  let b := a.2.takeWhile Char.isDigit
  let c := optFrac (a.2.dropWhile Char.isDigit)
  let d := optExp c.2
  (a.1 ++ b ++ c.1 ++ d.1, d.2)

/-- does the whole string match the `Nml2Quantity_time` pattern? -/
def matchTime (s : List Char) : Bool :=
  let u := (timeNumSplit s).2.dropWhile isSpace
  u == ['s'] || u == ['m', 's']

/-! ## 5. exact rationals as `float` (driver only) -/

/-- digits with single underscores between digits, as a natural number and a digit count -/
def digitsVal (s : List Char) : Option (Nat × Nat) :=
  if s.isEmpty then Option.none else
  match (String.ofList s).toNat? with
  | some n => some (n, (s.filter Char.isDigit).length)
  | Option.none => Option.none

def pow10 (e : Int) : Rat := if e ≥ 0 then ((10 : Rat) ^ e.toNat) else 1 / ((10 : Rat) ^ (-e).toNat)

/-- `[eE][+-]?digits` without the mark: the decimal exponent -/
def expDigits (r : List Char) : Option Int :=
  match r with
  | [] => Option.none
  | c :: t =>
    if c = '-' then (digitsVal t).map (fun p => - (p.1 : Int))
    else if c = '+' then (digitsVal t).map (fun p => (p.1 : Int))
    else (digitsVal (c :: t)).map (fun p => (p.1 : Int))

/-- what follows the mantissa: nothing, or the exponent mark and the exponent -/
def expoOf (rest : List Char) : Option Int :=
  match rest with
  | [] => some 0
  | _ :: e => expDigits e

/-- `digits [. [digits]]` or `. digits` -/
def mantOf (mant : List Char) : Option Rat :=
  match mant.takeWhile (fun c => c != '.'), mant.dropWhile (fun c => c != '.') with
  | ip, [] => (digitsVal ip).map (fun p => (p.1 : Rat))
  | ip, _ :: fp =>
    if ip.isEmpty then (digitsVal fp).map (fun p => (p.1 : Rat) * pow10 (-(p.2 : Int)))
    else if fp.isEmpty then (digitsVal ip).map (fun p => (p.1 : Rat))
    else match digitsVal ip, digitsVal fp with
      | some a, some b => some ((a.1 : Rat) + (b.1 : Rat) * pow10 (-(b.2 : Int)))
      | _, _ => Option.none

/-- unsigned decimal float literal: `digits [. [digits]] [e[+-]digits]` or `. digits [e…]` -/
def ratOfUnsigned (s : List Char) : Option Rat :=
  match mantOf (s.takeWhile (fun c => c != 'e' && c != 'E')), expoOf (s.dropWhile (fun c => c != 'e' && c != 'E')) with
  | some m, some e => some (m * pow10 e)
  | _, _ => Option.none

/-- `float(str)` for finite decimal spellings, digits of any script (`inf` / `nan` spellings are outside the modelled
    alphabet) -/
def ratOfStr (s : List Char) : Option Rat :=
  match (strip s).map asciiDigit with
  | [] => Option.none
  | c :: r =>
    if c = '-' then (ratOfUnsigned r).map (fun q => -q)
    else if c = '+' then ratOfUnsigned r
    else ratOfUnsigned (c :: r)

/-- truncation toward zero -/
def ratTrunc (q : Rat) : Int := if q ≥ 0 then q.floor else - (-q).floor

def RatSem : FloatSem Rat where
  parse := ratOfStr
  ofInt := fun i => (i : Rat)
  mul := fun a b => a * b
  trunc := fun q => some (ratTrunc q)
  isZero := fun q => q == 0
  beq := fun a b => a == b
  half := 1 / 2
  one := 1
  thousand := 1000

end NmlVerif.Acc
