import NmlVerif.Model.Members
/-!
# Model of `GeneratedsSuperSuper.add` / `__add`  (neuroml/nml/generatedssupersuper.py:26-101, 162-204)

Bug-for-bug, on the tree with `fixes/C10-add-bad-hint-raises.patch` applied (a hint that names none of the
candidate members raises; before the repair the `for` loop fell through silently).

Python objects are values (`Obj`): an identity `oid`, the class (interned name) and the instance `__dict__` as an
ordered association list — without `parent_object_` and `gds_collector_`, which the generated `__eq__` skips.
`vars(self)[name]` is `Obj.get`, assignment is `Obj.set` (an existing key keeps its position, a new key goes last).

`obj in list` is `pyIn`: identity or the generated `GeneratedsSuper.__eq__` (nml.py:761-776): same type and
pairwise equal `__dict__` items *in insertion order* — including `gds_elementtree_node_`, the lxml element a
loaded component was built from, which compares by identity (`Val.node`).  `pyEq false` is the same comparison
with every lxml node considered equal to every other (= value equality of the component's content).

No Mathlib.
-/
namespace NmlVerif.Add

mutual
/-- a Python value found in an instance `__dict__` -/
inductive Val where
  | none
  /-- str / int / float / bool, given by its token `<type>:<repr>` (see `atomNum`); compared as Python's `==` does
      (`atomEq`), `truthy` = `bool(value)` -/
  | atom (repr : String) (truthy : Bool)
  /-- an lxml element (`gds_elementtree_node_`): compared by identity -/
  | node (id : Nat)
  | obj (o : Obj)
  | list (items : List Val)
/-- instance of a generated class -/
inductive Obj where
  | mk (oid cls : Nat) (fields : List (Nat × Val))
end

def Obj.oid : Obj → Nat | .mk i _ _ => i
def Obj.cls : Obj → Nat | .mk _ c _ => c
def Obj.fields : Obj → List (Nat × Val) | .mk _ _ f => f

/-- split a character list at the first occurrence of `c`: what precedes it, and (if `c` occurs) what follows -/
def splitFirst (c : Char) : List Char → List Char × Option (List Char)
  | [] => ([], none)
  | x :: r => if x == c then ([], some r) else
      let p := splitFirst c r
      (x :: p.1, p.2)

def digitsToNat : List Char → Nat → Option Nat
  | [], acc => some acc
  | x :: r, acc => if x.isDigit then digitsToNat r (acc * 10 + (x.toNat - '0'.toNat)) else none

def parseNat (cs : List Char) : Option Nat := if cs.isEmpty then none else digitsToNat cs 0

def parseInt : List Char → Option Int
  | '-' :: r => (parseNat r).map (fun n => - (n : Int))
  | cs => (parseNat cs).map (fun n => (n : Int))

/-- the exact numeric value `(numerator, denominator)` of a number token: `int:5`, `bool:True` (Python's `bool` is
    an `int`: `True == 1`), `float:0.5=1/2` (the harness writes the exact value of a finite float after `=`);
    `none` for every other token (`str:…`, `float:nan`, `float:inf`, …) -/
def atomNum (tok : String) : Option (Int × Nat) :=
  match splitFirst ':' tok.toList with
  | (kind, some rest) =>
    if kind == "int".toList then (parseInt rest).map (fun n => (n, 1))
    else if kind == "bool".toList then
      (if rest == "True".toList then some (1, 1) else if rest == "False".toList then some (0, 1) else none)
    else if kind == "float".toList then
      match splitFirst '=' rest with
      | (_, some q) =>
        match splitFirst '/' q with
        | (n, some d) =>
          match parseInt n, parseNat d with
          | some n, some d => if d == 0 then none else some (n, d)
          | _, _ => none
        | _ => none
      | _ => none
    else none
  | _ => none

/-- Python's `==` on two plain values given by their tokens: numbers of whatever type (int / float / bool) are
    equal iff their exact values are (`1 == 1.0 == True`, `0.0 == -0.0`); anything else iff type and value, i.e. the
    tokens, coincide (a `str` never equals a number) -/
def atomEq (r r' : String) : Bool :=
  match atomNum r, atomNum r' with
  | some (n, d), some (n', d') => n * (d' : Int) == n' * (d : Int)
  | _, _ => r == r'

mutual
/-- `a == b` (`strict = true`: as Python evaluates it; `strict = false`: lxml nodes ignored) -/
def pyEq (strict : Bool) : Val → Val → Bool
  | .none, .none => true
  | .atom r _, .atom r' _ => atomEq r r'
  | .node a, .node b => !strict || a == b
  | .obj a, .obj b => objEq strict a b
  | .list a, .list b => listEq strict a b
  | _, _ => false
termination_by structural a => a
/-- identity shortcut (tuple/list comparison and `in` test identity first), else the generated `__eq__` -/
def objEq (strict : Bool) : Obj → Obj → Bool
  | .mk i c fs, .mk j d gs => i == j || (c == d && fieldsEq strict fs gs)
termination_by structural a => a
/-- `all(x == y for x, y in zip_longest(items, items'))` on `(key, value)` tuples -/
def fieldsEq (strict : Bool) : List (Nat × Val) → List (Nat × Val) → Bool
  | [], [] => true
  | (k, v) :: r, (k', v') :: r' => k == k' && pyEq strict v v' && fieldsEq strict r r'
  | _, _ => false
termination_by structural a => a
def listEq (strict : Bool) : List Val → List Val → Bool
  | [], [] => true
  | v :: r, v' :: r' => pyEq strict v v' && listEq strict r r'
  | _, _ => false
termination_by structural a => a
end

-- `nodeFree`: no lxml element anywhere inside: the value was built programmatically, not loaded from XML
mutual
def Val.nodeFree : Val → Bool
  | .none => true
  | .atom _ _ => true
  | .node _ => false
  | .obj o => o.nodeFree
  | .list l => listNodeFree l
termination_by structural a => a
def Obj.nodeFree : Obj → Bool
  | .mk _ _ fs => fieldsNodeFree fs
termination_by structural a => a
def fieldsNodeFree : List (Nat × Val) → Bool
  | [] => true
  | (_, v) :: r => v.nodeFree && fieldsNodeFree r
termination_by structural a => a
def listNodeFree : List Val → Bool
  | [] => true
  | v :: r => v.nodeFree && listNodeFree r
termination_by structural a => a
end


/-- `child in items` -/
def pyIn (strict : Bool) (child : Obj) (items : List Val) : Bool := items.any (fun x => pyEq strict x (.obj child))

/-- `bool(v)` for the values a member can hold (generated classes define neither `__bool__` nor `__len__`) -/
def Val.truthy : Val → Bool
  | .none => false
  | .atom _ t => t
  | .node _ => true
  | .obj _ => true
  | .list l => !l.isEmpty

def lookup : List (Nat × Val) → Nat → Option Val
  | [], _ => none
  | (k, v) :: r, n => if k == n then some v else lookup r n

/-- dict assignment: an existing key keeps its position, a new key is appended -/
def setF : List (Nat × Val) → Nat → Val → List (Nat × Val)
  | [], n, v => [(n, v)]
  | (k, w) :: r, n, v => if k == n then (k, v) :: r else (k, w) :: setF r n v

def Obj.get (o : Obj) (n : Nat) : Option Val := lookup o.fields n
def Obj.set (o : Obj) (n : Nat) (v : Val) : Obj := .mk o.oid o.cls (setF o.fields n v)

inductive Err where
  /-- `Exception("A member object of … type could not be found …")` -/
  | noMember
  /-- `Exception("Multiple members can accept … provide … hint")` -/
  | ambiguous
  /-- `Exception("Hint … does not match …")` (the repair) -/
  | badHint
  /-- `KeyError`: the instance has no such attribute (`vars(self)[name]`) -/
  | keyError
  /-- `AttributeError`/`TypeError`: a container member does not hold a list -/
  | notAList
  /-- `ValueError` from `self.validate()` after the placement -/
  | invalid
  /-- whatever `str(child)` raises while the duplicate warning is being formatted (the `__str__` helpers of some
      classes fail on incomplete components) -/
  | strFails
deriving DecidableEq, Repr

inductive Warn where
  /-- "… has already been assigned. Use `force=True` to overwrite." -/
  | occupied
  /-- "… already exists in …. Use `force=True` to force readdition." -/
  | duplicate
deriving DecidableEq, Repr

/-- `__add(obj, member, force)`: new parent and the warning issued, or the exception (nothing was changed).
    `sOk`: `str(child)` succeeds (the duplicate warning formats the child; the "occupied" warning does not). -/
def place (sOk : Bool) (parent child : Obj) (m : MemberSpec) (force : Bool) : Except Err (Obj × Option Warn) :=
  if !m.container then
    if force then .ok (parent.set m.name (.obj child), none)
    else match parent.get m.name with
      | none => .error .keyError
      | some v => if v.truthy then .ok (parent, some .occupied)
                  else .ok (parent.set m.name (.obj child), none)
  else
    match parent.get m.name with
    | none => .error .keyError
    | some (.list l) =>
      if force then .ok (parent.set m.name (.list (l ++ [.obj child])), none)
      else if pyIn true child l then (if sOk then .ok (parent, some .duplicate) else .error .strFails)
      else .ok (parent.set m.name (.list (l ++ [.obj child])), none)
    | some _ => .error .notAList

/-- members whose data type is exactly the child's class name (no subclass matching) -/
def targets (members : List MemberSpec) (childCls : Nat) : List MemberSpec :=
  members.filter (fun m => m.dataType == childCls)

/-- the 0 / 1 / many split and the hint loop. `hint = none` stands for every falsy hint (`None`, `""`).
    `strict = false` is the loop before the repair: no candidate named by the hint ⇒ nothing is selected. -/
def select (strict : Bool) (ts : List MemberSpec) (hint : Option Nat) : Except Err (Option MemberSpec) :=
  match ts with
  | [] => .error .noMember
  | [m] => .ok (some m)
  | _ :: _ :: _ =>
    match hint with
    | none => .error .ambiguous
    | some h =>
      match ts.find? (fun m => m.name == h) with
      | some m => .ok (some m)
      | none => if strict then .error .badHint else .ok none

/-- the two switches of the validation gate: `build_time_validation.ENABLED` and the `validate=` argument -/
structure Gate where
  enabled : Bool
  validate : Bool
deriving DecidableEq, Repr

def Gate.on (g : Gate) : Bool := g.enabled && g.validate

/-- what one `add` call leaves behind: the parent afterwards, the warning issued (if any), and what the call
    returned (the object) or raised -/
structure Outcome where
  parent : Obj
  warn : Option Warn
  result : Except Err Obj

/-- `parent.add(child, hint, force, validate)` for a component instance `child`, given the member list of the
    parent's class. `valid` is `validate()` accepting (properties C02/C03 relate it to the schema); the
    validation runs after the placement (or the refusal) and raises `ValueError` without undoing anything. -/
def addCore (strict : Bool) (valid strOk : Obj → Bool) (members : List MemberSpec) (g : Gate)
    (parent child : Obj) (hint : Option Nat) (force : Bool) : Outcome :=
  match select strict (targets members child.cls) hint with
  | .error e => ⟨parent, none, .error e⟩
  | .ok none => ⟨parent, none, if g.on && !valid parent then .error .invalid else .ok child⟩
  | .ok (some m) =>
    match place (strOk child) parent child m force with
    | .error e => ⟨parent, none, .error e⟩
    | .ok (p', w) => ⟨p', w, if g.on && !valid p' then .error .invalid else .ok child⟩

/-- the code as repaired -/
def addWith := addCore true

def add (T : Table) (valid strOk : Obj → Bool) (g : Gate) (parent child : Obj) (hint : Option Nat)
    (force : Bool) :=
  addWith valid strOk (T.getMembers parent.cls) g parent child hint force

/-- a sequence of `add` calls on one parent; the outcomes in call order -/
structure Call where
  child : Obj
  hint : Option Nat
  force : Bool
  gate : Gate

def runCalls (T : Table) (valid strOk : Obj → Bool) : Obj → List Call → Obj × List Outcome
  | p, [] => (p, [])
  | p, c :: cs =>
    let r := add T valid strOk c.gate p c.child c.hint c.force
    let rest := runCalls T valid strOk r.parent cs
    (rest.1, r :: rest.2)

/-- every member of the parent's class has an instance attribute, list-valued where the member is a container
    (what the generated constructors establish) -/
def wfFor (members : List MemberSpec) (o : Obj) : Bool :=
  members.all (fun m => match o.get m.name with
    | none => false
    | some (.list _) => true
    | some _ => !m.container)

end NmlVerif.Add

/-! ## Specification vocabulary (used by `Props/C10.lean`) -/
namespace NmlVerif.Add

/-- `p'` is `parent` with `child` stored under member `m` — appended to the list of a container member, assigned
    to a single-valued one — and nothing else altered: identity, class and every other attribute are the same -/
def StoredIn (parent p' : Obj) (m : MemberSpec) (child : Obj) : Prop :=
  p'.oid = parent.oid ∧ p'.cls = parent.cls ∧ (∀ n, n ≠ m.name → p'.get n = parent.get n) ∧
  (if m.container then ∃ l, parent.get m.name = some (.list l) ∧ p'.get m.name = some (.list (l ++ [.obj child]))
   else p'.get m.name = some (.obj child))

/-- `__add` stores: the slot exists and is free (single-valued: falsy; container: no equal element), or `force` -/
def Storable (parent child : Obj) (m : MemberSpec) (force : Bool) : Prop :=
  if m.container then ∃ l, parent.get m.name = some (.list l) ∧ (force = true ∨ pyIn true child l = false)
  else (force = true ∨ ∃ v, parent.get m.name = some v ∧ v.truthy = false)

/-- an equal child is already in the container / the single-valued member is occupied -/
def Taken (parent child : Obj) (m : MemberSpec) : Prop :=
  if m.container then ∃ l, parent.get m.name = some (.list l) ∧ pyIn true child l = true
  else ∃ v, parent.get m.name = some v ∧ v.truthy = true

/-- `Taken`, with "equal" read as equality of the components' VALUES (the lxml elements they may have been loaded
    from are ignored) -/
def TakenByValue (parent child : Obj) (m : MemberSpec) : Prop :=
  if m.container then ∃ l, parent.get m.name = some (.list l) ∧ pyIn false child l = true
  else ∃ v, parent.get m.name = some v ∧ v.truthy = true

def warnOf (m : MemberSpec) : Warn := if m.container then .duplicate else .occupied

end NmlVerif.Add
