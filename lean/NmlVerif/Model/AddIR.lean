import NmlVerif.Model.Add
/-!
# A small imperative vocabulary for `GeneratedsSuperSuper.add` and `GeneratedsSuperSuper.__add`

`translators/py2lean_add.py` reads `neuroml/nml/generatedssupersuper.py` on every run and writes the two methods
down, statement by statement and with their real nesting (`if / elif / else`, `for … else` with `break`,
`try … except Exception`), as terms of this vocabulary (`lean/NmlVerif/Gen/AddImpl.lean`).  One primitive per
statement form (the Python text of each is in the translator's table), generic control-flow combinators.
`Props/C10Gen.lean` proves that the generated terms compute what the hand model `Model/Add.lean` computes.

Python → here
* a frame's local variables = `Locals`; `self` is the parent (a value; assignment to `vars(self)[…]` replaces it);
  a call of `self.__add(...)` runs the callee in a fresh frame and hands `self` and the warnings back;
* a condition may raise (`vars(self)[name]` → `KeyError`): conditions return `Except Err Bool`;
* `Res`: how a statement ends — normally, by `break`, by `return`, by an exception, or `stuck` (an unbound local was
  read: cannot happen in a translated method) / `outside` (the branch belongs to another property: `add(None)` and
  `add(<type or name>)` are `component_factory` business, C09).
* the two repairs proposed for the open findings change `__add` only; the model has one switch for each
  (`DupTest`, `WarnFmt`), the translator reports which form the source has.
-/
namespace NmlVerif.Add

/-! ### equality of contents: everything except the book-keeping attributes -/

mutual
/-- remove the attributes named in `skip` from every component inside a value -/
def Val.strip (skip : List Nat) : Val → Val
  | .none => .none
  | .atom r t => .atom r t
  | .node i => .node i
  | .obj o => .obj (o.strip skip)
  | .list l => .list (stripList skip l)
termination_by structural a => a
def Obj.strip (skip : List Nat) : Obj → Obj
  | .mk i c fs => .mk i c (stripFields skip fs)
termination_by structural a => a
def stripFields (skip : List Nat) : List (Nat × Val) → List (Nat × Val)
  | [] => []
  | (k, v) :: r => if skip.contains k then stripFields skip r else (k, v.strip skip) :: stripFields skip r
termination_by structural a => a
def stripList (skip : List Nat) : List Val → List Val
  | [] => []
  | v :: r => v.strip skip :: stripList skip r
termination_by structural a => a
end

/-- `GeneratedsSuperSuper.__same_contents(first, second)` of the proposed repair
    (`fixes/C10-add-dup-by-contents.patch`): identity, or same type and pairwise the same attributes in the same
    order with the same contents — the attributes in `skip` (`book_keeping`) left out at every level -/
def sameContents (skip : List Nat) (a b : Val) : Bool := pyEq true (a.strip skip) (b.strip skip)

/-- how `__add` decides that a child "already exists" in a list member -/
inductive DupTest where
  /-- `obj in vars(self)[name]`: identity or the generated `__eq__` -/
  | generatedEq
  /-- `any(self.__same_contents(obj, existing) for existing in vars(self)[name])` -/
  | sameContents
deriving DecidableEq, Repr

/-- how the duplicate warning gets its text -/
inductive WarnFmt where
  /-- `"{} already exists in {}…".format(obj, name)`: `str(obj)` may raise -/
  | strObj
  /-- `try: description = str(obj)` / `except Exception: description = object.__repr__(obj)` -/
  | guarded
deriving DecidableEq, Repr

def dupIn (d : DupTest) (skip : List Nat) (child : Obj) (l : List Val) : Bool :=
  match d with
  | .generatedEq => pyIn true child l
  | .sameContents => l.any (fun x => sameContents skip (.obj child) x)

/-- `__add` with the two switches (`place` is `placeX .generatedEq .strObj`, see `Proofs/AddIR.lean`) -/
def placeX (d : DupTest) (w : WarnFmt) (skip : List Nat) (sOk : Bool) (parent child : Obj) (m : MemberSpec)
    (force : Bool) : Except Err (Obj × Option Warn) :=
  if !m.container then
    if force then .ok (parent.set m.name (.obj child), none)
    else match parent.get m.name with
      | none => .error .keyError
      | some v => if v.truthy then .ok (parent, some .occupied)
                  else .ok (parent.set m.name (.obj child), none)
  else
    match parent.get m.name with
    | none => .error .keyError
    | some (.list l) =>
      if force then .ok (parent.set m.name (.list (l ++ [.obj child])), none)
      else if dupIn d skip child l then
        (if sOk || w == .guarded then .ok (parent, some .duplicate) else .error .strFails)
      else .ok (parent.set m.name (.list (l ++ [.obj child])), none)
    | some _ => .error .notAList

/-- `add` with the two switches -/
def addCoreX (d : DupTest) (w : WarnFmt) (skip : List Nat) (valid strOk : Obj → Bool) (members : List MemberSpec)
    (g : Gate) (parent child : Obj) (hint : Option Nat) (force : Bool) : Outcome :=
  match select true (targets members child.cls) hint with
  | .error e => ⟨parent, none, .error e⟩
  | .ok none => ⟨parent, none, if g.on && !valid parent then .error .invalid else .ok child⟩
  | .ok (some m) =>
    match placeX d w skip (strOk child) parent child m force with
    | .error e => ⟨parent, none, .error e⟩
    | .ok (p', w') => ⟨p', w', if g.on && !valid p' then .error .invalid else .ok child⟩

namespace IR

/-- what was passed as `obj` -/
inductive ObjKind where
  | falsy          -- `None`, …: `add()` prints `info()` and returns `None` (C09)
  | typeOrStr      -- a class or a class name: `component_factory` builds the child first (C09)
  | component      -- an instance of a generated class: the subject of C10
deriving DecidableEq, Repr

/-- everything a run depends on besides the frame -/
structure Env where
  /-- what `self._get_members()` returns -/
  members : List MemberSpec
  valid : Obj → Bool
  strOk : Obj → Bool
  kind : ObjKind
  /-- `neuroml.build_time_validation.ENABLED` -/
  enabled : Bool
  /-- the interned names of the `book_keeping` tuple of `__same_contents` (empty when the source has none) -/
  skip : List Nat

/-- local variables of `add` / `__add` (`none` = not bound yet) -/
structure Locals where
  self : Obj
  obj : Obj
  hint : Option Nat
  force : Bool
  validate : Bool
  all_members : Option (List MemberSpec) := none
  targets : Option (List MemberSpec) := none
  member : Option MemberSpec := none
  t : Option MemberSpec := none
  /-- the exception being put together (`e` / `err_string`): which of `add`'s three messages it carries -/
  pending : Option Err := none
  description : Bool := false
  /-- warnings issued so far, oldest first -/
  warns : List Warn := []

inductive Res where
  | normal (σ : Locals)
  | broke (σ : Locals)
  | returned (σ : Locals) (v : Option Obj)
  | raised (σ : Locals) (e : Err)
  | stuck
  | outside

abbrev Cmd := Env → Locals → Res
abbrev Cond := Env → Locals → Except Err (Option Bool)      -- `.ok none` = stuck

/-! ### control flow (generic) -/

def skip : Cmd := fun _ σ => .normal σ

def seq (a b : Cmd) : Cmd := fun env σ =>
  match a env σ with
  | .normal σ' => b env σ'
  | r => r

def block : List Cmd → Cmd
  | [] => skip
  | c :: cs => seq c (block cs)

/-- `if c: a` / `else: b` (`elif` = an `if` inside the `else`) -/
def ifElse (c : Cond) (a b : Cmd) : Cmd := fun env σ =>
  match c env σ with
  | .error e => .raised σ e
  | .ok none => .stuck
  | .ok (some true) => a env σ
  | .ok (some false) => b env σ

def ifC (c : Cond) (a : Cmd) : Cmd := ifElse c a skip

def forLoop (bind : MemberSpec → Locals → Locals) (body orelse : Cmd) : List MemberSpec → Cmd
  | [], env, σ => orelse env σ
  | m :: r, env, σ =>
    match body env (bind m σ) with
    | .normal σ' => forLoop bind body orelse r env σ'
    | .broke σ' => .normal σ'
    | res => res

/-- `for <var> in <iterable>: body` / `else: orelse` (the iterable is evaluated once; `break` skips `orelse`) -/
def forElse (iter : Locals → Option (List MemberSpec)) (bind : MemberSpec → Locals → Locals) (body orelse : Cmd) : Cmd :=
  fun env σ =>
    match iter σ with
    | none => .stuck
    | some l => forLoop bind body orelse l env σ

def forEach (iter : Locals → Option (List MemberSpec)) (bind : MemberSpec → Locals → Locals) (body : Cmd) : Cmd :=
  forElse iter bind body skip

def brk : Cmd := fun _ σ => .broke σ

/-- `try: body` / `except Exception: handler` -/
def tryExceptException (body handler : Cmd) : Cmd := fun env σ =>
  match body env σ with
  | .raised σ' _ => handler env σ'
  | r => r

/-- a statement the translator does not know -/
def unsupported : Cmd := fun _ _ => .stuck

/-! ### iterables and loop variables -/

def allMembersIter (σ : Locals) : Option (List MemberSpec) := σ.all_members
def targetsIter (σ : Locals) : Option (List MemberSpec) := σ.targets
def bindMember (m : MemberSpec) (σ : Locals) : Locals := { σ with member := some m }
def bindT (m : MemberSpec) (σ : Locals) : Locals := { σ with t := some m }

/-! ### conditions -/

def objFalsy : Cond := fun env _ => .ok (some (env.kind == .falsy))
def objIsTypeOrStr : Cond := fun env _ => .ok (some (env.kind == .typeOrStr))
def memberTypeIsObjType : Cond := fun _ σ => .ok (σ.member.map (fun m => m.dataType == σ.obj.cls))
def targetsLen0 : Cond := fun _ σ => .ok (σ.targets.map (fun ts => ts.length == 0))
def targetsLen1 : Cond := fun _ σ => .ok (σ.targets.map (fun ts => ts.length == 1))
def notHint : Cond := fun _ σ => .ok (some σ.hint.isNone)
def hintIsTName : Cond := fun _ σ => .ok (σ.t.map (fun t => σ.hint == some t.name))
def gateOn : Cond := fun env σ => .ok (some (env.enabled && σ.validate))
def memberIsSingle : Cond := fun _ σ => .ok (σ.member.map (fun m => !m.container))
def forceFlag : Cond := fun _ σ => .ok (some σ.force)
/-- `vars(self)[member.get_name()]` as a condition -/
def memberValueTruthy : Cond := fun _ σ =>
  match σ.member with
  | none => .ok none
  | some m => match σ.self.get m.name with
    | none => .error .keyError
    | some v => .ok (some v.truthy)
/-- `obj in vars(self)[member.get_name()]` -/
def objInMember : Cond := fun _ σ =>
  match σ.member with
  | none => .ok none
  | some m => match σ.self.get m.name with
    | none => .error .keyError
    | some (.list l) => .ok (some (pyIn true σ.obj l))
    | some _ => .error .notAList
/-- `any(self.__same_contents(obj, existing) for existing in vars(self)[member.get_name()])` -/
def anySameContents : Cond := fun env σ =>
  match σ.member with
  | none => .ok none
  | some m => match σ.self.get m.name with
    | none => .error .keyError
    | some (.list l) => .ok (some (l.any (fun x => sameContents env.skip (.obj σ.obj) x)))
    | some _ => .error .notAList

/-! ### statements of `add` -/

def callInfo : Cmd := fun _ _ => .outside
def retNone : Cmd := fun _ σ => .returned σ none
def factoryAssign : Cmd := fun _ _ => .outside
def initTargets : Cmd := fun _ σ => .normal { σ with targets := some [] }
def getAllMembers : Cmd := fun env σ => .normal { σ with all_members := some env.members }
def appendTarget : Cmd := fun _ σ =>
  match σ.targets, σ.member with
  | some ts, some m => .normal { σ with targets := some (ts ++ [m]) }
  | _, _ => .stuck
def mkNoMemberError : Cmd := fun _ σ => .normal { σ with pending := some .noMember }
def setErrMultiple : Cmd := fun _ σ => .normal { σ with pending := some .ambiguous }
def setErrHint : Cmd := fun _ σ => .normal { σ with pending := some .badHint }
def appendTNameToErr : Cmd := fun _ σ =>
  match σ.t, σ.pending with
  | some _, some _ => .normal σ
  | _, _ => .stuck
def raisePending : Cmd := fun _ σ =>
  match σ.pending with
  | some e => .raised σ e
  | none => .stuck
def validateSelf : Cmd := fun env σ => if env.valid σ.self then .normal σ else .raised σ .invalid
def logDisabled : Cmd := fun _ σ => .normal σ
def retObj : Cmd := fun _ σ => .returned σ (some σ.obj)

/-- `self.__add(obj, <member>, force)`: the callee runs in its own frame; `self` (mutated in place) and the warnings
    are what the caller sees of it; an exception propagates -/
def callPlace (arg : Locals → Option MemberSpec) (callee : Cmd) : Cmd := fun env σ =>
  match arg σ with
  | none => .stuck
  | some m =>
    match callee env { self := σ.self, obj := σ.obj, hint := none, force := σ.force, validate := true,
                       member := some m, warns := σ.warns } with
    | .normal σ' => .normal { σ with self := σ'.self, warns := σ'.warns }
    | .returned σ' _ => .normal { σ with self := σ'.self, warns := σ'.warns }
    | .raised σ' e => .raised { σ with self := σ'.self, warns := σ'.warns } e
    | .broke _ => .stuck
    | .stuck => .stuck
    | .outside => .outside

def firstTarget (σ : Locals) : Option MemberSpec := σ.targets.bind (fun ts => ts.head?)
def theT (σ : Locals) : Option MemberSpec := σ.t
def callAddFirst (callee : Cmd) : Cmd := callPlace firstTarget callee
def callAddT (callee : Cmd) : Cmd := callPlace theT callee

/-! ### statements of `__add` -/

def importWarnings : Cmd := skip
/-- `vars(self)[member.get_name()] = obj` -/
def assignMember : Cmd := fun _ σ =>
  match σ.member with
  | none => .stuck
  | some m => .normal { σ with self := σ.self.set m.name (.obj σ.obj) }
/-- `vars(self)[member.get_name()].append(obj)` -/
def appendMember : Cmd := fun _ σ =>
  match σ.member with
  | none => .stuck
  | some m => match σ.self.get m.name with
    | none => .raised σ .keyError
    | some (.list l) => .normal { σ with self := σ.self.set m.name (.list (l ++ [.obj σ.obj])) }
    | some _ => .raised σ .notAList
def warnOccupied : Cmd := fun _ σ => .normal { σ with warns := σ.warns ++ [.occupied] }
/-- `warnings.warn("{} already exists in {}…".format(obj, member.get_name()))` -/
def warnDuplicateObj : Cmd := fun env σ =>
  if env.strOk σ.obj then .normal { σ with warns := σ.warns ++ [.duplicate] } else .raised σ .strFails
/-- `description = str(obj)` -/
def describeObj : Cmd := fun env σ =>
  if env.strOk σ.obj then .normal { σ with description := true } else .raised σ .strFails
/-- `description = object.__repr__(obj)` -/
def describeObjRepr : Cmd := fun _ σ => .normal { σ with description := true }
/-- `warnings.warn("{} already exists in {}…".format(description, member.get_name()))` -/
def warnDuplicateDescription : Cmd := fun _ σ =>
  if σ.description then .normal { σ with warns := σ.warns ++ [.duplicate] } else .stuck

/-! ### running a translated `add` -/

def start (parent child : Obj) (hint : Option Nat) (force validate : Bool) : Locals :=
  { self := parent, obj := child, hint := hint, force := force, validate := validate }

/-- the hand model records at most one warning per call -/
def warnOf? : List Warn → Option (Option Warn)
  | [] => some none
  | [w] => some (some w)
  | _ => none

/-- the observable outcome of `add`'s body (`none`: the run left the vocabulary — `stuck` — or the subject —
    `outside`; a function body that simply ends, or `return`s nothing, returns `None`: not an outcome of C10) -/
def outcomeOf : Res → Option Outcome
  | .returned σ (some o) => (warnOf? σ.warns).map (fun w => ⟨σ.self, w, .ok o⟩)
  | .raised σ e => (warnOf? σ.warns).map (fun w => ⟨σ.self, w, .error e⟩)
  | _ => none

end IR
end NmlVerif.Add
