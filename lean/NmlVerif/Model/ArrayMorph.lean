/-
Model of the array-backed morphology (`neuroml/arraymorph.py`: `ArrayMorphology`, `SegmentList`) and of its
HDF5 file format (`neuroml/writers.py: ArrayMorphWriter`, `neuroml/loaders.py: ArrayMorphLoader`).
Mathlib-free, executable, bug-for-bug (says what the code DOES on the repaired tree; the two pre-repair
behaviours are kept as `toNeuromlMorphologyOld` / `writeDocOld` for the witness theorems).

Conventions
* a numpy array is a `List`; indexing is Python/numpy indexing (`getI`/`setI`: a negative index counts from
  the end, anything outside `[-n, n)` is an `IndexError`).  The code RELIES on this: `connectivity[root] = -1`
  is used as an index in `to_root` (prefetched grandparent) and in `segment_from_vertex_index` (the "parent
  vertex" of a root is the LAST vertex).
* a vertex is `(x, y, z, d)`; the coordinates are opaque to the code (never computed with), the model carries
  them as integers (the harness uses dyadic coordinates and sends numerators over a fixed denominator).
* the mask is the truthiness of `physical_mask` (`True` = floating vertex).
* `SegmentList.instantiated_segments` (a cache of segment objects) is not modelled: a view query is answered
  from the arrays, which is what the code does on a fresh `ArrayMorphology`.
-/
namespace NmlVerif.ArrayMorph

inductive Err where
  | indexError        -- numpy/Python `IndexError`
  | outOfFuel         -- the `while` loop of `to_root` did not stop within the fuel (= does not terminate)
  | nodeError         -- PyTables `NodeError`: the group already has a child of that name
  | noSuchNode        -- PyTables `NoSuchNodeError`: a group that is read as a morphology lacks an array
  | unboundLocal      -- (pre-repair writer only) `UnboundLocalError: cell`
deriving Repr, DecidableEq, Inhabited

abbrev Vec4 := Int × Int × Int × Int

/-- the three arrays of an `ArrayMorphology` (all the file format stores) -/
structure Arr where
  vertices : List Vec4
  conn : List Int
  mask : List Bool
deriving Repr, DecidableEq, Inhabited

/-! ### Python / numpy indexing -/

/-- position addressed by index `i` in a sequence of length `n` -/
def pyIdx (n : Nat) (i : Int) : Option Nat :=
  if 0 ≤ i then (if i.toNat < n then some i.toNat else none)
  else if -(n : Int) ≤ i then some (i + n).toNat else none

/-- `l[i]` -/
def getI (l : List α) (i : Int) : Except Err α :=
  match pyIdx l.length i with
  | none => .error .indexError
  | some k => match l[k]? with
    | some x => .ok x
    | none => .error .indexError

/-- `l[i] = v` -/
def setI (l : List α) (i : Int) (v : α) : Except Err (List α) :=
  match pyIdx l.length i with
  | none => .error .indexError
  | some k => .ok (l.set k v)

/-! ### segments -/

/-- what the checks observe of a `neuroml.Segment` made by the array backend -/
structure Segment where
  id : Int
  proximal : Vec4            -- the code puts the vertex itself here
  distal : Vec4              -- … and its parent vertex here
  parent : Option Int        -- `SegmentParent(segments=parent_index)`, only set when `index > 1`
deriving Repr, DecidableEq, Inhabited

/-- `ArrayMorphology.segment_from_vertex_index(index)` -/
def segmentFromVertex (a : Arr) (index : Int) : Except Err Segment := do
  let parentIndex ← getI a.conn index
  let node ← getI a.vertices index
  let par ← getI a.vertices parentIndex
  pure { id := index, proximal := node, distal := par,
         parent := if index > 1 then some parentIndex else none }

/-- `np.where(physical_mask == False)[0]`, positions counted from `k` -/
def whereFalse : Nat → List Bool → List Int
  | _, [] => []
  | k, b :: bs => if b then whereFalse (k + 1) bs else (k : Int) :: whereFalse (k + 1) bs

/-- `segment_distal_vertex_indexes = np.where(physical_mask == False)[0] + 1` -/
def distalIdx (a : Arr) : List Int := (whereFalse 0 a.mask).map (· + 1)

/-- `SegmentList.__len__`: vertices − floating − 1, not below 0 -/
def viewLen (a : Arr) : Nat := a.vertices.length - a.mask.count true - 1

/-- `SegmentList.__getitem__(segment_index)` on an empty cache -/
def viewGet (a : Arr) (segmentIndex : Int) : Except Err Segment := do
  let v ← getI (distalIdx a) segmentIndex
  segmentFromVertex a v

def iterGo (a : Arr) : List Int → List Segment
  | [] => []
  | v :: vs => match segmentFromVertex a v with
    | .ok s => s :: iterGo a vs
    | .error _ => []

/-- `list(morph.segments)`: `SegmentList` has no `__iter__`, so Python calls `__getitem__(0)`, `(1)`, … until
    the first `IndexError` (either the end of `segment_distal_vertex_indexes` or an index error inside
    `segment_from_vertex_index`). -/
def viewIter (a : Arr) : List Segment := iterGo a (distalIdx a)

def mapE (f : α → Except Err β) : List α → Except Err (List β)
  | [] => .ok []
  | x :: xs => match f x with
    | .error e => .error e
    | .ok y => match mapE f xs with
      | .error e => .error e
      | .ok ys => .ok (y :: ys)

/-- `to_neuroml_morphology` (repaired): `for index in range(1, self.num_vertices)` -/
def toNeuromlMorphology (a : Arr) : Except Err (List Segment) :=
  mapE (fun k : Nat => segmentFromVertex a (k : Int)) (List.range' 1 (a.vertices.length - 1))

/-- `to_neuroml_morphology` before the repair: `for index in range(self.num_vertices - 1)` -/
def toNeuromlMorphologyOld (a : Arr) : Except Err (List Segment) :=
  mapE (fun k : Nat => segmentFromVertex a (k : Int)) (List.range (a.vertices.length - 1))

/-! ### re-rooting -/

def firstIdx (p : α → Bool) : Nat → List α → Option Nat
  | _, [] => none
  | k, x :: xs => if p x then some k else firstIdx p (k + 1) xs

/-- `root_index = np.where(connectivity == -1)[0][0]` -/
def rootIndex (c : List Int) : Except Err Nat :=
  match firstIdx (fun x => x == -1) 0 c with
  | some k => .ok k
  | none => .error .indexError

/-- the `while index != old_root_index:` loop of `to_root`, one unit of fuel per test of the condition -/
def rootLoop (oldRoot : Int) : Nat → List Int → Int → Int → Int → Except Err (List Int)
  | 0, _, _, _, _ => .error .outOfFuel
  | f + 1, c, index, parentIndex, grandparentIndex =>
    if index = oldRoot then .ok c else
      match setI c parentIndex index with                -- connectivity[parent_index] = index
      | .error e => .error e
      | .ok c' =>
        match getI c' grandparentIndex with              -- grandparent_index = connectivity[parent_index]
        | .error e => .error e                           --   (read AFTER index/parent moved up)
        | .ok g' => rootLoop oldRoot f c' parentIndex grandparentIndex g'

def toRootFuel (fuel : Nat) (a : Arr) (index : Int) : Except Err Arr := do
  let oldRoot ← rootIndex a.conn
  let parentIndex ← getI a.conn index
  let grandparentIndex ← getI a.conn parentIndex
  let c ← rootLoop (oldRoot : Int) fuel a.conn index parentIndex grandparentIndex
  let c' ← setI c index (-1)
  pure { a with conn := c' }

/-- `ArrayMorphology.to_root(index)`; on a tree the loop tests its condition at most `n` times
    (`Proofs/ArrayMorph.lean: depth_lt`), so this fuel never runs out there -/
def toRoot (a : Arr) (index : Int) : Except Err Arr := toRootFuel (a.conn.length + 1) a index

/-! ### the file format -/

structure Morph where
  id : Option String
  arr : Arr
deriving Repr, DecidableEq, Inhabited

structure Cell where
  id : Option String
  morph : Morph
deriving Repr, DecidableEq, Inhabited

/-- what the writer looks at in a `NeuroMLDocument` -/
structure Doc where
  cells : List Cell
  morphs : List Morph
deriving Repr, DecidableEq, Inhabited

/-- a child of the HDF5 root group -/
inductive Node where
  | morph (a : Arr)                              -- group with arrays vertices / connectivity / physical_mask
  | cell (children : List (String × Arr))        -- group holding morphology groups
deriving Repr, DecidableEq, Inhabited

/-- the file: children of the root group in creation order -/
abbrev H5 := List (String × Node)

def hasChild (f : H5) (name : String) : Bool := f.any (fun e => e.1 == name)

/-- `fileh.create_group(root, name)` followed by filling the group -/
def addNode (f : H5) (name : String) (nd : Node) : Except Err H5 :=
  if hasChild f name then .error .nodeError else .ok (f ++ [(name, nd)])

/-- `__write_single_cell(array_morph, fileh, cell_id)` -/
def writeSingleCell (m : Morph) (f : H5) (cellId : Option String) : Except Err H5 :=
  let morphologyName := match m.id with | none => "Morphology" | some s => s
  match cellId with
  | none => addNode f morphologyName (.morph m.arr)
  | some c => addNode f c (.cell [(morphologyName, m.arr)])

def dflt (o : Option String) (pfx : String) (k : Nat) : String :=
  match o with | some s => s | none => pfx ++ toString k

/-- first loop of `__write_neuroml_document`: `for default_id, cell in enumerate(document.cells)` -/
def writeCells : Nat → List Cell → H5 → Except Err H5
  | _, [], f => .ok f
  | k, c :: cs, f =>
    let m : Morph := { c.morph with id := some (dflt c.morph.id "Morphology" k) }
    match writeSingleCell m f (some (dflt c.id "Cell" k)) with
    | .error e => .error e
    | .ok f' => writeCells (k + 1) cs f'

/-- second loop (repaired): `cls.__write_single_cell(morphology, fileh)` -/
def writeMorphs : Nat → List Morph → H5 → Except Err H5
  | _, [], f => .ok f
  | k, m :: ms, f =>
    match writeSingleCell { m with id := some (dflt m.id "Morphology" k) } f none with
    | .error e => .error e
    | .ok f' => writeMorphs (k + 1) ms f'

/-- `ArrayMorphWriter.write(document, path)` -/
def writeDoc (d : Doc) : Except Err H5 :=
  match writeCells 0 d.cells [] with
  | .error e => .error e
  | .ok f => writeMorphs 0 d.morphs f

/-- `ArrayMorphWriter.write(array_morph, path)` -/
def writeMorph (m : Morph) : Except Err H5 := writeSingleCell m [] none

/-- second loop before the repair: `cell_id=cell.id` with `cell` left over from the first loop -/
def writeMorphsOld (lastCell : Option String) : Nat → List Morph → H5 → Except Err H5
  | _, [], f => .ok f
  | k, m :: ms, f =>
    match lastCell with
    | none => .error .unboundLocal
    | some cid =>
      match writeSingleCell { m with id := some (dflt m.id "Morphology" k) } f (some cid) with
      | .error e => .error e
      | .ok f' => writeMorphsOld lastCell (k + 1) ms f'

def lastCellId : Nat → List Cell → Option String
  | _, [] => none
  | k, [c] => some (dflt c.id "Cell" k)
  | k, _ :: c :: cs => lastCellId (k + 1) (c :: cs)

def writeDocOld (d : Doc) : Except Err H5 :=
  match writeCells 0 d.cells [] with
  | .error e => .error e
  | .ok f => writeMorphsOld (lastCellId 0 d.cells) 0 d.morphs f

def nameLe (a b : String × Node) : Bool := decide (a.1 ≤ b.1)

/-- what `ArrayMorphLoader.load` appends for one child of the root group -/
def nodeMorphs : String × Node → Except Err (List Arr)
  | (_, .morph a) => .ok [a]                       -- `hasattr(node, "vertices")`
  | (_, .cell ch) =>
    -- a cell group that has a child called "vertices" is itself taken for a morphology and lacks the arrays
    if ch.any (fun e => e.1 == "vertices") then .error .noSuchNode
    else .ok ((ch.mergeSort (fun x y => decide (x.1 ≤ y.1))).map (·.2))

def concatE : List (Except Err (List Arr)) → Except Err (List Arr)
  | [] => .ok []
  | .error e :: _ => .error e
  | .ok xs :: rest => match concatE rest with
    | .error e => .error e
    | .ok ys => .ok (xs ++ ys)

/-- `ArrayMorphLoader.load(path).morphology` as array triples; PyTables iterates children by name -/
def load (f : H5) : Except Err (List Arr) :=
  concatE ((f.mergeSort nameLe).map nodeMorphs)

end NmlVerif.ArrayMorph
