/-
Model of the array-backed morphology (`neuroml/arraymorph.py`: `ArrayMorphology`, `SegmentList`) and of its
HDF5 file format (`neuroml/writers.py: ArrayMorphWriter`, `neuroml/loaders.py: ArrayMorphLoader`).
Mathlib-free, executable, bug-for-bug (says what the code DOES on the repaired tree; the pre-repair
behaviours are kept as `toNeuromlMorphologyOld` / `writeDocOld` / `toRootObjOld`, `stepOld`, `runOld` /
`nodeMorphsOld`, `loadOld` / `writeXDocOld` for the witness theorems about the defects that were repaired).

Conventions
* a numpy array is a `List`; indexing is Python/numpy indexing (`getI`/`setI`: a negative index counts from
  the end, anything outside `[-n, n)` is an `IndexError`).  The code RELIES on this: `connectivity[root] = -1`
  is used as an index in `to_root` (prefetched grandparent) and in `segment_from_vertex_index` (the "parent
  vertex" of a root is the LAST vertex).
* a vertex is `(x, y, z, d)`; the coordinates are opaque to the code (never computed with), the model carries
  them as integers (the harness uses dyadic coordinates and sends numerators over a fixed denominator).
* the mask is the truthiness of `physical_mask` (`True` = floating vertex).
* `SegmentList.instantiated_segments` (a per-object cache of segment objects, keyed by the SEGMENT index exactly
  as it was passed to `segments[...]`) IS modelled (second pass): `Obj` = arrays + cache, `step`/`run` execute a
  HISTORY of calls on one object (`getItem` fills and reads the cache, iteration goes through `getItem`,
  `to_root` rewrites the connectivity and EMPTIES the cache — `fixes/C18-toroot-invalidates-cache.patch`; before
  that repair it left the cache alone: `toRootObjOld` —, nothing else touches it).  The cache-free
  functions (`viewGet`, `viewIter`, …) are the array-defined values the histories are compared with (`specRun`).
-/
namespace NmlVerif.ArrayMorph

deriving instance DecidableEq for Except

inductive Err where
  | indexError        -- numpy/Python `IndexError`
  | outOfFuel         -- the `while` loop of `to_root` did not stop within the fuel (= does not terminate)
  | nodeError         -- PyTables `NodeError`: the group already has a child of that name
  | noSuchNode        -- PyTables `NoSuchNodeError`: a group that is read as a morphology lacks an array (pre-repair loader only)
  | unboundLocal      -- (pre-repair writer only) `UnboundLocalError: cell`
  | keyError          -- dict lookup of a missing key (only reachable in generated code, `Gen/ArrayMorph.lean`)
  | attributeError    -- attribute access on `None` / on an object of another class (pre-repair document writer only)
deriving Repr, DecidableEq, Inhabited

abbrev Vec4 := Int × Int × Int × Int

/-- the three arrays of an `ArrayMorphology` (all the file format stores) -/
structure Arr where
  vertices : List Vec4
  conn : List Int
  mask : List Bool
deriving Repr, DecidableEq, Inhabited

/-! ### Python / numpy indexing -/

/-- position addressed by index `i` in a sequence of length `n` -/
def pyIdx (n : Nat) (i : Int) : Option Nat :=
  if 0 ≤ i then (if i.toNat < n then some i.toNat else none)
  else if -(n : Int) ≤ i then some (i + n).toNat else none

/-- `l[i]` -/
def getI (l : List α) (i : Int) : Except Err α :=
  match pyIdx l.length i with
  | none => .error .indexError
  | some k => match l[k]? with
    | some x => .ok x
    | none => .error .indexError

/-- `l[i] = v` -/
def setI (l : List α) (i : Int) (v : α) : Except Err (List α) :=
  match pyIdx l.length i with
  | none => .error .indexError
  | some k => .ok (l.set k v)

/-! ### segments -/

/-- what the checks observe of a `neuroml.Segment` made by the array backend -/
structure Segment where
  id : Int
  proximal : Vec4            -- the code puts the vertex itself here
  distal : Vec4              -- … and its parent vertex here
  parent : Option Int        -- `SegmentParent(segments=parent_index)`, only set when `index > 1`
deriving Repr, DecidableEq, Inhabited

/-- `ArrayMorphology.segment_from_vertex_index(index)` -/
def segmentFromVertex (a : Arr) (index : Int) : Except Err Segment := do
  let parentIndex ← getI a.conn index
  let node ← getI a.vertices index
  let par ← getI a.vertices parentIndex
  pure { id := index, proximal := node, distal := par,
         parent := if index > 1 then some parentIndex else none }

/-- `np.where(physical_mask == False)[0]`, positions counted from `k` -/
def whereFalse : Nat → List Bool → List Int
  | _, [] => []
  | k, b :: bs => if b then whereFalse (k + 1) bs else (k : Int) :: whereFalse (k + 1) bs

/-- `segment_distal_vertex_indexes = np.where(physical_mask == False)[0] + 1` -/
def distalIdx (a : Arr) : List Int := (whereFalse 0 a.mask).map (· + 1)

/-- `SegmentList.__len__`: vertices − floating − 1, not below 0 -/
def viewLen (a : Arr) : Nat := a.vertices.length - a.mask.count true - 1

/-- `SegmentList.__getitem__(segment_index)` on an empty cache -/
def viewGet (a : Arr) (segmentIndex : Int) : Except Err Segment := do
  let v ← getI (distalIdx a) segmentIndex
  segmentFromVertex a v

def iterGo (a : Arr) : List Int → List Segment
  | [] => []
  | v :: vs => match segmentFromVertex a v with
    | .ok s => s :: iterGo a vs
    | .error _ => []

/-- `list(morph.segments)`: `SegmentList` has no `__iter__`, so Python calls `__getitem__(0)`, `(1)`, … until
    the first `IndexError` (either the end of `segment_distal_vertex_indexes` or an index error inside
    `segment_from_vertex_index`). -/
def viewIter (a : Arr) : List Segment := iterGo a (distalIdx a)

def mapE (f : α → Except Err β) : List α → Except Err (List β)
  | [] => .ok []
  | x :: xs => match f x with
    | .error e => .error e
    | .ok y => match mapE f xs with
      | .error e => .error e
      | .ok ys => .ok (y :: ys)

/-- `to_neuroml_morphology` (repaired): `for index in range(1, self.num_vertices)` -/
def toNeuromlMorphology (a : Arr) : Except Err (List Segment) :=
  mapE (fun k : Nat => segmentFromVertex a (k : Int)) (List.range' 1 (a.vertices.length - 1))

/-- `to_neuroml_morphology` before the repair: `for index in range(self.num_vertices - 1)` -/
def toNeuromlMorphologyOld (a : Arr) : Except Err (List Segment) :=
  mapE (fun k : Nat => segmentFromVertex a (k : Int)) (List.range (a.vertices.length - 1))

/-! ### re-rooting -/

def firstIdx (p : α → Bool) : Nat → List α → Option Nat
  | _, [] => none
  | k, x :: xs => if p x then some k else firstIdx p (k + 1) xs

/-- `root_index = np.where(connectivity == -1)[0][0]` -/
def rootIndex (c : List Int) : Except Err Nat :=
  match firstIdx (fun x => x == -1) 0 c with
  | some k => .ok k
  | none => .error .indexError

/-- the `while index != old_root_index:` loop of `to_root`, one unit of fuel per test of the condition -/
def rootLoop (oldRoot : Int) : Nat → List Int → Int → Int → Int → Except Err (List Int)
  | 0, _, _, _, _ => .error .outOfFuel
  | f + 1, c, index, parentIndex, grandparentIndex =>
    if index = oldRoot then .ok c else
      match setI c parentIndex index with                -- connectivity[parent_index] = index
      | .error e => .error e
      | .ok c' =>
        match getI c' grandparentIndex with              -- grandparent_index = connectivity[parent_index]
        | .error e => .error e                           --   (read AFTER index/parent moved up)
        | .ok g' => rootLoop oldRoot f c' parentIndex grandparentIndex g'

def toRootFuel (fuel : Nat) (a : Arr) (index : Int) : Except Err Arr := do
  let oldRoot ← rootIndex a.conn
  let parentIndex ← getI a.conn index
  let grandparentIndex ← getI a.conn parentIndex
  let c ← rootLoop (oldRoot : Int) fuel a.conn index parentIndex grandparentIndex
  let c' ← setI c index (-1)
  pure { a with conn := c' }

/-- `ArrayMorphology.to_root(index)`; on a tree the loop tests its condition at most `n` times
    (`Proofs/ArrayMorph.lean: depth_lt`), so this fuel never runs out there -/
def toRoot (a : Arr) (index : Int) : Except Err Arr := toRootFuel (a.conn.length + 1) a index

/-! ### the object: arrays + segment cache; histories of calls on ONE object -/

/-- `SegmentList.instantiated_segments`: a dict, key = the segment index as passed (any int, negative ones are
    keys of their own), value = the segment object handed out.  Newest binding first; `List.lookup` finds the
    newest, which is dict assignment. -/
abbrev Cache := List (Int × Segment)

/-- one `ArrayMorphology` object together with its `SegmentList` proxy (`self.segments.arraymorph is self`) -/
structure Obj where
  arr : Arr
  cache : Cache
deriving Repr, DecidableEq, Inhabited

/-- the object right after construction: `SegmentList.__init__` sets `instantiated_segments = {}` -/
def fresh (a : Arr) : Obj := { arr := a, cache := [] }

/-- `SegmentList.__getitem__(segment_index)`: a cached segment is returned as is; otherwise the segment is built
    from the arrays and stored under `segment_index`.  An `IndexError` leaves the cache untouched. -/
def getItem (o : Obj) (segmentIndex : Int) : Except Err Segment × Obj :=
  match o.cache.lookup segmentIndex with
  | some s => (.ok s, o)
  | none =>
    match viewGet o.arr segmentIndex with
    | .error e => (.error e, o)
    | .ok s => (.ok s, { o with cache := (segmentIndex, s) :: o.cache })

/-- `SegmentList.__setitem__(index, segment)` (outside the property: the user overrides a segment) -/
def setItem (o : Obj) (index : Int) (s : Segment) : Obj := { o with cache := (index, s) :: o.cache }

/-- the sequence-protocol loop behind `for s in morph.segments` / `list(morph.segments)`:
    `__getitem__(k)`, `__getitem__(k+1)`, … until the first `IndexError` -/
def iterFrom : Nat → Obj → Nat → List Segment × Obj
  | 0, o, _ => ([], o)
  | f + 1, o, k =>
    match getItem o (k : Int) with
    | (.ok s, o') => let r := iterFrom f o' (k + 1); (s :: r.1, r.2)
    | (.error _, o') => ([], o')

/-- the largest key of the cache (`-1` when there is none that is larger) -/
def maxKey : Cache → Int
  | [] => -1
  | e :: es => if e.1 > maxKey es then e.1 else maxKey es

/-- iteration of the view on an object with a cache.  A call `__getitem__(k)` can only succeed when `k` is a
    position of `segment_distal_vertex_indexes` or a key of the cache (and the keys the loop itself adds are
    below `k`), so the loop has stopped after at most `|distalIdx| + (largest key + 1) + 1` calls: this fuel never
    runs out (`Proofs/ArrayMorphHist.lean: iterObj_fuel_enough`). -/
def iterFuel (o : Obj) : Nat := (distalIdx o.arr).length + (maxKey o.cache + 1).toNat + 1

def iterObj (o : Obj) : List Segment × Obj := iterFrom (iterFuel o) o 0

/-- `ArrayMorphology.valid_ids`: every cached segment's id equals its key (truthiness of the product) -/
def validIds (o : Obj) : Bool := o.cache.all (fun e => decide (e.2.id = e.1))

/-- `ArrayMorphology.to_root(index)` on the object: rewrites `connectivity` and then empties the segment cache
    (`self.segments.instantiated_segments.clear()`, the last statement: segments built from the old connectivity
    are not handed out again).  When the call raises, the `clear()` is not reached; the object is left as it was
    in the model (the code may have done part of its in-place writes: a history is not continued after a failed
    `to_root`). -/
def toRootObj (o : Obj) (index : Int) : Except Err Unit × Obj :=
  match toRoot o.arr index with
  | .ok a' => (.ok (), { arr := a', cache := [] })
  | .error e => (.error e, o)

/-- `to_root` BEFORE `fixes/C18-toroot-invalidates-cache.patch`: the cache survives the re-rooting (so segments
    handed out earlier, and kept by the cache, keep their old parent) -/
def toRootObjOld (o : Obj) (index : Int) : Except Err Unit × Obj :=
  match toRoot o.arr index with
  | .ok a' => (.ok (), { o with arr := a' })
  | .error e => (.error e, o)

/-- `SegmentList.append(segment)` (outside the property: the morphology is no longer "given as arrays"): two
    new vertices — the segment's distal point as a new root, floating unless it is the very first, and its
    proximal point attached to it — and the segment object itself goes into the cache under `len(self) - 1`.
    (On an object built with NO vertices the code's `np.append` turns `connectivity` into floats; the
    harness only appends to objects that have vertices.) -/
def appendSeg (o : Obj) (s : Segment) : Obj :=
  let n := o.arr.vertices.length
  let a' : Arr :=
    { vertices := o.arr.vertices ++ [s.distal, s.proximal],
      conn := o.arr.conn ++ [-1, (n : Int)],
      mask := if o.arr.mask.length = 0 then [false, false] else o.arr.mask ++ [true, false] }
  { arr := a', cache := (((viewLen a' : Nat) : Int) - 1, s) :: o.cache }

/-- the calls of a history (the property's observers and `to_root`) -/
inductive Op where
  | get (i : Int)        -- `morph.segments[i]`
  | len                  -- `len(morph.segments)`
  | iter                 -- `list(morph.segments)`
  | sfv (k : Int)        -- `morph.segment_from_vertex_index(k)`
  | conv                 -- `morph.to_neuroml_morphology().segments`
  | toRoot (j : Int)     -- `morph.to_root(j)`
deriving Repr, DecidableEq, Inhabited

/-- what one call returns -/
inductive Res where
  | seg (r : Except Err Segment)
  | len (n : Nat)
  | segs (l : List Segment)
  | conv (r : Except Err (List Segment))
  | unit (r : Except Err Unit)
deriving DecidableEq

/-- the call reads/fills the segment cache -/
def Op.usesCache : Op → Bool
  | .get _ => true
  | .iter => true
  | _ => false

def Op.isToRoot : Op → Bool
  | .toRoot _ => true
  | _ => false

/-- a `to_root` call names a vertex of a morphology with `n` vertices (other calls: no condition) -/
def Op.rootInRange (n : Nat) : Op → Bool
  | .toRoot j => decide (0 ≤ j) && decide (j < (n : Int))
  | _ => true

/-- one call on the object -/
def step (o : Obj) : Op → Res × Obj
  | .get i => let r := getItem o i; (.seg r.1, r.2)
  | .len => (.len (viewLen o.arr), o)
  | .iter => let r := iterObj o; (.segs r.1, r.2)
  | .sfv k => (.seg (segmentFromVertex o.arr k), o)
  | .conv => (.conv (toNeuromlMorphology o.arr), o)
  | .toRoot j => let r := toRootObj o j; (.unit r.1, r.2)

/-- a history of calls on one object: the results in order, and the final object -/
def run : Obj → List Op → List Res × Obj
  | o, [] => ([], o)
  | o, op :: ops => let r := step o op; let rs := run r.2 ops; (r.1 :: rs.1, rs.2)

/-- the array-defined value of one call: computed from the arrays alone (no cache) -/
def specStep (a : Arr) : Op → Res × Arr
  | .get i => (.seg (viewGet a i), a)
  | .len => (.len (viewLen a), a)
  | .iter => (.segs (viewIter a), a)
  | .sfv k => (.seg (segmentFromVertex a k), a)
  | .conv => (.conv (toNeuromlMorphology a), a)
  | .toRoot j => match toRoot a j with
    | .ok a' => (.unit (.ok ()), a')
    | .error e => (.unit (.error e), a)

/-- the array-defined results of a history -/
def specRun : Arr → List Op → List Res × Arr
  | a, [] => ([], a)
  | a, op :: ops => let r := specStep a op; let rs := specRun r.2 ops; (r.1 :: rs.1, rs.2)

/-! ### primitives the statement-level translation of `arraymorph.py` is expressed in
(`translators/py2lean_arraymorph.py` → `Gen/ArrayMorph.lean`; `Props/C18Gen.lean` proves generated = hand model) -/

/-- `np.where(arr == x)[0]` on an int array, positions counted from `k` -/
def whereEq (x : Int) : Nat → List Int → List Int
  | _, [] => []
  | k, y :: ys => if y = x then (k : Int) :: whereEq x (k + 1) ys else whereEq x (k + 1) ys

/-- `range(a, b)` -/
def pyRange (a b : Int) : List Int := (List.range (b - a).toNat).map (fun k : Nat => a + (k : Int))

/-- `vertices[i][k]` -/
def getComp (vs : List Vec4) (i k : Int) : Except Err Int := do
  let v ← getI vs i
  getI [v.1, v.2.1, v.2.2.1, v.2.2.2] k

/-- `self.connectivity[i] = v` -/
def setConn (o : Obj) (i v : Int) : Except Err Obj :=
  match setI o.arr.conn i v with
  | .ok c => .ok { o with arr := { o.arr with conn := c } }
  | .error e => .error e

/-- `k in self.instantiated_segments` -/
def cacheHas (o : Obj) (k : Int) : Bool := (o.cache.lookup k).isSome

/-- `self.instantiated_segments[k]` -/
def cacheGet (o : Obj) (k : Int) : Except Err Segment :=
  match o.cache.lookup k with
  | some s => .ok s
  | none => .error .keyError

/-- what the checks observe of the `neuroml.Morphology` built by `to_neuroml_morphology` -/
structure PlainMorph where
  id : Option String
  segments : List Segment
deriving Repr, DecidableEq, Inhabited

/-! the history semantics BEFORE `fixes/C18-toroot-invalidates-cache.patch` (witness theorems only) -/

def stepOld (o : Obj) : Op → Res × Obj
  | .toRoot j => let r := toRootObjOld o j; (.unit r.1, r.2)
  | op => step o op

def runOld : Obj → List Op → List Res × Obj
  | o, [] => ([], o)
  | o, op :: ops => let r := stepOld o op; let rs := runOld r.2 ops; (r.1 :: rs.1, rs.2)

/-! ### the file format -/

structure Morph where
  id : Option String
  arr : Arr
deriving Repr, DecidableEq, Inhabited

structure Cell where
  id : Option String
  morph : Morph
deriving Repr, DecidableEq, Inhabited

/-- what the writer looks at in a `NeuroMLDocument` -/
structure Doc where
  cells : List Cell
  morphs : List Morph
deriving Repr, DecidableEq, Inhabited

/-- a child of the HDF5 root group -/
inductive Node where
  | morph (a : Arr)                              -- group with arrays vertices / connectivity / physical_mask
  | cell (children : List (String × Arr))        -- group holding morphology groups
deriving Repr, DecidableEq, Inhabited

/-- the file: children of the root group in creation order -/
abbrev H5 := List (String × Node)

def hasChild (f : H5) (name : String) : Bool := f.any (fun e => e.1 == name)

/-- `fileh.create_group(root, name)` followed by filling the group -/
def addNode (f : H5) (name : String) (nd : Node) : Except Err H5 :=
  if hasChild f name then .error .nodeError else .ok (f ++ [(name, nd)])

/-- `__write_single_cell(array_morph, fileh, cell_id)` -/
def writeSingleCell (m : Morph) (f : H5) (cellId : Option String) : Except Err H5 :=
  let morphologyName := match m.id with | none => "Morphology" | some s => s
  match cellId with
  | none => addNode f morphologyName (.morph m.arr)
  | some c => addNode f c (.cell [(morphologyName, m.arr)])

def dflt (o : Option String) (pfx : String) (k : Nat) : String :=
  match o with | some s => s | none => pfx ++ toString k

/-- first loop of `__write_neuroml_document`: `for default_id, cell in enumerate(document.cells)` -/
def writeCells : Nat → List Cell → H5 → Except Err H5
  | _, [], f => .ok f
  | k, c :: cs, f =>
    let m : Morph := { c.morph with id := some (dflt c.morph.id "Morphology" k) }
    match writeSingleCell m f (some (dflt c.id "Cell" k)) with
    | .error e => .error e
    | .ok f' => writeCells (k + 1) cs f'

/-- second loop (repaired): `cls.__write_single_cell(morphology, fileh)` -/
def writeMorphs : Nat → List Morph → H5 → Except Err H5
  | _, [], f => .ok f
  | k, m :: ms, f =>
    match writeSingleCell { m with id := some (dflt m.id "Morphology" k) } f none with
    | .error e => .error e
    | .ok f' => writeMorphs (k + 1) ms f'

/-- `ArrayMorphWriter.write(document, path)` -/
def writeDoc (d : Doc) : Except Err H5 :=
  match writeCells 0 d.cells [] with
  | .error e => .error e
  | .ok f => writeMorphs 0 d.morphs f

/-- `ArrayMorphWriter.write(array_morph, path)` -/
def writeMorph (m : Morph) : Except Err H5 := writeSingleCell m [] none

/-- second loop before the repair: `cell_id=cell.id` with `cell` left over from the first loop -/
def writeMorphsOld (lastCell : Option String) : Nat → List Morph → H5 → Except Err H5
  | _, [], f => .ok f
  | k, m :: ms, f =>
    match lastCell with
    | none => .error .unboundLocal
    | some cid =>
      match writeSingleCell { m with id := some (dflt m.id "Morphology" k) } f (some cid) with
      | .error e => .error e
      | .ok f' => writeMorphsOld lastCell (k + 1) ms f'

def lastCellId : Nat → List Cell → Option String
  | _, [] => none
  | k, [c] => some (dflt c.id "Cell" k)
  | k, _ :: c :: cs => lastCellId (k + 1) (c :: cs)

def writeDocOld (d : Doc) : Except Err H5 :=
  match writeCells 0 d.cells [] with
  | .error e => .error e
  | .ok f => writeMorphsOld (lastCellId 0 d.cells) 0 d.morphs f

def nameLe (a b : String × Node) : Bool := decide (a.1 ≤ b.1)

/-- what `ArrayMorphLoader.load` appends for one child of the root group: a group whose child `vertices` is an
    ARRAY (`isinstance(getattr(node, "vertices", None), tables.Array)`) is a morphology group; anything else is a
    cell group and every child of it is read as a morphology group (PyTables iterates children by name) -/
def nodeMorphs : String × Node → List Arr
  | (_, .morph a) => [a]
  | (_, .cell ch) => (ch.mergeSort (fun x y => decide (x.1 ≤ y.1))).map (·.2)

/-- `ArrayMorphLoader.load(path).morphology` as array triples; PyTables iterates children by name.  On the files
    of the model (`H5`: morphology groups and cell groups of morphology groups) the loader cannot raise. -/
def load (f : H5) : List Arr := (f.mergeSort nameLe).flatMap nodeMorphs

/-! the loader BEFORE `fixes/C18-loader-vertices-is-array.patch`: `hasattr(node, "vertices")` (witness only) -/

def nodeMorphsOld : String × Node → Except Err (List Arr)
  | (_, .morph a) => .ok [a]                       -- `hasattr(node, "vertices")`
  | (_, .cell ch) =>
    -- a cell group that has a child called "vertices" is itself taken for a morphology and lacks the arrays
    if ch.any (fun e => e.1 == "vertices") then .error .noSuchNode
    else .ok ((ch.mergeSort (fun x y => decide (x.1 ≤ y.1))).map (·.2))

def concatE : List (Except Err (List Arr)) → Except Err (List Arr)
  | [] => .ok []
  | .error e :: _ => .error e
  | .ok xs :: rest => match concatE rest with
    | .error e => .error e
    | .ok ys => .ok (xs ++ ys)

def loadOld (f : H5) : Except Err (List Arr) :=
  concatE ((f.mergeSort nameLe).map nodeMorphsOld)

/-! ### documents whose cells / morphologies need not be array morphologies

A `NeuroMLDocument` may hold cells WITHOUT an embedded morphology (`<cell morphology="m"/>` refers to a stand-alone
one — the reason stand-alone morphologies exist), and plain `neuroml.Morphology` objects.  `ArrayMorphWriter`
skips them (`if not isinstance(morphology, ArrayMorphology): continue`, `fixes/C18-writer-skips-non-array.patch`):
they have no arrays, the format has nothing to store for them.  Their POSITION still counts for the default
names (`enumerate` runs over all of `document.cells` / `document.morphology`).  Before that repair the writer read
`morphology.id` / `array_morph.vertices` on them: `AttributeError` (`writeXDocOld`). -/

/-- what `cell.morphology` is -/
inductive CellMorph where
  | none                       -- no embedded morphology
  | plain                      -- a plain `neuroml.Morphology` (segments, no arrays)
  | array (m : Morph)          -- an `ArrayMorphology`
deriving Repr, DecidableEq, Inhabited

structure XCell where
  id : Option String
  morph : CellMorph
deriving Repr, DecidableEq, Inhabited

/-- a member of `document.morphology` -/
inductive XMorph where
  | plain
  | array (m : Morph)
deriving Repr, DecidableEq, Inhabited

structure XDoc where
  cells : List XCell
  morphs : List XMorph
deriving Repr, DecidableEq, Inhabited

/-- first loop of `__write_neuroml_document` on any cells -/
def writeXCells : Nat → List XCell → H5 → Except Err H5
  | _, [], f => .ok f
  | k, c :: cs, f =>
    match c.morph with
    | .array m0 =>
      let m : Morph := { m0 with id := some (dflt m0.id "Morphology" k) }
      match writeSingleCell m f (some (dflt c.id "Cell" k)) with
      | .error e => .error e
      | .ok f' => writeXCells (k + 1) cs f'
    | _ => writeXCells (k + 1) cs f          -- `continue`

/-- second loop on any stand-alone morphologies -/
def writeXMorphs : Nat → List XMorph → H5 → Except Err H5
  | _, [], f => .ok f
  | k, x :: ms, f =>
    match x with
    | .array m =>
      match writeSingleCell { m with id := some (dflt m.id "Morphology" k) } f none with
      | .error e => .error e
      | .ok f' => writeXMorphs (k + 1) ms f'
    | .plain => writeXMorphs (k + 1) ms f    -- `continue`

/-- `ArrayMorphWriter.write(document, path)` for any document -/
def writeXDoc (d : XDoc) : Except Err H5 :=
  match writeXCells 0 d.cells [] with
  | .error e => .error e
  | .ok f => writeXMorphs 0 d.morphs f

/-! ### aliasing: one `ArrayMorphology` object used by several members of a document

`morphology.id = "Morphology" + str(default_id)` in `__write_neuroml_document` is an assignment ON THE OBJECT: when
the same `ArrayMorphology` is the morphology of two cells (cells of one population), or of a cell and also a member
of `document.morphology`, every later occurrence is written under the name the first one was given. -/

/-- an occurrence of an `ArrayMorphology` in a document; `key` identifies the Python OBJECT (occurrences with the same
    key are the same object, `m` is the object as it is before the writer runs) -/
structure Occ where
  key : Nat
  m : Morph
deriving Repr, DecidableEq, Inhabited

inductive ACellMorph where
  | none
  | plain
  | array (o : Occ)
deriving Repr, DecidableEq, Inhabited

structure ACell where
  id : Option String
  morph : ACellMorph
deriving Repr, DecidableEq, Inhabited

inductive AMorph where
  | plain
  | array (o : Occ)
deriving Repr, DecidableEq, Inhabited

structure ADoc where
  cells : List ACell
  morphs : List AMorph
deriving Repr, DecidableEq, Inhabited

/-- the ids the writer has assigned so far (object key ↦ id), newest first -/
abbrev Ids := List (Nat × String)

/-- `morphology.id` of an occurrence at this moment -/
def curId (ids : Ids) (o : Occ) : Option String :=
  match ids.lookup o.key with
  | some s => some s
  | none => o.m.id

/-- first loop of `__write_neuroml_document`, with the id assignments on the morphology objects -/
def writeACells : Nat → Ids → List ACell → H5 → Except Err (H5 × Ids)
  | _, ids, [], f => .ok (f, ids)
  | k, ids, c :: cs, f =>
    match c.morph with
    | .array o =>
      let nm := dflt (curId ids o) "Morphology" k          -- `if morphology.id is None: morphology.id = ...`
      match writeSingleCell { id := some nm, arr := o.m.arr } f (some (dflt c.id "Cell" k)) with
      | .error e => .error e
      | .ok f' => writeACells (k + 1) ((o.key, nm) :: ids) cs f'
    | _ => writeACells (k + 1) ids cs f

/-- second loop -/
def writeAMorphs : Nat → Ids → List AMorph → H5 → Except Err H5
  | _, _, [], f => .ok f
  | k, ids, x :: ms, f =>
    match x with
    | .array o =>
      let nm := dflt (curId ids o) "Morphology" k
      match writeSingleCell { id := some nm, arr := o.m.arr } f none with
      | .error e => .error e
      | .ok f' => writeAMorphs (k + 1) ((o.key, nm) :: ids) ms f'
    | .plain => writeAMorphs (k + 1) ids ms f

/-- `ArrayMorphWriter.write(document, path)` for a document whose members may share morphology objects -/
def writeADoc (d : ADoc) : Except Err H5 :=
  match writeACells 0 [] d.cells [] with
  | .error e => .error e
  | .ok (f, ids) => writeAMorphs 0 ids d.morphs f

/-! the document writer BEFORE `fixes/C18-writer-skips-non-array.patch` (witness only) -/

def writeXCellsOld : Nat → List XCell → H5 → Except Err H5
  | _, [], f => .ok f
  | k, c :: cs, f =>
    match c.morph with
    | .array m0 =>
      let m : Morph := { m0 with id := some (dflt m0.id "Morphology" k) }
      match writeSingleCell m f (some (dflt c.id "Cell" k)) with
      | .error e => .error e
      | .ok f' => writeXCellsOld (k + 1) cs f'
    | _ => .error .attributeError        -- `None.id` / `Morphology.vertices`

def writeXMorphsOld : Nat → List XMorph → H5 → Except Err H5
  | _, [], f => .ok f
  | k, x :: ms, f =>
    match x with
    | .array m =>
      match writeSingleCell { m with id := some (dflt m.id "Morphology" k) } f none with
      | .error e => .error e
      | .ok f' => writeXMorphsOld (k + 1) ms f'
    | .plain => .error .attributeError

def writeXDocOld (d : XDoc) : Except Err H5 :=
  match writeXCellsOld 0 d.cells [] with
  | .error e => .error e
  | .ok f => writeXMorphsOld 0 d.morphs f

end NmlVerif.ArrayMorph
