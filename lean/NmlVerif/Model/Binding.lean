/-
Binding-table model of the generateDS-generated classes of `neuroml/nml/nml.py`.

`ClassIR` is what the translator (`translators/nml_extract.py` + `translators/emit_bindings.py`) extracts from the
ten standard generated methods of each class (names interned as `Nat`).  `flatten` follows the method resolution
order the way the generated code does (`super()._exportAttributes` first, then the class's own part), giving a
`FlatClass`; `exportObj` / `buildObj` interpret a flat class exactly as `export` / `build` run.

Scalars travel as their canonical lexical form (`String`): which `gds_format_*` / `gds_parse_*` pair a member uses
is recorded (`Prim`) and checked for agreement by `WF`; the codecs themselves are separate (Props/C01: integers
proved, floats trusted + sampled).  Mathlib-free, executable.
-/
namespace NmlVerif.Binding

inductive Prim where
  | str | int | float | double | bool | xsitype
deriving Repr, DecidableEq, Inhabited

/-- export guard of an attribute: `is not None`, or `!= <default>` (the default in canonical lexical form) -/
inductive Guard where
  | notNone
  | ne (lex : String)
deriving Repr, DecidableEq, Inhabited

structure AttrExp where
  member : Nat
  xml : Nat
  ap : Nat            -- key used in `already_processed`
  fmt : Prim
  guard : Guard
deriving Repr, DecidableEq, Inhabited

structure AttrBld where
  xml : Nat
  member : Nat
  ap : Nat
  parse : Prim
  range : Nat         -- 0 none, 1 `< 0` refused, 2 `<= 0` refused
  validator : Option Nat
deriving Repr, DecidableEq, Inhabited

inductive CKind where
  | obj | text | any
deriving Repr, DecidableEq, Inhabited

structure ChildExp where
  member : Nat
  tag : Nat
  kind : CKind
  container : Bool
deriving Repr, DecidableEq, Inhabited

structure ChildBld where
  tag : Nat
  member : Nat
  kind : CKind
  container : Bool
  cls : Option Nat
  poly : Bool
deriving Repr, DecidableEq, Inhabited

structure CtorParam where
  name : Nat
  default : Option String   -- canonical lexical form after the constructor's `_cast`, `none` for `None`
  cast : Nat                -- 0 inherited (passed to super), 1 `_cast(None, ·)`, 2 raw assignment, 3 int, 4 float
  list : Bool
deriving Repr, DecidableEq, Inhabited

structure Spec where
  name : Nat
  dtype : Nat
  container : Bool
  optional : Bool
  isAttr : Bool             -- MemberSpec carries `use` (attribute) rather than `type: xs:…` (element)
  required : Bool           -- use="required" / minOccurs ≥ 1
  unbounded : Bool          -- maxOccurs="unbounded" (or > 1)
deriving Repr, DecidableEq, Inhabited

inductive VItem where
  | simple (validator member : Nat)
  | builtin (validator member : Nat)
  | req (member : Nat) (required : Bool)
  | card (member : Nat) (lo hi : Nat)
deriving Repr, DecidableEq, Inhabited

structure ClassIR where
  name : Nat
  base : Option Nat
  specs : List Spec
  ctor : List CtorParam
  superArgs : List Nat
  expAttrs : List AttrExp
  bldAttrs : List AttrBld
  expChildren : List ChildExp
  bldChildren : List ChildBld
  hasContent : List (Nat × Bool)      -- (member, tested with `is not None` rather than truthiness)
  supers : List Bool                  -- [expAttrs, bldAttrs, expChildren, bldChildren, hasContent] call super
  validate : List VItem
  recurse : List (Nat × Bool)         -- (member, isList) visited by `validate_(recursive=True)`
  exportPure : Bool
  nOpaque : Nat                       -- number of statements the translator did not recognise
deriving Repr, Inhabited

abbrev Table := List ClassIR

def findClass (T : Table) (c : Nat) : Option ClassIR := T.find? (fun k => k.name == c)

/-- classes from `c` up to the root, most derived first (`fuel` bounds the walk; a table whose chain is longer
    than its length is rejected by `WF`) -/
def chain (T : Table) : Nat → Nat → List ClassIR
  | 0, _ => []
  | f+1, c =>
    match findClass T c with
    | none => []
    | some k =>
      match k.base with
      | none => [k]
      | some b => k :: chain T f b

/-! ### flat view -/

structure FAttr where
  member : Nat
  xml : Nat
  prim : Prim
  guard : Guard
  ctorDefault : Option String
deriving Repr, DecidableEq, Inhabited

structure FKid where
  member : Nat
  tag : Nat
  text : Bool        -- a simple-content child (`<notes>…</notes>`): a string, not an object
  container : Bool
  cls : Nat          -- class built for this tag (meaningless for text kids)
deriving Repr, DecidableEq, Inhabited

structure FlatClass where
  name : Nat
  attrs : List FAttr
  kids : List FKid
deriving Repr, Inhabited

def ctorDefaultOf (ks : List ClassIR) (m : Nat) : Option String :=
  match ks.findSome? (fun k => k.ctor.find? (fun p => p.name == m && p.cast != 0)) with
  | some p => p.default
  | none => none

def ownAttrs (ks : List ClassIR) (k : ClassIR) : List FAttr :=
  (k.expAttrs.filter (fun a => a.fmt != .xsitype)).map fun a =>
    { member := a.member, xml := a.xml, prim := a.fmt, guard := a.guard, ctorDefault := ctorDefaultOf ks a.member }

def kidCls (k : ClassIR) (tag : Nat) : Nat :=
  match k.bldChildren.find? (fun b => b.tag == tag) with
  | some b => b.cls.getD 0
  | none => 0

def ownKids (k : ClassIR) : List FKid :=
  (k.expChildren.filter (fun c => c.kind != .any)).map fun c =>
    { member := c.member, tag := c.tag, text := c.kind == .text, container := c.container, cls := kidCls k c.tag }

/-- the flat class: base classes first, as `super()._export…` runs first -/
def flatten (T : Table) (c : Nat) : Option FlatClass :=
  match chain T T.length c with
  | [] => none
  | ks =>
    some { name := c
           attrs := (ks.reverse.flatMap (ownAttrs ks))
           kids := (ks.reverse.flatMap ownKids) }

/-! ### objects and XML trees -/

inductive Obj where
  | mk (cls : Nat) (attrs : List (Nat × Option String)) (text : Option String) (kids : List (Nat × List Obj))
deriving Inhabited

inductive XNode where
  | mk (tag : Nat) (attrs : List (Nat × String)) (text : Option String) (children : List XNode)
deriving Inhabited

def XNode.tag : XNode → Nat | .mk t _ _ _ => t
def Obj.cls : Obj → Nat | .mk c _ _ _ => c

def lookup {α : Type} (k : Nat) : List (Nat × α) → Option α
  | [] => none
  | (k', v) :: r => if k = k' then some v else lookup k r

def mapOpt {α β : Type} (f : α → Option β) : List α → Option (List β)
  | [] => some []
  | a :: l =>
    match f a, mapOpt f l with
    | some b, some bs => some (b :: bs)
    | _, _ => none

def kidsOf (m : Nat) (ks : List (Nat × List Obj)) : List Obj := (lookup m ks).getD []

/-- one attribute of `_exportAttributes`: `none` = nothing written; `some none` = the generated code would raise
    (formatting `None` under a `!= default` guard) -/
def expAttr (a : FAttr) (v : Option (Option String)) : Option (Option (Nat × String)) :=
  match a.guard, v with
  | .notNone, some (some s) => some (some (a.xml, s))
  | .notNone, _ => some none
  | .ne d, some (some s) => if s = d then some none else some (some (a.xml, s))
  | .ne _, _ => none

def expAttrs (k : FlatClass) (as : List (Nat × Option String)) : Option (List (Nat × String)) :=
  (mapOpt (fun a => expAttr a (lookup a.member as)) k.attrs).map (·.filterMap id)

/-- text pseudo-class: an object holding only character data -/
def textCls : Nat := 0

def pairsOf (k : FlatClass) (ks : List (Nat × List Obj)) : List (Nat × Obj) :=
  k.kids.flatMap fun ce => (kidsOf ce.member ks).map fun o => (ce.tag, o)

/-- `export`: `fuel` bounds the depth -/
def exportObj (flat : Nat → Option FlatClass) : Nat → Nat → Obj → Option XNode
  | 0, _, _ => none
  | fuel+1, tag, .mk c as tx ks =>
    if c = textCls then some (.mk tag [] tx []) else
    match flat c with
    | none => none
    | some k =>
      match expAttrs k as, mapOpt (fun (p : Nat × Obj) => exportObj flat fuel p.1 p.2) (pairsOf k ks) with
      | some xa, some ch => some (.mk tag xa none ch)
      | _, _ => none

def buildKid (rec : Nat → XNode → Option Obj) (xch : List XNode) (ce : FKid) : Option (Nat × List Obj) :=
  match (xch.filter fun n => n.tag == ce.tag) |> mapOpt (rec (if ce.text then textCls else ce.cls)) with
  | some objs => some (ce.member, if ce.container then objs else objs.getLast?.toList)
  | none => none

def bldAttr (xattrs : List (Nat × String)) (a : FAttr) : Nat × Option String :=
  (a.member, match lookup a.xml xattrs with
             | some s => some s
             | none => a.ctorDefault)

/-- `build` (constructor defaults, then `_buildAttributes`, then `_buildChildren` per child node, stated per
    member: "filter the children by the member's tag") -/
def buildObj (flat : Nat → Option FlatClass) : Nat → Nat → XNode → Option Obj
  | 0, _, _ => none
  | fuel+1, c, .mk _ xattrs tx xch =>
    -- a simple-content child: `child_.text` through `gds_parse_string` / `gds_validate_string` (`None` -> `""`)
    if c = textCls then some (.mk textCls [] (some (tx.getD "")) []) else
    match flat c with
    | none => none
    | some k =>
      match mapOpt (buildKid (buildObj flat fuel) xch) k.kids with
      | some ks => some (.mk c (k.attrs.map (bldAttr xattrs)) none ks)
      | none => none

/-! ### well-formedness of a table (decidable; checked on the extracted table by the kernel) -/

def nodupNat : List Nat → Bool
  | [] => true
  | a :: l => !(l.contains a) && nodupNat l

def primCompat (e p : Prim) : Bool := e == p || (e == .xsitype && p == .str)

/-- per class: everything the generated methods of ONE class must agree on -/
def classOK (k : ClassIR) : Bool :=
  k.nOpaque == 0 && k.exportPure
  -- attributes: export and build lists pair up one-to-one (same xml name, same member, compatible codec)
  && k.expAttrs.length == k.bldAttrs.length
  && k.expAttrs.all (fun e => k.bldAttrs.any (fun b => b.xml == e.xml && b.member == e.member && primCompat e.fmt b.parse))
  -- children likewise (same tag, member, kind, list-ness), in the same order
  && k.expChildren.length == k.bldChildren.length
  && (k.expChildren.zip k.bldChildren).all (fun (e, b) =>
        e.tag == b.tag && e.member == b.member && e.kind == b.kind && e.container == b.container
        && (e.kind != .obj || b.cls.isSome))
  -- has__content mentions exactly the child members
  && k.hasContent.map (·.1) == k.expChildren.map (·.member)
  -- every stored constructor parameter is exported (attribute or child) and vice versa
  && (k.ctor.filter (fun p => p.cast != 0)).all (fun p =>
        k.expAttrs.any (fun e => e.member == p.name) || k.expChildren.any (fun e => e.member == p.name))
  && k.expAttrs.all (fun e => e.fmt == .xsitype || k.ctor.any (fun p => p.name == e.member && p.cast != 0))
  && k.expChildren.all (fun e => e.kind == .any || k.ctor.any (fun p => p.name == e.member && p.cast != 0 && p.list == e.container))
  -- a `!= d` guard re-creates exactly the constructor default
  && k.expAttrs.all (fun e => match e.guard with
        | .notNone => true
        | .ne d => k.ctor.any (fun p => p.name == e.member && p.default == some d))
  -- super calls are present exactly when there is a base class
  && k.supers.all (fun s => s == k.base.isSome)

/-- per flat class: no two attributes share an XML name or a member, no two children share a tag or a member -/
def guardOK (a : FAttr) : Bool :=
  match a.guard with
  | .notNone => true
  | .ne d => a.ctorDefault == some d

def flatOK (f : FlatClass) : Bool :=
  nodupNat (f.attrs.map (·.xml)) && nodupNat (f.attrs.map (·.member))
  && nodupNat (f.kids.map (·.tag)) && nodupNat (f.kids.map (·.member))
  && f.attrs.all guardOK

def WF (T : Table) : Bool :=
  nodupNat (T.map (·.name))
  && T.all classOK
  && T.all (fun k => match flatten T k.name with
      | some f => flatOK f && (chain T T.length k.name).length ≤ T.length
                  && f.kids.all (fun kd => kd.text || (findClass T kd.cls).isSome)
      | none => false)
  && T.all (fun k => k.name != textCls)

/-- the entries that make `WF` false (for localisation; `WF T ↔ wfViolations T = []` is not needed for the proofs) -/
def wfViolations (T : Table) : List Nat :=
  (T.filter (fun k => !(classOK k) || (match flatten T k.name with
      | some f => !(flatOK f) || !(f.kids.all (fun kd => kd.text || (findClass T kd.cls).isSome))
      | none => true))).map (·.name)

end NmlVerif.Binding
