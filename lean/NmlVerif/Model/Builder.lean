/-
Model of the cell-builder helpers of class `Cell` (`neuroml/nml/helper_methods.py`, copied into
`neuroml/nml/nml.py`): `add_segment`, `add_unbranched_segments`, `add_segment_group`,
`add_unbranched_segment_group`, `setup_default_segment_groups`, `reorder_segment_groups`,
`optimise_segment_groups`, `setup_nml_cell`, `add_membrane_property`, `add_intracellular_property` (+ the `set_*`
wrappers, which are calls of the last two) and `get_all_segments_in_group` as used by them.
Mathlib-free, executable, total.  Bug-for-bug: it says what the code DOES (on the tree with the C15 repair of the
duplicate-id check; the unrepaired id logic is kept as `pickIdOld`).

A call that raises ends the history (the property only speaks about sequences of calls that each returned
normally), so a step returns `Except Err State` and partial mutation before a raise is not represented.

Conventions: `fraction_along` travels as the integer `4 * fraction` (inputs are multiples of 1/4); Python `None`
and `""` for a group id are both the empty string (both are falsy and never found by `get_segment_group`);
segment ids are naturals.
-/
namespace NmlVerif.Builder

inductive Err where
  | valueError | exception | indexError | recursionError
deriving Repr, DecidableEq, Inhabited

inductive SegType where
  | soma | axon | dendrite
deriving Repr, DecidableEq, Inhabited

def SegType.group : SegType → String
  | .soma => "soma_group"
  | .axon => "axon_group"
  | .dendrite => "dendrite_group"

def SegType.nlx : SegType → String
  | .soma => "GO:0043025"
  | .axon => "GO:0030424"
  | .dendrite => "GO:0030425"

def sectionNlx : String := "sao864921383"

/-- `seg_type` as the caller wrote it; anything but the three names is refused with `ValueError` -/
def parseType : Option String → Option SegType
  | some "soma" => some .soma
  | some "axon" => some .axon
  | some "dendrite" => some .dendrite
  | _ => none

structure Seg where
  id : Nat
  parent : Option Nat          -- `parent.segments`
  frac4 : Int                  -- 4 * `parent.fraction_along` (meaningful with a parent only)
  hasProx : Bool
  name : String
  stype : Option SegType       -- ghost: the type the segment was added with (`use_convention=True`)
  ugroup : Option String       -- ghost: the `group_id` the segment was added with
deriving Repr, DecidableEq, Inhabited

structure Group where
  id : String
  members : List Nat
  includes : List String
  nlx : Option String
deriving Repr, DecidableEq, Inhabited

inductive PKind where
  | spikeThresh | initMembPotential | specificCapacitance | resistivity
deriving Repr, DecidableEq, Inhabited

structure BioProp where
  kind : PKind
  value : String
  group : String
deriving Repr, DecidableEq, Inhabited

structure State where
  segs : List Seg
  groups : List Group
  memb : List BioProp      -- biophysical_properties.membrane_properties.*
  intra : List BioProp     -- biophysical_properties.intracellular_properties.*
deriving Repr, DecidableEq, Inhabited

/-- which `optimise_segment_group` the tree has: the shipped one (`false`) or the one repaired for C14 (`true`) -/
structure Cfg where
  optFixed : Bool
deriving Repr, DecidableEq, Inhabited

def State.ids (s : State) : List Nat := s.segs.map (·.id)

/-! ### small list helpers (Python loops `for x in l: if x not in acc: acc.append(x)`) -/

def dedupAux : List Nat → List Nat → List Nat
  | acc, [] => acc
  | acc, x :: xs => if x ∈ acc then dedupAux acc xs else dedupAux (acc ++ [x]) xs

def dedup (l : List Nat) : List Nat := dedupAux [] l

def dedupStrAux : List String → List String → List String
  | acc, [] => acc
  | acc, x :: xs => if x ∈ acc then dedupStrAux acc xs else dedupStrAux (acc ++ [x]) xs

def dedupStr (l : List String) : List String := dedupStrAux [] l

/-! ### lookups -/

/-- first group with id `g` (`for sg in segment_groups: if sg.id == g: return sg`) -/
def look (gs : List Group) (g : String) : Option Group := gs.find? (fun G => G.id == g)

/-- `get_segment_group(sg_id)`: first group with that id; a falsy id is never found (`ValueError`) -/
def findGroup (gs : List Group) (g : String) : Option Group :=
  if g = "" then none else look gs g

/-- replace the first group whose id is `g` by `f` of it (mutation of the object `get_segment_group` returned) -/
def updGroup (g : String) (f : Group → Group) : List Group → List Group
  | [] => []
  | G :: gs => if G.id == g then f G :: gs else G :: updGroup g f gs

def isDefaultName (g : String) : Bool :=
  g == "soma_group" || g == "axon_group" || g == "dendrite_group" || g == "all"

/-! ### `get_all_segments_in_group` -/

def resolveIncs (rec : String → Except Err (List Nat)) : List String → List Nat → Except Err (List Nat)
  | [], acc => .ok acc
  | u :: us, acc =>
    match rec u with
    | .ok l => resolveIncs rec us (dedupAux acc l)
    | .error e => .error e

/-- fuel = recursion depth; running out of it is Python's `RecursionError` (an include cycle) -/
def resolveAux (segIds : List Nat) (gs : List Group) : Nat → String → Except Err (List Nat)
  | 0, _ => .error .recursionError
  | f+1, g =>
    match look gs g with
    | none => if g = "all" then .ok segIds else .error .exception
    | some G => resolveIncs (resolveAux segIds gs f) G.includes (dedup G.members)

/-- `cell.get_all_segments_in_group(g)` (a chain of includes without a cycle is at most `|groups|` deep) -/
def resolve (s : State) (g : String) : Except Err (List Nat) :=
  resolveAux s.ids s.groups (s.groups.length + 1) g

/-! ### `reorder_segment_groups` -/

/-- `seg_groups.append(seg_groups.pop(seg_groups.index(sg)))` for the first group with id `g`, if any -/
def moveToEnd (gs : List Group) (g : String) : List Group :=
  match look gs g with
  | none => gs
  | some G => gs.eraseP (fun G => G.id == g) ++ [G]

def defaultOrder : List String := ["soma_group", "axon_group", "dendrite_group", "all"]

def reorderGroups (gs : List Group) : List Group := defaultOrder.foldl moveToEnd gs

def reorder (s : State) : State := { s with groups := reorderGroups s.groups }

/-! ### `optimise_segment_group(s)` -/

def insertSorted (a : Nat) : List Nat → List Nat
  | [] => [a]
  | b :: l => if a ≤ b then a :: b :: l else b :: insertSorted a l

/-- `natsort.natsorted` on integer segment ids = numeric order -/
def natSort (l : List Nat) : List Nat := l.foldr insertSorted []

/-- shipped loop: the survivors of every include are appended one include after the other -/
def survivorsCur (rec : String → Except Err (List Nat)) (members : List Nat) :
    List String → List Nat → Except Err (List Nat)
  | [], acc => .ok acc
  | u :: us, acc =>
    match rec u with
    | .ok l => survivorsCur rec members us (acc ++ members.filter (fun m => !l.contains m))
    | .error e => .error e

/-- repaired loop (C14): a member survives iff no include covers it -/
def coveredBy (rec : String → Except Err (List Nat)) : List String → List Nat → Except Err (List Nat)
  | [], acc => .ok acc
  | u :: us, acc =>
    match rec u with
    | .ok l => coveredBy rec us (acc ++ l)
    | .error e => .error e

/-- `seg_group.members = …; seg_group.includes = …` on the first group with id `g` -/
def setMI (g : String) (ms : List Nat) (is : List String) (s : State) : State :=
  { s with groups := updGroup g (fun G => { G with members := ms, includes := is }) s.groups }

def setM (g : String) (ms : List Nat) (s : State) : State :=
  { s with groups := updGroup g (fun G => { G with members := ms }) s.groups }

/-- the members that stay, by the tree's variant of the loop -/
def prune (cfg : Cfg) (s1 : State) (members : List Nat) (includes : List String) : Except Err (List Nat) :=
  if cfg.optFixed then
    match coveredBy (resolve s1) includes [] with
    | .ok cov => .ok (members.filter (fun m => !cov.contains m))
    | .error e => .error e
  else survivorsCur (resolve s1) members includes []

def optimiseGroup (cfg : Cfg) (s : State) (g : String) : Except Err State :=
  match findGroup s.groups g with
  | none => .error .valueError
  | some G =>
    -- de-duplicated members and includes are written back first
    let s1 := setMI g (dedup G.members) (dedupStr G.includes) s
    if dedupStr G.includes ≠ [] ∧ dedup G.members ≠ [] then
      match prune cfg s1 (dedup G.members) (dedupStr G.includes) with
      | .ok ms => .ok (setM g (natSort ms) s1)
      | .error e => .error e
    else .ok s1

def optimiseList (cfg : Cfg) : List String → State → Except Err State
  | [], s => .ok s
  | g :: gs, s =>
    match optimiseGroup cfg s g with
    | .ok s' => optimiseList cfg gs s'
    | .error e => .error e

/-- `optimise_segment_groups`: every group, in list order, by its id -/
def optimiseAll (cfg : Cfg) (s : State) : Except Err State :=
  optimiseList cfg (s.groups.map (·.id)) s

/-- the documented final step: `reorder_segment_groups()` then `optimise_segment_groups()` -/
def finishWith (opt : State → Except Err State) (s : State) : Except Err State := opt (reorder s)

def finish (cfg : Cfg) (s : State) : Except Err State := finishWith (optimiseAll cfg) s

/-! ### groups -/

/-- `add_segment_group(group_id, neuro_lex_id)`: an existing group is kept as it is; otherwise
    `morphology.add("SegmentGroup", id=…)`, which does not append an object equal to one already in the list (only
    possible for a group without id: `get_segment_group` never finds those) -/
def ensureGroup (s : State) (g : String) (nlx : Option String) : State :=
  match findGroup s.groups g with
  | some _ => s
  | none =>
    if ({ id := g, members := [], includes := [], nlx := nlx } : Group) ∈ s.groups then s
    else { s with groups := s.groups ++ [{ id := g, members := [], includes := [], nlx := nlx }] }

def addMember (s : State) (g : String) (i : Nat) : State :=
  { s with groups := updGroup g (fun G => { G with members := G.members ++ [i] }) s.groups }

def addInclude (s : State) (g : String) (u : String) : State :=
  { s with groups := updGroup g (fun G => { G with includes := G.includes ++ [u] }) s.groups }

def defaultNlx : String → Option String
  | "soma_group" => some SegType.soma.nlx
  | "axon_group" => some SegType.axon.nlx
  | "dendrite_group" => some SegType.dendrite.nlx
  | _ => none

/-- the loop of `setup_default_segment_groups`; `none` = an unsupported name was met (`return []`, no reorder) -/
def setupLoop : List String → State → Option State
  | [], s => some s
  | g :: gs, s => if isDefaultName g then setupLoop gs (ensureGroup s g (defaultNlx g)) else none

/-- the groups created before an unsupported name stay -/
def setupLoopPartial : List String → State → State
  | [], s => s
  | g :: gs, s => if isDefaultName g then setupLoopPartial gs (ensureGroup s g (defaultNlx g)) else s

def setupDefault (s : State) (useConv : Bool) (names : List String) : State :=
  if useConv then
    match setupLoop names s with
    | some s' => reorder s'
    | none => setupLoopPartial names s
  else s

/-- `setup_nml_cell(use_convention, overwrite, default_groups)` -/
def setupNmlCell (s : State) (useConv overwrite : Bool) (names : List String) : State :=
  let s0 : State := if overwrite then { segs := [], groups := [], memb := [], intra := [] } else s
  setupDefault s0 useConv names

/-- `component_factory("Cell", id=…)`: a fresh cell after `setup_nml_cell()` -/
def init : State := setupNmlCell { segs := [], groups := [], memb := [], intra := [] } true false ["all", "soma_group"]

/-! ### `add_segment` -/

structure AddSeg where
  hasProx : Bool
  segId : Option Nat
  name : Option String
  parent : Option Nat          -- id of the `Segment` object passed as `parent`
  frac4 : Int
  groupId : Option String
  useConv : Bool
  segType : Option String
  reorder : Bool
  optimise : Bool
deriving Repr, DecidableEq, Inhabited

/-- repaired id logic: `None` means automatic (`len(segments)`); an id in use is refused -/
def pickId (s : State) (segId : Option Nat) : Except Err Nat :=
  let id := segId.getD s.segs.length
  if id ∈ s.ids then .error .valueError else .ok id

/-- the shipped id logic: `if seg_id:` (0 counts as not given) and the `raise` is swallowed by its own `except` -/
def pickIdOld (s : State) (segId : Option Nat) : Except Err Nat :=
  match segId with
  | some (n+1) => .ok (n+1)
  | _ => .ok s.segs.length

def membersLen (s : State) (g : String) : Nat :=
  match findGroup s.groups g with
  | some G => G.members.length
  | none => 0

/-- `if group_id:` look the group up or create it, append the member -/
def userStep (s : State) (gid : String) (id : Nat) : State :=
  if gid ≠ "" then addMember (ensureGroup s gid none) gid id else s

/-- `if use_convention:` make sure 'all' and the default group of the type exist (reordering), then add the user
    group (if any, and if it is not the default group itself) or else the segment to both; reorder if asked -/
def convStep (s1 : State) (gid : String) (id : Nat) (t : SegType) (ro : Bool) : State :=
  let s2 := setupDefault s1 true ["all", t.group]
  let s3 :=
    if gid ≠ "" ∧ gid ≠ t.group then addInclude (addInclude s2 t.group gid) "all" gid
    else addMember (addMember s2 t.group id) "all" id
  if ro then reorder s3 else s3

/-- the segment's name: given, or `Seg<n-1>_<group>` with `n = len(seg_group.members)`, or `Seg<id>` -/
def segName (s4 : State) (a : AddSeg) (gid : String) (id : Nat) : String :=
  let nm := match a.name with
    | some n => if n ≠ "" then some n else none
    | none => none
  match nm with
  | some n => n
  | none =>
    if gid ≠ "" then "Seg" ++ toString ((membersLen s4 gid : Int) - 1) ++ "_" ++ gid
    else "Seg" ++ toString id

def mkSeg (s4 : State) (a : AddSeg) (gid : String) (id : Nat) (t : Option SegType) : Seg :=
  { id := id, parent := a.parent, frac4 := a.frac4, hasProx := a.hasProx, name := segName s4 a gid id,
    stype := t, ugroup := if gid ≠ "" then some gid else none }

/-- `self.morphology.segments.append(segment)`, then optimise if asked -/
def appendSeg (opt : State → Except Err State) (s4 : State) (seg : Seg) (optimise : Bool) : Except Err State :=
  let s5 : State := { s4 with segs := s4.segs ++ [seg] }
  if optimise then opt s5 else .ok s5

def addSegmentWith (pick : State → Option Nat → Except Err Nat) (opt : State → Except Err State) (s : State) (a : AddSeg) :
    Except Err State :=
  if s.segs.length > 0 ∧ a.parent.isNone then .error .exception else
  if a.parent.isSome ∧ ¬ (0 ≤ a.frac4 ∧ a.frac4 ≤ 4) then .error .valueError else
  match pick s a.segId with
  | .error e => .error e
  | .ok id =>
    let gid := a.groupId.getD ""
    let s1 := userStep s gid id
    if a.useConv then
      match parseType a.segType with
      | none => .error .valueError
      | some t =>
        let s4 := convStep s1 gid id t a.reorder
        appendSeg opt s4 (mkSeg s4 a gid id (some t)) a.optimise
    else appendSeg opt s1 (mkSeg s1 a gid id none) a.optimise

def addSegment (cfg : Cfg) := addSegmentWith pickId (optimiseAll cfg)
def addSegmentOld (cfg : Cfg) := addSegmentWith pickIdOld (optimiseAll cfg)

/-! ### `add_unbranched_segments` -/

structure AddUnb where
  npoints : Nat
  parent : Option Nat
  frac4 : Int
  groupId : Option String
  useConv : Bool
  segType : Option String
  reorder : Bool
  optimise : Bool
deriving Repr, DecidableEq, Inhabited

def lastId (s : State) : Option Nat := s.segs.getLast?.map (·.id)

/-- the `add_segment` call made for one point: always a proximal, automatic id and name, no reorder, optimise -/
def unbSeg (u : AddUnb) (parent : Option Nat) (frac4 : Int) : AddSeg :=
  { hasProx := true, segId := none, name := none, parent := parent, frac4 := frac4, groupId := u.groupId,
    useConv := u.useConv, segType := u.segType, reorder := false, optimise := true }

/-- the segments after the first: each hangs on the distal end of the one before -/
def unbRest (add : State → AddSeg → Except Err State) (u : AddUnb) : Nat → State → Except Err State
  | 0, s => .ok s
  | k+1, s =>
    match add s (unbSeg u (lastId s) 4) with
    | .ok s' => unbRest add u k s'
    | .error e => .error e

def addUnbranchedWith (add : State → AddSeg → Except Err State) (opt : State → Except Err State) (s : State) (u : AddUnb) :
    Except Err State :=
  if u.npoints < 2 then .error .indexError else
  let gid := u.groupId.getD ""
  let s1 := ensureGroup s gid (some sectionNlx)
  match add s1 (unbSeg u u.parent u.frac4) with
  | .error e => .error e
  | .ok s2 =>
    match unbRest add u (u.npoints - 2) s2 with
    | .error e => .error e
    | .ok s3 =>
      let s4 := if u.reorder then reorder s3 else s3
      match (if u.optimise then opt s4 else .ok s4) with
      | .error e => .error e
      | .ok s5 => if (findGroup s5.groups gid).isSome then .ok s5 else .error .valueError

/-! ### biophysical properties -/

def isDigit (c : Char) : Bool := '0' ≤ c && c ≤ '9'
def isSpace (c : Char) : Bool := c == ' ' || c == '\t' || c == '\n' || c == '\r'

/-- the part of a quantity pattern before the unit: `-?([0-9]*(\.[0-9]+)?)([eE]-?[0-9]+)?[\s]*`; returns the rest -/
def stripNumber (cs : List Char) : List Char :=
  let cs := match cs with | '-' :: r => r | _ => cs
  let cs := cs.dropWhile isDigit
  let cs := match cs with
    | '.' :: r => if (r.takeWhile isDigit).isEmpty then cs else r.dropWhile isDigit
    | _ => cs
  let cs := match cs with
    | c :: r =>
      if c == 'e' || c == 'E' then
        let r' := match r with | '-' :: q => q | _ => r
        if (r'.takeWhile isDigit).isEmpty then cs else r'.dropWhile isDigit
      else cs
    | [] => cs
  cs.dropWhile isSpace

def quantityOK (units : List String) (v : String) : Bool :=
  units.any (fun u => u.toList == stripNumber v.toList)

def isIdStart (c : Char) : Bool := ('a' ≤ c && c ≤ 'z') || ('A' ≤ c && c ≤ 'Z') || c == '_'
def isIdChar (c : Char) : Bool := isIdStart c || isDigit c

/-- `NmlId`: `[a-zA-Z_][a-zA-Z0-9_]*` -/
def nmlIdOK (s : String) : Bool :=
  match s.toList with
  | [] => false
  | c :: cs => isIdStart c && cs.all isIdChar

def PKind.units : PKind → List String
  | .spikeThresh => ["V", "mV"]
  | .initMembPotential => ["V", "mV"]
  | .specificCapacitance => ["F_per_m2", "uF_per_cm2"]
  | .resistivity => ["ohm_cm", "kohm_cm", "ohm_m"]

def BioProp.ok (p : BioProp) : Bool := quantityOK p.kind.units p.value && nmlIdOK p.group

/-- `membrane_properties.add(kind, validate=False, value=…, segment_groups=…)`: an equal entry is not re-added -/
def addMembrane (s : State) (p : BioProp) : State :=
  if p ∈ s.memb then s else { s with memb := s.memb ++ [p] }

/-- `intracellular_properties.add(kind, value=…, segment_groups=…)`: validated when created -/
def addIntra (s : State) (p : BioProp) : Except Err State :=
  if ¬ p.ok then .error .valueError
  else if p ∈ s.intra then .ok s else .ok { s with intra := s.intra ++ [p] }

/-- what `validate(recursive=True)` and the schema ask of a cell built with these helpers -/
def shapeOK (s : State) : Bool :=
  !s.segs.isEmpty
  && s.memb.any (·.kind == .spikeThresh) && s.memb.any (·.kind == .initMembPotential)
  && s.memb.any (·.kind == .specificCapacitance)
  && s.memb.all (·.ok) && s.intra.all (·.ok)
  && s.groups.all (fun G => nmlIdOK G.id && G.includes.all nmlIdOK)

/-! ### operations and histories -/

inductive Op where
  | addSegment (a : AddSeg)
  | addUnbranched (u : AddUnb)
  | addSegmentGroup (g : Option String)
  | addUnbranchedSegmentGroup (g : Option String)
  | setupDefault (useConv : Bool) (names : List String)
  | setupNmlCell (useConv overwrite : Bool) (names : List String)
  | reorder
  | optimise
  | addMembrane (p : BioProp)
  | addIntra (p : BioProp)
deriving Repr, DecidableEq, Inhabited

def stepWith (pick : State → Option Nat → Except Err Nat) (opt : State → Except Err State) (s : State) : Op → Except Err State
  | .addSegment a => addSegmentWith pick opt s a
  | .addUnbranched u => addUnbranchedWith (addSegmentWith pick opt) opt s u
  | .addSegmentGroup g => .ok (ensureGroup s (g.getD "") none)
  | .addUnbranchedSegmentGroup g => .ok (ensureGroup s (g.getD "") (some sectionNlx))
  | .setupDefault c names => .ok (setupDefault s c names)
  | .setupNmlCell c o names => .ok (setupNmlCell s c o names)
  | .reorder => .ok (reorder s)
  | .optimise => opt s
  | .addMembrane p => .ok (addMembrane (setupNmlCell s false false ["all", "soma_group"]) p)
  | .addIntra p => addIntra (setupNmlCell s false false ["all", "soma_group"]) p

def step (cfg : Cfg) := stepWith pickId (optimiseAll cfg)
def stepOld (cfg : Cfg) := stepWith pickIdOld (optimiseAll cfg)

/-- a history: every call returned normally, or the first raise ends it -/
def runWith (pick : State → Option Nat → Except Err Nat) (opt : State → Except Err State) : State → List Op → Except Err State
  | s, [] => .ok s
  | s, op :: ops =>
    match stepWith pick opt s op with
    | .ok s' => runWith pick opt s' ops
    | .error e => .error e

def run (cfg : Cfg) := runWith pickId (optimiseAll cfg)
def runOld (cfg : Cfg) := runWith pickIdOld (optimiseAll cfg)

end NmlVerif.Builder
