/-
Model of the cell-builder helpers of class `Cell` (`neuroml/nml/helper_methods.py`, copied into
`neuroml/nml/nml.py`): `add_segment`, `add_unbranched_segments`, `add_segment_group`,
`add_unbranched_segment_group`, `setup_default_segment_groups`, `reorder_segment_groups`,
`optimise_segment_groups`, `setup_nml_cell`, `add_membrane_property`, `add_intracellular_property` (+ the `set_*`
wrappers, which are calls of the last two) and `get_all_segments_in_group` as used by them.
Mathlib-free, executable, total.  Bug-for-bug: it says what the code DOES (on the tree with the C15 repair of the
duplicate-id check; the unrepaired id logic is kept as `pickIdOld`).

A step returns `Except Err State` (the property only speaks about sequences of calls that each returned normally);
what a RAISING call leaves behind (a user group created and filled before `seg_type` is found missing, segments
added before `add_unbranched_segments` fails at its last line, groups optimised before a `RecursionError`) is the
separate function `leaveWith` (second pass), so that histories in which the caller catches the exception and goes on
can be run as well (`runCaught`).

Conventions: `fraction_along` travels as the integer `4 * fraction` (inputs are multiples of 1/4); a group id
`None` and a group id `""` are both falsy and never found by `get_segment_group`; as group ids they are both the
empty string, a group created with id `None` carries `idNone := true` (so the two are different list entries, as in
Python).  Segment ids are integers as STORED (`Segment.id` after the generated `_cast(int, …)`); an id passed in
another lexical form (`"5"`, `5.5`: the docstring's declared type is `str`) is the operation `addSegmentLex`.
-/
namespace NmlVerif.Builder

inductive Err where
  | valueError | exception | indexError | recursionError | unboundLocalError
deriving Repr, DecidableEq, Inhabited

inductive SegType where
  | soma | axon | dendrite
deriving Repr, DecidableEq, Inhabited

def SegType.group : SegType → String
  | .soma => "soma_group"
  | .axon => "axon_group"
  | .dendrite => "dendrite_group"

def SegType.nlx : SegType → String
  | .soma => "GO:0043025"
  | .axon => "GO:0030424"
  | .dendrite => "GO:0030425"

def sectionNlx : String := "sao864921383"

/-- `seg_type` as the caller wrote it; anything but the three names is refused with `ValueError` -/
def parseType : Option String → Option SegType
  | some "soma" => some .soma
  | some "axon" => some .axon
  | some "dendrite" => some .dendrite
  | _ => none

/-- a point argument (`prox` / `dist`): a good 4-list, `None`/`[]` (falsy: no proximal), a list with fewer than 4
    entries (`IndexError` caught and printed, the local stays unbound), a diameter the schema refuses (`ValueError`
    from `component_factory`) -/
inductive Pt where
  | ok | absent | short | badDiam
deriving Repr, DecidableEq, Inhabited

structure Seg where
  id : Int
  parent : Option Int          -- `parent.segments`
  frac4 : Int                  -- 4 * `parent.fraction_along` (meaningful with a parent only)
  hasProx : Bool
  name : String
  stype : Option SegType       -- ghost: the type the segment was added with (`use_convention=True`)
  ugroup : Option String       -- ghost: the `group_id` the segment was added with
deriving Repr, DecidableEq, Inhabited

structure Group where
  id : String
  members : List Int
  includes : List String
  nlx : Option String
  idNone : Bool := false       -- created by `add_segment_group(None)`: `id` is `None`, not `""`
deriving Repr, DecidableEq, Inhabited

inductive PKind where
  | spikeThresh | initMembPotential | specificCapacitance | resistivity
deriving Repr, DecidableEq, Inhabited

structure BioProp where
  kind : PKind
  value : String
  group : String
deriving Repr, DecidableEq, Inhabited

/-- a `<channelDensity>` as `add_channel_density` / `add_channel_density_v("ChannelDensity", …)` builds it -/
structure ChanDens where
  id : String
  ionChannel : String
  condDensity : String
  erev : String
  group : String
  ion : String
deriving Repr, DecidableEq, Inhabited

structure State where
  segs : List Seg
  groups : List Group
  memb : List BioProp      -- biophysical_properties.membrane_properties.*
  intra : List BioProp     -- biophysical_properties.intracellular_properties.*
  chans : List ChanDens := []    -- biophysical_properties.membrane_properties.channel_densities
  docIncs : List String := []    -- `nml_cell_doc.includes` (hrefs) of the document passed to `add_channel_density*`
deriving Repr, DecidableEq, Inhabited

/-- which `optimise_segment_group` the tree has: the shipped one (`false`) or the one repaired for C14 (`true`) -/
structure Cfg where
  optFixed : Bool
deriving Repr, DecidableEq, Inhabited

def State.ids (s : State) : List Int := s.segs.map (·.id)

/-! ### small list helpers (Python loops `for x in l: if x not in acc: acc.append(x)`) -/

def dedupAux : List Int → List Int → List Int
  | acc, [] => acc
  | acc, x :: xs => if x ∈ acc then dedupAux acc xs else dedupAux (acc ++ [x]) xs

def dedup (l : List Int) : List Int := dedupAux [] l

def dedupStrAux : List String → List String → List String
  | acc, [] => acc
  | acc, x :: xs => if x ∈ acc then dedupStrAux acc xs else dedupStrAux (acc ++ [x]) xs

def dedupStr (l : List String) : List String := dedupStrAux [] l

/-! ### lookups -/

/-- first group with id `g` (`for sg in segment_groups: if sg.id == g: return sg`) -/
def look (gs : List Group) (g : String) : Option Group := gs.find? (fun G => G.id == g)

/-- `get_segment_group(sg_id)`: first group with that id; a falsy id is never found (`ValueError`) -/
def findGroup (gs : List Group) (g : String) : Option Group :=
  if g = "" then none else look gs g

/-- replace the first group whose id is `g` by `f` of it (mutation of the object `get_segment_group` returned) -/
def updGroup (g : String) (f : Group → Group) : List Group → List Group
  | [] => []
  | G :: gs => if G.id == g then f G :: gs else G :: updGroup g f gs

def isDefaultName (g : String) : Bool :=
  g == "soma_group" || g == "axon_group" || g == "dendrite_group" || g == "all"

/-! ### `get_all_segments_in_group` -/

def resolveIncs (rec : String → Except Err (List Int)) : List String → List Int → Except Err (List Int)
  | [], acc => .ok acc
  | u :: us, acc =>
    match rec u with
    | .ok l => resolveIncs rec us (dedupAux acc l)
    | .error e => .error e

/-- fuel = recursion depth; running out of it is Python's `RecursionError` (an include cycle) -/
def resolveAux (segIds : List Int) (gs : List Group) : Nat → String → Except Err (List Int)
  | 0, _ => .error .recursionError
  | f+1, g =>
    match look gs g with
    | none => if g = "all" then .ok segIds else .error .exception
    | some G => resolveIncs (resolveAux segIds gs f) G.includes (dedup G.members)

/-- `cell.get_all_segments_in_group(g)` (a chain of includes without a cycle is at most `|groups|` deep) -/
def resolve (s : State) (g : String) : Except Err (List Int) :=
  resolveAux s.ids s.groups (s.groups.length + 1) g

/-! ### `reorder_segment_groups` -/

/-- `seg_groups.append(seg_groups.pop(seg_groups.index(sg)))` for the first group with id `g`, if any -/
def moveToEnd (gs : List Group) (g : String) : List Group :=
  match look gs g with
  | none => gs
  | some G => gs.eraseP (fun G => G.id == g) ++ [G]

def defaultOrder : List String := ["soma_group", "axon_group", "dendrite_group", "all"]

def reorderGroups (gs : List Group) : List Group := defaultOrder.foldl moveToEnd gs

def reorder (s : State) : State := { s with groups := reorderGroups s.groups }

/-! ### `optimise_segment_group(s)` -/

def insertSorted (a : Int) : List Int → List Int
  | [] => [a]
  | b :: l => if a ≤ b then a :: b :: l else b :: insertSorted a l

/-- `natsort.natsorted` on integer segment ids = numeric order -/
def natSort (l : List Int) : List Int := l.foldr insertSorted []

/-- shipped loop: the survivors of every include are appended one include after the other -/
def survivorsCur (rec : String → Except Err (List Int)) (members : List Int) :
    List String → List Int → Except Err (List Int)
  | [], acc => .ok acc
  | u :: us, acc =>
    match rec u with
    | .ok l => survivorsCur rec members us (acc ++ members.filter (fun m => !l.contains m))
    | .error e => .error e

/-- repaired loop (C14): a member survives iff no include covers it -/
def coveredBy (rec : String → Except Err (List Int)) : List String → List Int → Except Err (List Int)
  | [], acc => .ok acc
  | u :: us, acc =>
    match rec u with
    | .ok l => coveredBy rec us (acc ++ l)
    | .error e => .error e

/-- `seg_group.members = …; seg_group.includes = …` on the first group with id `g` -/
def setMI (g : String) (ms : List Int) (is : List String) (s : State) : State :=
  { s with groups := updGroup g (fun G => { G with members := ms, includes := is }) s.groups }

def setM (g : String) (ms : List Int) (s : State) : State :=
  { s with groups := updGroup g (fun G => { G with members := ms }) s.groups }

/-- the members that stay, by the tree's variant of the loop -/
def prune (cfg : Cfg) (s1 : State) (members : List Int) (includes : List String) : Except Err (List Int) :=
  if cfg.optFixed then
    match coveredBy (resolve s1) includes [] with
    | .ok cov => .ok (members.filter (fun m => !cov.contains m))
    | .error e => .error e
  else survivorsCur (resolve s1) members includes []

def optimiseGroup (cfg : Cfg) (s : State) (g : String) : Except Err State :=
  match findGroup s.groups g with
  | none => .error .valueError
  | some G =>
    -- de-duplicated members and includes are written back first
    let s1 := setMI g (dedup G.members) (dedupStr G.includes) s
    if dedupStr G.includes ≠ [] ∧ dedup G.members ≠ [] then
      match prune cfg s1 (dedup G.members) (dedupStr G.includes) with
      | .ok ms => .ok (setM g (natSort ms) s1)
      | .error e => .error e
    else .ok s1

def optimiseList (cfg : Cfg) : List String → State → Except Err State
  | [], s => .ok s
  | g :: gs, s =>
    match optimiseGroup cfg s g with
    | .ok s' => optimiseList cfg gs s'
    | .error e => .error e

/-- `optimise_segment_groups`: every group, in list order, by its id -/
def optimiseAll (cfg : Cfg) (s : State) : Except Err State :=
  optimiseList cfg (s.groups.map (·.id)) s

/-- the documented final step: `reorder_segment_groups()` then `optimise_segment_groups()` -/
def finishWith (opt : State → Except Err State) (s : State) : Except Err State := opt (reorder s)

def finish (cfg : Cfg) (s : State) : Except Err State := finishWith (optimiseAll cfg) s

/-! ### groups -/

/-- `add_segment_group(group_id, neuro_lex_id)`: an existing group is kept as it is; otherwise
    `morphology.add("SegmentGroup", id=…)`, which does not append an object equal to one already in the list (only
    possible for a group without id: `get_segment_group` never finds those).  `isNone`: the id passed was `None`
    (a group with id `None` and one with id `""` are different objects). -/
def ensureGroup (s : State) (g : String) (nlx : Option String) (isNone : Bool := false) : State :=
  match findGroup s.groups g with
  | some _ => s
  | none =>
    if ({ id := g, members := [], includes := [], nlx := nlx, idNone := isNone } : Group) ∈ s.groups then s
    else { s with groups := s.groups ++ [{ id := g, members := [], includes := [], nlx := nlx, idNone := isNone }] }

def addMember (s : State) (g : String) (i : Int) : State :=
  { s with groups := updGroup g (fun G => { G with members := G.members ++ [i] }) s.groups }

def addInclude (s : State) (g : String) (u : String) : State :=
  { s with groups := updGroup g (fun G => { G with includes := G.includes ++ [u] }) s.groups }

def defaultNlx : String → Option String
  | "soma_group" => some SegType.soma.nlx
  | "axon_group" => some SegType.axon.nlx
  | "dendrite_group" => some SegType.dendrite.nlx
  | _ => none

/-- the loop of `setup_default_segment_groups`; `none` = an unsupported name was met (`return []`, no reorder) -/
def setupLoop : List String → State → Option State
  | [], s => some s
  | g :: gs, s => if isDefaultName g then setupLoop gs (ensureGroup s g (defaultNlx g)) else none

/-- the groups created before an unsupported name stay -/
def setupLoopPartial : List String → State → State
  | [], s => s
  | g :: gs, s => if isDefaultName g then setupLoopPartial gs (ensureGroup s g (defaultNlx g)) else s

def setupDefault (s : State) (useConv : Bool) (names : List String) : State :=
  if useConv then
    match setupLoop names s with
    | some s' => reorder s'
    | none => setupLoopPartial names s
  else s

/-- `setup_nml_cell(use_convention, overwrite, default_groups)` (the document passed to `add_channel_density` is
    not part of the cell: `overwrite` leaves it alone) -/
def setupNmlCell (s : State) (useConv overwrite : Bool) (names : List String) : State :=
  let s0 : State := if overwrite then { segs := [], groups := [], memb := [], intra := [], chans := [], docIncs := s.docIncs } else s
  setupDefault s0 useConv names

/-- `component_factory("Cell", id=…)`: a fresh cell after `setup_nml_cell()` -/
def init : State := setupNmlCell { segs := [], groups := [], memb := [], intra := [] } true false ["all", "soma_group"]

/-! ### `add_segment` -/

structure AddSeg where
  prox : Pt
  dist : Pt := .ok
  segId : Option Int             -- the id as it will be STORED (`int(seg_id)`), `none` = automatic
  idText : Option String := none -- `str(seg_id)` where that is not the decimal form of the stored id (`"2.5"`, `"True"`)
  lex : Bool := false            -- `seg_id` does not compare equal (`==`) to the int it is stored as: `"5"`, `5.5`
  name : Option String
  parent : Option Int            -- id of the `Segment` object passed as `parent`
  frac4 : Int
  groupId : Option String
  useConv : Bool
  segType : Option String
  reorder : Bool
  optimise : Bool
deriving Repr, DecidableEq, Inhabited

/-- the id the segment will get: given, or `len(self.morphology.segments)` -/
def autoId (s : State) (a : AddSeg) : Int := a.segId.getD (s.segs.length : Int)

/-- `group_id` names a default group other than the one of `seg_type` (`"all"`, or `"dendrite_group"` for a soma
    segment): what the proposed repair `fixes/C15-default-group-name.patch` refuses -/
def foreignDefault (a : AddSeg) : Bool :=
  match a.groupId with
  | some g => isDefaultName g && g != (a.segType.getD "None") ++ "_group"
  | none => false

/-- everything `add_segment` refuses before it changes anything, after the parent/fraction checks: an id in use
    (`ValueError`); with the proposed repairs also a negative id (`idFx`) and a foreign default group name (`nmFx`).
    Returns the id. -/
def pickCfg (idFx nmFx : Bool) (s : State) (a : AddSeg) : Except Err Int :=
  -- on the tree as it is `get_segment("5")` compares `segment.id == "5"` and never finds anything
  if (idFx = true ∨ a.lex = false) ∧ autoId s a ∈ s.ids then .error .valueError
  else if idFx = true ∧ autoId s a < 0 then .error .valueError
  else if nmFx = true ∧ a.useConv = true ∧ foreignDefault a = true then .error .valueError
  else .ok (autoId s a)

/-- the tree as it is (duplicate-id repair of the first pass in place) -/
def pickId : State → AddSeg → Except Err Int := pickCfg false false

/-- the id logic before the first-pass repair: `if seg_id:` (0 counts as not given) and the `raise` is swallowed by
    its own `except` -/
def pickIdOld (s : State) (a : AddSeg) : Except Err Int :=
  match a.segId with
  | some n => if n = 0 then .ok (s.segs.length : Int) else .ok n
  | none => .ok (s.segs.length : Int)

def membersLen (s : State) (g : String) : Nat :=
  match findGroup s.groups g with
  | some G => G.members.length
  | none => 0

/-- `if group_id:` look the group up or create it, append the member -/
def userStep (s : State) (gid : String) (id : Int) : State :=
  if gid ≠ "" then addMember (ensureGroup s gid none) gid id else s

/-- `if use_convention:` make sure 'all' and the default group of the type exist (reordering), then add the user
    group (if any, and if it is not the default group itself) or else the segment to both; reorder if asked -/
def convStep (s1 : State) (gid : String) (id : Int) (t : SegType) (ro : Bool) : State :=
  let s2 := setupDefault s1 true ["all", t.group]
  let s3 :=
    if gid ≠ "" ∧ gid ≠ t.group then addInclude (addInclude s2 t.group gid) "all" gid
    else addMember (addMember s2 t.group id) "all" id
  if ro then reorder s3 else s3

/-- the segment's name: given, or `Seg<n-1>_<group>` with `n = len(seg_group.members)`, or `Seg<seg_id>` -/
def segName (s4 : State) (a : AddSeg) (gid : String) (id : Int) : String :=
  let nm := match a.name with
    | some n => if n ≠ "" then some n else none
    | none => none
  match nm with
  | some n => n
  | none =>
    if gid ≠ "" then "Seg" ++ toString ((membersLen s4 gid : Int) - 1) ++ "_" ++ gid
    else "Seg" ++ a.idText.getD (toString id)

def mkSeg (s4 : State) (a : AddSeg) (gid : String) (id : Int) (t : Option SegType) : Seg :=
  { id := id, parent := a.parent, frac4 := a.frac4, hasProx := a.prox == .ok, name := segName s4 a gid id,
    stype := t, ugroup := if gid ≠ "" then some gid else none }

/-- `self.morphology.segments.append(segment)`, then optimise if asked -/
def appendSeg (opt : State → Except Err State) (s4 : State) (seg : Seg) (optimise : Bool) : Except Err State :=
  let s5 : State := { s4 with segs := s4.segs ++ [seg] }
  if optimise then opt s5 else .ok s5

def addSegmentWith (pick : State → AddSeg → Except Err Int) (opt : State → Except Err State) (s : State) (a : AddSeg) :
    Except Err State :=
  if a.prox = .badDiam ∨ a.dist = .badDiam then .error .valueError else
  if s.segs.length > 0 ∧ a.parent.isNone then .error .exception else
  if a.parent.isSome ∧ ¬ (0 ≤ a.frac4 ∧ a.frac4 ≤ 4) then .error .valueError else
  match pick s a with
  | .error e => .error e
  | .ok id =>
    if a.prox = .short ∨ a.dist = .short then .error .unboundLocalError else
    let gid := a.groupId.getD ""
    let s1 := userStep s gid id
    if a.useConv then
      match parseType a.segType with
      | none => .error .valueError
      | some t =>
        let s4 := convStep s1 gid id t a.reorder
        appendSeg opt s4 (mkSeg s4 a gid id (some t)) a.optimise
    else appendSeg opt s1 (mkSeg s1 a gid id none) a.optimise

def addSegment (cfg : Cfg) := addSegmentWith pickId (optimiseAll cfg)
def addSegmentOld (cfg : Cfg) := addSegmentWith pickIdOld (optimiseAll cfg)

/-! ### `add_unbranched_segments` -/

structure AddUnb where
  npoints : Nat
  parent : Option Int
  frac4 : Int
  groupId : Option String
  useConv : Bool
  segType : Option String
  reorder : Bool
  optimise : Bool
deriving Repr, DecidableEq, Inhabited

def lastId (s : State) : Option Int := s.segs.getLast?.map (·.id)

/-- the `add_segment` call made for one point: always a proximal, automatic id and name, no reorder, optimise -/
def unbSeg (u : AddUnb) (parent : Option Int) (frac4 : Int) : AddSeg :=
  { prox := .ok, segId := none, name := none, parent := parent, frac4 := frac4, groupId := u.groupId,
    useConv := u.useConv, segType := u.segType, reorder := false, optimise := true }

/-- the segments after the first: each hangs on the distal end of the one before -/
def unbRest (add : State → AddSeg → Except Err State) (u : AddUnb) : Nat → State → Except Err State
  | 0, s => .ok s
  | k+1, s =>
    match add s (unbSeg u (lastId s) 4) with
    | .ok s' => unbRest add u k s'
    | .error e => .error e

def addUnbranchedWith (add : State → AddSeg → Except Err State) (opt : State → Except Err State) (s : State) (u : AddUnb) :
    Except Err State :=
  if u.npoints < 2 then .error .indexError else
  let gid := u.groupId.getD ""
  let s1 := ensureGroup s gid (some sectionNlx) u.groupId.isNone
  match add s1 (unbSeg u u.parent u.frac4) with
  | .error e => .error e
  | .ok s2 =>
    match unbRest add u (u.npoints - 2) s2 with
    | .error e => .error e
    | .ok s3 =>
      let s4 := if u.reorder then reorder s3 else s3
      match (if u.optimise then opt s4 else .ok s4) with
      | .error e => .error e
      | .ok s5 => if (findGroup s5.groups gid).isSome then .ok s5 else .error .valueError

/-! ### biophysical properties -/

def isDigit (c : Char) : Bool := '0' ≤ c && c ≤ '9'
def isSpace (c : Char) : Bool := c == ' ' || c == '\t' || c == '\n' || c == '\r'

/-- the part of a quantity pattern before the unit: `-?([0-9]*(\.[0-9]+)?)([eE]-?[0-9]+)?[\s]*`; returns the rest -/
def stripNumber (cs : List Char) : List Char :=
  let cs := match cs with | '-' :: r => r | _ => cs
  let cs := cs.dropWhile isDigit
  let cs := match cs with
    | '.' :: r => if (r.takeWhile isDigit).isEmpty then cs else r.dropWhile isDigit
    | _ => cs
  let cs := match cs with
    | c :: r =>
      if c == 'e' || c == 'E' then
        let r' := match r with | '-' :: q => q | _ => r
        if (r'.takeWhile isDigit).isEmpty then cs else r'.dropWhile isDigit
      else cs
    | [] => cs
  cs.dropWhile isSpace

def quantityOK (units : List String) (v : String) : Bool :=
  units.any (fun u => u.toList == stripNumber v.toList)

def isIdStart (c : Char) : Bool := ('a' ≤ c && c ≤ 'z') || ('A' ≤ c && c ≤ 'Z') || c == '_'
def isIdChar (c : Char) : Bool := isIdStart c || isDigit c

/-- `NmlId`: `[a-zA-Z_][a-zA-Z0-9_]*` -/
def nmlIdOK (s : String) : Bool :=
  match s.toList with
  | [] => false
  | c :: cs => isIdStart c && cs.all isIdChar

/-- `NeuroLexId`: `[a-zA-Z0-9_:]*` -/
def nlxOK (s : String) : Bool := s.toList.all (fun c => isIdChar c || c == ':')

def PKind.units : PKind → List String
  | .spikeThresh => ["V", "mV"]
  | .initMembPotential => ["V", "mV"]
  | .specificCapacitance => ["F_per_m2", "uF_per_cm2"]
  | .resistivity => ["ohm_cm", "kohm_cm", "ohm_m"]

def condDensityUnits : List String := ["S_per_m2", "mS_per_cm2", "S_per_cm2"]
def voltageUnits : List String := ["V", "mV"]

def BioProp.ok (p : BioProp) : Bool := quantityOK p.kind.units p.value && nmlIdOK p.group

def ChanDens.ok (c : ChanDens) : Bool :=
  nmlIdOK c.id && nmlIdOK c.ionChannel && quantityOK condDensityUnits c.condDensity && quantityOK voltageUnits c.erev
  && nmlIdOK c.group && nmlIdOK c.ion

/-- `membrane_properties.add(kind, validate=False, value=…, segment_groups=…)`: an equal entry is not re-added -/
def addMembrane (s : State) (p : BioProp) : State :=
  if p ∈ s.memb then s else { s with memb := s.memb ++ [p] }

/-- `intracellular_properties.add(kind, value=…, segment_groups=…)`: validated when created -/
def addIntra (s : State) (p : BioProp) : Except Err State :=
  if ¬ p.ok then .error .valueError
  else if p ∈ s.intra then .ok s else .ok { s with intra := s.intra ++ [p] }

/-- `add_channel_density(doc, cd_id, ion_channel, cond_density, erev, group_id, ion, ion_chan_def_file)` (and
    `add_channel_density_v("ChannelDensity", doc, file, …)`): `add_membrane_property("ChannelDensity",
    validate=False, …)`, then the channel's definition file is included in the document unless it already is -/
def addChan (s : State) (c : ChanDens) (defFile : String) : State :=
  let s1 : State := if c ∈ s.chans then s else { s with chans := s.chans ++ [c] }
  if defFile.length > 0 then
    (if defFile ∈ s1.docIncs then s1 else { s1 with docIncs := s1.docIncs ++ [defFile] })
  else s1

/-- what `validate(recursive=True)` and the schema ask of a cell built with these helpers (hand characterisation;
    `Props/C15Valid.lean` proves that it implies acceptance by the binding-level model of `validate` of C02/C03) -/
def shapeOK (s : State) : Bool :=
  !s.segs.isEmpty
  && s.memb.any (·.kind == .spikeThresh) && s.memb.any (·.kind == .initMembPotential)
  && s.memb.any (·.kind == .specificCapacitance)
  && s.memb.all (·.ok) && s.intra.all (·.ok) && s.chans.all (·.ok)
  && s.groups.all (fun G => nmlIdOK G.id && G.includes.all nmlIdOK && (match G.nlx with | some n => nlxOK n | none => true))

/-- the one thing the schema asks beyond `validate`: `NonNegativeInteger` ids (the generated `validate_` has no
    check for a facet-less restriction of a builtin type) -/
def idsNonNeg (s : State) : Bool :=
  s.segs.all (fun x => decide (0 ≤ x.id) && (match x.parent with | some p => decide (0 ≤ p) | none => true))
  && s.groups.all (fun G => G.members.all (fun m => decide (0 ≤ m)))

/-! ### operations and histories -/

inductive Op where
  | addSegment (a : AddSeg)
  | addSegmentLex (a : AddSeg)     -- `add_segment` with `seg_id` in another lexical form than `int` (`"5"`, `5.5`)
  | addUnbranched (u : AddUnb)
  | addSegmentGroup (g : Option String)
  | addUnbranchedSegmentGroup (g : Option String)
  | setupDefault (useConv : Bool) (names : List String)
  | setupNmlCell (useConv overwrite : Bool) (names : List String)
  | reorder
  | optimise
  | addMembrane (p : BioProp)
  | addIntra (p : BioProp)
  | addChannelDensity (c : ChanDens) (defFile : String)
deriving Repr, DecidableEq, Inhabited

def stepWith (pick : State → AddSeg → Except Err Int) (opt : State → Except Err State) (s : State) : Op → Except Err State
  | .addSegment a => addSegmentWith pick opt s { a with lex := false }
  | .addSegmentLex a => addSegmentWith pick opt s { a with lex := true }
  | .addUnbranched u => addUnbranchedWith (addSegmentWith pick opt) opt s u
  | .addSegmentGroup g => .ok (ensureGroup s (g.getD "") none g.isNone)
  | .addUnbranchedSegmentGroup g => .ok (ensureGroup s (g.getD "") (some sectionNlx) g.isNone)
  | .setupDefault c names => .ok (setupDefault s c names)
  | .setupNmlCell c o names => .ok (setupNmlCell s c o names)
  | .reorder => .ok (reorder s)
  | .optimise => opt s
  | .addMembrane p => .ok (addMembrane (setupNmlCell s false false ["all", "soma_group"]) p)
  | .addIntra p => addIntra (setupNmlCell s false false ["all", "soma_group"]) p
  | .addChannelDensity c f => .ok (addChan (setupNmlCell s false false ["all", "soma_group"]) c f)

def step (cfg : Cfg) := stepWith pickId (optimiseAll cfg)
def stepOld (cfg : Cfg) := stepWith pickIdOld (optimiseAll cfg)

/-- a history: every call returned normally, or the first raise ends it -/
def runWith (pick : State → AddSeg → Except Err Int) (opt : State → Except Err State) : State → List Op → Except Err State
  | s, [] => .ok s
  | s, op :: ops =>
    match stepWith pick opt s op with
    | .ok s' => runWith pick opt s' ops
    | .error e => .error e

def run (cfg : Cfg) := runWith pickId (optimiseAll cfg)
def runOld (cfg : Cfg) := runWith pickIdOld (optimiseAll cfg)

/-! ### what a raising call leaves behind (second pass)

`leaveWith … s op` is the state of the cell after the call `op`, whether it returned or raised: equal to the result
of `stepWith` when that is `.ok` (`leave_of_ok`), and otherwise the cell with whatever the call had done before the
exception.  `optL` = the state a raising `optimise_segment_groups()` leaves. -/

/-- `optimise_segment_group(g)` that raises: nothing written when the group is not found; otherwise the de-duplicated
    members and includes have been assigned before `get_all_segments_in_group` raised -/
def optimiseGroupLeave (s : State) (g : String) : State :=
  match findGroup s.groups g with
  | none => s
  | some G => setMI g (dedup G.members) (dedupStr G.includes) s

def optimiseListLeave (cfg : Cfg) : List String → State → State
  | [], s => s
  | g :: gs, s =>
    match optimiseGroup cfg s g with
    | .ok s' => optimiseListLeave cfg gs s'
    | .error _ => optimiseGroupLeave s g

def optimiseAllLeave (cfg : Cfg) (s : State) : State := optimiseListLeave cfg (s.groups.map (·.id)) s

def optOrLeave (opt : State → Except Err State) (optL : State → State) (s : State) : State :=
  match opt s with
  | .ok s' => s'
  | .error _ => optL s

def addSegmentLeave (pick : State → AddSeg → Except Err Int) (opt : State → Except Err State) (optL : State → State)
    (s : State) (a : AddSeg) : State :=
  if a.prox = .badDiam ∨ a.dist = .badDiam then s else
  if s.segs.length > 0 ∧ a.parent.isNone then s else
  if a.parent.isSome ∧ ¬ (0 ≤ a.frac4 ∧ a.frac4 ≤ 4) then s else
  match pick s a with
  | .error _ => s
  | .ok id =>
    if a.prox = .short ∨ a.dist = .short then s else
    let gid := a.groupId.getD ""
    let s1 := userStep s gid id
    if a.useConv then
      match parseType a.segType with
      | none => s1                                   -- the user group exists and holds the id of a segment that is not there
      | some t =>
        let s4 := convStep s1 gid id t a.reorder
        let s5 : State := { s4 with segs := s4.segs ++ [mkSeg s4 a gid id (some t)] }
        if a.optimise then optOrLeave opt optL s5 else s5
    else
      let s5 : State := { s1 with segs := s1.segs ++ [mkSeg s1 a gid id none] }
      if a.optimise then optOrLeave opt optL s5 else s5

def unbRestLeave (add : State → AddSeg → Except Err State) (addL : State → AddSeg → State) (u : AddUnb) : Nat → State → Option State × State
  | 0, s => (some s, s)
  | k+1, s =>
    match add s (unbSeg u (lastId s) 4) with
    | .ok s' => unbRestLeave add addL u k s'
    | .error _ => (none, addL s (unbSeg u (lastId s) 4))

def addUnbranchedLeave (add : State → AddSeg → Except Err State) (addL : State → AddSeg → State)
    (opt : State → Except Err State) (optL : State → State) (s : State) (u : AddUnb) : State :=
  if u.npoints < 2 then s else
  let gid := u.groupId.getD ""
  let s1 := ensureGroup s gid (some sectionNlx) u.groupId.isNone
  match add s1 (unbSeg u u.parent u.frac4) with
  | .error _ => addL s1 (unbSeg u u.parent u.frac4)
  | .ok s2 =>
    match unbRestLeave add addL u (u.npoints - 2) s2 with
    | (none, sL) => sL
    | (some s3, _) =>
      let s4 := if u.reorder then reorder s3 else s3
      if u.optimise then optOrLeave opt optL s4 else s4     -- the final `get_segment_group` changes nothing

def leaveWith (pick : State → AddSeg → Except Err Int) (opt : State → Except Err State) (optL : State → State)
    (s : State) : Op → State
  | .addSegment a => addSegmentLeave pick opt optL s { a with lex := false }
  | .addSegmentLex a => addSegmentLeave pick opt optL s { a with lex := true }
  | .addUnbranched u => addUnbranchedLeave (addSegmentWith pick opt) (addSegmentLeave pick opt optL) opt optL s u
  | .optimise => optOrLeave opt optL s
  | .addIntra p => (match addIntra (setupNmlCell s false false ["all", "soma_group"]) p with | .ok s' => s' | .error _ => s)
  | op => (match stepWith pick opt s op with | .ok s' => s' | .error _ => s)

/-- a history in which the caller catches every exception and goes on -/
def runCaught (pick : State → AddSeg → Except Err Int) (opt : State → Except Err State) (optL : State → State) :
    State → List Op → State
  | s, [] => s
  | s, op :: ops => runCaught pick opt optL (leaveWith pick opt optL s op) ops

end NmlVerif.Builder
