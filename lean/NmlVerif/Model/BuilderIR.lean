import NmlVerif.Model.Builder
/-
C15, second pass: the statement vocabulary `translators/py2lean_builder.py` translates the builder methods of
`Cell` into (`Gen/Builder.lean`, rewritten on every run from BOTH `helper_methods.py` and `nml.py`).

Every primitive is ONE Python statement (or one compound statement whose nesting is translated compositionally:
`ifGroupId`, `ifUseConvention`); its Python text is in the table `STATEMENTS` of the translator, matched by exact
AST equality.  A method body is the list of its statements in source order; `runStmts` executes them in order on a
context (the cell, the call's arguments as the locals that change — `seg_id` after `int(seg_id)` —, the local
`seg_id` and the segment type once known); a `raise` ends the run.  `Props/C15Gen.lean` proves: the generated lists
are the expected ones (`rfl`, per run) and the expected lists compute `addSegmentWith (pickCfg …)` & co. for ALL inputs.
Mathlib-free, executable.
-/
namespace NmlVerif.Builder.IR
open NmlVerif.Builder

structure Ctx where
  s : State
  a : AddSeg
  segId : Int := 0
  t : Option SegType := none
deriving Repr, Inhabited

abbrev Stmt := Ctx → Except Err Ctx

def runStmts : List Stmt → Ctx → Except Err Ctx
  | [], c => .ok c
  | st :: rest, c =>
    match st c with
    | .ok c' => runStmts rest c'
    | .error e => .error e

def gid (c : Ctx) : String := c.a.groupId.getD ""

/-! ### `add_segment`, statement by statement -/

/-- `try: if prox: p = component_factory("Point3DWithDiam", …) else: p = None; except IndexError as e: print(…)` -/
def mkProx : Stmt := fun c => if c.a.prox = .badDiam then .error .valueError else .ok c
/-- `try: d = component_factory("Point3DWithDiam", …); except IndexError as e: print(…)` -/
def mkDist : Stmt := fun c => if c.a.dist = .badDiam then .error .valueError else .ok c
/-- `segid = len(self.morphology.segments)` (read again where it is used: nothing changes the list before) -/
def segidLen : Stmt := fun c => .ok c
/-- `if segid > 0 and parent is None: raise Exception(…)` -/
def refuseNoParent : Stmt := fun c =>
  if c.s.segs.length > 0 ∧ c.a.parent.isNone then .error .exception else .ok c
/-- `sp = (component_factory("SegmentParent", segments=parent.id, fraction_along=fraction_along) if parent else None)` -/
def mkParent : Stmt := fun c =>
  if c.a.parent.isSome ∧ ¬ (0 ≤ c.a.frac4 ∧ c.a.frac4 ≤ 4) then .error .valueError else .ok c
/-- `if seg_id is None: seg_id = segid` -/
def defaultId : Stmt := fun c => .ok { c with segId := autoId c.s c.a }
/-- with `seg_id = int(seg_id)` the call goes on with the id as stored -/
def normArg (idFx : Bool) (a : AddSeg) : AddSeg := if idFx then { a with lex := false, idText := none } else a

/-- `seg_id = int(seg_id)` (proposed repair): from here on the argument is the int it is stored as -/
def castId : Stmt := fun c => .ok { c with a := normArg true c.a }
/-- `if seg_id < 0: raise ValueError(…)` (proposed repair) -/
def refuseNegative : Stmt := fun c => if c.segId < 0 then .error .valueError else .ok c
/-- `try: self.get_segment(seg_id); except ValueError: pass; else: raise ValueError(…)` -/
def refuseInUse : Stmt := fun c => if c.a.lex = false ∧ c.segId ∈ c.s.ids then .error .valueError else .ok c
/-- `if use_convention and group_id in [<the four default names>] and group_id != f"{seg_type}_group": raise ValueError(…)`
    (proposed repair) -/
def refuseForeignDefault : Stmt := fun c =>
  if c.a.useConv = true ∧ foreignDefault c.a = true then .error .valueError else .ok c
/-- `segment = component_factory("Segment", id=seg_id, proximal=p, distal=d, parent=sp)`: `p` / `d` unbound -/
def mkSegment : Stmt := fun c =>
  if c.a.prox = .short ∨ c.a.dist = .short then .error .unboundLocalError else .ok c
/-- `seg_group = None` / `seg_group_default = None` -/
def localNone : Stmt := fun c => .ok c
/-- `try: seg_group = self.get_segment_group(group_id); except ValueError as e: print(…); print(…);
    seg_group = self.add_segment_group(group_id=group_id)` -/
def getOrCreateGroup : Stmt := fun c => .ok { c with s := ensureGroup c.s (gid c) none }
/-- `seg_group.members.append(Member(segments=segment.id))` -/
def appendMember : Stmt := fun c => .ok { c with s := addMember c.s (gid c) c.segId }
/-- `if group_id: <body>` -/
def ifGroupId (body : List Stmt) : Stmt := fun c => if gid c ≠ "" then runStmts body c else .ok c
/-- `if not seg_type: raise ValueError(…)` -/
def requireSegType : Stmt := fun c =>
  if c.a.segType = none ∨ c.a.segType = some "" then .error .valueError else .ok c
/-- the chain `if seg_type == "axon": [seg_group_all, seg_group_default] = self.setup_default_segment_groups(
    use_convention=True, default_groups=["all", "axon_group"]) elif … else: raise ValueError(…)`; `table` = the
    (type, default_groups) pairs in source order -/
def typeChain (table : List (String × List String)) : Stmt := fun c =>
  match table.find? (fun p => some p.1 == c.a.segType) with
  | none => .error .valueError
  | some p => .ok { c with s := setupDefault c.s true p.2, t := parseType (some p.1) }
/-- `if seg_group and seg_group.id != seg_group_default.id: <default and all include the group> else: <the segment is
    a member of both>` -/
def includeOrMember : Stmt := fun c =>
  match c.t with
  | none => .error .valueError          -- unreachable: `typeChain` has set the type
  | some t =>
    if gid c ≠ "" ∧ gid c ≠ t.group then .ok { c with s := addInclude (addInclude c.s t.group (gid c)) "all" (gid c) }
    else .ok { c with s := addMember (addMember c.s t.group c.segId) "all" c.segId }
/-- `if reorder_segment_groups: self.reorder_segment_groups()` -/
def ifReorder : Stmt := fun c => .ok (if c.a.reorder then { c with s := reorder c.s } else c)
/-- `if use_convention: <body>` -/
def ifUseConvention (body : List Stmt) : Stmt := fun c => if c.a.useConv then runStmts body c else .ok c
/-- `if name: segment.name = name else: <default name from the group or the id>` -/
def nameSegment : Stmt := fun c => .ok c      -- the name is computed where the segment is appended (`mkSeg`)
/-- `self.morphology.segments.append(segment)` -/
def appendSegment : Stmt := fun c =>
  .ok { c with s := { c.s with segs := c.s.segs ++ [mkSeg c.s c.a (gid c) c.segId c.t] } }
/-- `if optimise_segment_groups: self.optimise_segment_groups()` -/
def ifOptimise (opt : State → Except Err State) : Stmt := fun c =>
  if c.a.optimise then (match opt c.s with | .ok s' => .ok { c with s := s' } | .error e => .error e) else .ok c
/-- `return segment` -/
def returnSegment : Stmt := fun c => .ok c

/-- a statement the translator does not know: the equivalence proofs cannot go through -/
def unsupported : Stmt := fun _ => .error .indexError

/-- the call `add_segment(…)` as the generated statement list runs it -/
def runAddSegment (body : List Stmt) (s : State) (a : AddSeg) : Except Err State :=
  match runStmts body { s := s, a := a } with
  | .ok c => .ok c.s
  | .error e => .error e

end NmlVerif.Builder.IR
