import NmlVerif.Model.Builder
import NmlVerif.Model.Schema
import NmlVerif.Gen.Names
/-
C15, second pass: the cell of the builder model (`Model/Builder.lean`) as a binding-level object tree (`Binding.Obj`,
the trees `validate(recursive=True)` is modelled on in `Model/Schema.lean` for C02/C03), and a concrete checker for
the simple types such a tree meets.  Member / class / simple-type names are the interned names of `Gen/Names.lean`
(regenerated from `nml.py` and the XSD on every run).  Mathlib-free, executable (the driver runs `validateAll` on it).

What the builder model does not carry is a parameter: `geom id isProx` = the four lexical values (x, y, z, diameter)
of a segment's proximal / distal point, `cid` = the cell's id.
-/
namespace NmlVerif.Builder
open NmlVerif.Binding NmlVerif.Gen.Names

abbrev Geom := Int → Bool → (String × String × String × String)

/-- lexical form of `fraction_along = frac4 / 4` as `export` writes a Python float -/
def fracLex (f : Int) : String :=
  if f = 0 then "0.0" else if f = 1 then "0.25" else if f = 2 then "0.5" else if f = 3 then "0.75"
  else if f = 4 then "1.0" else toString f ++ "/4"

/-- decimal form of a segment id as `export` writes it -/
def idLex (i : Int) : String := toString i

def ptObj (p : String × String × String × String) : Obj :=
  .mk nm_Point3DWithDiam [(nm_x, some p.1), (nm_y, some p.2.1), (nm_z, some p.2.2.1), (nm_diameter, some p.2.2.2)] none []

def parentObj (p : Int) (f : Int) : Obj :=
  .mk nm_SegmentParent [(nm_segments, some (idLex p)), (nm_fraction_along, some (fracLex f))] none []

def segObj (geom : Geom) (x : Seg) : Obj :=
  .mk nm_Segment [(nm_id, some (idLex x.id)), (nm_name, some x.name), (nm_neuro_lex_id, none)] none
    [(nm_parent, match x.parent with | some p => [parentObj p x.frac4] | none => []),
     (nm_proximal, if x.hasProx then [ptObj (geom x.id true)] else []),
     (nm_distal, [ptObj (geom x.id false)])]

def memberObj (i : Int) : Obj := .mk nm_Member [(nm_segments, some (idLex i))] none []
def includeObj (u : String) : Obj := .mk nm_Include [(nm_segment_groups, some u)] none []

/-- a group created with id `None` has no `id` attribute -/
def groupObj (G : Group) : Obj :=
  .mk nm_SegmentGroup [(nm_id, if G.idNone then none else some G.id), (nm_neuro_lex_id, G.nlx)] none
    [(nm_notes, []), (nm_properties, []), (nm_annotation, []),
     (nm_members, G.members.map memberObj), (nm_includes, G.includes.map includeObj),
     (nm_paths, []), (nm_sub_trees, []), (nm_inhomogeneous_parameters, [])]

def morphObj (geom : Geom) (s : State) : Obj :=
  .mk nm_Morphology [(nm_id, some "morphology"), (nm_metaid, none)] none
    [(nm_notes, []), (nm_properties, []), (nm_annotation, []),
     (nm_segments, s.segs.map (segObj geom)), (nm_segment_groups, s.groups.map groupObj)]

def PKind.cls : PKind → Nat
  | .spikeThresh => nm_SpikeThresh
  | .initMembPotential => nm_InitMembPotential
  | .specificCapacitance => nm_SpecificCapacitance
  | .resistivity => nm_Resistivity

def propObj (p : BioProp) : Obj := .mk p.kind.cls [(nm_value, some p.value), (nm_segment_groups, some p.group)] none []

def chanObj (c : ChanDens) : Obj :=
  .mk nm_ChannelDensity [(nm_id, some c.id), (nm_ion_channel, some c.ionChannel), (nm_cond_density, some c.condDensity),
      (nm_erev, some c.erev), (nm_segment_groups, some c.group), (nm_segments, none), (nm_ion, some c.ion)] none
    [(nm_variable_parameters, [])]

def kindList (s : State) (k : PKind) : List Obj := (s.memb.filter (·.kind == k)).map propObj

def membObj (s : State) : Obj :=
  .mk nm_MembraneProperties [] none
    [(nm_channel_populations, []), (nm_channel_densities, s.chans.map chanObj), (nm_channel_density_v_shifts, []),
     (nm_channel_density_nernsts, []), (nm_channel_density_ghks, []), (nm_channel_density_ghk2s, []),
     (nm_channel_density_non_uniforms, []), (nm_channel_density_non_uniform_nernsts, []),
     (nm_channel_density_non_uniform_ghks, []),
     (nm_spike_threshes, kindList s .spikeThresh), (nm_specific_capacitances, kindList s .specificCapacitance),
     (nm_init_memb_potentials, kindList s .initMembPotential)]

def intraObj (s : State) : Obj :=
  .mk nm_IntracellularProperties [] none [(nm_species, []), (nm_resistivities, s.intra.map propObj)]

def bioObj (s : State) : Obj :=
  .mk nm_BiophysicalProperties [(nm_id, some "biophys"), (nm_metaid, none)] none
    [(nm_notes, []), (nm_properties, []), (nm_annotation, []),
     (nm_membrane_properties, [membObj s]), (nm_intracellular_properties, [intraObj s]), (nm_extracellular_properties, [])]

/-- the cell after `setup_nml_cell` (morphology and biophysical properties are child elements, not references) -/
def cellObj (cid : String) (geom : Geom) (s : State) : Obj :=
  .mk nm_Cell [(nm_id, some cid), (nm_metaid, none), (nm_neuro_lex_id, none), (nm_morphology_attr, none),
               (nm_biophysical_properties_attr, none)] none
    [(nm_notes, []), (nm_properties, []), (nm_annotation, []),
     (nm_morphology, [morphObj geom s]), (nm_biophysical_properties, [bioObj s])]

/-! ### a concrete checker for the simple types met on such a tree -/

/-- `xs:nonNegativeInteger` -/
def nonNegIntOK (s : String) : Bool := !s.toList.isEmpty && s.toList.all isDigit

/-- `xs:double`-ish with `minExclusive 0`: decimal digits with at most one point, not all zero (the harness only
    uses such diameters) -/
def posDecimalOK (s : String) : Bool :=
  let cs := s.toList
  !cs.isEmpty && cs.all (fun c => isDigit c || c == '.') && (cs.filter (· == '.')).length ≤ 1
  && cs.any (fun c => isDigit c && c != '0')

def zeroToOneOK (s : String) : Bool := s == "0.0" || s == "0.25" || s == "0.5" || s == "0.75" || s == "1.0"

def metaIdOK (s : String) : Bool := s.toList.all isIdChar

/-- the simple types a builder-made cell meets; any other type is not met on such a tree (accepted) -/
def stC (v : Nat) (s : String) : Bool :=
  if v = nm_NmlId then nmlIdOK s
  else if v = nm_NonNegativeInteger then nonNegIntOK s
  else if v = nm_ZeroToOne then zeroToOneOK s
  else if v = nm_NeuroLexId then nlxOK s
  else if v = nm_MetaId then metaIdOK s
  else if v = nm_Nml2Quantity_voltage then quantityOK voltageUnits s
  else if v = nm_Nml2Quantity_specificCapacitance then quantityOK PKind.specificCapacitance.units s
  else if v = nm_Nml2Quantity_resistivity then quantityOK PKind.resistivity.units s
  else if v = nm_Nml2Quantity_conductanceDensity then quantityOK condDensityUnits s
  else if v = nm_DoubleGreaterThanZero then posDecimalOK s
  else true

/-- the schema's pattern of a quantity type with the given units -/
def quantityPattern (units : List String) : String :=
  "-?([0-9]*(\\.[0-9]+)?)([eE]-?[0-9]+)?[\\s]*(" ++ "|".intercalate units ++ ")"

end NmlVerif.Builder
