import NmlVerif.Model.Rx
/-
Simple-type validation, both sides (C02 / C03 second pass).

* Python side, bug for bug: a generated `validate_<SimpleType>(self, value)` of `nml.py` is a base-type test
  (`isinstance`) followed by a list of steps (pattern table through `gds_validate_simple_patterns`, enumeration list,
  numeric comparisons with literals); a failing step adds a message to the collector, i.e. the value is rejected.
  `translators/validators_extract.py` regenerates the tables (`Gen/Validators.lean`) from `nml.py` on every run and
  refuses anything it does not recognise.
* `gds_validate_simple_patterns` is interpreted from its extracted shape (`PatCheck`): which `re` function is
  called, whether the length of `mo.group(0)` is compared with the length of the target, "all groups / any pattern".
  Python's `re` is a parameter (`Engine`) constrained by `EngineSpec`: for an anchored pattern `^(r)$` the engine
  returns a match `t` iff one exists, where `$` holds at the end of the target AND just before one trailing line feed
  (CPython's `$` without `re.MULTILINE`).  Which of two possible matches is returned is the engine's priority order
  and is NOT modelled; `refEngine` (longest first) is one engine satisfying the specification and is what the driver
  runs.
* XSD side: a simple type is a builtin base plus pattern / enumeration / bound facets (`XsdType`); `\s` of an XSD
  pattern is exactly `#x20 | \t | \n | \r`, whereas Python's `\s` on `str` is `str.isspace` (`CSet.space`).

Mathlib-free, executable.
-/
namespace NmlVerif.Facets
open NmlVerif.Rx

/-! ### values -/

inductive PyBase where
  | str | int | float
deriving DecidableEq, Repr, Inhabited

/-- a Python value handed to a simple-type validator. Floats are finite and carried as exact rationals (the harness
    only uses exactly representable values). -/
inductive PyVal where
  | str (s : List Char)
  | int (i : Int)
  | float (q : Rat)
deriving DecidableEq, Repr, Inhabited

def PyVal.base : PyVal → PyBase
  | .str _ => .str
  | .int _ => .int
  | .float _ => .float

/-! ### Python side -/

/-- one entry of a `validate_<T>_patterns_` table: the text `^(body)$` (which anchors are present is recorded) -/
structure PyPat where
  anchorStart : Bool
  anchorEnd : Bool
  body : Rx
deriving DecidableEq, Repr, Inhabited

inductive ReFn where
  | search | pmatch | fullmatch
deriving DecidableEq, Repr, Inhabited

/-- what `gds_validate_simple_patterns` demands of the match object besides `is not None` -/
inductive LenTest where
  | fullLen     -- `len(mo.group(0)) == len(target)`
  | noTest
deriving DecidableEq, Repr, Inhabited

/-- extracted shape of `gds_validate_simple_patterns`: `all(any(test(fn(p, str(target)[, re.ASCII])) for p in g) for g in patterns)`.
    `ascii`: the call passes `re.ASCII`, i.e. `\s` is `[ \t\n\r\f\v]` (and `\d`, `\w` would be ASCII; the schema's
    patterns use neither) instead of `str.isspace` -/
structure PatCheck where
  fn : ReFn
  strTarget : Bool
  test : LenTest
  ascii : Bool
deriving DecidableEq, Repr, Inhabited

inductive Cmp where
  | lt | le | gt | ge
deriving DecidableEq, Repr, Inhabited

/-- `value <op> lit` -/
def Cmp.holds : Cmp → Rat → Rat → Bool
  | .lt, v, l => decide (v < l)
  | .le, v, l => decide (v ≤ l)
  | .gt, v, l => decide (v > l)
  | .ge, v, l => decide (v ≥ l)

/-- one statement of a generated validator after the base-type test -/
inductive Step where
  | patterns (groups : List (List PyPat))       -- `if not self.gds_validate_simple_patterns(tbl, value): add_message`
  | enum (vals : List PyVal)                    -- `if value not in enumerations: add_message`
  | bound (op : Cmp) (lit : Rat)                -- `if value <op> lit: add_message`
deriving Repr, Inhabited

structure PyType where
  name : Nat
  base : PyBase
  steps : List Step
deriving Repr, Inhabited

/-- Python's `re` for an anchored pattern `^(r)$` (no flags): `group(0)` of the match object, `none` for `None` -/
abbrev Engine := Rx → ReFn → List Char → Option (List Char)

/-- what is assumed of CPython's `re`: it finds a match iff there is one; for `search`/`match` the closing `$`
    also holds just before ONE trailing line feed -/
structure EngineSpec (E : Engine) : Prop where
  sound : ∀ r fn s t, E r fn s = some t →
    Matches r t ∧ (t = s ∨ (fn ≠ ReFn.fullmatch ∧ s = t ++ ['\n']))
  complete : ∀ r fn s, E r fn s = none →
    ¬ Matches r s ∧ (fn ≠ ReFn.fullmatch → ∀ t, s = t ++ ['\n'] → ¬ Matches r t)

/-- `s` minus one trailing line feed, when it has one -/
def chopNL (s : List Char) : Option (List Char) :=
  match s.reverse with
  | '\n' :: r => some r.reverse
  | _ => none

/-- a reference engine: the whole target if it matches, else the target minus its trailing line feed -/
def refEngine : Engine := fun r fn s =>
  if accepts r s then some s
  else if fn = ReFn.fullmatch then none
  else match chopNL s with
    | some t => if accepts r t then some t else none
    | none => none

/-! ### the three readings of `\s` -/

/-- XSD `\s` -/
def xsdSpace (c : Char) : Bool := c.toNat == 32 || c.toNat == 9 || c.toNat == 10 || c.toNat == 13

def xsdSpaceRanges : List (Nat × Nat) := [(32, 32), (9, 9), (10, 10), (13, 13)]

/-- Python `\s` under `re.ASCII`: `[ \t\n\r\f\v]` -/
def asciiSpace (c : Char) : Bool := c.toNat == 32 || (9 ≤ c.toNat && c.toNat ≤ 13)

def asciiSpaceRanges : List (Nat × Nat) := [(32, 32), (9, 13)]

/-- read a pattern the way an XSD processor does: `\s` is the four characters, nothing else -/
def xsdOfSet (cs : CSet) : CSet := if cs.space then ⟨cs.ranges ++ xsdSpaceRanges, false⟩ else cs

def xsdOf : Rx → Rx
  | .none => .none
  | .eps => .eps
  | .set cs => .set (xsdOfSet cs)
  | .seq a b => .seq (xsdOf a) (xsdOf b)
  | .alt a b => .alt (xsdOf a) (xsdOf b)
  | .star a => .star (xsdOf a)

/-- read a pattern the way Python does under `re.ASCII` -/
def asciiOfSet (cs : CSet) : CSet := if cs.space then ⟨cs.ranges ++ asciiSpaceRanges, false⟩ else cs

def asciiOf : Rx → Rx
  | .none => .none
  | .eps => .eps
  | .set cs => .set (asciiOfSet cs)
  | .seq a b => .seq (asciiOf a) (asciiOf b)
  | .alt a b => .alt (asciiOf a) (asciiOf b)
  | .star a => .star (asciiOf a)

/-- the expression Python's engine actually runs for a pattern body -/
def pyBody (ascii : Bool) (r : Rx) : Rx := if ascii then asciiOf r else r

/-- Python's `\s` for the extracted call shape -/
def pySpace (ascii : Bool) (c : Char) : Bool := if ascii then asciiSpace c else Acc.isSpace c

/-- no character of the string is a Python space (in the reading the call shape selects) that is not an XSD space:
    without `re.ASCII` this excludes U+00A0, U+0085, U+2003, U+001C–U+001F, `\v`, `\f` …; with `re.ASCII` only `\v`
    and `\f`, which are not XML characters -/
def plainFor (ascii : Bool) (s : List Char) : Bool := s.all fun c => !(pySpace ascii c) || xsdSpace c

/-- `plainFor false` -/
def plainSpaces (s : List Char) : Bool := s.all fun c => !(Acc.isSpace c) || xsdSpace c

def lenOK (pc : PatCheck) (t target : List Char) : Bool :=
  match pc.test with
  | .fullLen => t.length == target.length
  | .noTest => true

def patOK (E : Engine) (pc : PatCheck) (target : List Char) (p : PyPat) : Bool :=
  match E (pyBody pc.ascii p.body) pc.fn target with
  | some t => lenOK pc t target
  | none => false

/-- `gds_validate_simple_patterns(patterns, target)` for a `str` target -/
def patAccept (E : Engine) (pc : PatCheck) (groups : List (List PyPat)) (target : List Char) : Bool :=
  groups.all fun g => g.any (patOK E pc target)

def PyVal.rat? : PyVal → Option Rat
  | .float q => some q
  | .int i => some (i : Rat)
  | .str _ => none

/-- what Python's `==` compares: the text of a string, the number of an `int` / `float`
    (an `int` equals the `float` of the same value; a string never equals a number) -/
def PyVal.key : PyVal → Sum (List Char) Rat
  | .str s => .inl s
  | .int i => .inr (i : Rat)
  | .float q => .inr q

/-- Python `==` between two of these values -/
def PyVal.pyEq (a b : PyVal) : Bool := a.key == b.key

/-- `value in enumerations` -/
def pyIn (v : PyVal) (vals : List PyVal) : Bool := (vals.map PyVal.key).contains v.key

def stepOK (E : Engine) (pc : PatCheck) (v : PyVal) : Step → Bool
  | .patterns groups =>
    match v with
    | .str s => patAccept E pc groups s
    | _ => true                         -- not generated for non-string bases (the tables are checked for it)
  | .enum vals => pyIn v vals
  | .bound op lit =>
    match v.rat? with
    | some q => !(op.holds q lit)
    | none => true

/-- `validate_<T>(value)` for `value is not None`, simple-type validation on, a collector present:
    `true` = no message was added -/
def runValidator (E : Engine) (pc : PatCheck) (ty : PyType) (v : PyVal) : Bool :=
  decide (v.base = ty.base) && ty.steps.all (stepOK E pc v)

/-! ### XSD side -/

inductive Builtin where
  | string | double | float | nonNegativeInteger | positiveInteger | integer
deriving DecidableEq, Repr, Inhabited

inductive BoundKind where
  | minInclusive | minExclusive | maxInclusive | maxExclusive
deriving DecidableEq, Repr, Inhabited

structure XsdType where
  name : Nat
  base : Builtin
  patterns : List Rx            -- pattern facets of the one restriction step (alternatives)
  enums : List PyVal
  bounds : List (BoundKind × Rat)
deriving Repr, Inhabited

def BoundKind.ok : BoundKind → Rat → Rat → Bool
  | .minInclusive, v, l => decide (l ≤ v)
  | .minExclusive, v, l => decide (l < v)
  | .maxInclusive, v, l => decide (v ≤ l)
  | .maxExclusive, v, l => decide (v < l)

def Builtin.pyBase : Builtin → PyBase
  | .string => .str
  | .double => .float
  | .float => .float
  | _ => .int

/-- the builtin's own range -/
def Builtin.rangeOK : Builtin → PyVal → Bool
  | .nonNegativeInteger, .int i => decide (0 ≤ i)
  | .positiveInteger, .int i => decide (1 ≤ i)
  | _, _ => true

/-- the value is in the value space of the simple type (patterns decided by the derivative matcher) -/
def xsdValid (x : XsdType) (v : PyVal) : Bool :=
  decide (v.base = x.base.pyBase)
  && x.base.rangeOK v
  && (match v with
      | .str s => x.patterns.isEmpty || x.patterns.any (fun r => accepts r s)
      | _ => true)
  && (x.enums.isEmpty || pyIn v x.enums)
  && (match v.rat? with
      | some q => x.bounds.all (fun b => b.1.ok q b.2)
      | none => true)

/-! ### which characters can end a match -/

/-- conservative: `lastCan r c = false` ⇒ no string of the language ends in `c` -/
def lastCan (c : Char) : Rx → Bool
  | .none => false
  | .eps => false
  | .set cs => cs.mem c
  | .seq a b => lastCan c b || (nullable b && lastCan c a)
  | .alt a b => lastCan c a || lastCan c b
  | .star a => lastCan c a

/-! ### agreement of one validator with one schema type (decidable; checked on the regenerated tables) -/

def cmpOf : BoundKind → Cmp
  | .minInclusive => .lt      -- rejected when value < lit
  | .minExclusive => .le
  | .maxInclusive => .gt
  | .maxExclusive => .ge

def stepPatterns : List Step → List (List (List PyPat))
  | [] => []
  | .patterns g :: r => g :: stepPatterns r
  | _ :: r => stepPatterns r

def stepEnums : List Step → List (List PyVal)
  | [] => []
  | .enum e :: r => e :: stepEnums r
  | _ :: r => stepEnums r

def stepBounds : List Step → List (Cmp × Rat)
  | [] => []
  | .bound o l :: r => (o, l) :: stepBounds r
  | _ :: r => stepBounds r

/-- the pattern step: exactly one, one group, every entry anchored on both sides, bodies = the schema's patterns up
    to the reading of `\s`; only on `str` -/
def patsAgree (py : PyType) (x : XsdType) : Bool :=
  match stepPatterns py.steps with
  | [] => x.patterns.isEmpty
  | [[g]] => decide (py.base = .str) && g.all (fun p => p.anchorStart && p.anchorEnd)
             && g.map (fun p => xsdOf p.body) == x.patterns && !g.isEmpty
  | _ => false

def enumsAgree (py : PyType) (x : XsdType) : Bool :=
  match stepEnums py.steps with
  | [] => x.enums.isEmpty
  | [e] => !e.isEmpty && decide (e.map PyVal.key = x.enums.map PyVal.key)
  | _ => false

def boundsAgree (py : PyType) (x : XsdType) : Bool :=
  stepBounds py.steps == x.bounds.map (fun b => (cmpOf b.1, b.2))

/-- every facet of the schema type is checked by the validator and the validator checks nothing else -/
def typeAgrees (py : PyType) (x : XsdType) : Bool :=
  py.name == x.name && decide (py.base = x.base.pyBase) && patsAgree py x && enumsAgree py x && boundsAgree py x

def findPy (P : List PyType) (n : Nat) : Option PyType := P.find? (fun t => t.name == n)
def findXsdT (S : List XsdType) (n : Nat) : Option XsdType := S.find? (fun t => t.name == n)

/-- all validators against all schema types, both directions -/
def allAgree (P : List PyType) (S : List XsdType) : Bool :=
  P.all (fun py => match findXsdT S py.name with
    | some x => typeAgrees py x
    | none => false)
  && S.all (fun x => (findPy P x.name).isSome)

/-- the schema types on which the Python engine's priority order cannot matter: no pattern admits a string that ends
    in a line feed -/
def nlFree (x : XsdType) : Bool := x.patterns.all fun r => !(lastCan '\n' r)

/-- the simple-type predicate handed to the validate-walk model (`Schema.itemOK`): the member's lexical form is the
    string itself for `str`-based types; numeric members are decided at the level of values (`runValidator`), their
    lexical form is trusted (`gds_format_*`) and only sampled -/
def stPy (E : Engine) (pc : PatCheck) (P : List PyType) : Nat → String → Bool := fun n s =>
  match findPy P n with
  | some ty => if ty.base = .str then runValidator E pc ty (.str s.toList) else true
  | none => true

end NmlVerif.Facets
