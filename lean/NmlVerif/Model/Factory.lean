import NmlVerif.Model.Add
/-!
# Model of `component_factory` and of `add()` with a type argument
(neuroml/nml/generatedssupersuper.py:103-160 `component_factory`, 523-560 `_check_arg_list`, 26-101 `add`;
 neuroml/build_time_validation.py:26 `ENABLED`; neuroml/__init__.py:27-65 the switch functions;
 neuroml/utils.py:226-240 the module-level wrapper)

    comp = getattr(module, name)(**kwargs)          # every generated constructor ends in **kwargs_: unknown keys
    if name == "Cell": comp.setup_nml_cell()        #   are swallowed silently
    comp._check_arg_list(**kwargs)                  # ValueError for a key that is not a member name
    if ENABLED and validate: comp.validate()        # ValueError if invalid
    return comp

Decision-level model: `validate()` (its relation to the schema is C02/C03), the `_cast(int/float, …)` failures
inside the generated constructors (C11 owns the constructor table) and `Cell.setup_nml_cell` are parameters
(`Env`). The member table is `Gen/Members.lean`. No Mathlib.
-/
namespace NmlVerif.Factory
open NmlVerif NmlVerif.Add

/-- keyword arguments in call order -/
abbrev Kwargs := List (Nat × Val)

def keys (kw : Kwargs) : List Nat := kw.map (·.1)

/-- the type argument: the name of the class, or the class object — both are resolved with
    `getattr(module_object, <name>)`, i.e. by NAME -/
inductive TypeArg where
  | byName (n : Nat)
  | byClass (n : Nat)
deriving DecidableEq, Repr

def TypeArg.resolve : TypeArg → Nat
  | .byName n => n
  | .byClass n => n

inductive Err where
  /-- `AttributeError`: the module has no such class (outside the property's quantifier) -/
  | attrError
  /-- `ValueError` from `int()` / `float()` in a generated constructor (`_cast`) -/
  | ctorValueError
  /-- `ValueError`: "'k' is not a permitted argument for ComponentType …" -/
  | badArg (k : Nat)
  /-- `ValueError`: "Validation failed: …" -/
  | invalid
deriving DecidableEq, Repr

def Err.isValueError : Err → Bool
  | .attrError => false
  | _ => true

structure Env where
  /-- `validate()` accepts -/
  valid : Obj → Bool
  /-- some `_cast` in the constructor chain of the class raises `ValueError` on these keyword arguments -/
  ctorFails : Nat → Kwargs → Bool
  /-- class, member name, the keyword value if one was given ↦ the attribute after the constructor ran
      (the parameter's default when absent — `None`, `[]`, or a schema default; the `_cast` value when present) -/
  ctorValue : Nat → Nat → Option Val → Val
  /-- the class named `"Cell"` -/
  cellCls : Nat
  /-- `Cell.setup_nml_cell()` -/
  setupCell : Obj → Obj

/-- the constructor: every member's attribute is set from the keyword of the same name (or the default);
    keywords that are not member names vanish in `**kwargs_` -/
def construct (T : Table) (env : Env) (cls : Nat) (kw : Kwargs) (oid : Nat) : Obj :=
  .mk oid cls ((T.getMembers cls).map (fun m => (m.name, env.ctorValue cls m.name (lookup kw m.name))))

/-- `_check_arg_list`: the first keyword that is not a member name -/
def firstBadArg (T : Table) (cls : Nat) (kw : Kwargs) : Option Nat :=
  (keys kw).find? (fun k => !(T.memberNames cls).contains k)

/-- what the factory hands to `validate()` / returns -/
def built (T : Table) (env : Env) (cls : Nat) (kw : Kwargs) (oid : Nat) : Obj :=
  if cls == env.cellCls then env.setupCell (construct T env cls kw oid) else construct T env cls kw oid

/-- `component_factory(component_type, validate=flag, **kw)` with `build_time_validation.ENABLED = enabled` -/
def factory (T : Table) (env : Env) (enabled flag : Bool) (t : TypeArg) (kw : Kwargs) (oid : Nat) :
    Except Err Obj :=
  match T.row? t.resolve with
  | none => .error .attrError
  | some _ =>
    if env.ctorFails t.resolve kw then .error .ctorValueError
    else
      let comp := built T env t.resolve kw oid
      match firstBadArg T t.resolve kw with
      | some k => .error (.badArg k)
      | none => if enabled && flag then (if env.valid comp then .ok comp else .error .invalid) else .ok comp

/-- result of `parent.add(<type>, hint, force, validate=flag, **kw)` -/
structure AddOutcome where
  parent : Obj
  warn : Option Warn
  result : Except (Err ⊕ Add.Err) Obj

/-- `add()` with a type argument: the factory under the gate, then placement and validation of the parent under the
    SAME gate. A factory error leaves the parent untouched. -/
def addByType (T : Table) (env : Env) (strOk : Obj → Bool) (enabled flag : Bool) (parent : Obj) (t : TypeArg)
    (kw : Kwargs) (hint : Option Nat) (force : Bool) (oid : Nat) : AddOutcome :=
  match factory T env enabled flag t kw oid with
  | .error e => ⟨parent, none, .error (.inl e)⟩
  | .ok child =>
    let r := Add.add T env.valid strOk ⟨enabled, flag⟩ parent child hint force
    ⟨r.parent, r.warn, match r.result with
                        | .ok o => .ok o
                        | .error e => .error (.inr e)⟩

/-! ### The process-wide switch as a state machine -/

inductive Cmd where
  /-- `neuroml.enable_build_time_validation()` -/
  | enable
  /-- `neuroml.disable_build_time_validation()` -/
  | disable
  /-- a factory call `component_factory(t, validate=flag, **kw)` -/
  | make (flag : Bool) (t : TypeArg) (kw : Kwargs) (oid : Nat)

/-- the switch after a command (factory calls never write it) -/
def stepSwitch (s : Bool) : Cmd → Bool
  | .enable => true
  | .disable => false
  | .make _ _ _ _ => s

def switchAfter (s : Bool) (cmds : List Cmd) : Bool := cmds.foldl stepSwitch s

/-- run a session from switch state `s`: final switch and the results of the factory calls, in order -/
def session (T : Table) (env : Env) : Bool → List Cmd → Bool × List (Except Err Obj)
  | s, [] => (s, [])
  | s, .make f t kw oid :: cs =>
    let rest := session T env s cs
    (rest.1, factory T env s f t kw oid :: rest.2)
  | s, c :: cs => session T env (stepSwitch s c) cs

end NmlVerif.Factory

namespace NmlVerif.Factory
open NmlVerif

/-- parameter names of `add(self, obj, hint, force, validate, **kwargs)` and
    `component_factory(cls, component_type, validate, **kwargs)`: a keyword of that name binds to the parameter and
    can never reach the component's constructor -/
def reservedNames : List String := ["self", "cls", "obj", "hint", "force", "validate", "component_type", "kwargs"]

/-- (class, member) pairs of the table whose member is named like one of those parameters -/
def reservedClash (T : Table) (names : List String) : List (Nat × Nat) :=
  T.flatMap (fun r => r.own.filterMap (fun m =>
    match names[m.name]? with
    | some s => if reservedNames.contains s then some (r.name, m.name) else none
    | none => none))

end NmlVerif.Factory
