import NmlVerif.Model.AddIR
/-!
# Model of `component_factory`, of `add()` with a type argument, of the generated constructors and of the switch
(neuroml/nml/generatedssupersuper.py:103-160 `component_factory`, 523-560 `_check_arg_list`, 26-101 `add`;
 neuroml/build_time_validation.py:26 `ENABLED`; neuroml/__init__.py:27-65 the switch functions;
 neuroml/utils.py:226-240 the module-level wrapper; neuroml/nml/nml.py: every generated `__init__`)

    comp = getattr(module, name)(**kwargs)          # every generated constructor ends in **kwargs_: unknown keys
    if name == "Cell": comp.setup_nml_cell()        #   are swallowed silently
    comp._check_arg_list(**kwargs)                  # ValueError for a key that is not a member name
    if ENABLED and validate: comp.validate()        # ValueError if invalid
    return comp

Second pass: the constructor is no longer a parameter.  `CtorTable` is the constructor table of the bindings
(`Gen/Factory.lean`, proved equal to the `ctor`/`superArgs` columns of `Gen/Bindings.lean` on every run): for every
class the parameters of `__init__` in signature order (default literal, `_cast` kind, list flag) and the names passed
POSITIONALLY to `super().__init__`.  `wiring` evaluates the call chain symbolically (which caller keyword or which
default literal reaches which `self.x = …` assignment, through the positional hand-over), `construct` evaluates the
values.  What remains a parameter (`Env`): the verdict of `validate()` (C02/C03 relate it to the schema), Python's
`int()` / `float()` on a value, and `Cell.setup_nml_cell`.

The functions of `generatedssupersuper.py` / `__init__.py` / `utils.py` are re-translated statement by statement on
every run into `Gen/Factory.lean` (`translators/factory_extract.py`); `Props/C09Gen.lean` proves the generated
definitions equal to the hand model below.  The `Py.*` definitions are the meaning of the Python statements the
translator recognises.  No Mathlib.
-/
namespace NmlVerif.Factory
open NmlVerif NmlVerif.Add

/-- keyword arguments in call order -/
abbrev Kwargs := List (Nat × Val)

def keys (kw : Kwargs) : List Nat := kw.map (·.1)

/-- the type argument: the name of the class, or the class object — both are resolved with
    `getattr(module_object, <name>)`, i.e. by NAME -/
inductive TypeArg where
  | byName (n : Nat)
  | byClass (n : Nat)
deriving DecidableEq, Repr

def TypeArg.resolve : TypeArg → Nat
  | .byName n => n
  | .byClass n => n

inductive Err where
  /-- `AttributeError`: the module has no such class (outside the property's quantifier) -/
  | attrError
  /-- `ValueError` from `int()` / `float()` in a generated constructor (`_cast`) -/
  | ctorValueError
  /-- `ValueError`: "'k' is not a permitted argument for ComponentType …" -/
  | badArg (k : Nat)
  /-- `ValueError`: "Validation failed: …" -/
  | invalid
deriving DecidableEq, Repr

def Err.isValueError : Err → Bool
  | .attrError => false
  | _ => true

/-! ### The generated constructors -/

/-- one parameter of a generated `__init__(self, …, gds_collector_=None, **kwargs_)` -/
structure CParam where
  name : Nat
  /-- the default literal as a Python value (`repr` token, truthiness); `none` for `None` -/
  dflt : Option (String × Bool)
  /-- the same default in the lexical form `Gen/Bindings.lean` carries (tie to the binding table) -/
  dfltLex : Option String
  /-- 0: not assigned here (handed to `super().__init__`); 1: `self.x = _cast(None, x)`; 2: `self.x = x`
      (`[]` for `None` when `list`); 3: `_cast(int, x)`; 4: `_cast(float, x)` -/
  cast : Nat
  list : Bool
deriving DecidableEq, Repr

structure CtorRow where
  cls : Nat
  base : Option Nat
  /-- signature order, without `self`, `gds_collector_`, `**kwargs_` -/
  params : List CParam
  /-- `super(…).__init__(a₁, …, aₙ, **kwargs_)`: the names handed over, positionally -/
  superArgs : List Nat
deriving DecidableEq, Repr

abbrev CtorTable := List CtorRow

def CtorTable.row? (C : CtorTable) (c : Nat) : Option CtorRow := C.find? (fun r => r.cls == c)

def CParam.dfltVal (p : CParam) : Val :=
  match p.dflt with
  | none => .none
  | some (r, t) => .atom r t

/-- where the value of a constructor parameter comes from -/
inductive Src where
  /-- the caller's keyword `name` when given, else the literal `dflt` -/
  | given (name : Nat) (dflt : Val)
  /-- a literal (the parameter's own default: nothing was handed over for it) -/
  | const (v : Val)

def lookupS : List (Nat × Src) → Nat → Option Src
  | [], _ => none
  | (k, s) :: r, n => if k == n then some s else lookupS r n

/-- the value bound to parameter `p`: what was handed over positionally (`args`); else the caller's keyword of that
    name, which travels up in `**kwargs_` unless a class further down has a parameter of that name (`consumed`);
    else the parameter's own default -/
def srcOf (consumed : List Nat) (args : List (Nat × Src)) (p : CParam) : Src :=
  match lookupS args p.name with
  | some s => s
  | none => if consumed.contains p.name then .const p.dfltVal else .given p.name p.dfltVal

/-- positional binding of handed-over values to the base class's parameters (surplus on either side is dropped:
    missing ones keep their default) -/
def zipS : List CParam → List Src → List (Nat × Src)
  | p :: ps, s :: ss => (p.name, s) :: zipS ps ss
  | _, _ => []

/-- one `self.<field> = cast(<src>)` the constructor chain performs -/
structure Assign where
  field : Nat
  by_ : CParam
  src : Src

/-- `cls.__init__` called with the positionally bound parameters `args` and the keywords `**kwargs_` still carries
    (all of the caller's except those named in `consumed`): the assignments in execution order
    (`super().__init__(a₁, …, aₙ, **kwargs_)` runs first) -/
def wiringFuel (C : CtorTable) : Nat → Nat → List Nat → List (Nat × Src) → List Assign
  | 0, _, _, _ => []
  | fuel + 1, cls, consumed, args =>
    match C.row? cls with
    | none => []
    | some row =>
      let bound := row.params.map (fun p => (p.name, srcOf consumed args p))
      let base := match row.base with
        | none => []
        | some b =>
          match C.row? b with
          | none => []
          | some brow =>
            wiringFuel C fuel b (consumed ++ row.params.map (·.name))
              (zipS brow.params (row.superArgs.map (fun a => (lookupS bound a).getD (.const .none))))
      base ++ (row.params.filter (fun p => p.cast != 0)).map (fun p => ⟨p.name, p, srcOf consumed args p⟩)

/-- the call `Cls(**kwargs)`: nothing is bound positionally, every keyword is still on offer -/
def wiring (C : CtorTable) (cls : Nat) : List Assign := wiringFuel C C.length cls [] []

structure Env where
  /-- `validate()` accepts -/
  valid : Obj → Bool
  /-- Python's `int(v)`: `none` = `ValueError` -/
  pyInt : Val → Option Val
  /-- Python's `float(v)` -/
  pyFloat : Val → Option Val
  /-- the class named `"Cell"` -/
  cellCls : Nat
  /-- `Cell.setup_nml_cell()` -/
  setupCell : Obj → Obj

def Src.eval (kw : Kwargs) : Src → Val
  | .given n d => (lookup kw n).getD d
  | .const v => v

/-- `_cast(typ, value)` = `value if typ is None or value is None else typ(value)`; a list parameter stores `[]`
    for `None` -/
def pyCast (env : Env) (p : CParam) (v : Val) : Option Val :=
  match p.cast with
  | 3 => (match v with | .none => some .none | _ => env.pyInt v)
  | 4 => (match v with | .none => some .none | _ => env.pyFloat v)
  | 2 => if p.list then (match v with | .none => some (.list []) | _ => some v) else some v
  | _ => some v

def mapOpt {α β : Type} (f : α → Option β) : List α → Option (List β)
  | [] => some []
  | a :: l =>
    match f a, mapOpt f l with
    | some b, some bs => some (b :: bs)
    | _, _ => none

def Assign.eval (env : Env) (kw : Kwargs) (a : Assign) : Option (Nat × Val) :=
  (pyCast env a.by_ (a.src.eval kw)).map (fun v => (a.field, v))

/-- instance dictionary after the assignments (a later assignment to the same attribute overwrites) -/
def dictOf (l : List (Nat × Val)) : List (Nat × Val) := l.foldl (fun acc p => setF acc p.1 p.2) []

/-- the constructor `Cls(**kw)`: `none` = a `_cast` raised `ValueError`. Keywords that are not parameter names
    vanish in `**kwargs_`. -/
def construct (C : CtorTable) (env : Env) (cls : Nat) (kw : Kwargs) (oid : Nat) : Option Obj :=
  (mapOpt (Assign.eval env kw) (wiring C cls)).map (fun l => .mk oid cls (dictOf l))

/-- the keywords the constructor looks at -/
def givenNames (C : CtorTable) (cls : Nat) : List Nat :=
  (wiring C cls).filterMap (fun a => match a.src with | .given n _ => some n | .const _ => none)

/-! ### `_check_arg_list`, `component_factory` -/

/-- `_check_arg_list`: the first keyword that is not a member name -/
def firstBadArg (T : Table) (cls : Nat) (kw : Kwargs) : Option Nat :=
  (keys kw).find? (fun k => !(T.memberNames cls).contains k)

/-- what the factory hands to `validate()` / returns, given the constructed object -/
def built (env : Env) (cls : Nat) (o : Obj) : Obj :=
  if cls == env.cellCls then env.setupCell o else o

/-- `component_factory(component_type, validate=flag, **kw)` with `build_time_validation.ENABLED = enabled` -/
def factory (T : Table) (C : CtorTable) (env : Env) (enabled flag : Bool) (t : TypeArg) (kw : Kwargs) (oid : Nat) :
    Except Err Obj :=
  match T.row? t.resolve with
  | none => .error .attrError
  | some _ =>
    match construct C env t.resolve kw oid with
    | none => .error .ctorValueError
    | some o =>
      let comp := built env t.resolve o
      match firstBadArg T t.resolve kw with
      | some k => .error (.badArg k)
      | none => if enabled && flag then (if env.valid comp then .ok comp else .error .invalid) else .ok comp

/-- result of `parent.add(<type>, hint, force, validate=flag, **kw)` -/
structure AddOutcome where
  parent : Obj
  warn : Option Warn
  result : Except (Err ⊕ Add.Err) Obj

/-- the form the two repaired spots of `__add` have in the tree (property C10's switches, read off the source by
    `translators/py2lean_add.py` → `Gen/AddImpl.lean`): how "already there" is decided, how the duplicate warning
    gets its text, and the book-keeping attributes `__same_contents` leaves out -/
structure PlaceShape where
  dup : DupTest
  warn : WarnFmt
  bk : List Nat

/-- `__add` as it was before the repairs `fixes/C10-add-dup-*.patch` -/
def PlaceShape.old : PlaceShape := ⟨.generatedEq, .strObj, []⟩

/-- `parent.add(child, hint, force, validate)` for a component instance, placement in shape `sh` (C10's model
    `addCoreX`; `PlaceShape.old` gives `Add.add`) -/
def addInst (sh : PlaceShape) (T : Table) (valid strOk : Obj → Bool) (g : Gate) (parent child : Obj)
    (hint : Option Nat) (force : Bool) : Add.Outcome :=
  addCoreX sh.dup sh.warn sh.bk valid strOk (T.getMembers parent.cls) g parent child hint force

/-- `add()` with a type argument: the factory under the gate, then placement and validation of the parent under the
    SAME gate. A factory error leaves the parent untouched. -/
def addByType (sh : PlaceShape) (T : Table) (C : CtorTable) (env : Env) (strOk : Obj → Bool) (enabled flag : Bool)
    (parent : Obj) (t : TypeArg) (kw : Kwargs) (hint : Option Nat) (force : Bool) (oid : Nat) : AddOutcome :=
  match factory T C env enabled flag t kw oid with
  | .error e => ⟨parent, none, .error (.inl e)⟩
  | .ok child =>
    let r := addInst sh T env.valid strOk ⟨enabled, flag⟩ parent child hint force
    ⟨r.parent, r.warn, match r.result with
                        | .ok o => .ok o
                        | .error e => .error (.inr e)⟩

/-! ### The process-wide switch as a state machine -/

inductive Cmd where
  /-- `neuroml.enable_build_time_validation()` -/
  | enable
  /-- `neuroml.disable_build_time_validation()` -/
  | disable
  /-- a factory call `component_factory(t, validate=flag, **kw)` (returning or raising) -/
  | make (flag : Bool) (t : TypeArg) (kw : Kwargs) (oid : Nat)
  /-- `parent.add(t, hint=…, force=…, validate=flag, **kw)` on a given parent (returning or raising) -/
  | addT (strOk : Obj → Bool) (flag : Bool) (parent : Obj) (t : TypeArg) (kw : Kwargs) (hint : Option Nat)
      (force : Bool) (oid : Nat)

/-- the switch after a command (factory and add calls never write it — `c09_gen_switch_writers`) -/
def stepSwitch (s : Bool) : Cmd → Bool
  | .enable => true
  | .disable => false
  | .make _ _ _ _ => s
  | .addT _ _ _ _ _ _ _ _ => s

def switchAfter (s : Bool) (cmds : List Cmd) : Bool := cmds.foldl stepSwitch s

/-- what a call left behind: a factory result, or the outcome of an `add` -/
inductive Res where
  | made (r : Except Err Obj)
  | added (r : AddOutcome)

/-- run a session from switch state `s`: final switch and the results of the calls, in order. A call that raises
    is a result like any other: the session goes on, under the same switch. -/
def session (sh : PlaceShape) (T : Table) (C : CtorTable) (env : Env) : Bool → List Cmd → Bool × List Res
  | s, [] => (s, [])
  | s, .make f t kw oid :: cs =>
    let rest := session sh T C env s cs
    (rest.1, .made (factory T C env s f t kw oid) :: rest.2)
  | s, .addT sk f p t kw h fo oid :: cs =>
    let rest := session sh T C env s cs
    (rest.1, .added (addByType sh T C env sk s f p t kw h fo oid) :: rest.2)
  | _, .enable :: cs => session sh T C env true cs
  | _, .disable :: cs => session sh T C env false cs

def Cmd.isToggle : Cmd → Bool
  | .enable => true
  | .disable => true
  | _ => false

/-! ### Meaning of the Python statements the translator recognises (`Gen/Factory.lean` is written in these) -/
namespace Py

/-- `getattr(module_object, <name>)` -/
def getattrModule (T : Table) (n : Nat) : Except Err Nat :=
  match T.row? n with
  | none => .error .attrError
  | some _ => .ok n

/-- `comp_type_class(**kwargs)` -/
def instantiate (C : CtorTable) (env : Env) (cls : Nat) (kw : Kwargs) (oid : Nat) : Except Err Obj :=
  match construct C env cls kw oid with
  | none => .error .ctorValueError
  | some o => .ok o

/-- `comp_type_class.__name__ == "<literal>"` -/
def nameIs (cls lit : Nat) : Bool := cls == lit

/-- `comp.setup_nml_cell()` -/
def setupNmlCell (env : Env) (comp : Obj) : Except Err Obj := .ok (env.setupCell comp)

/-- `comp.validate()` -/
def validate (env : Env) (comp : Obj) : Except Err Unit :=
  if env.valid comp then .ok () else .error .invalid

/-- `self._get_members()` -/
def getMembers (T : Table) (self : Obj) : List MemberSpec := T.getMembers self.cls

/-- the placement part of `add()` (the statements between the factory call and the final gate; property C10):
    C10's `addCoreX` in the shape of the tree, with the gate off -/
def place (sh : PlaceShape) (T : Table) (strOk : Obj → Bool) (self obj : Obj) (hint : Option Nat) (force : Bool) :
    Add.Outcome :=
  addInst sh T (fun _ => true) strOk ⟨false, false⟩ self obj hint force

end Py

/-! ### Helper call sites (`helper_methods.py` / the copy in `nml.py`) -/

inductive Callee where
  | factory | add | validate
deriving DecidableEq, Repr

/-- the `validate=` argument at a call site -/
inductive Flag where
  /-- not given: the callee's default (`True`) -/
  | dflt
  | lit (b : Bool)
  /-- a parameter of the helper handed through -/
  | param
  /-- anything else -/
  | opaque
deriving DecidableEq, Repr

structure Site where
  cls : Nat
  method : String
  callee : Callee
  /-- literal type argument, if the site names one -/
  typ : Option Nat
  flag : Flag
  /-- literal keyword names given at the site -/
  kwKeys : List Nat
  /-- `**kwargs` of the helper handed through -/
  passKw : Bool
deriving DecidableEq, Repr

/-- a site obeys the switch: it goes through `component_factory` / `add` (never straight to `validate()`), and its
    flag is the default, a literal, or the caller's own -/
def Site.gated (s : Site) : Bool :=
  (s.callee == .factory || s.callee == .add) && s.flag != .opaque

/-- validation happens at the site iff … (`flagArg`: the value of the handed-through parameter) -/
def Site.validates (s : Site) (enabled flagArg : Bool) : Bool :=
  enabled && (match s.flag with
    | .dflt => true
    | .lit b => b
    | .param => flagArg
    | .opaque => true)

/-- literal keywords of a site that are not members of its literal type: such a call could only raise -/
def Site.badKeys (T : Table) (s : Site) : List Nat :=
  match s.typ with
  | none => []
  | some t => s.kwKeys.filter (fun k => !(T.memberNames t).contains k)

/-- parameter names of `add(self, obj, hint, force, validate, **kwargs)` and
    `component_factory(cls, component_type, validate, **kwargs)`: a keyword of that name binds to the parameter and
    can never reach the component's constructor -/
def reservedNames : List String := ["self", "cls", "obj", "hint", "force", "validate", "component_type", "kwargs"]

/-- (class, member) pairs of the table whose member is named like one of those parameters -/
def reservedClash (T : Table) (names : List String) : List (Nat × Nat) :=
  T.flatMap (fun r => r.own.filterMap (fun m =>
    match names[m.name]? with
    | some s => if reservedNames.contains s then some (r.name, m.name) else none
    | none => none))

/-! ### Obligations on a constructor table (decided on the generated table on every run) -/

/-- every assignment of the chain is fed by the keyword of the attribute's own name (or by a literal) -/
def Assign.straight (a : Assign) : Bool :=
  match a.src with
  | .given n _ => n == a.field
  | .const _ => true

/-- the chain of `cls` is wired by name -/
def wiringOk (C : CtorTable) (cls : Nat) : Bool := (wiring C cls).all Assign.straight

/-- attribute `f` is assigned exactly once along the chain of `cls` (`extensiontype_` is assigned by every class
    of a chain that has it — always from the same keyword) -/
def assignedOnce (C : CtorTable) (cls f : Nat) : Bool := ((wiring C cls).map (·.field)).count f == 1

/-- members of `cls` whose keyword does not arrive under the attribute of the same name through exactly one
    assignment (their keyword is accepted by `_check_arg_list` and swallowed by `**kwargs_`) -/
def Assign.fedBy (a : Assign) (m : Nat) : Bool :=
  a.field == m && (match a.src with | .given n _ => n == m | .const _ => false)

def unstoredMembers (T : Table) (C : CtorTable) (cls : Nat) : List Nat :=
  (T.memberNames cls).filter (fun m => !(assignedOnce C cls m && (wiring C cls).any (fun a => a.fedBy m)))

end NmlVerif.Factory
