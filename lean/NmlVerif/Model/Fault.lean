/-
Fault model for property C08: the control-flow skeleton of a reader/writer entry point around its calls
into the file layer, and what happens when one of those calls (or a call into code that is not expanded)
raises.  Mathlib-free, executable.  The skeletons themselves are *extracted from the source* on every check
run by `translators/skeleton_extract.py` into `NmlVerif/Gen/Skeletons.lean`.

Python → model
* a call from the library into the file layer (`tables.open_file`, `open`, `create_group`, `create_array`,
  `create_carray`, `_f_setattr`, `write`, reads of nodes/attributes, `close`) is `Stmt.call eff site`;
* a call into code that is not expanded (`export`, a recursive call, another entry point, anything the
  translator cannot classify) is `opaque`: any number of file-layer calls, then possibly a raise of its own;
* data-dependent control flow (loop trip counts, `if` outcomes, whether un-expanded code raises) is read from an
  *oracle*: one queue of naturals per syntactic node.  Theorems quantify over every oracle;
* the injected fault: `budget = some k` — the (k+1)-th file-layer call from now raises an exception of class
  `faultKind`; `fired` records that it was delivered;
* `handles` counts open file handles, `detached` is the nesting depth of "document temporarily modified";
* a failing `close` still releases the handle (Python file objects and the harness's injection do the real
  close first).
-/
namespace NmlVerif.Fault

/-- kinds of file-layer calls that neither open nor close a handle -/
inductive IoKind where
  | createGroup | createArray | setAttr | write | readNode | export
deriving DecidableEq, Repr

/-- a file-layer call; `h` names the handle variable (only used by the syntactic criterion) -/
inductive Eff where
  | open_ (h : Nat)
  | close (h : Nat)
  | io (k : IoKind)
deriving DecidableEq, Repr

def IoKind.code : IoKind → Nat
  | .createGroup => 2 | .createArray => 3 | .setAttr => 4 | .write => 5 | .readNode => 6 | .export => 7

/-- code used on the wire (trace entries) -/
def Eff.code : Eff → Nat
  | .open_ _ => 0 | .close _ => 1 | .io k => k.code

inductive Stmt where
  | skip
  | call (e : Eff) (site : Nat)
  /-- `raise X(...)`: exception class `kind` (0 = caught only by `except Exception`/bare handlers) -/
  | raise_ (kind : Nat) (site : Nat)
  /-- `raise` / `raise e` inside a handler: the exception that was caught -/
  | reraise (site : Nat)
  /-- un-expanded code may raise by itself: oracle value 0 = no, d+1 = raises class d -/
  | mayRaise (oid : Nat) (site : Nat)
  /-- a document field is emptied / overwritten (`nml_doc.networks = []`) -/
  | mutate (field : Nat) (site : Nat)
  /-- … and put back -/
  | restore (field : Nat)
  | seq (a b : Stmt)
  | loop (oid : Nat) (body : Stmt)
  | choice (oid : Nat) (a b : Stmt)
  | tryFinally (site : Nat) (body fin : Stmt)
  | tryExcept (site : Nat) (body : Stmt) (kinds : List Nat) (catchAll : Bool) (handler : Stmt)
  /-- body of an expanded function: a `return` inside stops here -/
  | scope (body : Stmt)
  | ret
  /-- a construct the translator cannot express (break, continue, several handlers, …); never protected -/
  | unsupported (site : Nat)
deriving Repr

/-- code that is not expanded: `n` file-layer calls (oracle), then possibly a raise of its own -/
def Stmt.opaque (k : IoKind) (site oLoop oRaise : Nat) : Stmt :=
  .seq (.loop oLoop (.call (.io k) site)) (.mayRaise oRaise site)

/-- `with open(...) as f: body` -/
def Stmt.withOpen (h siteOpen siteClose : Nat) (body : Stmt) : Stmt :=
  .seq (.call (.open_ h) siteOpen) (.tryFinally siteOpen body (.call (.close h) siteClose))

inductive Outcome where
  | ok
  | ret
  | raised (kind : Nat)
deriving DecidableEq, Repr

def Outcome.isRaised : Outcome → Bool
  | .raised _ => true
  | _ => false

structure St where
  handles : Nat
  detached : Nat
  budget : Option Nat
  fired : Bool
  faultKind : Nat
  exc : Nat
  oracle : Nat → List Nat
  /-- file-layer calls made so far, most recent first: (site, effect code); document modifications are
      logged too (code 8) but are not fault points -/
  trace : List (Nat × Nat)

def St.init (oracle : Nat → List Nat) (budget : Option Nat) (faultKind : Nat) : St :=
  { handles := 0, detached := 0, budget := budget, fired := false, faultKind := faultKind, exc := 0,
    oracle := oracle, trace := [] }

/-- next oracle value of node `oid` (0 when its queue is exhausted) -/
def pop (oid : Nat) (s : St) : Nat × St :=
  match s.oracle oid with
  | [] => (0, s)
  | n :: r => (n, { s with oracle := fun j => if j = oid then r else s.oracle j })

/-- one file-layer call -/
def doCall (e : Eff) (site : Nat) (s : St) : St × Outcome :=
  match s.budget with
  | some 0 =>
    match e with
    | .close _ =>
      ({ s with budget := none, fired := true, handles := s.handles - 1, trace := (site, e.code) :: s.trace },
        .raised s.faultKind)
    | _ => ({ s with budget := none, fired := true, trace := (site, e.code) :: s.trace }, .raised s.faultKind)
  | b =>
    match e with
    | .open_ _ =>
      ({ s with budget := b.map (· - 1), handles := s.handles + 1, trace := (site, e.code) :: s.trace }, .ok)
    | .close _ =>
      ({ s with budget := b.map (· - 1), handles := s.handles - 1, trace := (site, e.code) :: s.trace }, .ok)
    | .io _ => ({ s with budget := b.map (· - 1), trace := (site, e.code) :: s.trace }, .ok)

/-- `n` iterations of a loop body; a raise or a `return` leaves the loop -/
def iter (f : St → St × Outcome) : Nat → St → St × Outcome
  | 0, s => (s, .ok)
  | n + 1, s =>
    match f s with
    | (s', .ok) => iter f n s'
    | r => r

def run : Stmt → St → St × Outcome
  | .skip, s => (s, .ok)
  | .call e site, s => doCall e site s
  | .raise_ k _, s => (s, .raised k)
  | .reraise _, s => (s, .raised s.exc)
  | .mayRaise oid _, s =>
    match pop oid s with
    | (0, s') => (s', .ok)
    | (d + 1, s') => (s', .raised d)
  | .mutate _ site, s => ({ s with detached := s.detached + 1, trace := (site, 8) :: s.trace }, .ok)
  | .restore _, s => ({ s with detached := s.detached - 1 }, .ok)
  | .seq a b, s =>
    match run a s with
    | (s', .ok) => run b s'
    | r => r
  | .loop oid b, s => iter (run b) (pop oid s).1 (pop oid s).2
  | .choice oid a b, s => if (pop oid s).1 = 0 then run b (pop oid s).2 else run a (pop oid s).2
  | .tryFinally _ body fin, s =>
    match run body s with
    | (s', o) =>
      match run fin s' with
      | (s'', .ok) => (s'', o)
      | r => r              -- a raise (or return) in `finally` replaces the pending outcome
  | .tryExcept _ body kinds all h, s =>
    match run body s with
    | (s', .raised k) => if all || kinds.contains k then run h { s' with exc := k } else (s', .raised k)
    | r => r
  | .scope b, s =>
    match run b s with
    | (s', .ret) => (s', .ok)
    | r => r
  | .ret, s => (s, .ret)
  | .unsupported _, s => (s, .ok)

/-! ## the syntactic criterion -/

inductive UKind where
  | openNoFinally      -- a handle is opened and the next statement is not `try … finally: close`
  | bareClose          -- a close outside the `finally` that guards its open
  | mutateNoRestore    -- the document is modified and not restored in a `finally`
  | bareRestore
  | swallow            -- a handler that may swallow a file-layer error
  | retInFinally       -- `return` inside `finally` discards a pending exception
  | unsupported
deriving DecidableEq, Repr

def UKind.name : UKind → String
  | .openNoFinally => "openNoFinally" | .bareClose => "bareClose" | .mutateNoRestore => "mutateNoRestore"
  | .bareRestore => "bareRestore" | .swallow => "swallow" | .retInFinally => "retInFinally"
  | .unsupported => "unsupported"

/-- no `return` escapes -/
def noRet : Stmt → Bool
  | .ret => false
  | .seq a b => noRet a && noRet b
  | .loop _ b => noRet b
  | .choice _ a b => noRet a && noRet b
  | .tryFinally _ body fin => noRet body && noRet fin
  | .tryExcept _ body _ _ h => noRet body && noRet h
  | _ => true

/-- makes no file-layer call -/
def noCalls : Stmt → Bool
  | .call _ _ => false
  | .seq a b => noCalls a && noCalls b
  | .loop _ b => noCalls b
  | .choice _ a b => noCalls a && noCalls b
  | .tryFinally _ body fin => noCalls body && noCalls fin
  | .tryExcept _ body _ _ h => noCalls body && noCalls h
  | .scope b => noCalls b
  | _ => true

/-- certainly ends by raising -/
def alwaysRaises : Stmt → Bool
  | .raise_ _ _ => true
  | .reraise _ => true
  | .seq a b => noRet a && alwaysRaises b
  | _ => false

/-- the places where the skeleton is not protected; `[]` = protected -/
def unprotected : Stmt → List (UKind × Nat)
  | .skip => []
  | .call (.open_ _) site => [(.openNoFinally, site)]
  | .call (.close _) site => [(.bareClose, site)]
  | .call (.io _) _ => []
  | .raise_ _ _ => []
  | .reraise _ => []
  | .mayRaise _ _ => []
  | .ret => []
  | .mutate f _ => [(.mutateNoRestore, f)]
  | .restore f => [(.bareRestore, f)]
  | .seq (.call (.open_ h) so) (.tryFinally _ body (.call (.close h') _)) =>
    if h = h' then unprotected body else (.openNoFinally, so) :: unprotected body
  | .seq (.mutate f _) (.tryFinally _ body (.restore f')) =>
    if f = f' then unprotected body else (.mutateNoRestore, f) :: unprotected body
  | .seq a b => unprotected a ++ unprotected b
  | .loop _ b => unprotected b
  | .choice _ a b => unprotected a ++ unprotected b
  | .tryFinally site body fin =>
    unprotected body ++ unprotected fin ++ (if noRet fin then [] else [(.retInFinally, site)])
  | .tryExcept site body _ _ h =>
    unprotected body ++ unprotected h ++ (if noCalls body || alwaysRaises h then [] else [(.swallow, site)])
  | .scope b => unprotected b
  | .unsupported site => [(.unsupported, site)]

def prot (s : Stmt) : Bool := (unprotected s).isEmpty

/-- handle-related kinds only (document mutation tolerated) -/
def UKind.isDoc : UKind → Bool
  | .mutateNoRestore => true
  | .bareRestore => true
  | _ => false

end NmlVerif.Fault
