/-
Model of `neuroml.utils.fix_external_morphs_biophys_in_cell` (neuroml/utils.py) and of the object heap
it works on.  Mathlib-free, executable, total.

The property (C17) is about *identity*: the element embedded in a cell must be a copy that shares no
object with the element it was copied from, with another cell's copy, or with anything else.  So objects
carry an explicit identity (`ObjId`, Python's `id()`), and every allocation (`copy.deepcopy`, reading an
included file) draws identities from a counter `n` ("next free id"): an object exists before a call iff its
id is `< n`.

Python objects are generateDS instances and the Python lists they hold:
`Obj.mk oid parent payload kids` — `parent` is the `parent_object_` back reference (set by the XML reader
to the containing object, `None` for objects built by constructors), `payload` the primitive attributes,
`kids` the contained objects in `__dict__` order.  `shape` forgets identities and parents: it is what the
bindings' `__eq__` compares (`parent_object_` is excluded there).

The function, step for step (line numbers of neuroml/utils.py in the repaired tree):
  newdoc := deepcopy(doc) if overwrite is False else doc
  referenced_ids: ONE list for both kinds, cells in order, morphology before biophysics, only slots
      `attr is not None and element is None`
  for inc in newdoc.includes: read_neuroml2_file(inc.href)  (path as given: relative to the working
      directory; a missing file is `sys.exit()`); its morphologies/biophysics whose id is in
      referenced_ids are put into the dicts (later entry wins)
  then the document's own morphology/biophysical_properties lists (so the document wins over includes)
  substitution loop, cell by cell, morphology then biophysics: `deepcopy` of the dict entry re-parented to
      the cell, attribute cleared; a missing key raises KeyError *at that point* (cells before it are
      already modified, the morphology of the same cell too)
  a slot that already has an element is skipped (attribute kept)
  both loops visit `all_cells = newdoc.cells + newdoc.cell2_ca_poolses` (repaired tree; `fixExternalCells` is the
  function before that repair, which visited `newdoc.cells` only).
-/
namespace NmlVerif.FixExternal

/-- object identities are natural numbers (a notation, not a definition: arithmetic tactics must see `Nat`) -/
scoped notation "ObjId" => Nat

/-- a Python object: identity, `parent_object_`, primitive attributes, contained objects -/
inductive Obj where
  | mk (oid : ObjId) (parent : Option ObjId) (payload : String) (kids : List Obj)
deriving Repr, Inhabited

def Obj.oid : Obj → ObjId
  | .mk i _ _ _ => i
def Obj.parent : Obj → Option ObjId
  | .mk _ par _ _ => par

mutual
  /-- identities of all objects of a tree -/
  def Obj.ids : Obj → List ObjId
    | .mk i _ _ ks => i :: Obj.idsL ks
  def Obj.idsL : List Obj → List ObjId
    | [] => []
    | o :: os => o.ids ++ Obj.idsL os
end

mutual
  /-- number of objects of a tree -/
  def Obj.size : Obj → Nat
    | .mk _ _ _ ks => 1 + Obj.sizeL ks
  def Obj.sizeL : List Obj → Nat
    | [] => 0
    | o :: os => o.size + Obj.sizeL os
end

mutual
  /-- structure without identities and parents (what `__eq__` of the bindings compares) -/
  def Obj.shape : Obj → Obj
    | .mk _ _ p ks => .mk 0 none p (Obj.shapeL ks)
  def Obj.shapeL : List Obj → List Obj
    | [] => []
    | o :: os => o.shape :: Obj.shapeL os
end

/-- what becomes of a `parent_object_` reference in a re-allocated object whose (new) container is `np`:
    `force` (reading a file): always the container; otherwise (`deepcopy`): `None` stays `None`, a reference
    to the old container is mapped, through the memo, to the new one. -/
def reparent (force : Bool) (par : Option ObjId) (np : ObjId) : Option ObjId :=
  if force then some np else par.map (fun _ => np)

mutual
  /-- allocate a fresh copy of a tree from counter `n`; the root's parent reference is redirected to `np` -/
  def realloc (force : Bool) (np : ObjId) : Obj → Nat → Obj × Nat
    | .mk _ par p ks, n =>
      let r := reallocL force n ks (n + 1)
      (.mk n (reparent force par np) p r.1, r.2)
  def reallocL (force : Bool) (np : ObjId) : List Obj → Nat → List Obj × Nat
    | [], n => ([], n)
    | o :: os, n =>
      let r1 := realloc force np o n
      let r2 := reallocL force np os r1.2
      (r1.1 :: r2.1, r2.2)
end

/-- `copy.deepcopy(o, {id(o.parent_object_): new_parent})` (the repaired `_deepcopy_into`); with
    `o.parent_object_ is None` a plain `copy.deepcopy(o)` -/
def deepcopy (np : ObjId) (o : Obj) (n : Nat) : Obj × Nat := realloc false np o n

/-- a Morphology or BiophysicalProperties element: its NeuroML `id` and the Python object -/
structure Elem where
  nmlId : String
  obj : Obj
deriving Repr, Inhabited

def Elem.ids (e : Elem) : List ObjId := e.obj.ids
def Elem.shape (e : Elem) : Elem := ⟨e.nmlId, e.obj.shape⟩
def Elem.realloc (force : Bool) (np : ObjId) (e : Elem) (n : Nat) : Elem × Nat :=
  let r := NmlVerif.FixExternal.realloc force np e.obj n
  (⟨e.nmlId, r.1⟩, r.2)

/-- one of the two (attribute, subelement) pairs of a cell:
    `morphology_attr`/`morphology` or `biophysical_properties_attr`/`biophysical_properties` -/
structure Slot where
  attr : Option String
  elem : Option Elem
deriving Repr, Inhabited

def Slot.ids (s : Slot) : List ObjId := match s.elem with | some e => e.ids | none => []
def Slot.shape (s : Slot) : Slot := ⟨s.attr, s.elem.map Elem.shape⟩
/-- the id this slot refers to, if the code treats it as a reference to resolve -/
def Slot.refs (s : Slot) : List String :=
  match s.attr, s.elem with
  | some a, none => [a]
  | _, _ => []

structure Cell where
  oid : ObjId
  parent : Option ObjId
  payload : String
  m : Slot
  b : Slot
deriving Repr, Inhabited

def Cell.ids (c : Cell) : List ObjId := c.oid :: (c.m.ids ++ c.b.ids)
def Cell.shape (c : Cell) : Cell := ⟨0, none, c.payload, c.m.shape, c.b.shape⟩

/-- an `<include href=…/>` entry (class IncludeType) -/
structure Inc where
  oid : ObjId
  parent : Option ObjId
  href : String
deriving Repr, Inhabited

def Inc.shape (i : Inc) : Inc := ⟨0, none, i.href⟩

structure Doc where
  oid : ObjId
  payload : String
  includes : List Inc
  morphs : List Elem          -- `doc.morphology`
  bios : List Elem            -- `doc.biophysical_properties`
  cells : List Cell           -- `doc.cells`
  cells2 : List Cell          -- `doc.cell2_ca_poolses` (class Cell2CaPools, a subclass of Cell)
  other : List Obj            -- everything else the document holds
deriving Repr, Inhabited

def Doc.ids (d : Doc) : List ObjId :=
  d.oid :: (d.includes.map Inc.oid ++ d.morphs.flatMap Elem.ids ++ d.bios.flatMap Elem.ids
    ++ d.cells.flatMap Cell.ids ++ d.cells2.flatMap Cell.ids ++ Obj.idsL d.other)

def Doc.shape (d : Doc) : Doc :=
  ⟨0, d.payload, d.includes.map Inc.shape, d.morphs.map Elem.shape, d.bios.map Elem.shape,
    d.cells.map Cell.shape, d.cells2.map Cell.shape, Obj.shapeL d.other⟩

/-- every object of the document existed before counter value `n` -/
def Doc.Below (n : Nat) (d : Doc) : Prop := ∀ i ∈ d.ids, i < n

/-! ### allocation of lists, cells, documents -/

/-- thread the counter through a list -/
def mapAlloc {α β : Type} (f : α → Nat → β × Nat) : List α → Nat → List β × Nat
  | [], n => ([], n)
  | a :: as, n =>
    let r1 := f a n
    let r2 := mapAlloc f as r1.2
    (r1.1 :: r2.1, r2.2)

def Slot.realloc (force : Bool) (np : ObjId) (s : Slot) (n : Nat) : Slot × Nat :=
  match s.elem with
  | none => (⟨s.attr, none⟩, n)
  | some e => let r := e.realloc force np n; (⟨s.attr, some r.1⟩, r.2)

def Cell.realloc (force : Bool) (np : ObjId) (c : Cell) (n : Nat) : Cell × Nat :=
  let r1 := c.m.realloc force n (n + 1)
  let r2 := c.b.realloc force n r1.2
  (⟨n, reparent force c.parent np, c.payload, r1.1, r2.1⟩, r2.2)

def Inc.realloc (force : Bool) (np : ObjId) (i : Inc) (n : Nat) : Inc × Nat :=
  (⟨n, reparent force i.parent np, i.href⟩, n + 1)

/-- `copy.deepcopy(doc)` -/
def deepcopyDoc (d : Doc) (n : Nat) : Doc × Nat :=
  let r1 := mapAlloc (Inc.realloc false n) d.includes (n + 1)
  let r2 := mapAlloc (Elem.realloc false n) d.morphs r1.2
  let r3 := mapAlloc (Elem.realloc false n) d.bios r2.2
  let r4 := mapAlloc (Cell.realloc false n) d.cells r3.2
  let r5 := mapAlloc (Cell.realloc false n) d.cells2 r4.2
  let r6 := reallocL false n d.other r5.2
  (⟨n, d.payload, r1.1, r2.1, r3.1, r4.1, r5.1, r6.1⟩, r6.2)

/-! ### files -/

/-- what an included file defines (identities in these templates are meaningless: reading allocates) -/
structure FileDoc where
  morphs : List Elem
  bios : List Elem
deriving Repr, Inhabited

/-- `href ↦` what `read_neuroml2_file(href)` finds from the current working directory (`none`: no such
    file, the loader calls `sys.exit()`) -/
abbrev Files := String → Option FileDoc

/-- reading a file builds new objects, every one with `parent_object_` set to its container -/
def loadFile (fd : FileDoc) (n : Nat) : (List Elem × List Elem) × Nat :=
  let r1 := mapAlloc (Elem.realloc true n) fd.morphs (n + 1)
  let r2 := mapAlloc (Elem.realloc true n) fd.bios r1.2
  ((r1.1, r2.1), r2.2)

/-! ### the function -/

inductive Err where
  | keyError (id : String)            -- `raise e` of the KeyError from the dict lookup
  | includeUnreadable (href : String) -- `sys.exit()` inside `read_neuroml2_file`
deriving Repr, DecidableEq, Inhabited

/-- a Python dict `id ↦ element`: assignment prepends, lookup takes the first hit (= the last assignment) -/
abbrev Dict := List (String × Elem)
def Dict.set (d : Dict) (k : String) (v : Elem) : Dict := (k, v) :: d
def Dict.get? (d : Dict) (k : String) : Option Elem := List.lookup k d

/-- `referenced_ids` -/
def referencedIds (cells : List Cell) : List String :=
  cells.flatMap (fun c => c.m.refs ++ c.b.refs)

/-- `for e in es: if e.id in referenced_ids: d[e.id] = e` -/
def addDefs (refs : List String) (d : Dict) (es : List Elem) : Dict :=
  es.foldl (fun d e => if e.nmlId ∈ refs then d.set e.nmlId e else d) d

/-- the loop over `newdoc.includes` -/
def loadIncludes (files : Files) (refs : List String) :
    List Inc → Dict → Dict → Nat → Except Err (Dict × Dict × Nat)
  | [], em, eb, n => .ok (em, eb, n)
  | inc :: rest, em, eb, n =>
    match files inc.href with
    | none => .error (.includeUnreadable inc.href)
    | some fd =>
      let r := loadFile fd n
      loadIncludes files refs rest (addDefs refs em r.1.1) (addDefs refs eb r.1.2) r.2

/-- result of a step of the substitution loop: new value, counter, exception raised (if any), and the
    identities of the objects an attribute of which was assigned -/
structure Step (α : Type) where
  val : α
  next : Nat
  err : Option Err
  writes : List ObjId
deriving Repr

def fixSlot (d : Dict) (cellOid : ObjId) (s : Slot) (n : Nat) : Step Slot :=
  match s.attr, s.elem with
  | some a, none =>
    match d.get? a with
    | some e =>
      let r := deepcopy cellOid e.obj n
      ⟨⟨none, some ⟨e.nmlId, r.1⟩⟩, r.2, none, [cellOid]⟩
    | none => ⟨s, n, some (.keyError a), []⟩
  | _, _ => ⟨s, n, none, []⟩

def fixCell (em eb : Dict) (c : Cell) (n : Nat) : Step Cell :=
  let r1 := fixSlot em c.oid c.m n
  match r1.err with
  | some e => ⟨{ c with m := r1.val }, r1.next, some e, r1.writes⟩
  | none =>
    let r2 := fixSlot eb c.oid c.b r1.next
    ⟨{ c with m := r1.val, b := r2.val }, r2.next, r2.err, r1.writes ++ r2.writes⟩

def fixCells (em eb : Dict) : List Cell → Nat → Step (List Cell)
  | [], n => ⟨[], n, none, []⟩
  | c :: cs, n =>
    let r := fixCell em eb c n
    match r.err with
    | some e => ⟨r.val :: cs, r.next, some e, r.writes⟩
    | none =>
      let rs := fixCells em eb cs r.next
      ⟨r.val :: rs.val, rs.next, rs.err, r.writes ++ rs.writes⟩

structure Result where
  /-- the document that was passed in, as it is after the call -/
  input : Doc
  /-- the returned document, or the exception -/
  ret : Except Err Doc
  next : Nat
  /-- identities of the objects an attribute of which was assigned during the call -/
  writes : List ObjId
deriving Repr

/-- the two dictionaries as they are when the substitution loop starts, and the counter then -/
def lookupTables (newdoc : Doc) (files : Files) (n : Nat) : Except Err (Dict × Dict × Nat) :=
  let refs := referencedIds newdoc.cells
  match loadIncludes files refs newdoc.includes [] [] n with
  | .error e => .error e
  | .ok (em, eb, n2) => .ok (addDefs refs em newdoc.morphs, addDefs refs eb newdoc.bios, n2)

/-- `return newdoc` unless an exception was raised -/
def retOf (err : Option Err) (d : Doc) : Except Err Doc :=
  match err with
  | none => .ok d
  | some e => .error e

/-- the body of the function after `newdoc` has been chosen; works in place on `newdoc` -/
def fixInPlace (newdoc : Doc) (files : Files) (n : Nat) : Result :=
  match lookupTables newdoc files n with
  | .error e => ⟨newdoc, .error e, n, []⟩
  | .ok (em, eb, n2) =>
    let r := fixCells em eb newdoc.cells n2
    let newdoc' := { newdoc with cells := r.val }
    ⟨newdoc', retOf r.err newdoc', r.next, r.writes⟩

/-- the function as it was before the repair `fix: resolve external morphology/biophysics references of Cell2CaPools
    cells too`: only `doc.cells` is visited.  It is also the core of the repaired function (`fixExternal` below). -/
def fixExternalCells (doc : Doc) (overwrite : Bool) (files : Files) (n : Nat) : Result :=
  if overwrite then fixInPlace doc files n
  else
    let c := deepcopyDoc doc n
    let r := fixInPlace c.1 files c.2
    -- every write of `r` went to an object of the copy (theorem `c17_no_overwrite_frame`), so the
    -- document passed in is as it was
    { r with input := doc }

/-- `all_cells = newdoc.cells + newdoc.cell2_ca_poolses`: the document seen as having ONE list of cells to visit -/
def Doc.merge (d : Doc) : Doc := { d with cells := d.cells ++ d.cells2, cells2 := [] }

/-- back: the first `k` visited cells are `doc.cells`, the others `doc.cell2_ca_poolses` -/
def Doc.unmerge (k : Nat) (d : Doc) : Doc := { d with cells := d.cells.take k, cells2 := d.cells.drop k ++ d.cells2 }

/-- `fix_external_morphs_biophys_in_cell(doc, overwrite)` started with counter `n` (repaired tree): both loops run
    over `all_cells`, i.e. the cells of `doc.cells` followed by those of `doc.cell2_ca_poolses`; nothing else
    distinguishes the two lists (the two deep copies of `overwrite=False` are made one after the other, so the
    identities are the same as for the merged list) -/
def fixExternal (doc : Doc) (overwrite : Bool) (files : Files) (n : Nat) : Result :=
  let r := fixExternalCells doc.merge overwrite files n
  { r with input := r.input.unmerge doc.cells.length,
           ret := match r.ret with
                  | .ok d => .ok (d.unmerge doc.cells.length)
                  | .error e => .error e }

end NmlVerif.FixExternal
