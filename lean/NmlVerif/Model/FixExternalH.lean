import NmlVerif.Model.PyHeap
/-
`neuroml.utils.fix_external_morphs_biophys_in_cell` and `neuroml.utils._deepcopy_into` over the object-graph heap
of `Model/PyHeap.lean` (property C17, second pass).  Mathlib-free, executable, total.

This is the hand model the graph theorems (`Props/C17Graph.lean`) are about.  The text of the two Python functions
is translated on every run by `translators/py2lean_fixexternal.py` into `Gen/FixExternal.lean` (a program over the
small imperative vocabulary of `Model/FixIR.lean`), and `Props/C17Gen.lean` proves that running that program
gives exactly what `fixExternal` below gives.

Everything is an object of the heap: the document, its lists (`doc.cells` is a list *object*), the cells, the
elements, their lists, `parent_object_` back references, the shared `gds_collector_`.  Nothing is assumed about the
shape of the graph.  The function, step for step:

  newdoc = deepcopy(doc) if overwrite is False else doc
  all_cells = newdoc.cells + newdoc.cell2_ca_poolses   (repaired tree: Cell2CaPools cells are visited too)
  referenced_ids: for cell in all_cells, morphology before biophysics, `attr is not None and element is None`
  for inc in newdoc.includes: incdoc = read_neuroml2_file(inc.href) (new objects; `files` says what the loader
      finds; nothing: `sys.exit()`); definitions whose id is in referenced_ids go into the dicts (later wins)
  then the document's own lists (the document wins)
  for cell in all_cells: for each of the two slots that is a reference without element:
      `cell.<elem> = _deepcopy_into(dict[cell.<attr>], cell)` (KeyError here if the id is missing), `cell.<attr> = None`
  `_deepcopy_into(e, cell)`: memo = {}; if e.parent_object_ is not None: memo[id(e.parent_object_)] = cell;
      copy.deepcopy(e, memo)
-/
namespace NmlVerif.FixExternalH
open NmlVerif.PyHeap

inductive Err where
  | keyError (k : Val)               -- `raise e` of the KeyError from the dict lookup; `k` = the missing key
  | includeUnreadable (href : Val)   -- `sys.exit()` inside `read_neuroml2_file`
  | stuck                            -- deepcopy out of fuel / of something that is not an object: not on a well-formed heap
deriving Repr, DecidableEq, Inhabited

/-- a Python dict: assignment prepends, lookup takes the first hit (= the last assignment) -/
abbrev Dict := List (Val × Val)

def Dict.get? (d : Dict) (k : Val) : Option Val :=
  match d with
  | [] => none
  | (k', v) :: rest => if k' = k then some v else Dict.get? rest k

/-- one embedded copy made by the call (ghost record, for the theorems and the allocation measure): the objects
    `lo ≤ i < hi` are the copy of `src`, `root` is what was assigned to the cell's element field -/
structure CopyEv where
  cell : Val
  src : Val
  root : Nat
  lo : Nat
  hi : Nat
deriving Repr, DecidableEq, Inhabited

structure St where
  heap : Heap
  copies : List CopyEv        -- in the order they were made
deriving Repr, Inhabited

/-- files as the loader sees them from the working directory: `href ↦` objects of the file (`none`: unreadable) -/
abbrev Files := String → Option Template

def MA := "morphology_attr"
def ME := "morphology"
def BA := "biophysical_properties_attr"
def BE := "biophysical_properties"

/-- a deepcopy memo built as a Python dict `{id(a): b}` -/
def toMemo (d : Dict) : Memo :=
  d.filterMap (fun kv => match kv.1, kv.2 with | .ref a, .ref b => some (a, b) | _, _ => none)

/-- `_deepcopy_into(element, new_parent)`: new heap, the copy, the interval of new objects -/
def deepcopyInto (h : Heap) (element newParent : Val) : Option Copied :=
  match element with
  | .ref x =>
    let oldParent := getattr h x "parent_object_"
    let memo : Dict := if oldParent ≠ .none then [(oldParent, newParent)] else []
    deepcopy h (toMemo memo) x
  | _ => none

/-- the ids a cell asks to have resolved for one (attribute, element) pair -/
def slotRefs (h : Heap) (c : Val) (a e : String) : List Val :=
  if getattrV h c a ≠ .none then
    (if getattrV h c e = .none then [getattrV h c a] else [])
  else []

/-- `referenced_ids` -/
def referencedIds (h : Heap) (cells : List Val) : List Val :=
  cells.flatMap (fun c => slotRefs h c MA ME ++ slotRefs h c BA BE)

/-- `for e in es: if e.id in referenced_ids: d[e.id] = e` -/
def addDefs (h : Heap) (refs : List Val) (d : Dict) (es : List Val) : Dict :=
  es.foldl (fun d e => if getattrV h e "id" ∈ refs then (getattrV h e "id", e) :: d else d) d

/-- a loop whose body may raise: stop at the first exception, keeping the state it left -/
def forEachE {α σ : Type} (body : α → σ → σ × Option Err) : List α → σ → σ × Option Err
  | [], s => (s, none)
  | x :: xs, s =>
    match body x s with
    | (s', none) => forEachE body xs s'
    | r => r

structure Tables where
  em : Dict
  eb : Dict
  heap : Heap
deriving Repr, Inhabited

/-- body of the loop over `newdoc.includes` -/
def includeStep (files : Files) (refs : List Val) (inc : Val) (t : Tables) : Tables × Option Err :=
  match getattrV t.heap inc "href" with
  | .prim s =>
    match files s with
    | none => (t, some (.includeUnreadable (.prim s)))
    | some tmpl =>
      let r := loadTemplate t.heap tmpl
      (⟨addDefs r.1 refs t.em (listItems r.1 (getattrV r.1 r.2 "morphology")),
        addDefs r.1 refs t.eb (listItems r.1 (getattrV r.1 r.2 "biophysical_properties")), r.1⟩, none)
  | v => (t, some (.includeUnreadable v))

/-- one (attribute, element) pair of one cell in the substitution loop -/
def fixSlot (d : Dict) (cell : Val) (a e : String) (st : St) : St × Option Err :=
  if getattrV st.heap cell a ≠ .none ∧ getattrV st.heap cell e = .none then
    match d.get? (getattrV st.heap cell a) with
    | none => (st, some (.keyError (getattrV st.heap cell a)))
    | some src =>
      match deepcopyInto st.heap src cell with
      | none => (st, some .stuck)
      | some c =>
        (⟨setattrV (setattrV c.heap cell e (.ref c.root)) cell a .none,
          st.copies ++ [⟨cell, src, c.root, st.heap.length, c.heap.length⟩]⟩, none)
  else (st, none)

def fixCell (em eb : Dict) (cell : Val) (st : St) : St × Option Err :=
  match fixSlot em cell MA ME st with
  | (st1, none) => fixSlot eb cell BA BE st1
  | r => r

structure Result where
  heap : Heap
  /-- the returned document, or the exception -/
  ret : Except Err Val
  copies : List CopyEv
  /-- number of objects allocated by `copy.deepcopy(nml2_doc)` (`overwrite=False`) -/
  docCopy : Nat
deriving Repr

/-- `all_cells = newdoc.cells + newdoc.cell2_ca_poolses`: the members of the two list objects, as a new Python list
    (read once, before anything else happens) -/
def allCells (h : Heap) (newdoc : Val) : List Val :=
  listItems h (getattrV h newdoc "cells") ++ listItems h (getattrV h newdoc "cell2_ca_poolses")

/-- the body of the function after `newdoc` has been chosen -/
def fixInPlace (files : Files) (h : Heap) (newdoc : Val) : Result :=
  let cells := allCells h newdoc
  let refs := referencedIds h cells
  match forEachE (includeStep files refs) (listItems h (getattrV h newdoc "includes")) ⟨[], [], h⟩ with
  | (t, some e) => ⟨t.heap, .error e, [], 0⟩
  | (t, none) =>
    let em := addDefs t.heap refs t.em (listItems t.heap (getattrV t.heap newdoc "morphology"))
    let eb := addDefs t.heap refs t.eb (listItems t.heap (getattrV t.heap newdoc "biophysical_properties"))
    match forEachE (fixCell em eb) cells ⟨t.heap, []⟩ with
    | (st, none) => ⟨st.heap, .ok newdoc, st.copies, 0⟩
    | (st, some e) => ⟨st.heap, .error e, st.copies, 0⟩

/-- `fix_external_morphs_biophys_in_cell(doc, overwrite)` on heap `h` -/
def fixExternal (files : Files) (h : Heap) (doc : Val) (overwrite : Bool) : Result :=
  if overwrite then fixInPlace files h doc
  else
    match doc with
    | .ref x =>
      match deepcopy h [] x with
      | none => ⟨h, .error .stuck, [], 0⟩
      | some c => { fixInPlace files c.heap (.ref c.root) with docCopy := c.heap.length - h.length }
    | _ => ⟨h, .error .stuck, [], 0⟩

end NmlVerif.FixExternalH
