import NmlVerif.Model.FixExternalH
/-
A small imperative vocabulary for the two functions of property C17, `neuroml.utils.fix_external_morphs_biophys_in_cell`
and `neuroml.utils._deepcopy_into`, over the object-graph heap of `Model/PyHeap.lean`.  Mathlib-free, executable.

`translators/py2lean_fixexternal.py` reads the two functions from `neuroml/utils.py` on every run and writes them
down, statement by statement and expression by expression, as a term of this vocabulary
(`lean/NmlVerif/Gen/FixExternal.lean`).  `Props/C17Gen.lean` proves that running that term is what the hand model
`FixExternalH.fixExternal` computes.  So the order of the statements, the nesting of the loops, which attribute is
tested, which dict is filled from which list, what is assigned where … are taken from the source.

Python -> here
* local variables = the record `Locals` (one typed field per variable; the translator refuses an unknown name);
  a variable is a lens `Var`.
* PURE expressions (`PEx`: names, attribute reads, `is None`, `is not None`, `is False`, `and`, `in`, `[]`, `{}`, `a + b` of two list objects,
  `id(·)`, 3-argument `getattr` with default `None`) cannot raise and do not change the state;
  EFFECTFUL expressions (`Ex`: dict subscript = may raise KeyError, `copy.deepcopy`, `read_neuroml2_file`, the call of
  `_deepcopy_into`) return a value and a new state or raise.
* statements return normally, raise, or `return` a value.
* `logger.warning/error(...)` are no-ops.
* `id(x)` is `x` itself: a deepcopy memo `{id(a): b}` is kept as the dict `{a: b}`.
* ghost bookkeeping (not in the Python text): every `_deepcopy_into` call is recorded in `copies` with the range of
  objects it allocated, every one-argument `copy.deepcopy` adds the number of objects it allocated to `docCopy`.
-/
namespace NmlVerif.FixIR
open NmlVerif.PyHeap NmlVerif.FixExternalH

structure Locals where
  -- fix_external_morphs_biophys_in_cell
  nml2_doc : Val := .none
  overwrite : Bool := true
  newdoc : Val := .none
  all_cells : List Val := []
  referenced_ids : List Val := []
  cell : Val := .none
  ext_morphs : Dict := []
  ext_biophys : Dict := []
  inc : Val := .none
  incdoc : Val := .none
  morph : Val := .none
  biophys : Val := .none
  e : Option Err := none
  -- _deepcopy_into
  element : Val := .none
  new_parent : Val := .none
  memo : Dict := []
  old_parent : Val := .none
deriving Inhabited

structure Sig where
  heap : Heap
  copies : List CopyEv
  docCopy : Nat
  loc : Locals
deriving Inhabited

structure Var (α : Type) where
  get : Locals → α
  set : α → Locals → Locals

namespace V
def nml2_doc : Var Val := ⟨(·.nml2_doc), fun v l => { l with nml2_doc := v }⟩
def overwrite : Var Bool := ⟨(·.overwrite), fun v l => { l with overwrite := v }⟩
def newdoc : Var Val := ⟨(·.newdoc), fun v l => { l with newdoc := v }⟩
def all_cells : Var (List Val) := ⟨(·.all_cells), fun v l => { l with all_cells := v }⟩
def referenced_ids : Var (List Val) := ⟨(·.referenced_ids), fun v l => { l with referenced_ids := v }⟩
def cell : Var Val := ⟨(·.cell), fun v l => { l with cell := v }⟩
def ext_morphs : Var Dict := ⟨(·.ext_morphs), fun v l => { l with ext_morphs := v }⟩
def ext_biophys : Var Dict := ⟨(·.ext_biophys), fun v l => { l with ext_biophys := v }⟩
def inc : Var Val := ⟨(·.inc), fun v l => { l with inc := v }⟩
def incdoc : Var Val := ⟨(·.incdoc), fun v l => { l with incdoc := v }⟩
def morph : Var Val := ⟨(·.morph), fun v l => { l with morph := v }⟩
def biophys : Var Val := ⟨(·.biophys), fun v l => { l with biophys := v }⟩
def e : Var (Option Err) := ⟨(·.e), fun v l => { l with e := v }⟩
def element : Var Val := ⟨(·.element), fun v l => { l with element := v }⟩
def new_parent : Var Val := ⟨(·.new_parent), fun v l => { l with new_parent := v }⟩
def memo : Var Dict := ⟨(·.memo), fun v l => { l with memo := v }⟩
def old_parent : Var Val := ⟨(·.old_parent), fun v l => { l with old_parent := v }⟩
end V

/-- pure expression -/
abbrev PEx (α : Type) := Sig → α

inductive Out (α : Type) where
  | ok (a : α) (σ : Sig)
  | raise (e : Err) (σ : Sig)

/-- effectful expression -/
abbrev Ex (α : Type) := Sig → Out α

inductive SOut where
  | normal (σ : Sig)
  | raise (e : Err) (σ : Sig)
  | ret (v : Val) (σ : Sig)

abbrev Stmt := Sig → SOut

/-! ### pure expressions -/
namespace P
/-- `x` -/
def var {α : Type} (v : Var α) : PEx α := fun σ => v.get σ.loc
/-- `o.f` (also `getattr(o, "f", None)`) -/
def attr (o : PEx Val) (f : String) : PEx Val := fun σ => getattrV σ.heap (o σ) f
/-- `None` -/
def none : PEx Val := fun _ => Val.none
/-- `e is None` -/
def isNone (e : PEx Val) : PEx Bool := fun σ => decide (e σ = Val.none)
/-- `e is not None` -/
def isNotNone (e : PEx Val) : PEx Bool := fun σ => decide (e σ ≠ Val.none)
/-- `b is False` -/
def isFalse (b : PEx Bool) : PEx Bool := fun σ => !(b σ)
/-- `a and b` (used as a condition) -/
def and (a b : PEx Bool) : PEx Bool := fun σ => a σ && b σ
/-- `x in l` -/
def inList (x : PEx Val) (l : PEx (List Val)) : PEx Bool := fun σ => decide (x σ ∈ l σ)
/-- `[]` -/
def emptyList : PEx (List Val) := fun _ => []
/-- `{}` -/
def emptyDict : PEx Dict := fun _ => []
/-- `id(e)` -/
def idOf (e : PEx Val) : PEx Val := e
/-- `a + b` of two list objects: a new Python list holding the items of `a` followed by those of `b` -/
def concatItems (a b : PEx Val) : PEx (List Val) := fun σ => listItems σ.heap (a σ) ++ listItems σ.heap (b σ)
/-- the items a `for` loop over the list object `l` visits -/
def iter (l : PEx Val) : PEx (List Val) := fun σ => listItems σ.heap (l σ)
end P

/-! ### effectful expressions -/
namespace E
/-- `d[k]`: KeyError(k) if missing -/
def subscript (d : PEx Dict) (k : PEx Val) : Ex Val := fun σ =>
  match (d σ).get? (k σ) with
  | some v => .ok v σ
  | none => .raise (.keyError (k σ)) σ

/-- `copy.deepcopy(x)` -/
def deepcopy1 (x : PEx Val) : Ex Val := fun σ =>
  match x σ with
  | .ref i =>
    match deepcopy σ.heap [] i with
    | some c => .ok (.ref c.root) { σ with heap := c.heap, docCopy := σ.docCopy + (c.heap.length - σ.heap.length) }
    | none => .raise .stuck σ
  | _ => .raise .stuck σ

/-- `copy.deepcopy(x, memo)` -/
def deepcopy2 (x : PEx Val) (m : PEx Dict) : Ex Val := fun σ =>
  match x σ with
  | .ref i =>
    match deepcopy σ.heap (toMemo (m σ)) i with
    | some c => .ok (.ref c.root) { σ with heap := c.heap }
    | none => .raise .stuck σ
  | _ => .raise .stuck σ

/-- `loaders.read_neuroml2_file(href, verbose=False, optimized=True)` -/
def readFile (files : Files) (href : PEx Val) : Ex Val := fun σ =>
  match href σ with
  | .prim s =>
    match files s with
    | some tmpl => .ok (loadTemplate σ.heap tmpl).2 { σ with heap := (loadTemplate σ.heap tmpl).1 }
    | none => .raise (.includeUnreadable (.prim s)) σ
  | v => .raise (.includeUnreadable v) σ

/-- a pure expression where an effectful one is expected -/
def pure {α : Type} (e : PEx α) : Ex α := fun σ => .ok (e σ) σ

/-- `_deepcopy_into(a, b)`: arguments left to right, the callee's body on fresh locals, the caller's locals back -/
def callDeepcopyInto (callee : Stmt) (a : Ex Val) (b : PEx Val) : Ex Val := fun σ =>
  match a σ with
  | .raise e σ' => .raise e σ'
  | .ok av σ1 =>
    let bv := b σ1
    match callee { σ1 with loc := { element := av, new_parent := bv } } with
    | .ret v σ2 =>
      .ok v { σ2 with loc := σ1.loc,
                      copies := σ2.copies ++ [⟨bv, av, (match v with | .ref r => r | _ => 0), σ1.heap.length, σ2.heap.length⟩] }
    | .normal σ2 => .ok .none { σ2 with loc := σ1.loc }
    | .raise e σ2 => .raise e { σ2 with loc := σ1.loc }
end E

/-! ### statements -/
namespace S
def skip : Stmt := fun σ => .normal σ

def seq (a b : Stmt) : Stmt := fun σ =>
  match a σ with
  | .normal σ' => b σ'
  | r => r

def block : List Stmt → Stmt
  | [] => skip
  | s :: ss => seq s (block ss)

/-- `x = e` (pure right-hand side) -/
def assign {α : Type} (x : Var α) (e : PEx α) : Stmt := fun σ => .normal { σ with loc := x.set (e σ) σ.loc }

/-- `x = e` (effectful right-hand side) -/
def assignE {α : Type} (x : Var α) (e : Ex α) : Stmt := fun σ =>
  match e σ with
  | .ok a σ' => .normal { σ' with loc := x.set a σ'.loc }
  | .raise er σ' => .raise er σ'

/-- `o.f = e`: right-hand side first -/
def setattr (o : PEx Val) (f : String) (e : PEx Val) : Stmt := fun σ =>
  .normal { σ with heap := setattrV σ.heap (o σ) f (e σ) }

def setattrE (o : PEx Val) (f : String) (e : Ex Val) : Stmt := fun σ =>
  match e σ with
  | .ok a σ' => .normal { σ' with heap := setattrV σ'.heap (o σ') f a }
  | .raise er σ' => .raise er σ'

/-- `d[k] = v` -/
def setitem (d : Var Dict) (k v : PEx Val) : Stmt := fun σ =>
  .normal { σ with loc := d.set ((k σ, v σ) :: d.get σ.loc) σ.loc }

/-- `l.append(v)` -/
def append (l : Var (List Val)) (v : PEx Val) : Stmt := fun σ =>
  .normal { σ with loc := l.set (l.get σ.loc ++ [v σ]) σ.loc }

/-- `logger.warning(...)` / `logger.error(...)` -/
def log : Stmt := skip

/-- `if c: t else: e` -/
def ite (c : PEx Bool) (t e : Stmt) : Stmt := fun σ => if c σ then t σ else e σ

/-- the iterations of a `for` loop -/
def forItems (x : Var Val) (body : Stmt) : List Val → Stmt
  | [], σ => .normal σ
  | v :: vs, σ =>
    match body { σ with loc := x.set v σ.loc } with
    | .normal σ' => forItems x body vs σ'
    | r => r

/-- `for x in it: body` (the iterable is read once; the body does not change the list) -/
def forEach (x : Var Val) (it : PEx (List Val)) (body : Stmt) : Stmt := fun σ => forItems x body (it σ) σ

/-- `try: body` / `except KeyError as x: handler` -/
def tryKeyError (body : Stmt) (x : Var (Option Err)) (handler : Stmt) : Stmt := fun σ =>
  match body σ with
  | .raise (.keyError k) σ' => handler { σ' with loc := x.set (some (.keyError k)) σ'.loc }
  | r => r

/-- `raise x` -/
def raiseVar (x : Var (Option Err)) : Stmt := fun σ =>
  match x.get σ.loc with
  | some e => .raise e σ
  | none => .raise .stuck σ

/-- a statement the translator did not understand (its report says which) -/
def unsupported : Stmt := fun σ => .raise .stuck σ

/-- `return e` -/
def ret (e : PEx Val) : Stmt := fun σ => .ret (e σ) σ

def retE (e : Ex Val) : Stmt := fun σ =>
  match e σ with
  | .ok a σ' => .ret a σ'
  | .raise er σ' => .raise er σ'
end S

/-- call `fix_external_morphs_biophys_in_cell(doc, overwrite)` given its translated body -/
def runFix (body : Stmt) (h : Heap) (doc : Val) (overwrite : Bool) : Result :=
  match body ⟨h, [], 0, { nml2_doc := doc, overwrite := overwrite }⟩ with
  | .ret v σ => ⟨σ.heap, .ok v, σ.copies, σ.docCopy⟩
  | .normal σ => ⟨σ.heap, .ok .none, σ.copies, σ.docCopy⟩
  | .raise e σ => ⟨σ.heap, .error e, σ.copies, σ.docCopy⟩

end NmlVerif.FixIR
