import NmlVerif.Gen.Geom
/-!
# C12 — cell-level model around the translated helpers (hand-written, core Lean only)

`Gen/Geom.lean` holds the *translated* bodies of `Segment.length/volume/surface_area`,
`Point3DWithDiam.distance_to` and `Cell.get_actual_proximal/get_segment_length/_surface_area/_volume`; the cell
methods take `get_segment` and the recursive `get_actual_proximal` as parameters (open recursion). This file
supplies what the translator does not read:

* `getSegment` — `Cell.get_segment` (first segment in document order whose id matches, else `ValueError`);
* `actualProximal` — the recursion of `get_actual_proximal` with fuel (Python: the interpreter's recursion limit);
* the cell-level getters with the knot tied;
* the `Float` instance of `GeomOps` used by the driver (IEEE double operations, `math.pi`'s bit pattern).
-/
namespace NmlVerif.Geom
open NmlVerif.Gen.Geom

/-- a cell's morphology as far as the helpers read it: `(segment.id, segment)` in document order -/
abbrev Cell (α : Type) := List (Nat × Seg α)

/-- `Cell.get_segment`: linear scan, first match; `ValueError` when there is none -/
def getSegment {α : Type} (c : Cell α) (id : Nat) : Except Err (Seg α) :=
  match c.find? (fun e => e.1 == id) with
  | some e => .ok e.2
  | none => .error ⟨"ValueError", "Segment with id "⟩

/-- `Cell.get_actual_proximal` with explicit fuel (one unit per Python call) -/
def actualProximal {α : Type} [GeomOps α] (c : Cell α) : Nat → Nat → Except Err (Pt α)
  | 0, _ => .error ⟨"RecursionError", "maximum recursion depth exceeded"⟩
  | fuel + 1, id => Cell.get_actual_proximal (getSegment c) (actualProximal c fuel) id

def segmentLength {α : Type} [GeomOps α] (c : Cell α) (fuel id : Nat) : Except Err α :=
  Cell.get_segment_length (getSegment c) (actualProximal c fuel) id

def segmentSurfaceArea {α : Type} [GeomOps α] (c : Cell α) (fuel id : Nat) : Except Err α :=
  Cell.get_segment_surface_area (getSegment c) (actualProximal c fuel) id

def segmentVolume {α : Type} [GeomOps α] (c : Cell α) (fuel id : Nat) : Except Err α :=
  Cell.get_segment_volume (getSegment c) (actualProximal c fuel) id

/-- IEEE doubles, as CPython uses them; `pi` is `math.pi` = 0x400921FB54442D18 -/
instance : GeomOps Float where
  add := (· + ·)
  sub := (· - ·)
  mul := (· * ·)
  div := (· / ·)
  sqrt := Float.sqrt
  pi := Float.ofBits 0x400921FB54442D18
  lit := fun n => Float.ofNat n
  eq := fun a b => a == b
  finite := Float.isFinite

end NmlVerif.Geom
