/-!
# C12 — base vocabulary for the translated geometry helpers (hand-written, core Lean only)

`Gen/Geom.lean` (regenerated on every check run by `translators/py2lean_geom.py` from the Python source) is
written against this file: an abstract number type `α` with the operations the Python code uses on `float`s
(`+ - * /`, `sqrt`, `pi`, numeric literals, `==`), and the value shapes of `Point3DWithDiam`, `SegmentParent`,
`Segment`. It is instantiated at `ℝ` in `Proofs/Geom.lean` (theorems) and at `Float` in `Model/Geom.lean`
(driver).
-/
namespace NmlVerif.Geom

/-- what the translated code needs from a number type -/
class GeomOps (α : Type) where
  add : α → α → α
  sub : α → α → α
  mul : α → α → α
  div : α → α → α
  sqrt : α → α
  pi : α
  /-- numeric literal (Python `2`, `2.0`, `4.0`, …; non-integral literals are emitted as `lit a /. lit (2^k)`) -/
  lit : Nat → α
  /-- Python `==` on floats -/
  eq : α → α → Bool
  /-- not `inf`/`nan` (always true over ℝ). Needed because CPython's `x ** n` raises `OverflowError` when a finite
      `x` gives an infinite result, where IEEE multiplication would return `inf`. -/
  finite : α → Bool

scoped infixl:65 " +. " => GeomOps.add
scoped infixl:65 " -. " => GeomOps.sub
scoped infixl:70 " *. " => GeomOps.mul
scoped infixl:70 " /. " => GeomOps.div
scoped infix:50 " =. " => GeomOps.eq

/-- Python `x ** n` for a literal integer `n`: `x ** 2 = x * x`, `x ** 3 = (x * x) * x`. -/
def ipow {α : Type} [GeomOps α] (x : α) : Nat → α
  | 0 => GeomOps.lit 1
  | 1 => x
  | n + 2 => ipow x (n + 1) *. x

/-- CPython's `float_pow` raises `OverflowError` (errno ERANGE) exactly in this case -/
def powOverflows {α : Type} [GeomOps α] (x : α) (n : Nat) : Bool :=
  GeomOps.finite x && !(GeomOps.finite (ipow x n))

/-- `Point3DWithDiam` (the four float members) -/
structure Pt (α : Type) where
  x : α
  y : α
  z : α
  diameter : α

/-- `SegmentParent`: `segments` (parent id), `fraction_along` (already a float) -/
structure Par (α : Type) where
  segments : Nat
  fraction_along : α

/-- `Segment` as far as the geometry helpers read it: optional proximal, distal, optional parent -/
structure Seg (α : Type) where
  proximal : Option (Pt α)
  distal : Pt α
  parent : Option (Par α)

/-- a raised Python exception: class name and the constant prefix of its message -/
structure Err where
  kind : String
  msg : String
  deriving DecidableEq, Repr

end NmlVerif.Geom
