import NmlVerif.Model.Geom
/-!
# C12 — HAND-WRITTEN model of the geometry helpers (core Lean only, executable)

`Gen/Geom.lean` is regenerated from the Python source on every run; this file is written by hand once, from a
reading of the same methods, and never regenerated. It is polymorphic in the number type like the generated
file, performs the floating-point operations in the same order as the unchanged source (so that at `Float` the two
agree bit for bit), and ties the recursion of `get_actual_proximal` directly (fuel), without open recursion.

Uses:
* `Props/C12.lean` proves `generated = hand` at `α = ℝ` for all eight functions (`gen_eq_hand_*`): when the source
  changes, those are the obligations that break, function by function;
* `Drivers/C12.lean` evaluates BOTH at `Float` (`op = "segh"`, `"cellh"`): the directed search of
  `harness/props/c12.py` compares them on a small systematic grid to find a concrete input on which a changed
  translation differs, which is then confirmed on the real code.
-/
namespace NmlVerif.Geom.Hand
open NmlVerif.Geom

variable {α : Type} [GeomOps α]

def overflowErr : Err := ⟨"OverflowError", "(34, 'Numerical result out of range')"⟩
def attrErr : Err := ⟨"AttributeError", "'NoneType' object has no attribute"⟩

/-- `x ** n` (literal `n ≥ 1`) as CPython evaluates it: `OverflowError` instead of `inf` for finite `x` -/
def pow (x : α) (n : Nat) : Except Err α :=
  if powOverflows x n then .error overflowErr else .ok (ipow x n)

/-- `((a.x-b.x)**2 + (a.y-b.y)**2 + (a.z-b.z)**2)**0.5`, left-to-right -/
def dist (a b : Pt α) : Except Err α :=
  match pow (a.x -. b.x) 2 with
  | .error e => .error e
  | .ok sx =>
    match pow (a.y -. b.y) 2 with
    | .error e => .error e
    | .ok sy =>
      match pow (a.z -. b.z) 2 with
      | .error e => .error e
      | .ok sz => .ok (GeomOps.sqrt ((sx +. sy) +. sz))

/-- the centres have the same three coordinates (Python `==` on each) -/
def coincident (a b : Pt α) : Bool := (a.x =. b.x) && (a.y =. b.y) && (a.z =. b.z)

def radius (p : Pt α) : α := p.diameter /. GeomOps.lit 2

/-- `Point3DWithDiam.distance_to` -/
def distanceTo (a b : Pt α) : Except Err α := dist a b

/-- `Segment.length` -/
def length (s : Seg α) : Except Err α :=
  match s.proximal with
  | none => .error ⟨"Exception", "Cannot get length of segment "⟩
  | some p => dist p s.distal

/-- volume for end points `p`, `d`: sphere `4/3·π·r³` when the centres coincide (refusal when the radii then
    differ), else the frustum `(π/3)·L·(r₁² + r₂² + r₁r₂)` -/
def volumeOf (p d : Pt α) : Except Err α :=
  let r1 := radius p
  let r2 := radius d
  if coincident p d then
    if r1 =. r2 then
      match pow r1 3 with
      | .error e => .error e
      | .ok c => .ok ((((GeomOps.lit 4) /. (GeomOps.lit 3)) *. GeomOps.pi) *. c)
    else .error ⟨"Exception", "Cannot get volume of segment "⟩
  else
    match dist p d with
    | .error e => .error e
    | .ok len =>
      match pow r1 2 with
      | .error e => .error e
      | .ok a =>
        match pow r2 2 with
        | .error e => .error e
        | .ok b => .ok (((GeomOps.pi /. (GeomOps.lit 3)) *. len) *. ((a +. b) +. (r1 *. r2)))

/-- lateral area for end points `p`, `d`: sphere `4·π·r²` when the centres coincide (refusal when the radii then
    differ), else `π·(r₁+r₂)·√((r₁−r₂)² + L²)` -/
def areaOf (p d : Pt α) : Except Err α :=
  let r1 := radius p
  let r2 := radius d
  if coincident p d then
    if r1 =. r2 then
      match pow r1 2 with
      | .error e => .error e
      | .ok c => .ok (((GeomOps.lit 4) *. GeomOps.pi) *. c)
    else .error ⟨"Exception", "Cannot get surface area of segment "⟩
  else
    match dist p d with
    | .error e => .error e
    | .ok len =>
      match pow (r1 -. r2) 2 with
      | .error e => .error e
      | .ok a =>
        match pow len 2 with
        | .error e => .error e
        | .ok b => .ok ((GeomOps.pi *. (r1 +. r2)) *. GeomOps.sqrt (a +. b))

/-- `Segment.volume` -/
def volume (s : Seg α) : Except Err α :=
  match s.proximal with
  | none => .error ⟨"Exception", "Cannot get volume of segment "⟩
  | some p => volumeOf p s.distal

/-- `Segment.surface_area` -/
def surfaceArea (s : Seg α) : Except Err α :=
  match s.proximal with
  | none => .error ⟨"Exception", "Cannot get surface area of segment "⟩
  | some p => areaOf p s.distal

/-- `(1-f)*a + f*b` on the three coordinates and on the diameter -/
def lerpPt (f : α) (a b : Pt α) : Pt α :=
  let g := (GeomOps.lit 1) -. f
  ⟨(g *. a.x) +. (f *. b.x), (g *. a.y) +. (f *. b.y), (g *. a.z) +. (f *. b.z),
   (g *. a.diameter) +. (f *. b.diameter)⟩

/-- `Cell.get_actual_proximal`, recursion tied with fuel (one unit per Python call) -/
def actualProximal (c : Cell α) : Nat → Nat → Except Err (Pt α)
  | 0, _ => .error ⟨"RecursionError", "maximum recursion depth exceeded"⟩
  | fuel + 1, id =>
    match getSegment c id with
    | .error e => .error e
    | .ok seg =>
      match seg.proximal with
      | some p => .ok p
      | none =>
        match seg.parent with
        | none => .error attrErr
        | some par =>
          match getSegment c par.segments with
          | .error e => .error e
          | .ok parent =>
            if par.fraction_along =. GeomOps.lit 1 then .ok parent.distal
            else if par.fraction_along =. GeomOps.lit 0 then actualProximal c fuel par.segments
            else
              match actualProximal c fuel par.segments with
              | .error e => .error e
              | .ok pp => .ok (lerpPt par.fraction_along pp parent.distal)

/-- the three cell-level getters: the segment's own proximal point when it has one, else the inherited one
    (`fuel` is the fuel of the `get_actual_proximal` call the getter makes) -/
def withActualProximal {β : Type} (c : Cell α) (fuel id : Nat) (own : Seg α → Except Err β)
    (inh : Pt α → Pt α → Except Err β) : Except Err β :=
  match getSegment c id with
  | .error e => .error e
  | .ok seg =>
    match seg.proximal with
    | some _ => own seg
    | none =>
      match actualProximal c fuel id with
      | .error e => .error e
      | .ok q => inh q seg.distal

/-- `Cell.get_segment_length` (inherited case: `segment.distal.distance_to(prox)`) -/
def segmentLength (c : Cell α) (fuel id : Nat) : Except Err α :=
  withActualProximal c fuel id length (fun q d => dist d q)

/-- `Cell.get_segment_volume` -/
def segmentVolume (c : Cell α) (fuel id : Nat) : Except Err α :=
  withActualProximal c fuel id volume volumeOf

/-- `Cell.get_segment_surface_area` -/
def segmentSurfaceArea (c : Cell α) (fuel id : Nat) : Except Err α :=
  withActualProximal c fuel id surfaceArea areaOf

end NmlVerif.Geom.Hand
