import NmlVerif.Model.Members
/-!
# A small imperative vocabulary for the classmethod `GeneratedsSuperSuper._get_members`

    current_class = cls.__name__
    try:    return cls.__all_members_[current_class]
    except AttributeError: cls.__all_members_ = {}
    except KeyError:       pass
    cls.__all_members_[current_class] = copy.copy(cls.member_data_items_)
    for c in cls.__mro__:
        try:    cls.__all_members_[current_class] += c.member_data_items_
        except AttributeError: pass
        except TypeError:      pass
    cls.__all_members_[current_class] = list(set(cls.__all_members_[current_class]))
    return cls.__all_members_[current_class]

`translators/py2lean_add.py` writes the method down statement by statement (`Gen/AddImpl.lean`, `getMembers`);
`Props/C10Gen.lean` proves that the term returns the members of the class's base-class chain (`Table.getMembers`)
on the first call and on every later call, whatever classes were asked before (the per-class cache).

Python → here
* a `MemberSpec_` OBJECT is an `Item`: its contents and its identity (the class whose table holds it, position) —
  `set(...)` removes duplicates by identity;
* `cls.__all_members_` is a CLASS attribute: `cls.__all_members_ = {}` creates it on `cls` itself, reading it finds the
  first class of `cls.__mro__` that carries one (`St.dicts`: the classes carrying their own dict) — so a dict created
  by a base class is shared with the derived classes that ask later; keys are class NAMES;
* `list(set(l))`: some order; the model keeps first occurrences in order (`dedupe`), `c10_order_irrelevant` shows the
  order is immaterial for `add`;
* exceptions of the three classes the method handles are results; anything else is `stuck`.
-/
namespace NmlVerif.Add.GM
open NmlVerif

structure Item where
  owner : Nat
  pos : Nat
  spec : MemberSpec
deriving DecidableEq, Repr

inductive Exc where
  | attributeError | keyError | typeError
deriving DecidableEq, Repr

/-- one class of an MRO: its name and what `<class>.member_data_items_` evaluates to (`none`: `AttributeError`, as for
    `GeneratedsSuper`, `GeneratedsSuperSuper`, `object`) -/
abbrev MroEntry := Nat × Option (List Item)

abbrev Dict := List (Nat × List Item)

structure St where
  /-- `cls.__mro__`, `cls` first -/
  mro : List MroEntry
  /-- the classes that carry their own `__all_members_`, with the dict -/
  dicts : List (Nat × Dict)
  current_class : Option Nat := none
  c : Option MroEntry := none

inductive Res where
  | normal (σ : St)
  | returned (σ : St) (v : List Item)
  | raised (σ : St) (e : Exc)
  | stuck

abbrev Cmd := St → Res

/-! ### class attributes and dicts -/

def dictGet (d : Dict) (k : Nat) : Option (List Item) := (d.find? (fun p => p.1 == k)).map (·.2)

def dictSet : Dict → Nat → List Item → Dict
  | [], k, v => [(k, v)]
  | (k', v') :: r, k, v => if k' == k then (k, v) :: r else (k', v') :: dictSet r k v

/-- the class whose `__all_members_` the attribute lookup `cls.__all_members_` finds -/
def owner? (σ : St) : Option Nat := (σ.mro.find? (fun e => σ.dicts.any (fun d => d.1 == e.1))).map (·.1)

def ownDict? (σ : St) : Option (Nat × Dict) :=
  match owner? σ with
  | none => none
  | some o => (σ.dicts.find? (fun d => d.1 == o))

def setDictOf : List (Nat × Dict) → Nat → Dict → List (Nat × Dict)
  | [], o, d => [(o, d)]
  | (o', d') :: r, o, d => if o' == o then (o, d) :: r else (o', d') :: setDictOf r o d

/-- `list(set(l))` up to order: first occurrences, in order -/
def dedupe (l : List Item) : List Item :=
  l.foldl (fun acc x => if acc.contains x then acc else acc ++ [x]) []

/-! ### control flow -/

def skip : Cmd := fun σ => .normal σ

def seq (a b : Cmd) : Cmd := fun σ =>
  match a σ with
  | .normal σ' => b σ'
  | r => r

def block : List Cmd → Cmd
  | [] => skip
  | c :: cs => seq c (block cs)

def handle : List (Exc × Cmd) → Exc → Option Cmd
  | [], _ => none
  | (x, h) :: r, e => if x == e then some h else handle r e

/-- `try: body` / `except A: …` / `except B: …` (first handler whose class matches) -/
def tryExcept (body : Cmd) (handlers : List (Exc × Cmd)) : Cmd := fun σ =>
  match body σ with
  | .raised σ' e =>
    match handle handlers e with
    | some h => h σ'
    | none => .raised σ' e
  | r => r

def loopMro (body : Cmd) : List MroEntry → Cmd
  | [], σ => .normal σ
  | e :: r, σ =>
    match body { σ with c := some e } with
    | .normal σ' => loopMro body r σ'
    | res => res

/-- `for c in cls.__mro__: body` -/
def forMro (body : Cmd) : Cmd := fun σ => loopMro body σ.mro σ

def unsupported : Cmd := fun _ => .stuck

/-! ### statements -/

def importCopy : Cmd := skip
def pass_ : Cmd := skip

/-- `current_class = cls.__name__` -/
def setCurrentClass : Cmd := fun σ =>
  match σ.mro with
  | [] => .stuck
  | e :: _ => .normal { σ with current_class := some e.1 }

/-- `return cls.__all_members_[current_class]` -/
def returnCached : Cmd := fun σ =>
  match σ.current_class with
  | none => .stuck
  | some k =>
    match ownDict? σ with
    | none => .raised σ .attributeError
    | some (_, d) =>
      match dictGet d k with
      | none => .raised σ .keyError
      | some v => .returned σ v

/-- `cls.__all_members_ = {}` (an attribute of `cls` ITSELF) -/
def initCacheDict : Cmd := fun σ =>
  match σ.mro with
  | [] => .stuck
  | e :: _ => .normal { σ with dicts := setDictOf σ.dicts e.1 [] }

/-- `cls.__all_members_[current_class] = copy.copy(cls.member_data_items_)` -/
def storeCopyOfOwn : Cmd := fun σ =>
  match σ.current_class, σ.mro with
  | some k, e :: _ =>
    match e.2 with
    | none => .raised σ .attributeError
    | some items =>
      match ownDict? σ with
      | none => .raised σ .attributeError
      | some (o, d) => .normal { σ with dicts := setDictOf σ.dicts o (dictSet d k items) }
  | _, _ => .stuck

/-- `cls.__all_members_[current_class] += c.member_data_items_` -/
def extendWithC : Cmd := fun σ =>
  match σ.current_class, σ.c with
  | some k, some e =>
    match ownDict? σ with
    | none => .raised σ .attributeError
    | some (o, d) =>
      match dictGet d k with
      | none => .raised σ .keyError
      | some v =>
        match e.2 with
        | none => .raised σ .attributeError
        | some items => .normal { σ with dicts := setDictOf σ.dicts o (dictSet d k (v ++ items)) }
  | _, _ => .stuck

/-- `cls.__all_members_[current_class] = list(set(cls.__all_members_[current_class]))` -/
def dedupeStmt : Cmd := fun σ =>
  match σ.current_class with
  | none => .stuck
  | some k =>
    match ownDict? σ with
    | none => .raised σ .attributeError
    | some (o, d) =>
      match dictGet d k with
      | none => .raised σ .keyError
      | some v => .normal { σ with dicts := setDictOf σ.dicts o (dictSet d k (dedupe v)) }

/-! ### the class hierarchy of a member table -/

def itemsOf (r : ClassRow) : List Item := r.own.zipIdx.map (fun (m, i) => ⟨r.name, i, m⟩)

/-- the rows along the base-class chain of `c`, `c` first -/
def chainRows (T : Table) : Nat → Nat → List ClassRow
  | 0, _ => []
  | fuel + 1, c =>
    match T.row? c with
    | none => []
    | some r => r :: (match r.base with
                      | none => []
                      | some b => chainRows T fuel b)

/-- `cls.__mro__` of a generated class: the chain, then `GeneratedsSuper`, `GeneratedsSuperSuper`, `object`
    (`roots`: three names outside the table; none of them has a `member_data_items_`) -/
def mroOf (T : Table) (roots : List Nat) (c : Nat) : List MroEntry :=
  (chainRows T T.length c).map (fun r => (r.name, some (itemsOf r))) ++ roots.map (fun n => (n, none))

/-- a call `C._get_members()` with the class attributes as they are -/
def call (body : Cmd) (T : Table) (roots : List Nat) (dicts : List (Nat × Dict)) (c : Nat) : Res :=
  body { mro := mroOf T roots c, dicts := dicts }

end NmlVerif.Add.GM
