/-
Shared-state summary model for property C07 (a load's result depends on its input alone).

* `Table` is what `translators/glue_extract.py` extracts from the loader / network-builder modules on every run
  (`Gen/Glue.lean`): the shared variables (module globals, class attributes, mutable default arguments, opaque
  constructs) and, per entry point / handler method, which of them it may READ BEFORE WRITING and which it may write.
  `Table.violations` is the decidable check: an entry is harmful when it may read first a variable that some entry
  may write.
* `GState`, `Respects`, `runHist` give the summary a meaning: an entry is a function of the shared state; it
  *respects* its summary when it leaves every variable outside `writes` unchanged and its result only depends on the
  variables in `rbw`.
* `Sys`, `Ev`, `run`, `soloA/B`, `projA/B` model two handler-driven builders stepping in an arbitrary interleaving
  (lifted from DESIGN-prototypes §M).

Mathlib-free, executable.
-/
namespace NmlVerif.Glue

inductive VarKind where
  | modGlobal     -- module-level assignment target / target of a `global` statement
  | classAttr     -- class-body assignment target
  | mutDefault    -- parameter whose default value is a mutable object
  | external      -- process-global state of another library reached through library calls (PyTables' open-file
                  -- registry, the warnings filters, the logging configuration): a named, reviewed item
  | instAttr      -- instance attribute: state of ONE object, shared by the calls made on that object (Gen/Handlers)
  | opaque        -- a construct the scan could not classify (always emitted as read-before-write + write)
deriving DecidableEq, Repr, Inhabited

structure SharedVar where
  id : Nat                 -- index into the names array
  kind : VarKind
  mutableVal : Bool        -- declared with a mutable (or unclassifiable) value
  initShadowed : Bool      -- class attribute assigned by every constructor before being read (instances never see it)
deriving DecidableEq, Repr, Inhabited

structure EntrySummary where
  name : Nat               -- index into the names array
  isPublic : Bool
  rbw : List Nat           -- shared variables possibly read before being (over)written
  writes : List Nat        -- shared variables possibly written (rebound, mutated in place, let escape)
deriving DecidableEq, Repr, Inhabited

structure Table where
  vars : List SharedVar
  entries : List EntrySummary
deriving Repr, Inhabited

/-- everything some entry may write -/
def Table.written (t : Table) : List Nat := t.entries.flatMap (·.writes)

/-- the variables that make entry `e` history dependent: read first by `e`, written by someone -/
def EntrySummary.bad (W : List Nat) (e : EntrySummary) : List Nat := e.rbw.filter (fun v => W.contains v)

/-- all (entry, variable) pairs violating "no read before write of a written shared variable" -/
def Table.violations (t : Table) : List (Nat × Nat) :=
  t.entries.flatMap fun e => (e.bad t.written).map fun v => (e.name, v)

def Table.declared (t : Table) (v : Nat) : Bool := t.vars.any (fun x => x.id == v)

/-- every variable mentioned by a summary is declared, and every opaque variable is written by someone
    (the translator books an opaque construct as read + write in the function containing it) -/
def Table.wf (t : Table) : Bool :=
  t.entries.all (fun e => e.rbw.all t.declared && e.writes.all t.declared)

/-- like `bad`, ignoring the variables in `ign` (reviewed benign memo caches, see `RespectsInv`) -/
def EntrySummary.badIgn (W ign : List Nat) (e : EntrySummary) : List Nat :=
  e.rbw.filter (fun v => W.contains v && !ign.contains v)

/-- the ids of the variables whose name is listed in `l` -/
def idsOf (names : Array String) (l : List String) : List Nat :=
  (List.range names.size).filter fun i => match names[i]? with
    | some s => l.contains s
    | none => false

/-- names of the violating variables (for messages and for the `⊆ Known` obligation) -/
def Table.violatingNames (t : Table) (names : Array String) : List String :=
  (t.violations.filterMap fun p => names[p.2]?).eraseDups

/-- the per-run obligation: every violating variable is a listed known finding -/
def Table.okModulo (t : Table) (names : Array String) (known : List String) : Bool :=
  t.violations.all fun p => match names[p.2]? with
    | some s => known.contains s
    | none => false

/-- the table without the entries whose name is listed in `drop` (used with `drop` = the configuration entries: what
    is left are the loader entry points, the handler methods and the methods of the document classes) -/
def Table.without (t : Table) (drop : List Nat) : Table :=
  ⟨t.vars, t.entries.filter (fun e => !drop.contains e.name)⟩

/-- configuration variables (those named in `env`) are written by configuration entries (`envEntries`) only: no
    loader entry point, handler or document method ever flips a configuration switch -/
def Table.envOnly (t : Table) (names : Array String) (env : List String) (envEntries : List Nat) : Bool :=
  t.entries.all fun e => envEntries.contains e.name || e.writes.all fun v =>
    match names[v]? with
    | some s => !env.contains s
    | none => true

/-- every name of `l` occurs in `m` -/
def subsetStr (l m : List String) : Bool := l.all (fun s => m.contains s)

/-! ### meaning of a summary -/

/-- the shared state: the value of every shared variable -/
abbrev GState (V : Type) := Nat → V

def AgreeOn {V : Type} (vs : List Nat) (g g' : GState V) : Prop := ∀ v, v ∈ vs → g v = g' v
def AgreeOff {V : Type} (W : List Nat) (g g' : GState V) : Prop := ∀ v, v ∉ W → g v = g' v

/-- an entry point as a function of the shared state (its arguments are fixed): new shared state and result.
    It respects `(rbw, writes)` when variables outside `writes` keep their value and the result is determined by
    the incoming values of the variables in `rbw` alone. -/
structure Respects {V R : Type} (f : GState V → GState V × R) (rbw writes : List Nat) : Prop where
  frame : ∀ g v, v ∉ writes → (f g).1 v = g v
  reads : ∀ g g', AgreeOn rbw g g' → (f g).2 = (f g').2

/-- The general form: `Inv` is an invariant of the shared state that every entry preserves, and the variables in
    `ign` are memo caches — under `Inv` (every cache entry holds the value the cached function would compute) the
    result does not depend on them although the code looks them up before filling them. -/
structure RespectsInv {V R : Type} (Inv : GState V → Prop) (ign : List Nat) (f : GState V → GState V × R)
    (rbw writes : List Nat) : Prop where
  frame : ∀ g v, v ∉ writes → (f g).1 v = g v
  inv : ∀ g, Inv g → Inv (f g).1
  reads : ∀ g g', Inv g → Inv g' → AgreeOn (rbw.filter (fun v => !ign.contains v)) g g' → (f g).2 = (f g').2

/-- a call: which entry, with which argument (file content, options …) -/
structure Call (A : Type) where
  entry : EntrySummary
  arg : A

/-- the shared state after a history of earlier calls -/
def runHist {V R A : Type} (sem : EntrySummary → A → GState V → GState V × R) :
    List (Call A) → GState V → GState V
  | [], g => g
  | c :: cs, g => runHist sem cs (sem c.entry c.arg g).1

/-! ### two builders stepping in an interleaving (DESIGN-prototypes §M) -/

/-- two builders: each handler call of builder A (resp. B) acts on A's (resp. B's) own state and on the state
    shared between builder instances (class-level tables, module globals) -/
structure Sys (σ α β ca cb : Type) where
  stepA : σ → α → ca → σ × α
  stepB : σ → β → cb → σ × β

inductive Ev (ca cb : Type) where
  | a (c : ca)
  | b (c : cb)
deriving Repr

variable {σ α β ca cb : Type}

def run (S : Sys σ α β ca cb) : List (Ev ca cb) → σ × α × β → σ × α × β
  | [], st => st
  | .a c :: es, (s, x, y) => let r := S.stepA s x c; run S es (r.1, r.2, y)
  | .b c :: es, (s, x, y) => let r := S.stepB s y c; run S es (r.1, x, r.2)

def projA : List (Ev ca cb) → List ca
  | [] => []
  | .a c :: es => c :: projA es
  | .b _ :: es => projA es

def projB : List (Ev ca cb) → List cb
  | [] => []
  | .a _ :: es => projB es
  | .b c :: es => c :: projB es

def soloA (S : Sys σ α β ca cb) : List ca → σ × α → σ × α
  | [], st => st
  | c :: cs, (s, x) => soloA S cs (S.stepA s x c)

def soloB (S : Sys σ α β ca cb) : List cb → σ × β → σ × β
  | [], st => st
  | c :: cs, (s, y) => soloB S cs (S.stepB s y c)

/-- `es` is an interleaving (a merge keeping each builder's own order) of the call sequences `h₁` and `h₂` -/
def IsInterleaving (es : List (Ev ca cb)) (h₁ : List ca) (h₂ : List cb) : Prop := projA es = h₁ ∧ projB es = h₂

/-- every merge of two lists, executable (used by tests and the driver) -/
def merges : List ca → List cb → List (List (Ev ca cb))
  | [], ys => [ys.map .b]
  | xs, [] => [xs.map .a]
  | x :: xs, y :: ys => (merges xs (y :: ys)).map (.a x :: ·) ++ (merges (x :: xs) ys).map (.b y :: ·)

/-! ### any number of builders stepping in an interleaving

`n` builders of the same kind (index = builder), all driven by handler calls of type `c`; an event `(i, x)` is the
call `x` issued by builder `i`.  The two-builder `Sys` above is kept for the heterogeneous case. -/

structure SysN (σ α c : Type) where
  step : σ → α → c → σ × α

variable {c : Type}

def updN (f : Nat → α) (i : Nat) (x : α) : Nat → α := fun j => if j = i then x else f j

def runN (S : SysN σ α c) : List (Nat × c) → σ × (Nat → α) → σ × (Nat → α)
  | [], st => st
  | (i, x) :: es, (s, f) => let r := S.step s (f i) x; runN S es (r.1, updN f i r.2)

def soloN (S : SysN σ α c) : List c → σ × α → σ × α
  | [], st => st
  | x :: xs, (s, a) => soloN S xs (S.step s a x)

/-- the calls builder `i` issues in a schedule, in order -/
def projN (i : Nat) : List (Nat × c) → List c
  | [] => []
  | (j, x) :: es => if j = i then x :: projN i es else projN i es

end NmlVerif.Glue
