/-
Model of segment-group resolution and optimisation: `Cell.get_all_segments_in_group`,
`Cell.get_segment_group`, `Cell.optimise_segment_group`, `Cell.optimise_segment_groups`
(`neuroml/nml/helper_methods.py` and the identical copies inside `neuroml/nml/nml.py`, class `Cell`).
Mathlib-free, executable. This is the HAND model the C14 theorems are proved about; `Gen/Groups.lean` is the
statement-by-statement translation of the Python source (rewritten on every run by `translators/groups_extract.py`)
and `Props/C14.lean` (`c14_gen_*`) proves the two equal for all inputs.

Ids are interned by the harness: a segment id is the `Nat` it is in the file; a segment-group id (a string in
Python) is an arbitrary `Nat`, with two reserved values: `allId` for the string `"all"` (which
`get_all_segments_in_group` resolves to every segment of the morphology when no such group is defined) and
`emptyId` for the empty string (which `get_segment_group` never finds: `if sg_id:`).  `natsort.natsorted(xs,
key=…)` is a *stable sort by a key*; the key of a group id is supplied as a function `key : Nat → Nat` (the
harness computes the natural-sort rank of the id strings), the key of a member is its segment id.
-/
namespace NmlVerif.Groups

/-- a `<segmentGroup>`: `members` are the `segment` attributes of its `<member>` children, `includes` the
    `segmentGroup` attributes of its `<include>` children, both in list order, duplicates kept -/
structure Group where
  id : Nat
  members : List Nat
  includes : List Nat
deriving Repr, DecidableEq, Inhabited

/-- what the anchored methods read of a cell: the ids of `morphology.segments` and `morphology.segment_groups` -/
structure Cell where
  segs : List Nat
  groups : List Group
deriving Repr, DecidableEq, Inhabited

inductive Err where
  | unknownGroup   -- `Exception("No segment group … found in cell …")` (get_all_segments_in_group)
  | notFound       -- `ValueError("Segment group with id … not found in cell …")` (get_segment_group)
  | outOfFuel      -- recursion deeper than the interpreter allows (`RecursionError`): every cyclic include graph,
                   -- and acyclic include chains deeper than the recursion limit (known finding C14:recursion-limit)
  | attributeError -- `'str' object has no attribute 'members'` (unreachable: see `Props/C14.lean`, `c14_gen_resolve`)
deriving Repr, DecidableEq, Inhabited

/-- interned id of the string `"all"` -/
def allId : Nat := 0
/-- interned id of the empty string -/
def emptyId : Nat := 1

/-- `for sg in self.morphology.segment_groups: if sg.id == …` : the first group with that id -/
def findG (gs : List Group) (g : Nat) : Option Group := gs.find? (fun G => G.id == g)

/-- the loop `for s in new: if not s in acc: acc.append(s)` -/
def addNew (acc new : List Nat) : List Nat :=
  new.foldl (fun a s => if s ∈ a then a else a ++ [s]) acc

/-- first occurrences, in order -/
def dedup (l : List Nat) : List Nat := addNew [] l

/-- one iteration of a loop `for i in includes: acc = comb(acc, get_all_segments_in_group(i))`; an exception
    aborts the loop -/
def accStep (comb : List Nat → List Nat → List Nat) (rec : Nat → Except Err (List Nat))
    (acc : Except Err (List Nat)) (i : Nat) : Except Err (List Nat) :=
  match acc with
  | .error e => .error e
  | .ok a =>
    match rec i with
    | .error e => .error e
    | .ok r => .ok (comb a r)

/-- one iteration of `for include in segment_group.includes:` in `get_all_segments_in_group` -/
def resStep (rec : Nat → Except Err (List Nat)) := accStep addNew rec

/-- `get_all_segments_in_group(g)` with `g` a group id (`assume_all_means_all=True`, the default, which is also
    what every recursive call uses): members first (first occurrences), then each include depth-first.
    `fuel` bounds the recursion depth. -/
def resolve (c : Cell) : Nat → Nat → Except Err (List Nat)
  | 0, _ => .error .outOfFuel
  | f+1, g =>
    match findG c.groups g with
    | none => if g = allId then .ok c.segs else .error .unknownGroup
    | some G => G.includes.foldl (resStep (resolve c f)) (.ok (addNew [] G.members))

/-- the argument of `get_all_segments_in_group`: a segment group id (`str`) or a `SegmentGroup` object -/
inductive Arg where
  | str (id : Nat)
  | obj (G : Group)
deriving Repr, DecidableEq, Inhabited

/-- `get_all_segments_in_group(a, assume_all_means_all=aam)` for both kinds of argument. An object is used as it
    is (it need not even belong to the cell); an id is looked up; the flag only matters for an undefined `"all"`.
    Every recursive call passes an id and the default flag, i.e. is `resolve`. -/
def resolveArg (c : Cell) : Nat → Arg → Bool → Except Err (List Nat)
  | 0, _, _ => .error .outOfFuel
  | f+1, .obj G, _ => G.includes.foldl (resStep (resolve c f)) (.ok (addNew [] G.members))
  | f+1, .str g, aam =>
    match findG c.groups g with
    | none => if aam && g == allId then .ok c.segs else .error .unknownGroup
    | some G => G.includes.foldl (resStep (resolve c f)) (.ok (addNew [] G.members))

/-- insert `x` before the first element whose key is not smaller than its own -/
def ins (key : Nat → Nat) (x : Nat) : List Nat → List Nat
  | [] => [x]
  | y :: ys => if key x ≤ key y then x :: y :: ys else y :: ins key x ys

/-- `sorted(l, key=key)` / `natsort.natsorted(l, key=…)`: stable sort by a key -/
def sortBy (key : Nat → Nat) (l : List Nat) : List Nat := l.foldr (ins key) []

/-- replace the first group whose id is `g` (the object `get_segment_group` returned is mutated in place) -/
def replaceFirst : List Group → Nat → Group → List Group
  | [], _, _ => []
  | H :: t, g, G' => if H.id == g then G' :: t else H :: replaceFirst t g G'

/-- one iteration of `for inc in includes: included_segment_ids.update(self.get_all_segments_in_group(…))` -/
def unionStep (rec : Nat → Except Err (List Nat)) := accStep (fun a r => a ++ r) rec

/-- the union of the resolved sets of the given groups (as a list; only membership is used) -/
def unionCl (rec : Nat → Except Err (List Nat)) (is : List Nat) : Except Err (List Nat) :=
  is.foldl (unionStep rec) (.ok [])

/-- the cell after the group object found for id `g` has been given new lists -/
def setGroup (c : Cell) (g : Nat) (G' : Group) : Cell := ⟨c.segs, replaceFirst c.groups g G'⟩

/-- the cell after the first two assignments of `optimise_segment_group` (`seg_group.members = list(members)`,
    `seg_group.includes = natsorted(...)`): the group de-duplicated, its includes sorted, members not yet filtered.
    The included groups are resolved in THIS cell (it matters only on malformed cells: which error is met first on a
    cell that has both a cycle through `g` and a dangling include). -/
def midCell (key : Nat → Nat) (c : Cell) (g : Nat) (G : Group) : Cell :=
  setGroup c g ⟨G.id, dedup G.members, sortBy key (dedup G.includes)⟩

/-- `optimise_segment_group(g)` (repaired form: de-duplication on the referenced ids, members filtered once
    against the union of the included groups). `key` = natural-sort key of group ids. -/
def optimiseGroup (key : Nat → Nat) (c : Cell) (fuel : Nat) (g : Nat) : Except Err Cell :=
  if g = emptyId then .error .notFound else
  match findG c.groups g with
  | none => .error .notFound
  | some G =>
    if dedup G.includes ≠ [] ∧ dedup G.members ≠ [] then
      match unionCl (resolve (midCell key c g G) fuel) (dedup G.includes) with
      | .error e => .error e
      | .ok u =>
        .ok (setGroup c g ⟨G.id, sortBy (fun x => x) ((dedup G.members).filter (fun m => decide (m ∉ u))),
                             sortBy key (dedup G.includes)⟩)
    else .ok (setGroup c g ⟨G.id, dedup G.members, sortBy key (dedup G.includes)⟩)

def optStep (key : Nat → Nat) (fuel : Nat) (acc : Except Err Cell) (g : Nat) : Except Err Cell :=
  match acc with
  | .error e => .error e
  | .ok c => optimiseGroup key c fuel g

/-- `optimise_segment_groups()`: `for seg_group in self.morphology.segment_groups: optimise_segment_group(seg_group.id)` -/
def optimiseAll (key : Nat → Nat) (c : Cell) (fuel : Nat) : Except Err Cell :=
  (c.groups.map (·.id)).foldl (optStep key fuel) (.ok c)

/-! ### primitives the generated translation (`Gen/Groups.lean`, written by `translators/groups_extract.py`) uses

Python values are represented as follows (the translator checks the conditions that make this sound and refuses
otherwise): a `Member` / `Include` object is the segment id / group id it carries (the four methods never write to
such an object and never compare two of them); a list or a `set` of them is a `List Nat` (every list or set that is
mutated in place is created by the method itself, a `set` is only ever tested for membership); a `SegmentGroup`
that is written to is a *reference*: its position in `morphology.segment_groups`. -/

/-- `isinstance(a, str)` -/
def Arg.isStr : Arg → Bool
  | .str _ => true
  | .obj _ => false

/-- `s == a` for a string `s`: a `SegmentGroup` object is never equal to a string (`GeneratedsSuper.__eq__`
    compares the types first) -/
def Arg.eqId (s : Nat) : Arg → Bool
  | .str t => s == t
  | .obj _ => false

/-- `a.members` -/
def Arg.members : Arg → Except Err (List Nat)
  | .obj G => .ok G.members
  | .str _ => .error .attributeError

/-- `a.includes` -/
def Arg.includes : Arg → Except Err (List Nat)
  | .obj G => .ok G.includes
  | .str _ => .error .attributeError

/-- truth value of a string: `if sg_id:` -/
def strTruthy (s : Nat) : Bool := s != emptyId

/-- the `SegmentGroup` at position `k` of `morphology.segment_groups` -/
def grp (c : Cell) (k : Nat) : Group := c.groups.getD k default

/-- `ref.members = m` -/
def setMembers (c : Cell) (k : Nat) (m : List Nat) : Cell :=
  ⟨c.segs, c.groups.set k { grp c k with members := m }⟩

/-- `ref.includes = l` -/
def setIncludes (c : Cell) (k : Nat) (l : List Nat) : Cell :=
  ⟨c.segs, c.groups.set k { grp c k with includes := l }⟩

/-! ### the code as it was before the repair (kept only to document the two defects)

`Member`/`Include` objects were compared with the generated field-wise `__eq__`, which also compares the
`gds_elementtree_node_` attribute: two objects built in memory with the same value are equal (node `None`),
two objects read from a file never are (distinct lxml nodes). An object is modelled as `(value, node)`. -/

structure Obj where
  ref : Nat
  node : Nat      -- 0: built in memory (no lxml node); k+1: the k-th element read from the file
deriving Repr, DecidableEq, Inhabited

/-- `for i in xs: if i not in new: new.append(i)` with object equality -/
def dedupObj (l : List Obj) : List Obj :=
  l.foldl (fun a o => if o ∈ a then a else a ++ [o]) []

/-- the old member filter: survivors were appended once *per include* (`cls` = resolved sets of the includes) -/
def optMembersOld (ms : List Nat) (cls : List (List Nat)) : List Nat :=
  if cls ≠ [] ∧ ms ≠ [] then
    sortBy (fun x => x) (cls.flatMap (fun cl => ms.filter (fun m => decide (m ∉ cl))))
  else ms

end NmlVerif.Groups
