/-
Model of the HDF5 serialisation of NeuroML networks: `NeuroMLHdf5Writer.write` (`neuroml/writers.py`), the six
`exportHdf5` helper methods (`neuroml/nml/helper_methods.py`, copies in `nml.py`), and the way back:
`NeuroMLHdf5Parser` (`parse`, `parse_group`, `start_group`, `parse_dataset`, `end_group`) driving `NetworkBuilder`
(`handle_*`), `NeuroMLHdf5Loader.load` and the merge of the embedded XML (`utils.add_all_to_document`).
Mathlib-free, executable (driver: `Drivers/C05.lean`).

What is modelled as data
* table cells are rationals; `cfg.r : Rat → Rat` is the float32 rounding applied by `numpy.zeros(.., float32)`
  assignment (abstract in the theorems; the driver instantiates it with round-to-nearest-even on 24 bits);
  `int(x)` on a table cell is `trunc`.
* a cell reference is already split into its form (`"3"`, `"../pop[3]"`, `"../pop/3/comp"`), a delay into value and
  unit: the string splitting of `_get_cell_id` / the `'ms' in delay` cascade is done by the harness and sampled.
* the file is the fixed-depth group tree the writer produces: root group `neuroml` (attributes, embedded XML), at
  most one group `network`, below it one group per population / projection / input list, each with at most one
  array.  Groups are kept in creation order (PyTables yields them in name order; results are compared per id).
* top-level (non-network) components are opaque triples `(member list, id, payload)`; XML fidelity is C01's topic.

`Cfg` also carries the three behaviours repaired by the C05 patches (`Cfg.old` = before the repair) and the
truthiness defect of `Input.get_fraction_along` (C19), so that the defects stay documented by witness theorems.
-/
namespace NmlVerif.Hdf5

/-! ## values -/

/-- Python `int(x)` on a float: truncation toward zero -/
def trunc (q : Rat) : Int := Int.tdiv q.num q.den

inductive Err where
  | exception        -- `raise Exception(...)`
  | indexError
  | valueError
  | nodeError        -- tables.NodeError: duplicate child name
  | typeError
  | keyError
  | attributeError
  | assertionError   -- `assert` in the optimized containers
  | unmodelled       -- the model declines (outside the modelled domain); never produced on `Supported` input
deriving Repr, DecidableEq, Inhabited

structure Cfg where
  r : Rat → Rat
  /-- weight stored in rows that have no weight of their own when the table has a weight column -/
  unweighted : Rat := 1
  /-- parser: `indexId >= 0` (repaired) instead of `indexId > 0` -/
  idCol0 : Bool := true
  /-- writer: `notes` attribute written even when `None` (before the repair) -/
  notesAlways : Bool := false
  /-- reader: a stored `None` attribute reads back as the string "None" (before the repair) -/
  noneAsStr : Bool := false
  /-- `Input.get_fraction_along`: `if self.fraction_along` truthiness (0.0 is taken for "not set"; C19) -/
  fracTruthy : Bool := true
  /-- parser: group kind by `name.startswith(..)` (repaired) instead of `name.count(..) >= 1` -/
  prefixNames : Bool := true
  /-- parser: property tag = everything after `property:` (repaired) instead of `split(":")[1]` -/
  tagWhole : Bool := true
  /-- writer: an electrical / continuous projection whose connections name different synapses / components is
      refused (repaired) instead of being written with the first connection's -/
  refuseMixed : Bool := true
  /-- builder: a weight other than 1 in an electrical projection between two populations without instances raises
      (repaired, as the continuous branch always did) instead of being ignored -/
  elecRefuseW : Bool := true
  /-- parser: 4-column location table without column names: `indexZ = 3` (repaired) instead of `indexY = 3` -/
  loc4Fixed : Bool := true
  /-- optimized loader: a file without a `network` group loads as a document without networks (repaired by
      `fixes/C07-parser-builder-reuse.patch`: `if self.optimizedNetwork is not None`) instead of raising AttributeError -/
  optNoNet : Bool := true

def Cfg.old (r : Rat → Rat) (fracTruthy : Bool := true) : Cfg :=
  { r := r, unweighted := 0, idCol0 := false, notesAlways := true, noneAsStr := true, fracTruthy := fracTruthy,
    prefixNames := false, tagWhole := false, refuseMixed := false, elecRefuseW := false, loc4Fixed := false,
    optNoNet := false }

/-- a top-level component of the document (cell, synapse, input source, …) -/
structure Comp where
  list : String
  id : String
  payload : String
deriving Repr, DecidableEq, Inhabited

def Comp.key (c : Comp) : String × String := (c.list, c.id)

/-- `add_all_to_document(src, tgt)`: append every entry whose id is not yet in the same member list -/
def addOne (tgt : List Comp) (c : Comp) : List Comp :=
  if tgt.any (fun t => t.key = c.key) then tgt else tgt ++ [c]
def addAll (src tgt : List Comp) : List Comp := src.foldl addOne tgt

/-- `NeuroMLDocument.append(obj)` → `add`: an object that is already in its list is not added again -/
def appendObj (tgt : List Comp) (c : Option Comp) : List Comp :=
  match c with
  | none => tgt
  | some c => if c ∈ tgt then tgt else tgt ++ [c]

/-- `NeuroMLDocument.get_by_id`: first component with that id (member order) -/
def getById (top : List Comp) (id : String) : Option Comp :=
  if id.length = 0 then none else top.find? (fun c => c.id = id)

/-! ## the document (Python object tree) -/

inductive CellRef where
  | plain (i : Int)                                  -- "3"
  | bracket (pop : String) (i : Int)                 -- "../pop[3]"
  | slash (pop : String) (i : Int) (comp : String)   -- "../pop/3/comp"
deriving Repr, DecidableEq, Inhabited

def CellRef.idx : CellRef → Int
  | .plain i => i | .bracket _ i => i | .slash _ i _ => i

inductive TUnit where | ms | s | us
deriving Repr, DecidableEq, Inhabited

structure Delay where
  v : Rat
  u : TUnit
deriving Repr, DecidableEq, Inhabited

/-- one connection of any of the eight classes; which class it is follows from the list it sits in.
    Fields a class does not have keep their defaults. -/
structure Conn where
  id : Int
  pre : CellRef
  post : CellRef
  preSeg : Int := 0
  postSeg : Int := 0
  preFrac : Rat := 1/2
  postFrac : Rat := 1/2
  weight : Option Rat := none       -- ConnectionWD / …InstanceW
  delay : Delay := ⟨0, .ms⟩         -- ConnectionWD
  syn : String := ""                -- electrical: synapse; continuous: postComponent
  preComp : String := ""            -- continuous: preComponent
deriving Repr, DecidableEq, Inhabited

structure Proj where
  id : String
  pre : String
  post : String
  syn : String
  conns : List Conn := []
  connWDs : List Conn := []
deriving Repr, DecidableEq, Inhabited

/-- electrical and continuous projections have the same shape: three connection lists -/
structure GProj where
  id : String
  pre : String
  post : String
  plain : List Conn := []      -- electricalConnection / continuousConnection
  insts : List Conn := []      -- …Instance
  instWs : List Conn := []     -- …InstanceW
deriving Repr, DecidableEq, Inhabited

structure Inp where
  id : Int
  target : CellRef
  seg : Option Int := none
  frac : Option Rat := none
  weight : Option Rat := none      -- InputW
deriving Repr, DecidableEq, Inhabited

structure IList where
  id : String
  comp : String
  pop : String
  inputs : List Inp := []
  inputWs : List Inp := []
deriving Repr, DecidableEq, Inhabited

structure Inst where
  id : Int
  x : Rat
  y : Rat
  z : Rat
deriving Repr, DecidableEq, Inhabited

structure Pop where
  id : String
  comp : String
  size : Option Int := none
  typ : Option String := none
  insts : List Inst := []
  props : List (String × String) := []
deriving Repr, DecidableEq, Inhabited

structure Net where
  id : String
  notes : Option String := none
  temperature : Option String := none
  pops : List Pop := []
  projs : List Proj := []
  eprojs : List GProj := []
  cprojs : List GProj := []
  ilists : List IList := []
  nSynConn : Nat := 0        -- number of <synapticConnection> children
  nExplicit : Nat := 0       -- number of <explicitInput> children
deriving Repr, DecidableEq, Inhabited

structure Doc where
  id : String
  notes : Option String := none
  nets : List Net := []
  top : List Comp := []
deriving Repr, DecidableEq, Inhabited

/-! ## the file -/

inductive AttrV where
  | str (s : String)
  | int (i : Int)
  | none                  -- a pickled Python `None`
deriving Repr, DecidableEq, Inhabited

structure Arr where
  name : String
  cols : List (Nat × String)        -- `column_N` attributes
  rows : List (List Rat)
deriving Repr, DecidableEq, Inhabited

abbrev Attrs := List (String × AttrV)

structure Leaf where
  name : String
  attrs : Attrs
  arrays : List Arr
deriving Repr, DecidableEq, Inhabited

structure NetG where
  attrs : Attrs
  leaves : List Leaf
deriving Repr, DecidableEq, Inhabited

structure H5 where
  attrs : Attrs                     -- of the root group `neuroml` (GENERATED_BY omitted)
  top : Option (List Comp)          -- attribute `neuroml_top_level` (embedded XML of everything but the networks)
  net : Option NetG
deriving Repr, DecidableEq, Inhabited

/-- `_f_setattr`: a second write to the same name replaces the value -/
def setAttr (a : Attrs) (k : String) (v : AttrV) : Attrs :=
  if a.any (fun p => p.1 = k) then a.map (fun p => if p.1 = k then (k, v) else p) else a ++ [(k, v)]

/-! ## writer -/

/-- `neuroml.utils.has_segment_fraction_info` -/
def hasSF (l : List Conn) : Bool :=
  l.any (fun c => !(c.preSeg = 0 && c.postSeg = 0 && c.preFrac = 1/2 && c.postFrac = 1/2))

/-- the `'ms' in delay … elif 's' in delay … elif 'us' in delay` cascade of `Projection.exportHdf5`:
    the `us` branch is unreachable, a delay in µs ends in `float("2u")` → ValueError -/
def delayMs (d : Delay) : Except Err Rat :=
  match d.u with
  | .ms => .ok d.v
  | .s => .ok (d.v * 1000)
  | .us => .error .valueError

def optAttr (k : String) (v : Option String) : Attrs :=
  match v with
  | some s => [(k, AttrV.str s)]
  | none => []

def popLeafName (id : String) : String := "population_" ++ id
def projLeafName (id : String) : String := "projection_" ++ id
def ilLeafName (id : String) : String := "inputList_" ++ id

def locCols : List (Nat × String) := [(0, "x"), (1, "y"), (2, "z")]

def encodePop (cfg : Cfg) (p : Pop) : Except Err Leaf :=
  let a0 : Attrs := [("id", .str p.id), ("component", .str p.comp)]
  let a1 := p.props.foldl (fun a kv => setAttr a ("property:" ++ kv.1) (.str kv.2)) a0
  if p.insts.isEmpty then
    .ok ⟨popLeafName p.id, setAttr a1 "size" (match p.size with | some n => .int n | none => .none), []⟩
  else
    .ok ⟨popLeafName p.id,
         setAttr (setAttr a1 "size" (.int p.insts.length)) "type" (.str "populationList"),
         [⟨p.id, locCols, p.insts.map (fun i => [cfg.r i.x, cfg.r i.y, cfg.r i.z])⟩]⟩

def sfCols (base : Nat) : List (Nat × String) :=
  [(base, "pre_segment_id"), (base + 1, "post_segment_id"), (base + 2, "pre_fraction_along"),
   (base + 3, "post_fraction_along")]

def projCols (sf wd : Bool) : List (Nat × String) :=
  [(0, "pre_cell_id"), (1, "post_cell_id")] ++ (if sf then sfCols 2 else []) ++
    (if wd then [((if sf then 6 else 2), "weight"), ((if sf then 7 else 3), "delay")] else [])

def sfCells (cfg : Cfg) (c : Conn) : List Rat :=
  [cfg.r c.preSeg, cfg.r c.postSeg, cfg.r c.preFrac, cfg.r c.postFrac]

/-- row of a `<connection>` -/
def connRow (cfg : Cfg) (sf wd : Bool) (c : Conn) : List Rat :=
  [cfg.r c.pre.idx, cfg.r c.post.idx] ++ (if sf then sfCells cfg c else []) ++
    (if wd then [cfg.r cfg.unweighted, cfg.r 0] else [])

/-- row of a `<connectionWD>` -/
def connWDRow (cfg : Cfg) (sf : Bool) (c : Conn) : Except Err (List Rat) :=
  match c.weight with
  | none => .error .typeError
  | some w =>
    match delayMs c.delay with
    | .error e => .error e
    | .ok d => .ok ([cfg.r c.pre.idx, cfg.r c.post.idx] ++ (if sf then sfCells cfg c else []) ++ [cfg.r w, cfg.r d])

/-- sequential `mapM` in `Except` (own definition: easy to unfold) -/
def mapE {α β : Type} (f : α → Except Err β) : List α → Except Err (List β)
  | [] => .ok []
  | a :: as =>
    match f a with
    | .error e => .error e
    | .ok b =>
      match mapE f as with
      | .error e => .error e
      | .ok bs => .ok (b :: bs)

def projAttrs (id typ pre post : String) : Attrs :=
  [("id", .str id), ("type", .str typ), ("presynapticPopulation", .str pre), ("postsynapticPopulation", .str post)]

def encodeProj (cfg : Cfg) (p : Proj) : Except Err Leaf :=
  let sf := hasSF p.conns || hasSF p.connWDs
  let wd := !p.connWDs.isEmpty
  match mapE (connWDRow cfg sf) p.connWDs with
  | .error e => .error e
  | .ok wrows =>
    let rows := p.conns.map (connRow cfg sf wd) ++ wrows
    .ok ⟨projLeafName p.id, projAttrs p.id "projection" p.pre p.post ++ [("synapse", .str p.syn)],
         if rows.isEmpty then [] else [⟨p.id, projCols sf wd, rows⟩]⟩

def gCols (w : Bool) : List (Nat × String) :=
  [(0, "id"), (1, "pre_cell_id"), (2, "post_cell_id")] ++ sfCols 3 ++ (if w then [(7, "weight")] else [])

def gRowBase (cfg : Cfg) (c : Conn) : List Rat :=
  [cfg.r c.id, cfg.r c.pre.idx, cfg.r c.post.idx] ++ sfCells cfg c

/-- row of a connection without a weight of its own -/
def gRowU (cfg : Cfg) (w : Bool) (c : Conn) : List Rat :=
  gRowBase cfg c ++ (if w then [cfg.r cfg.unweighted] else [])

/-- `ElectricalConnectionInstanceW`: `get_weight()` (None → 1.0) -/
def eRowW (cfg : Cfg) (c : Conn) : Except Err (List Rat) :=
  .ok (gRowBase cfg c ++ [cfg.r (c.weight.getD 1)])

/-- `ContinuousConnectionInstanceW`: `connection.weight` itself (None → TypeError in the array assignment) -/
def cRowW (cfg : Cfg) (c : Conn) : Except Err (List Rat) :=
  match c.weight with
  | none => .error .typeError
  | some w => .ok (gRowBase cfg c ++ [cfg.r w])

/-- first connection, in the order the writer looks for it; `IndexError` on an empty projection -/
def firstConn (p : GProj) : Except Err Conn :=
  match p.plain, p.insts, p.instWs with
  | c :: _, _, _ => .ok c
  | [], c :: _, _ => .ok c
  | [], [], c :: _ => .ok c
  | [], [], [] => .error .indexError

/-- every connection names the synapse (electrical) / the component pair (continuous) of the first one -/
def uniformG (cont : Bool) (c0 : Conn) (l : List Conn) : Bool :=
  l.all (fun c => c.syn = c0.syn && (!cont || c.preComp = c0.preComp))

def encodeGProj (cfg : Cfg) (cont : Bool) (p : GProj) : Except Err Leaf :=
  match firstConn p with
  | .error e => .error e
  | .ok c0 =>
    if cfg.refuseMixed && !(uniformG cont c0 (p.plain ++ p.insts ++ p.instWs)) then .error .exception else
    let w := !p.instWs.isEmpty
    match mapE (if cont then cRowW cfg else eRowW cfg) p.instWs with
    | .error e => .error e
    | .ok wrows =>
      let rows := (p.plain ++ p.insts).map (gRowU cfg w) ++ wrows
      let attrs :=
        if cont then projAttrs p.id "continuousProjection" p.pre p.post ++
                     [("preComponent", .str c0.preComp), ("postComponent", .str c0.syn)]
        else projAttrs p.id "electricalProjection" p.pre p.post ++ [("synapse", .str c0.syn)]
      .ok ⟨projLeafName p.id, attrs, [⟨p.id, gCols w, rows⟩]⟩

def ilCols (w : Bool) : List (Nat × String) :=
  [(0, "id"), (1, "target_cell_id"), (2, "segment_id"), (3, "fraction_along")] ++ (if w then [(4, "weight")] else [])

/-- `Input.get_segment_id`: `int(self.segment_id) if self.segment_id else 0` -/
def getSeg (i : Inp) : Int := i.seg.getD 0

/-- `Input.get_fraction_along`: `float(self.fraction_along) if self.fraction_along else 0.5`
    (with `fracTruthy`, a fraction of 0.0 is taken for "not set") -/
def getFrac (cfg : Cfg) (i : Inp) : Rat :=
  match i.frac with
  | none => 1/2
  | some f => if cfg.fracTruthy && f = 0 then 1/2 else f

def inpRowBase (cfg : Cfg) (i : Inp) : List Rat :=
  [cfg.r i.id, cfg.r i.target.idx, cfg.r (getSeg i), cfg.r (getFrac cfg i)]

def inpRowU (cfg : Cfg) (w : Bool) (i : Inp) : List Rat :=
  inpRowBase cfg i ++ (if w then [cfg.r cfg.unweighted] else [])

def inpRowW (cfg : Cfg) (i : Inp) : List Rat :=
  inpRowBase cfg i ++ [cfg.r (i.weight.getD 1)]

def encodeIList (cfg : Cfg) (l : IList) : Except Err Leaf :=
  let w := !l.inputWs.isEmpty
  let rows := l.inputs.map (inpRowU cfg w) ++ l.inputWs.map (inpRowW cfg)
  if rows.isEmpty then .error .valueError   -- create_carray refuses a zero-row array
  else .ok ⟨ilLeafName l.id, [("id", .str l.id), ("component", .str l.comp), ("population", .str l.pop)],
            [⟨l.id, ilCols w, rows⟩]⟩

/-- children are created one after the other: `create_group` first (NodeError on a name already present),
    then the body of `exportHdf5` (which may raise) -/
def collect : List String → List (String × Except Err Leaf) → Except Err (List Leaf)
  | _, [] => .ok []
  | seen, (nm, body) :: rest =>
    if nm ∈ seen then .error .nodeError else
    match body with
    | .error e => .error e
    | .ok l =>
      match collect (nm :: seen) rest with
      | .error e => .error e
      | .ok ls => .ok (l :: ls)

def popBodies (cfg : Cfg) (n : Net) : List (String × Except Err Leaf) :=
  n.pops.map (fun p => (popLeafName p.id, encodePop cfg p))

def otherBodies (cfg : Cfg) (n : Net) : List (String × Except Err Leaf) :=
  n.projs.map (fun p => (projLeafName p.id, encodeProj cfg p)) ++
  n.eprojs.map (fun p => (projLeafName p.id, encodeGProj cfg false p)) ++
  n.cprojs.map (fun p => (projLeafName p.id, encodeGProj cfg true p)) ++
  n.ilists.map (fun l => (ilLeafName l.id, encodeIList cfg l))

def notesAttr (cfg : Cfg) (notes : Option String) : Attrs :=
  match notes with
  | some s => [("notes", .str s)]
  | none => if cfg.notesAlways then [("notes", .none)] else []

/-- `if self.temperature:` — written only when non-empty -/
def tempAttr (t : Option String) : Attrs :=
  match t with
  | some s => if s.length = 0 then [] else [("temperature", .str s)]
  | none => []

def encodeNet (cfg : Cfg) (n : Net) : Except Err NetG :=
  match collect [] (popBodies cfg n) with
  | .error e => .error e
  | .ok pl =>
    if n.nSynConn > 0 then .error .exception       -- "<synapticConnection> not yet supported in HDF5 export"
    else if n.nExplicit > 0 then .error .exception -- "<explicitInput> not yet supported in HDF5 export"
    else
      match collect ((popBodies cfg n).map (·.1)).reverse (otherBodies cfg n) with
      | .error e => .error e
      | .ok ol => .ok ⟨[("id", .str n.id)] ++ notesAttr cfg n.notes ++ tempAttr n.temperature, pl ++ ol⟩

def encodeDoc (cfg : Cfg) (d : Doc) : Except Err H5 :=
  let attrs : Attrs := [("id", .str d.id)] ++ notesAttr cfg d.notes
  match d.nets with
  | [] => .ok ⟨attrs, some d.top, none⟩
  | [n] =>
    match encodeNet cfg n with
    | .error e => .error e
    | .ok g => .ok ⟨attrs, some d.top, some g⟩
  | n :: _ :: _ =>
    match encodeNet cfg n with
    | .error e => .error e
    | .ok _ => .error .nodeError        -- second group named `network`

/-! ## reader -/

def lookupAttr (a : Attrs) (k : String) : Option AttrV := (a.find? (fun p => p.1 = k)).map (·.2)

/-- `get_str_attribute_group`: missing → None; otherwise `str(value)` -/
def strAttr (cfg : Cfg) (a : Attrs) (k : String) : Option String :=
  match lookupAttr a k with
  | Option.none => Option.none
  | some (.str s) => some s
  | some (.int i) => some (toString i)
  | some .none => if cfg.noneAsStr then some "None" else Option.none

/-- `if notes and len(notes) > 0` -/
def nonEmpty (s : Option String) : Option String :=
  match s with
  | some t => if t.length = 0 then none else some t
  | none => none

def isInfixB (sub : List Char) : List Char → Bool
  | [] => sub.isEmpty
  | c :: cs => sub.isPrefixOf (c :: cs) || isInfixB sub cs

/-- `g._v_name.count(sub) >= 1` -/
def has (name sub : String) : Bool := isInfixB sub.toList name.toList

inductive Kind where | pop | proj | il | other | ambiguous
deriving Repr, DecidableEq, Inhabited

/-- which of the three name tests of `start_group` fire for a group name (repaired: `startswith`, at most one
    fires; before: `count(..) >= 1`, names that trigger more than one are declined as `ambiguous`) -/
def hasP (cfg : Cfg) (name sub : String) : Bool :=
  if cfg.prefixNames then sub.toList.isPrefixOf name.toList else has name sub

def kindOf (cfg : Cfg) (name : String) : Kind :=
  match hasP cfg name "population_", hasP cfg name "projection_",
        (hasP cfg name "inputList_" || hasP cfg name "input_list_") with
  | true, false, false => .pop
  | false, true, false => .proj
  | false, false, true => .il
  | false, false, false => .other
  | _, _, _ => .ambiguous

/-- column index lookup: the loop over `column_N` attributes, last assignment wins -/
def colIdx (cols : List (Nat × String)) (name : String) : Option Nat :=
  cols.foldl (fun acc c => if c.2 = name then some c.1 else acc) none

def cell (row : List Rat) (i : Nat) : Except Err Rat :=
  match row[i]? with
  | some v => .ok v
  | none => .error .indexError

/-- optional column: value of the cell when the column exists, the default otherwise -/
def cellOr (row : List Rat) (i : Option Nat) (dflt : Rat) : Except Err Rat :=
  match i with
  | some k => cell row k
  | none => .ok dflt

/-- required column; for a missing one the index variable keeps its initial `-1`: Python reads the LAST cell -/
def cellReq (row : List Rat) (i : Option Nat) : Except Err Rat :=
  match i with
  | some k => cell row k
  | none => cell row (row.length - 1)

/-- `mapE` with the row number -/
def mapIdxE {α β : Type} (f : Nat → α → Except Err β) : Nat → List α → Except Err (List β)
  | _, [] => .ok []
  | i, a :: as =>
    match f i a with
    | .error e => .error e
    | .ok b =>
      match mapIdxE f (i + 1) as with
      | .error e => .error e
      | .ok bs => .ok (b :: bs)

/-- the four index variables of the location branch of `parse_dataset`: the `column_N` attribute when there is one,
    else the fallback by row width (`len(d[0])`, evaluated as soon as one name is missing: `IndexError` on a table
    without rows): 3 columns = x y z, 4 columns = id x y z; any other width leaves the initial `-1` (`none`).
    Before the repair the last fallback assigned `indexY = 3` instead of `indexZ = 3`. -/
def locIdxs (cfg : Cfg) (a : Arr) : Except Err (Option Nat × Option Nat × Option Nat × Option Nat) :=
  let cid := colIdx a.cols "id"
  let cx := colIdx a.cols "x"
  let cy := colIdx a.cols "y"
  let cz := colIdx a.cols "z"
  if cid.isSome && cx.isSome && cy.isSome && cz.isSome then .ok (cid, cx, cy, cz) else
  match a.rows with
  | [] => .error .indexError
  | r0 :: _ =>
    let n := r0.length
    let fb := fun (c : Option Nat) (k3 k4 : Option Nat) =>
      match c with
      | some k => some k
      | none => if n = 3 then k3 else if n = 4 then k4 else none
    let y0 := fb cy (some 1) (some 2)
    .ok (fb cid none (some 0), fb cx (some 0) (some 1),
         (if cz.isNone && n = 4 && !cfg.loc4Fixed then some 3 else y0),
         fb cz (some 2) (if cfg.loc4Fixed then some 3 else none))

def decodeLocRow (iid ix iy iz : Option Nat) (i : Nat) (row : List Rat) : Except Err Inst := do
  let id ← match iid with
    | some k => (cell row k).map trunc
    | none => .ok (i : Int)
  let x ← cellReq row ix
  let y ← cellReq row iy
  let z ← cellReq row iz
  .ok ⟨id, x, y, z⟩

def decodeLocs (cfg : Cfg) (a : Arr) : Except Err (List Inst) :=
  match locIdxs cfg a with
  | .error e => .error e
  | .ok (iid, ix, iy, iz) => mapIdxE (decodeLocRow iid ix iy iz) 0 a.rows

def propPrefix : String := "property:"

/-- `str(fname).split(":")[1]`: the tag is cut at its first colon -/
def cutTag (cfg : Cfg) (tag : String) : String :=
  if cfg.tagWhole then tag else String.ofList (tag.toList.takeWhile (· ≠ ':'))

def propsOf (cfg : Cfg) (a : Attrs) : List (String × String) :=
  a.filterMap (fun kv =>
    if propPrefix.toList.isPrefixOf kv.1.toList then
      some (cutTag cfg (String.ofList (kv.1.toList.drop propPrefix.length)), (strAttr cfg [kv] kv.1).getD "None")
    else none)

/-- size of a population: rows of the array named like the population if there is one, else the attribute -/
def popSize (id : String) (g : Leaf) : Except Err Int :=
  match g.arrays.find? (fun a => a.name = id) with
  | some a => .ok (a.rows.length : Int)
  | none =>
    match lookupAttr g.attrs "size" with
    | some (.int n) => .ok n
    | some .none => .error .typeError         -- `size >= 0` with None
    | some (.str _) => .error .unmodelled
    | none => .error .attributeError

def popInsts (cfg : Cfg) (arrays : List Arr) : Except Err (List Inst) :=
  match arrays with
  | [] => .ok []
  | [a] => decodeLocs cfg a
  | _ => .error .unmodelled

/-- `start_group` + `parse_dataset` + `end_group` on a population group; also returns the component object that
    `handle_population` appends to the document -/
def decodePop (cfg : Cfg) (top : List Comp) (g : Leaf) : Except Err (Pop × Option Comp) :=
  match strAttr cfg g.attrs "id" with
  | none => .error .unmodelled
  | some id =>
    match strAttr cfg g.attrs "component" with
    | none => .error .typeError
    | some comp =>
      match popSize id g with
      | .error e => .error e
      | .ok size =>
        match popInsts cfg g.arrays with
        | .error e => .error e
        | .ok insts =>
          .ok (⟨id, comp, some size, if insts.isEmpty then none else some "populationList", insts, propsOf cfg g.attrs⟩,
               getById top comp)

/-- what `parse_dataset` hands to `handle_connection` for one row -/
structure RowD where
  id : Int
  pre : Int
  post : Int
  preSeg : Int
  postSeg : Int
  preFrac : Rat
  postFrac : Rat
  weight : Rat
  delay : Rat
deriving Repr, DecidableEq, Inhabited

def decodeConnRow (cfg : Cfg) (cols : List (Nat × String)) (i : Nat) (row : List Rat) : Except Err RowD := do
  let id ← match colIdx cols "id" with
    | some k => if cfg.idCol0 || k > 0 then (cell row k).map trunc else pure (i : Int)
    | none => pure (i : Int)
  let pre ← cellReq row (colIdx cols "pre_cell_id")
  let preSeg ← cellOr row (colIdx cols "pre_segment_id") 0
  let preFrac ← cellOr row (colIdx cols "pre_fraction_along") (1/2)
  let post ← cellReq row (colIdx cols "post_cell_id")
  let postSeg ← cellOr row (colIdx cols "post_segment_id") 0
  let postFrac ← cellOr row (colIdx cols "post_fraction_along") (1/2)
  let weight ← cellOr row (colIdx cols "weight") 1
  let delay ← cellOr row (colIdx cols "delay") 0
  .ok ⟨id, trunc pre, trunc post, trunc preSeg, trunc postSeg, preFrac, postFrac, weight, delay⟩

def findPop (pops : List Pop) (id : String) : Except Err Pop :=
  match pops.find? (fun p => p.id = id) with
  | some p => .ok p
  | none => .error .keyError

/-- `"../%s/%i/%s"` for a population that got instances (`type == "populationList"`), `"../%s[%i]"` otherwise -/
def pathFor (p : Pop) (i : Int) : CellRef :=
  match p.typ with
  | none => .bracket p.id i
  | some _ => .slash p.id i p.comp

def posGt (i : Option Nat) : Bool :=
  match i with
  | some k => k > 0
  | none => false

/-- chemical projection: `Connection` unless the table has a weight/delay column or the row says otherwise -/
def buildProj (id pre post syn : String) (prePop postPop : Pop) (wd : Bool) (rows : List RowD) : Proj :=
  let isPlain := fun (d : RowD) => !wd && d.delay = 0 && d.weight = 1
  let mk := fun (d : RowD) => ({ id := d.id, pre := pathFor prePop d.pre, post := pathFor postPop d.post,
                                  preSeg := d.preSeg, postSeg := d.postSeg, preFrac := d.preFrac, postFrac := d.postFrac } : Conn)
  { id := id, pre := pre, post := post, syn := syn,
    conns := (rows.filter isPlain).map mk,
    connWDs := (rows.filter (fun d => !isPlain d)).map
      (fun d => { mk d with weight := some d.weight, delay := ⟨d.delay, .ms⟩ }) }

/-- electrical / continuous projection: plain connections between two populations without instances,
    otherwise `…Instance` for weight 1 and `…InstanceW` for any other weight.  `cont`: a weight other than 1
    between populations without instances raises. -/
def buildGProj (cfg : Cfg) (cont : Bool) (id pre post syn preComp : String) (prePop postPop : Pop) (rows : List RowD) :
    Except Err GProj :=
  let instances := !prePop.insts.isEmpty || !postPop.insts.isEmpty
  let mkP := fun (d : RowD) => ({ id := d.id, pre := .plain d.pre, post := .plain d.post,
                                   preSeg := d.preSeg, postSeg := d.postSeg, preFrac := d.preFrac, postFrac := d.postFrac,
                                   syn := syn, preComp := preComp } : Conn)
  let mkI := fun (d : RowD) => ({ id := d.id, pre := pathFor prePop d.pre, post := pathFor postPop d.post,
                                   preSeg := d.preSeg, postSeg := d.postSeg, preFrac := d.preFrac, postFrac := d.postFrac,
                                   syn := syn, preComp := preComp } : Conn)
  if !instances then
    if (cont || cfg.elecRefuseW) && rows.any (fun d => d.weight ≠ 1) then .error .exception
    else .ok { id := id, pre := pre, post := post, plain := rows.map mkP }
  else
    .ok { id := id, pre := pre, post := post,
          insts := (rows.filter (fun d => d.weight = 1)).map mkI,
          instWs := (rows.filter (fun d => d.weight ≠ 1)).map (fun d => { mkI d with weight := some d.weight }) }

inductive Item where
  | proj (p : Proj)
  | eproj (p : GProj)
  | cproj (p : GProj)
  | il (l : IList)
  | nothing
deriving Repr, DecidableEq, Inhabited

def silentComp (projId : String) : Comp := ⟨"silentSynapse", "silentSyn_" ++ projId, "<generated>"⟩

structure PHdr where
  id : String
  typ : String
  pre : String
  post : String
  syn : String
  preSyn : String
deriving Repr, DecidableEq, Inhabited

/-- `start_group` on a projection group -/
def projHdr (cfg : Cfg) (a : Attrs) : Except Err PHdr :=
  match strAttr cfg a "id", strAttr cfg a "presynapticPopulation", strAttr cfg a "postsynapticPopulation" with
  | some id, some pre, some post =>
    let typ := (strAttr cfg a "type").getD "projection"
    .ok { id := id, typ := if typ.length = 0 then "projection" else typ, pre := pre, post := post,
          syn := match strAttr cfg a "synapse" with
            | some s => s
            | none => (strAttr cfg a "postComponent").getD "",
          preSyn := (strAttr cfg a "preComponent").getD "" }
  | _, _, _ => .error .unmodelled

def chemItem (h : PHdr) (pops : List Pop) (wd : Bool) (rows : List RowD) : Except Err Item :=
  if rows.isEmpty then .ok (.proj { id := h.id, pre := h.pre, post := h.post, syn := h.syn }) else
  match findPop pops h.pre with
  | .error e => .error e
  | .ok prePop =>
    match findPop pops h.post with
    | .error e => .error e
    | .ok postPop => .ok (.proj (buildProj h.id h.pre h.post h.syn prePop postPop wd rows))

def gItem (cfg : Cfg) (cont : Bool) (h : PHdr) (syn preComp : String) (pops : List Pop) (rows : List RowD) : Except Err Item :=
  if rows.isEmpty then .ok (if cont then .cproj { id := h.id, pre := h.pre, post := h.post }
                            else .eproj { id := h.id, pre := h.pre, post := h.post }) else
  match findPop pops h.pre with
  | .error e => .error e
  | .ok prePop =>
    match findPop pops h.post with
    | .error e => .error e
    | .ok postPop =>
      match buildGProj cfg cont h.id h.pre h.post syn preComp prePop postPop rows with
      | .error e => .error e
      | .ok p => .ok (if cont then .cproj p else .eproj p)

/-- the dataset of a projection group (`parse_dataset` → `handle_projection`, `handle_connection`) and
    `end_group`/`finalise_projection`; second component: the objects appended to the document (synapse,
    pre-synapse, generated silent synapse) in order -/
def decodeProjBody (cfg : Cfg) (top : List Comp) (pops : List Pop) (h : PHdr) (arrays : List Arr) :
    Except Err (Item × List (Option Comp)) :=
  match arrays with
  | [] =>
    -- no dataset: `handle_projection` is never called; `finalise_projection` adds an empty projection for the
    -- chemical and electrical kinds only
    if h.typ = "projection" then .ok (.proj { id := h.id, pre := h.pre, post := h.post, syn := h.syn }, [])
    else if h.typ = "electricalProjection" then .ok (.eproj { id := h.id, pre := h.pre, post := h.post }, [])
    else .ok (.nothing, [])
  | [a] =>
    let synObj := getById top h.syn
    let preObj := if h.preSyn.length > 0 then getById top h.preSyn else none
    match mapIdxE (decodeConnRow cfg a.cols) 0 a.rows with
    | .error e => .error e
    | .ok rows =>
      if h.typ = "projection" then
        match chemItem h pops (posGt (colIdx a.cols "weight") || posGt (colIdx a.cols "delay")) rows with
        | .error e => .error e
        | .ok it => .ok (it, [synObj, preObj])
      else if h.typ = "electricalProjection" then
        match gItem cfg false h h.syn "" pops rows with
        | .error e => .error e
        | .ok it => .ok (it, [synObj, preObj])
      else if h.typ = "continuousProjection" then
        let postId := match synObj with
          | some c => c.id
          | none => h.syn
        let preId := match preObj with
          | some c => c.id
          | none => "silentSyn_" ++ h.id
        let extra := match preObj with
          | some _ => []
          | none => [some (silentComp h.id)]
        match gItem cfg true h postId preId pops rows with
        | .error e => .error e
        | .ok it => .ok (it, [synObj, preObj] ++ extra)
      else .error .unmodelled
  | _ => .error .unmodelled

def decodeProjLeaf (cfg : Cfg) (top : List Comp) (pops : List Pop) (g : Leaf) :
    Except Err (Item × List (Option Comp)) :=
  match projHdr cfg g.attrs with
  | .error e => .error e
  | .ok h => decodeProjBody cfg top pops h g.arrays

structure InD where
  id : Int
  cell : Int
  seg : Int
  frac : Rat
  weight : Rat
deriving Repr, DecidableEq, Inhabited

def decodeInpRow (cols : List (Nat × String)) (i : Nat) (row : List Rat) : Except Err InD := do
  let id ← match colIdx cols "id" with
    | some k => (cell row k).map trunc
    | none => pure (i : Int)
  let tid ← cellReq row (colIdx cols "target_cell_id")
  let seg ← cellOr row (colIdx cols "segment_id") 0
  let frac ← cellOr row (colIdx cols "fraction_along") (1/2)
  let weight ← cellOr row (colIdx cols "weight") 1
  .ok ⟨id, trunc tid, trunc seg, frac, weight⟩

/-- `handle_single_input`: `Input` for weight 1, `InputW` otherwise; segment / fraction only set when they differ
    from the defaults -/
def mkInp (pop : Pop) (d : InD) : Inp :=
  { id := d.id, target := pathFor pop d.cell,
    seg := if d.seg ≠ 0 then some d.seg else none,
    frac := if d.frac ≠ 1/2 then some d.frac else none }

def buildIL (id comp pop : String) (p : Pop) (rows : List InD) : IList :=
  { id := id, comp := comp, pop := pop,
    inputs := (rows.filter (fun d => d.weight = 1)).map (mkInp p),
    inputWs := (rows.filter (fun d => d.weight ≠ 1)).map (fun d => { mkInp p d with weight := some d.weight }) }

def ilBody (top : List Comp) (pops : List Pop) (id comp pop : String) (arrays : List Arr) :
    Except Err (Item × List (Option Comp)) :=
  match arrays with
  | [] => .ok (.il { id := id, comp := comp, pop := pop }, [getById top comp])
  | [a] =>
    match mapIdxE (decodeInpRow a.cols) 0 a.rows with
    | .error e => .error e
    | .ok rows =>
      if rows.isEmpty then .ok (.il { id := id, comp := comp, pop := pop }, [getById top comp]) else
      match findPop pops pop with
      | .error e => .error e
      | .ok p => .ok (.il (buildIL id comp pop p rows), [getById top comp])
  | _ => .error .unmodelled

def decodeILLeaf (cfg : Cfg) (top : List Comp) (pops : List Pop) (g : Leaf) :
    Except Err (Item × List (Option Comp)) :=
  match strAttr cfg g.attrs "id" with
  | none => .error .unmodelled
  | some id =>
    match strAttr cfg g.attrs "component" with
    | none => .error .typeError
    | some comp =>
      match strAttr cfg g.attrs "population" with
      | none => .error .unmodelled
      | some pop => ilBody top pops id comp pop g.arrays

def decodeOther (cfg : Cfg) (top : List Comp) (pops : List Pop) (g : Leaf) :
    Except Err (Item × List (Option Comp)) :=
  match kindOf cfg g.name with
  | .proj => decodeProjLeaf cfg top pops g
  | .il => decodeILLeaf cfg top pops g
  | .other => .ok (.nothing, [])
  | _ => .error .unmodelled

def Item.proj? : Item → Option Proj | .proj p => some p | _ => none
def Item.eproj? : Item → Option GProj | .eproj p => some p | _ => none
def Item.cproj? : Item → Option GProj | .cproj p => some p | _ => none
def Item.il? : Item → Option IList | .il l => some l | _ => none

/-- `parse_group` on the `network` group: population groups first, then the others; second component: the
    objects appended to the document on the way, in order -/
def decodeNet (cfg : Cfg) (top : List Comp) (g : NetG) : Except Err (Net × List (Option Comp)) := do
  if g.leaves.any (fun l => kindOf cfg l.name = .ambiguous) then .error .unmodelled else
  let id ← match strAttr cfg g.attrs "id" with
    | some s => pure s
    | none => .error .unmodelled
  let pr ← mapE (decodePop cfg top) (g.leaves.filter (fun l => kindOf cfg l.name = .pop))
  let pops := pr.map (·.1)
  let ir ← mapE (decodeOther cfg top pops) (g.leaves.filter (fun l => kindOf cfg l.name ≠ .pop))
  let items := ir.map (·.1)
  .ok ({ id := id, notes := nonEmpty (strAttr cfg g.attrs "notes"),
         temperature := strAttr cfg g.attrs "temperature",
         pops := pops, projs := items.filterMap Item.proj?, eprojs := items.filterMap Item.eproj?,
         cprojs := items.filterMap Item.cproj?, ilists := items.filterMap Item.il? },
       pr.map (·.2) ++ (ir.map (·.2)).flatten)

/-- `NeuroMLHdf5Loader.load`: parse, build, then merge the embedded XML -/
def decodeDoc (cfg : Cfg) (h : H5) : Except Err Doc := do
  let id ← match strAttr cfg h.attrs "id" with
    | some s => pure s
    | none => .error .attributeError
  let top := h.top.getD []
  let (nets, objs) ← match h.net with
    | none => pure (([] : List Net), ([] : List (Option Comp)))
    | some g => do
      let (n, objs) ← decodeNet cfg top g
      pure ([n], objs)
  .ok { id := id, notes := nonEmpty (strAttr cfg h.attrs "notes"), nets := nets,
        top := addAll top (objs.foldl appendObj []) }

def roundTrip (cfg : Cfg) (d : Doc) : Except Err Doc :=
  match encodeDoc cfg d with
  | .error e => .error e
  | .ok h => decodeDoc cfg h

/-! ## the semantic projection the property speaks about -/

structure SemConn where
  id : Option Int            -- `none` where the format does not store it (chemical projections)
  pre : String × Int
  post : String × Int
  preSeg : Int
  postSeg : Int
  preFrac : Rat
  postFrac : Rat
  weight : Rat               -- 1 when the class has none
  delay : Rat                -- ms; 0 when the class has none
  syn : String               -- electrical: synapse, continuous: postComponent, chemical: ""
  preComp : String
deriving Repr, DecidableEq, Inhabited

structure SemProj where
  id : String
  pre : String
  post : String
  syn : String               -- chemical projections; "" otherwise
  conns : List SemConn
deriving Repr, DecidableEq, Inhabited

structure SemPop where
  id : String
  comp : String
  size : Int
  instIds : List Int
  locs : List (Rat × Rat × Rat)
  props : List (String × String)
deriving Repr, DecidableEq, Inhabited

structure SemInp where
  id : Int
  cell : String × Int
  seg : Int
  frac : Rat
  weight : Rat
deriving Repr, DecidableEq, Inhabited

structure SemIL where
  id : String
  comp : String
  pop : String
  inputs : List SemInp
deriving Repr, DecidableEq, Inhabited

structure SemNet where
  id : String
  notes : Option String
  temperature : Option String
  pops : List SemPop
  projs : List SemProj
  eprojs : List SemProj
  cprojs : List SemProj
  ils : List SemIL
deriving Repr, DecidableEq, Inhabited

structure SemDoc where
  id : String
  notes : Option String
  nets : List SemNet
deriving Repr, DecidableEq, Inhabited

/-- own reading of a cell reference: population named in the path (for the bare form: the projection's) -/
def endOf (dflt : String) : CellRef → String × Int
  | .plain i => (dflt, i)
  | .bracket p i => (p, i)
  | .slash p i _ => (p, i)

def delayMsSem (d : Delay) : Rat :=
  match d.u with
  | .ms => d.v
  | .s => d.v * 1000
  | .us => d.v / 1000

def semConn (withId : Bool) (pre post : String) (c : Conn) : SemConn :=
  { id := if withId then some c.id else none, pre := endOf pre c.pre, post := endOf post c.post,
    preSeg := c.preSeg, postSeg := c.postSeg, preFrac := c.preFrac, postFrac := c.postFrac,
    weight := c.weight.getD 1, delay := delayMsSem c.delay, syn := c.syn, preComp := c.preComp }

/-- rows in table order: `<connection>`s then `<connectionWD>`s -/
def semProj (p : Proj) : SemProj :=
  { id := p.id, pre := p.pre, post := p.post, syn := p.syn,
    conns := (p.conns ++ p.connWDs).map (semConn false p.pre p.post) }

def semGProj (p : GProj) : SemProj :=
  { id := p.id, pre := p.pre, post := p.post, syn := "",
    conns := (p.plain ++ p.insts ++ p.instWs).map (semConn true p.pre p.post) }

def semPop (p : Pop) : SemPop :=
  { id := p.id, comp := p.comp,
    size := if p.insts.isEmpty then p.size.getD 0 else p.insts.length,
    instIds := p.insts.map (·.id), locs := p.insts.map (fun i => (i.x, i.y, i.z)), props := p.props }

/-- the specification of the input accessors (no truthiness defect): unset → 0 / 0.5 / 1 -/
def semInp (pop : String) (i : Inp) : SemInp :=
  { id := i.id, cell := endOf pop i.target, seg := i.seg.getD 0, frac := i.frac.getD (1/2), weight := i.weight.getD 1 }

def semIL (l : IList) : SemIL :=
  { id := l.id, comp := l.comp, pop := l.pop, inputs := (l.inputs ++ l.inputWs).map (semInp l.pop) }

def semNet (n : Net) : SemNet :=
  { id := n.id, notes := nonEmpty n.notes, temperature := nonEmpty n.temperature,
    pops := n.pops.map semPop, projs := n.projs.map semProj, eprojs := n.eprojs.map semGProj,
    cprojs := n.cprojs.map semGProj, ils := n.ilists.map semIL }

def sem (d : Doc) : SemDoc := { id := d.id, notes := nonEmpty d.notes, nets := d.nets.map semNet }

/-! float32 view of a semantic value, and the canonical order inside electrical / continuous projections and
    input lists: entries of weight 1 first, then the weighted ones, each group in row order (the two classes
    `…Instance` / `…InstanceW`, `input` / `inputW` are separate child lists of the element) -/

def rConn (r : Rat → Rat) (c : SemConn) : SemConn :=
  { c with preFrac := r c.preFrac, postFrac := r c.postFrac, weight := r c.weight, delay := r c.delay }

def rProj (r : Rat → Rat) (p : SemProj) : SemProj := { p with conns := p.conns.map (rConn r) }

def canonConns (l : List SemConn) : List SemConn := l.filter (fun c => c.weight = 1) ++ l.filter (fun c => c.weight ≠ 1)

def canonProj (p : SemProj) : SemProj := { p with conns := canonConns p.conns }

def rPop (r : Rat → Rat) (p : SemPop) : SemPop := { p with locs := p.locs.map (fun l => (r l.1, r l.2.1, r l.2.2)) }

def rInp (r : Rat → Rat) (i : SemInp) : SemInp := { i with frac := r i.frac, weight := r i.weight }

def canonInps (l : List SemInp) : List SemInp := l.filter (fun c => c.weight = 1) ++ l.filter (fun c => c.weight ≠ 1)

def rIL (r : Rat → Rat) (l : SemIL) : SemIL := { l with inputs := canonInps (l.inputs.map (rInp r)) }

/-- what the property expects to find after the round trip: every table value rounded to float32, weight-1
    entries before weighted ones -/
def expectNet (r : Rat → Rat) (n : SemNet) : SemNet :=
  { n with pops := n.pops.map (rPop r), projs := n.projs.map (rProj r),
           eprojs := n.eprojs.map (fun p => canonProj (rProj r p)),
           cprojs := n.cprojs.map (fun p => canonProj (rProj r p)),
           ils := n.ils.map (rIL r) }

def expect (r : Rat → Rat) (d : SemDoc) : SemDoc := { d with nets := d.nets.map (expectNet r) }

/-! ## the optimized loader: `NeuroMLHdf5Loader.load(optimized=True)`

`NeuroMLHdf5Parser(None, optimized=True)` builds `NetworkContainer` / `PopulationContainer` / `ProjectionContainer` /
`InputListContainer` objects whose lists (`InstanceList`, `ConnectionList`, `InputsList`, `hdf5/NetworkContainer.py`)
keep the table and create one `Instance` / `Connection` / `Input` per row when they are read.  The model reads every
row at once (an `assert` that fails while reading = `Err.assertionError`).  `popNames = false` is the code before the
C05 repair: the lists were created without their population names (`"../None/3/???"`). -/

/-- `OptimizedList._get_index_or_add(name, default)` -/
def optIdx (cols : List (Nat × String)) (name : String) (dflt : Nat) : Nat := (colIdx cols name).getD dflt

/-- `InstanceList.__getitem__` -/
def optLocRow (cols : List (Nat × String)) (i : Nat) (row : List Rat) : Except Err Inst := do
  if row.length = 4 then
    let id ← cell row (optIdx cols "id" 0)
    if id ≠ (i : Rat) then throw .assertionError
  let x ← cell row (optIdx cols "x" 1)
  let y ← cell row (optIdx cols "y" 2)
  let z ← cell row (optIdx cols "z" 3)
  .ok ⟨i, x, y, z⟩

/-- `OptimizedList._get_value(i, name, default)` -/
def optVal (cols : List (Nat × String)) (row : List Rat) (name : String) (dflt : Rat) : Except Err Rat :=
  cellOr row (colIdx cols name) dflt

/-- `ConnectionList.__getitem__`: always a plain `Connection`; weight and delay columns are not looked at -/
def optConnRow (pre post : String) (cols : List (Nat × String)) (i : Nat) (row : List Rat) : Except Err Conn := do
  let id ← match colIdx cols "id" with
    | some k =>
      if k > 0 then do
        let v ← cell row k
        let c0 ← cell row 0
        if c0 ≠ (i : Rat) then throw .assertionError
        pure (trunc v)
      else pure (i : Int)
    | none => pure (i : Int)
  let pc ← cell row (optIdx cols "pre_cell_id" 1)
  let qc ← cell row (optIdx cols "post_cell_id" 2)
  let ps ← optVal cols row "pre_segment_id" 0
  let qs ← optVal cols row "post_segment_id" 0
  let pf ← optVal cols row "pre_fraction_along" (1/2)
  let qf ← optVal cols row "post_fraction_along" (1/2)
  .ok { id := id, pre := .slash pre (trunc pc) "???", post := .slash post (trunc qc) "???",
        preSeg := trunc ps, postSeg := trunc qs, preFrac := pf, postFrac := qf }

/-- `InputsList.__getitem__`: `assert id == index`; always a plain `Input` with segment and fraction set -/
def optInpRow (pop : String) (cols : List (Nat × String)) (i : Nat) (row : List Rat) : Except Err Inp := do
  let id ← cell row (optIdx cols "id" 0)
  if id ≠ (i : Rat) then throw .assertionError
  let t ← cell row (optIdx cols "target_cell_id" 1)
  let sg ← cell row (optIdx cols "segment_id" 1)
  let fr ← cell row (optIdx cols "fraction_along" 1)
  .ok { id := i, target := .slash pop (trunc t) "???", seg := some (trunc sg), frac := some fr }

def popName (popNames : Bool) (s : String) : String := if popNames then s else "None"

/-- `_get_node_size` without the `size >= 0` test of `NetworkBuilder`: a stored `None` stays `None` -/
def popSizeOpt (id : String) (g : Leaf) : Except Err (Option Int) :=
  match g.arrays.find? (fun a => a.name = id) with
  | some a => .ok (some (a.rows.length : Int))
  | none =>
    match lookupAttr g.attrs "size" with
    | some (.int n) => .ok (some n)
    | some .none => .ok none
    | some (.str _) => .error .unmodelled
    | none => .error .attributeError

def decodePopOpt (cfg : Cfg) (g : Leaf) : Except Err Pop :=
  match strAttr cfg g.attrs "id" with
  | none => .error .unmodelled
  | some id =>
    match popSizeOpt id g with
    | .error e => .error e
    | .ok size =>
      match g.arrays with
      | [] => .ok ⟨id, (strAttr cfg g.attrs "component").getD "None", size, none, [], propsOf cfg g.attrs⟩
      | [a] =>
        match mapIdxE (optLocRow a.cols) 0 a.rows with
        | .error e => .error e
        | .ok insts => .ok ⟨id, (strAttr cfg g.attrs "component").getD "None", size, none, insts, propsOf cfg g.attrs⟩
      | _ => .error .unmodelled

def decodeOtherOpt (cfg : Cfg) (popNames : Bool) (g : Leaf) : Except Err Item :=
  match kindOf cfg g.name with
  | .proj =>
    match projHdr cfg g.attrs with
    | .error e => .error e
    | .ok h =>
      if h.typ = "electricalProjection" || h.typ = "continuousProjection" then .error .exception else
      match g.arrays with
      | [] => .ok (.proj { id := h.id, pre := h.pre, post := h.post, syn := h.syn })
      | [a] =>
        match mapIdxE (optConnRow (popName popNames h.pre) (popName popNames h.post) a.cols) 0 a.rows with
        | .error e => .error e
        | .ok cs => .ok (.proj { id := h.id, pre := h.pre, post := h.post, syn := h.syn, conns := cs })
      | _ => .error .unmodelled
  | .il =>
    match strAttr cfg g.attrs "id", strAttr cfg g.attrs "component", strAttr cfg g.attrs "population" with
    | some id, some comp, some pop =>
      match g.arrays with
      | [] => .ok (.il { id := id, comp := comp, pop := pop })
      | [a] =>
        match mapIdxE (optInpRow (popName popNames pop) a.cols) 0 a.rows with
        | .error e => .error e
        | .ok is => .ok (.il { id := id, comp := comp, pop := pop, inputs := is })
      | _ => .error .unmodelled
    | _, _, _ => .error .unmodelled
  | .other => .ok .nothing
  | _ => .error .unmodelled

def decodeNetOpt (cfg : Cfg) (popNames : Bool) (g : NetG) : Except Err Net := do
  if g.leaves.any (fun l => kindOf cfg l.name = .ambiguous) then .error .unmodelled else
  let id ← match strAttr cfg g.attrs "id" with
    | some s => pure s
    | none => .error .unmodelled
  let pops ← mapE (decodePopOpt cfg) (g.leaves.filter (fun l => kindOf cfg l.name = .pop))
  let items ← mapE (decodeOtherOpt cfg popNames) (g.leaves.filter (fun l => kindOf cfg l.name ≠ .pop))
  .ok { id := id, notes := strAttr cfg g.attrs "notes", temperature := strAttr cfg g.attrs "temperature",
        pops := pops, projs := items.filterMap Item.proj?, ilists := items.filterMap Item.il? }

/-- a file without a `network` group: `parse` now starts with `self.optimizedNetwork = None` and `get_nml_doc` appends
    the network only when there is one; before the repair `self.optimizedNetwork` was never assigned (AttributeError) -/
def decodeDocOpt (cfg : Cfg) (popNames : Bool) (h : H5) : Except Err Doc := do
  let id ← match strAttr cfg h.attrs "id" with
    | some s => pure s
    | none => .error .attributeError
  match h.net with
  | none =>
    if cfg.optNoNet then .ok { id := id, notes := strAttr cfg h.attrs "notes", nets := [], top := addAll (h.top.getD []) [] }
    else .error .attributeError
  | some g =>
    let n ← decodeNetOpt cfg popNames g
    .ok { id := id, notes := strAttr cfg h.attrs "notes", nets := [n], top := addAll (h.top.getD []) [] }

def roundTripOpt (cfg : Cfg) (popNames : Bool) (d : Doc) : Except Err Doc :=
  match encodeDoc cfg d with
  | .error e => .error e
  | .ok h => decodeDocOpt cfg popNames h

/-! ## float32: round to nearest, ties to even, on rationals (subnormals included; no overflow to infinity: the values
    of the property are far from 3.4e38) — what `numpy.zeros(.., numpy.float32)[i, j] = v` does to a double `v` -/

def pow2 (e : Int) : Rat :=
  if e ≥ 0 then ((2 ^ e.toNat : Nat) : Rat) else 1 / ((2 ^ (-e).toNat : Nat) : Rat)

def roundHalfEven (q : Rat) : Int :=
  let f := q.floor
  let d := q - (f : Rat)
  if d < 1/2 then f else if d > 1/2 then f + 1 else if f % 2 = 0 then f else f + 1

def f32 (x : Rat) : Rat :=
  if x = 0 then 0 else
  let a := if x < 0 then -x else x
  let e0 : Int := (Nat.log2 a.num.natAbs : Int) - (Nat.log2 a.den : Int)
  let e := if pow2 e0 ≤ a then (if pow2 (e0 + 1) ≤ a then e0 + 1 else e0) else e0 - 1
  let e := if e < -126 then -126 else e
  let ulp := pow2 (e - 23)
  let v := (roundHalfEven (a / ulp) : Rat) * ulp
  if x < 0 then -v else v

/-! ## members of the network subtree and what the layout does with each

`Fate.stored`: travels through a group attribute or a table column; `derived`: recomputed on load from stored data;
`refused`: the writer raises when it is present; `dropped`: written and loaded without an exception, the value is
gone.  The table is compared with the real code member by member on every run (stream `fate`) and with the list of
members that `nml.py` declares for these classes (`Gen/Hdf5Layout.lean`, `Props/C05Gen.lean`). -/

inductive Fate where | stored | derived | refused | dropped
deriving Repr, DecidableEq, Inhabited

def memberFate : List (String × String × Fate) := [
  ("NeuroMLDocument", "id", .stored), ("NeuroMLDocument", "notes", .stored), ("NeuroMLDocument", "metaid", .dropped),
  ("NeuroMLDocument", "annotation", .dropped), ("NeuroMLDocument", "networks", .stored),
  ("Network", "id", .stored), ("Network", "notes", .stored), ("Network", "temperature", .stored),
  ("Network", "type", .derived), ("Network", "metaid", .dropped), ("Network", "properties", .dropped),
  ("Network", "annotation", .dropped), ("Network", "neuro_lex_id", .dropped), ("Network", "spaces", .dropped),
  ("Network", "regions", .dropped), ("Network", "extracellular_properties", .dropped), ("Network", "cell_sets", .dropped),
  ("Network", "populations", .stored), ("Network", "synaptic_connections", .refused),
  ("Network", "explicit_inputs", .refused), ("Network", "projections", .stored),
  ("Network", "electrical_projections", .stored), ("Network", "continuous_projections", .stored),
  ("Network", "input_lists", .stored),
  ("Population", "id", .stored), ("Population", "component", .stored), ("Population", "size", .stored),
  ("Population", "type", .derived), ("Population", "properties", .stored), ("Population", "instances", .stored),
  ("Population", "metaid", .dropped), ("Population", "notes", .dropped), ("Population", "annotation", .dropped),
  ("Population", "extracellular_properties", .dropped), ("Population", "neuro_lex_id", .dropped),
  ("Population", "layout", .dropped),
  ("Property", "tag", .stored), ("Property", "value", .stored),
  ("Instance", "id", .derived), ("Instance", "i", .dropped), ("Instance", "j", .dropped), ("Instance", "k", .dropped),
  ("Instance", "location", .stored),
  ("Location", "x", .stored), ("Location", "y", .stored), ("Location", "z", .stored),
  ("Projection", "id", .stored), ("Projection", "presynaptic_population", .stored),
  ("Projection", "postsynaptic_population", .stored), ("Projection", "synapse", .stored),
  ("Projection", "connections", .stored), ("Projection", "connection_wds", .stored),
  ("Connection", "id", .derived), ("Connection", "neuro_lex_id", .dropped), ("Connection", "pre_cell_id", .stored),
  ("Connection", "pre_segment_id", .stored), ("Connection", "pre_fraction_along", .stored),
  ("Connection", "post_cell_id", .stored), ("Connection", "post_segment_id", .stored),
  ("Connection", "post_fraction_along", .stored),
  ("ConnectionWD", "id", .derived), ("ConnectionWD", "neuro_lex_id", .dropped), ("ConnectionWD", "pre_cell_id", .stored),
  ("ConnectionWD", "pre_segment_id", .stored), ("ConnectionWD", "pre_fraction_along", .stored),
  ("ConnectionWD", "post_cell_id", .stored), ("ConnectionWD", "post_segment_id", .stored),
  ("ConnectionWD", "post_fraction_along", .stored), ("ConnectionWD", "weight", .stored), ("ConnectionWD", "delay", .stored),
  ("ElectricalProjection", "id", .stored), ("ElectricalProjection", "presynaptic_population", .stored),
  ("ElectricalProjection", "postsynaptic_population", .stored), ("ElectricalProjection", "electrical_connections", .stored),
  ("ElectricalProjection", "electrical_connection_instances", .stored),
  ("ElectricalProjection", "electrical_connection_instance_ws", .stored),
  ("ContinuousProjection", "id", .stored), ("ContinuousProjection", "presynaptic_population", .stored),
  ("ContinuousProjection", "postsynaptic_population", .stored), ("ContinuousProjection", "continuous_connections", .stored),
  ("ContinuousProjection", "continuous_connection_instances", .stored),
  ("ContinuousProjection", "continuous_connection_instance_ws", .stored),
  ("InputList", "id", .stored), ("InputList", "populations", .stored), ("InputList", "component", .stored),
  ("InputList", "input", .stored), ("InputList", "input_ws", .stored),
  ("Input", "id", .stored), ("Input", "target", .stored), ("Input", "destination", .dropped),
  ("Input", "segment_id", .stored), ("Input", "fraction_along", .stored),
  ("InputW", "id", .stored), ("InputW", "target", .stored), ("InputW", "destination", .dropped),
  ("InputW", "segment_id", .stored), ("InputW", "fraction_along", .stored), ("InputW", "weight", .stored)]

/-- the seven classes of electrical / continuous connections share their members -/
def gapMembers (cls : String) (third : List (String × Fate)) : List (String × String × Fate) :=
  ([("id", Fate.stored), ("neuro_lex_id", .dropped), ("pre_cell", .stored), ("pre_segment", .stored),
    ("pre_fraction_along", .stored), ("post_cell", .stored), ("post_segment", .stored),
    ("post_fraction_along", .stored)] ++ third).map (fun mf => (cls, mf.1, mf.2))

def memberFateAll : List (String × String × Fate) :=
  memberFate ++
  gapMembers "ElectricalConnection" [("synapse", .stored)] ++
  gapMembers "ElectricalConnectionInstance" [("synapse", .stored)] ++
  gapMembers "ElectricalConnectionInstanceW" [("synapse", .stored), ("weight", .stored)] ++
  gapMembers "ContinuousConnection" [("pre_component", .stored), ("post_component", .stored)] ++
  gapMembers "ContinuousConnectionInstance" [("pre_component", .stored), ("post_component", .stored)] ++
  gapMembers "ContinuousConnectionInstanceW" [("pre_component", .stored), ("post_component", .stored), ("weight", .stored)]

def fateOf (cls member : String) : Option Fate :=
  (memberFateAll.find? (fun r => r.1 = cls && r.2.1 = member)).map (·.2.2)

/-- a document together with the members the structural model does not carry: `(class, member)` pairs that are set
    (to a non-default value) on the document itself / somewhere in its network subtree -/
structure XDoc where
  doc : Doc
  extras : List (String × String) := []
deriving Repr, DecidableEq, Inhabited

/-- the writer looks at none of them (bug-for-bug: no guard like the one for `synapticConnection`), the loader
    creates none -/
def roundTripX (cfg : Cfg) (x : XDoc) : Except Err XDoc :=
  match roundTrip cfg x.doc with
  | .error e => .error e
  | .ok d => .ok { doc := d, extras := [] }

structure XSem where
  sem : SemDoc
  extras : List (String × String)
deriving Repr, DecidableEq, Inhabited

def semX (x : XDoc) : XSem := ⟨sem x.doc, x.extras⟩
def expectX (r : Rat → Rat) (s : XSem) : XSem := ⟨expect r s.sem, s.extras⟩

end NmlVerif.Hdf5
