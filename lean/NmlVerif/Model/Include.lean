/-
Model of include resolution: `neuroml/loaders.py` (`read_neuroml2_file`, `read_neuroml2_string`,
`_read_neuroml2`, `NeuroMLHdf5Loader.load`), `neuroml/hdf5/NeuroMLHdf5Parser.py` (`parse`: the includes of
the XML embedded in an HDF5 file) and `neuroml/utils.py` (`add_all_to_document`).  Mathlib-free, executable.

A path is the list of its components (absolute, normalised, relative to the root of the file tree).  A file has
a kind (decided by its extension), the hrefs of its `<include>` elements in document order, and its top-level
components in document order; a component is `(member list, id, payload)` — the payload lets the
correspondence check see *which* copy of an id survived de-duplication.

Second pass: components may have NO id (`Ident.absent`: the class has no `id` attribute — `Property`,
`ComponentType`, `IntracellularProperties` — so `hasattr(c, "id")` is false and the merge never recognises a
second copy) or an id that is `None` (`Ident.unset`: an id-bearing class whose attribute is missing in the file;
`None == None` is true, so two such components in one list collide).  A successful read also returns the *read
log*: every file parsed, in the order it was parsed.  `sh` selects how an HDF5 file's embedded includes are
resolved: `false` = today's code (the HDF5 parser starts a list of its own), `true` = the proposed repair
`fixes/C06-hdf5-shared-include-list.patch` (the caller's list is passed through).
-/
namespace NmlVerif.Include

abbrev Path := List String

inductive Kind where
  | xml    -- *.nml / *.xml
  | h5     -- *.nml.h5
  | other  -- anything else: `Exception("Unrecognised extension")`
deriving Repr, DecidableEq, Inhabited

inductive Ident where
  | absent            -- no `id` attribute on the class: `hasattr(c, "id")` is False
  | unset             -- `c.id is None`
  | val (s : String)
deriving Repr, DecidableEq, Inhabited

structure Comp where
  list : String
  id : Ident
  payload : String
deriving Repr, DecidableEq, Inhabited

structure File where
  hrefs : List (List String)
  comps : List Comp
deriving Repr, Inhabited

abbrev FS := Path → Option File

inductive Res where
  | outOfFuel
  | missing                      -- `sys.exit()` in `read_neuroml2_file`
  | badExt                       -- `Exception("Unrecognised extension on file")`
  | ok (al : List Path) (log : List Path) (doc : List Comp)
deriving Repr, DecidableEq

def hasSuffix (s suf : String) : Bool := suf.toList.isSuffixOf s.toList

/-- how the include loop classifies a resolved location by its extension -/
def kindOf (p : Path) : Kind :=
  match p.getLast? with
  | none => .other
  | some s =>
    if hasSuffix s ".nml.h5" then .h5
    else if hasSuffix s ".nml" || hasSuffix s ".xml" then .xml
    else .other

/-- how `_read_neuroml2` picks the loader for the file it was given -/
def entryIsH5 (p : Path) : Bool :=
  match p.getLast? with
  | none => false
  | some s => hasSuffix s ".h5" || hasSuffix s ".hdf5"

/-- `os.path.normpath` on component lists (no symlinks): drop `.` and empty components, pop on `..`. -/
def norm (p : List String) : Path :=
  p.foldl (fun acc c => if c = "." ∨ c = "" then acc else if c = ".." then acc.dropLast else acc ++ [c]) []

/-- an href that starts with `/` (first component empty) -/
def isAbs (href : List String) : Bool := href.head? = some ""

/-- `os.path.join(base, href)`: an absolute href discards the base -/
def join (base : Path) (href : List String) : List String := if isAbs href then href else base ++ href

/-- the code's rule: a href that exists relative to the working directory wins (`os.path.exists(href)`,
    `os.path.abspath(href)`), otherwise it is taken relative to the including file's directory
    (`os.path.abspath(os.path.join(base_path_to_use, href))`). -/
def resolveHref (fs : FS) (cwd base : Path) (href : List String) : Path :=
  if (fs (norm (join cwd href))).isSome then norm (join cwd href) else norm (join base href)

/-- `hasattr(c, "id") and c.id == entry.id`, inside one member list.  (A list mixing classes with and without
    an `id` attribute cannot come out of the parser; the real expression would raise `AttributeError` on it.) -/
def same (t c : Comp) : Bool := decide (t.list = c.list ∧ t.id ≠ .absent ∧ t.id = c.id)

def idless (c : Comp) : Bool := decide (c.id = .absent)

/-- `add_all_to_document(src, tgt)`: append every entry for which no element of the same target list has
    an `id` attribute equal to the entry's. -/
def addOne (tgt : List Comp) (c : Comp) : List Comp :=
  if tgt.any (fun t => same t c) then tgt else tgt ++ [c]

def addAll (src tgt : List Comp) : List Comp := src.foldl addOne tgt

/-- one iteration of the include loop (the file is marked *before* it is read). `rec` reads a file and
    resolves its includes; `log` collects the files parsed. -/
def step (sh : Bool) (fs : FS) (cwd base : Path) (rec : Path → List Path → Res) (acc : Res)
    (href : List String) : Res :=
  match acc with
  | .ok al log doc =>
    let loc := resolveHref fs cwd base href
    if loc ∈ al then .ok al log doc else
      match kindOf loc with
      | .other => .badExt
      | .h5 =>
        if sh then
          -- repaired: `already_included.append(incl_loc); NeuroMLHdf5Loader.load(incl_loc, already_included=…)`
          match rec loc (loc :: al) with
          | .ok al' sl sub => .ok al' (log ++ sl) (addAll sub doc)
          | r => r
        else
          -- today: `NeuroMLHdf5Loader.load(incl_loc)`: the HDF5 parser resolves the includes of the embedded
          -- XML through `read_neuroml2_string` with a list of its own; the outer list only gains `loc`.
          match rec loc [] with
          | .ok _ sl sub => .ok (loc :: al) (log ++ sl) (addAll sub doc)
          | r => r
      | .xml =>
        match rec loc (loc :: al) with
        | .ok al' sl sub => .ok al' (log ++ sl) (addAll sub doc)
        | r => r
  | r => r

/-- `_read_neuroml2` on a file, `include_includes=True`, with the list `al` (which, on every path through
    `read_neuroml2_file`, already contains `p`). -/
def visit (sh : Bool) (fs : FS) (cwd : Path) : Nat → Path → List Path → Res
  | 0, _, _ => .outOfFuel
  | f+1, p, al =>
    match fs p with
    | none => .missing
    | some file => file.hrefs.foldl (step sh fs cwd p.dropLast (visit sh fs cwd f)) (.ok al [p] file.comps)

/-- `read_neuroml2_file(path, include_includes=True)`: the entry file is marked first. An HDF5 entry file's
    includes are resolved inside the HDF5 parser and the result is merged into a fresh document. -/
def readFile (sh : Bool) (fs : FS) (cwd : Path) (fuel : Nat) (p : Path) : Res :=
  if entryIsH5 p then
    if sh then
      match visit sh fs cwd fuel p [p] with
      | .ok al log doc => .ok al log (addAll doc [])
      | r => r
    else
      match visit sh fs cwd fuel p [] with
      | .ok _ log doc => .ok [p] log (addAll doc [])
      | r => r
  else visit sh fs cwd fuel p [p]

/-- `read_neuroml2_string(text, include_includes=True, base_path=base)`: nothing is marked initially. -/
def readString (sh : Bool) (fs : FS) (cwd base : Path) (fuel : Nat) (hrefs : List (List String))
    (comps : List Comp) : Res :=
  hrefs.foldl (step sh fs cwd base (visit sh fs cwd fuel)) (.ok [] [] comps)

/-- `_read_neuroml2(path, include_includes=True)` called directly (internal entry point: no list is
    given, so the entry file itself is not marked). -/
def readInternal (sh : Bool) (fs : FS) (cwd : Path) (fuel : Nat) (p : Path) : Res :=
  match visit sh fs cwd fuel p [] with
  | .ok al log doc => if entryIsH5 p then .ok [] log (addAll doc []) else .ok al log doc
  | r => r

/-- `read_neuroml2_file(path, include_includes=False)`: the include entries stay; an HDF5 entry file's
    embedded includes are resolved by its parser all the same. -/
def readNoInc (sh : Bool) (fs : FS) (cwd : Path) (fuel : Nat) (p : Path) : Res :=
  if entryIsH5 p then readFile sh fs cwd fuel p
  else match fs p with
    | none => .missing
    | some file => .ok [p] [p] file.comps

/-! ### the caller-visible `already_included` list (follow-up of C08's repair)

`already_included` is a Python list that is mutated in place: a caller that keeps the list sees, after the call, every
mark made during the read — also when the read FAILED.  `Res` carries the list only on success; the functions below
compute the same result together with the state of the list when the call ends (`Res × List Path`; lists are kept
newest-first here, Python appends).  `rm` is the shape of the two entry points: `false` = the marks of a failed read
stay in the list, `true` = `fixes/C08-already-included-restored.patch`: `n_marked = len(already_included)` at entry and
`except BaseException: del already_included[n_marked:]; raise` around the read. -/

def Res.isOk : Res → Bool
  | .ok .. => true
  | _ => false

/-- `step`, with the list as it is when the iteration ends -/
def stepT (sh : Bool) (fs : FS) (cwd base : Path) (rec : Path → List Path → Res × List Path)
    (acc : Res × List Path) (href : List String) : Res × List Path :=
  match acc.1 with
  | .ok al log doc =>
    let loc := resolveHref fs cwd base href
    if loc ∈ al then (.ok al log doc, al) else
      match kindOf loc with
      | .other => (.badExt, al)
      | .h5 =>
        if sh then
          match rec loc (loc :: al) with
          | (.ok al' sl sub, _) => (.ok al' (log ++ sl) (addAll sub doc), al')
          | r => r
        else
          -- the HDF5 parser works on a list of its own; `loc` is appended only after the load returned
          match rec loc [] with
          | (.ok _ sl sub, _) => (.ok (loc :: al) (log ++ sl) (addAll sub doc), loc :: al)
          | (r, _) => (r, al)
      | .xml =>
        match rec loc (loc :: al) with
        | (.ok al' sl sub, _) => (.ok al' (log ++ sl) (addAll sub doc), al')
        | r => r
  | _ => acc

/-- `visit`, with the list as it is when the call ends.  An included XML file is read through
    `read_neuroml2_file`, which (`rm = true`) takes back the marks made below it when its read fails. -/
def visitT (rm sh : Bool) (fs : FS) (cwd : Path) : Nat → Path → List Path → Res × List Path
  | 0, _, al => (.outOfFuel, al)
  | f+1, p, al =>
    match fs p with
    | none => (.missing, al)
    | some file =>
      let r := file.hrefs.foldl (stepT sh fs cwd p.dropLast (visitT rm sh fs cwd f)) (.ok al [p] file.comps, al)
      if r.1.isOk then r else if rm then (r.1, al) else r

/-- `read_neuroml2_file(p, include_includes=True, already_included=al0)` with a list the caller keeps:
    the result and the caller's list after the call. -/
def readFileKept (rm sh : Bool) (fs : FS) (cwd : Path) (fuel : Nat) (p : Path) (al0 : List Path) :
    Res × List Path :=
  match fs p with
  | none => (.missing, al0)                       -- `sys.exit()` before anything is marked
  | some _ =>
    let al1 := if p ∈ al0 then al0 else p :: al0
    let r : Res × List Path :=
      if entryIsH5 p then
        if sh then
          match visitT rm sh fs cwd fuel p al1 with
          | (.ok al log doc, _) => (.ok al log (addAll doc []), al)
          | r => r
        else
          match visitT rm sh fs cwd fuel p [] with
          | (.ok _ log doc, _) => (.ok al1 log (addAll doc []), al1)
          | (r, _) => (r, al1)
      else visitT rm sh fs cwd fuel p al1
    if r.1.isOk then r else if rm then (r.1, al0) else r

/-- `read_neuroml2_string(text, include_includes=True, base_path=base, already_included=al0)` -/
def readStringKept (rm sh : Bool) (fs : FS) (cwd base : Path) (fuel : Nat) (hrefs : List (List String))
    (comps : List Comp) (al0 : List Path) : Res × List Path :=
  let r := hrefs.foldl (stepT sh fs cwd base (visitT rm sh fs cwd fuel)) (.ok al0 [] comps, al0)
  if r.1.isOk then r else if rm then (r.1, al0) else r

/-! ### the loop as it was before the repair 5bb970b (kept to document the defect) -/

def stepOld (fs : FS) (cwd base : Path) (rec : Path → List Path → Res) (acc : Res) (href : List String) : Res :=
  match acc with
  | .ok al log doc =>
    let loc := resolveHref fs cwd base href
    if loc ∈ al then .ok al log doc else
      match kindOf loc with
      | .other => .badExt
      | .h5 =>
        match rec loc [] with
        | .ok _ sl sub => .ok (loc :: al) (log ++ sl) (addAll sub doc)
        | r => r
      | .xml =>
        match rec loc al with
        | .ok al' sl sub => .ok (loc :: al') (log ++ sl) (addAll sub doc)
        | r => r
  | r => r

def visitOld (fs : FS) (cwd : Path) : Nat → Path → List Path → Res
  | 0, _, _ => .outOfFuel
  | f+1, p, al =>
    match fs p with
    | none => .missing
    | some file => file.hrefs.foldl (stepOld fs cwd p.dropLast (visitOld fs cwd f)) (.ok al [p] file.comps)

end NmlVerif.Include
