/-
Model of include resolution: `neuroml/loaders.py` (`read_neuroml2_file`, `read_neuroml2_string`,
`_read_neuroml2`) and `neuroml/utils.py` (`add_all_to_document`).  Mathlib-free, executable.

A path is the list of its components (absolute, normalised).  A file has a kind (decided by its
extension), the hrefs of its `<include>` elements in document order, and its top-level components; a
component is `(member list, id, payload)` — the payload lets the correspondence check see *which* copy
of an id survived de-duplication.
-/
namespace NmlVerif.Include

abbrev Path := List String

inductive Kind where
  | xml    -- *.nml / *.xml
  | h5     -- *.nml.h5
  | other  -- anything else: `Exception("Unrecognised extension")`
deriving Repr, DecidableEq, Inhabited

structure Comp where
  list : String
  id : String
  payload : String
deriving Repr, DecidableEq, Inhabited

structure File where
  hrefs : List (List String)
  comps : List Comp
deriving Repr, Inhabited

abbrev FS := Path → Option File

inductive Res where
  | outOfFuel
  | missing                      -- `sys.exit()` in `read_neuroml2_file`
  | badExt                       -- `Exception("Unrecognised extension on file")`
  | ok (al : List Path) (doc : List Comp)
deriving Repr, DecidableEq

def hasSuffix (s suf : String) : Bool := suf.toList.isSuffixOf s.toList

/-- how the include loop classifies a resolved location by its extension -/
def kindOf (p : Path) : Kind :=
  match p.getLast? with
  | none => .other
  | some s =>
    if hasSuffix s ".nml.h5" then .h5
    else if hasSuffix s ".nml" || hasSuffix s ".xml" then .xml
    else .other

/-- how `_read_neuroml2` picks the loader for the file it was given -/
def entryIsH5 (p : Path) : Bool :=
  match p.getLast? with
  | none => false
  | some s => hasSuffix s ".h5" || hasSuffix s ".hdf5"

/-- `os.path.normpath` on component lists (no symlinks): drop `.` and empty components, pop on `..`. -/
def norm (p : List String) : Path :=
  p.foldl (fun acc c => if c = "." ∨ c = "" then acc else if c = ".." then acc.dropLast else acc ++ [c]) []

/-- the code's rule: a href that exists relative to the working directory wins, otherwise it is taken
    relative to the including file's directory (`base_path_to_use`). -/
def resolveHref (fs : FS) (cwd base : Path) (href : List String) : Path :=
  if (fs (norm (cwd ++ href))).isSome then norm (cwd ++ href) else norm (base ++ href)

def key (c : Comp) : String × String := (c.list, c.id)

/-- `add_all_to_document(src, tgt)`: append every entry whose id is not yet in the same target list. -/
def addOne (tgt : List Comp) (c : Comp) : List Comp :=
  if tgt.any (fun t => key t = key c) then tgt else tgt ++ [c]

def addAll (src tgt : List Comp) : List Comp := src.foldl addOne tgt

/-- one iteration of the include loop (repaired form: the file is marked *before* it is read). `rec`
    reads an XML include recursively; an HDF5 include is loaded without include processing. -/
def step (fs : FS) (cwd base : Path) (rec : Path → List Path → Res) (acc : Res) (href : List String) : Res :=
  match acc with
  | .ok al doc =>
    let loc := resolveHref fs cwd base href
    if loc ∈ al then .ok al doc else
      match kindOf loc with
      | .other => .badExt
      | .h5 =>
        -- `NeuroMLHdf5Loader.load`: the HDF5 parser resolves the includes of the embedded XML itself,
        -- through `read_neuroml2_string` with a list of its own; the outer list only gains `loc`.
        match rec loc [] with
        | .ok _ sub => .ok (loc :: al) (addAll sub doc)
        | r => r
      | .xml =>
        match rec loc (loc :: al) with
        | .ok al' sub => .ok al' (addAll sub doc)
        | r => r
  | r => r

/-- `_read_neuroml2` on a file that exists, `include_includes=True`; `al` already contains `p`. -/
def visit (fs : FS) (cwd : Path) : Nat → Path → List Path → Res
  | 0, _, _ => .outOfFuel
  | f+1, p, al =>
    match fs p with
    | none => .missing
    | some file => file.hrefs.foldl (step fs cwd p.dropLast (visit fs cwd f)) (.ok al file.comps)

/-- `read_neuroml2_file(path, include_includes=True)`: the entry file is marked first. -/
def readFile (fs : FS) (cwd : Path) (fuel : Nat) (p : Path) : Res :=
  if entryIsH5 p then
    -- resolved inside the HDF5 parser with its own list, then merged into a fresh document
    match visit fs cwd fuel p [] with
    | .ok _ doc => .ok [p] (addAll doc [])
    | r => r
  else visit fs cwd fuel p [p]

/-- `read_neuroml2_string(text, include_includes=True, base_path=base)`: nothing is marked initially. -/
def readString (fs : FS) (cwd base : Path) (fuel : Nat) (hrefs : List (List String)) (comps : List Comp) : Res :=
  hrefs.foldl (step fs cwd base (visit fs cwd fuel)) (.ok [] comps)

/-! ### the loop as it was before the repair (kept to document the defect) -/

def stepOld (fs : FS) (cwd base : Path) (rec : Path → List Path → Res) (acc : Res) (href : List String) : Res :=
  match acc with
  | .ok al doc =>
    let loc := resolveHref fs cwd base href
    if loc ∈ al then .ok al doc else
      match kindOf loc with
      | .other => .badExt
      | .h5 =>
        match rec loc [] with
        | .ok _ sub => .ok (loc :: al) (addAll sub doc)
        | r => r
      | .xml =>
        match rec loc al with
        | .ok al' sub => .ok (loc :: al') (addAll sub doc)
        | r => r
  | r => r

def visitOld (fs : FS) (cwd : Path) : Nat → Path → List Path → Res
  | 0, _, _ => .outOfFuel
  | f+1, p, al =>
    match fs p with
    | none => .missing
    | some file => file.hrefs.foldl (stepOld fs cwd p.dropLast (visitOld fs cwd f)) (.ok al file.comps)

end NmlVerif.Include
