import NmlVerif.Model.Schema
/-
Introspection helpers of `generatedssupersuper.py` over the binding table: `_get_members` (MemberSpecs of the whole
MRO, as a set), `info`, `parentinfo`, `_check_arg_list`, and `get_by_id` of NeuroMLDocument / Network.
Mathlib-free, executable.
-/
namespace NmlVerif.Introspect
open NmlVerif.Binding NmlVerif.Schema

def dedup : List Spec → List Spec
  | [] => []
  | s :: l => if l.contains s then dedup l else s :: dedup l

/-- `_get_members`: own `member_data_items_` plus those of every class in the MRO, through `list(set(…))`
    (so: a set; the order is not defined and nothing may depend on it) -/
def getMembers (T : Table) (c : Nat) : List Spec := dedup ((chain T T.length c).flatMap (·.specs))

/-- `info(return_format="dict", show_contents=…)` keys with type / required -/
def info (T : Table) (c : Nat) : List (Nat × Nat × Bool) := (getMembers T c).map fun s => (s.name, s.dtype, !s.optional)

/-- `parentinfo(return_format="dict")`: every class one of whose members has this class as data type -/
def parentinfo (T : Table) (c : Nat) : List (Nat × Spec) :=
  T.flatMap fun p => ((getMembers T p.name).filter (fun s => s.dtype == c)).map fun s => (p.name, s)

/-- `_check_arg_list`: a keyword is accepted iff it is the name of a member -/
def checkArg (T : Table) (c : Nat) (kw : Nat) : Bool := (getMembers T c).any (fun s => s.name == kw)

/-- public constructor keywords of a class (own and inherited); generateDS-internal parameters end in `_` and are
    flagged by the translator through `cast = 9`-style markers — here: every parameter except the listed internals -/
def ctorKeywords (T : Table) (internals : List Nat) (c : Nat) : List Nat :=
  match findClass T c with
  | some k => (k.ctor.map (·.name)).filter (fun n => !internals.contains n)
  | none => []

def sameSet (a b : List Nat) : Bool := a.all b.contains && b.all a.contains

/-- classes whose `info()` member names differ from their public constructor keywords -/
def infoCtorViolations (T : Table) (internals : List Nat) : List Nat :=
  (T.filter fun k => !sameSet ((getMembers T k.name).map (·.name)) (ctorKeywords T internals k.name)).map (·.name)

/-- does one MemberSpec say what the schema says about the attribute / element it stands for? -/
def specAgrees (untyped anyName : Nat) (k : ClassIR) (x : XType) (s : Spec) : Bool :=
  if s.name == anyName then k.expChildren.any (fun c => c.kind == .any) && x.hasAny else
  match (k.expAttrs.find? (fun a => a.member == s.name)), (k.expChildren.find? (fun c => c.member == s.name)) with
  | some a, _ =>
    match x.attrs.find? (fun xa => xa.name == a.xml) with
    | some xa => s.optional == !xa.required && !s.container
                 && (match xa.stype with | some t => s.dtype == t | none => true)
    | none => false
  | none, some c =>
    match x.elems.find? (fun e => e.tag == c.tag) with
    | some e => (s.dtype == e.type || (e.text && s.dtype == untyped)) && s.container == (hiNat e.hi > 1)
                && s.optional == (e.lo == 0)
    | none => c.kind == .any
  | none, none => false

def specViolations (T : Table) (X : Xsd) (untyped anyName : Nat) : List (Nat × Nat) :=
  T.flatMap fun k =>
    match findType X k.name with
    | some x => (k.specs.filter (fun s => !specAgrees untyped anyName k x s)).map fun s => (k.name, s.name)
    | none => [(k.name, 0)]

/-! ### get_by_id -/

structure Comp where
  hasId : Bool
  id : String
  tag : Nat          -- which object (payload for comparison)
deriving Repr, DecidableEq, Inhabited

/-- `get_by_id` of a document (`refuseEmpty`) / network: scan the own member lists in declaration order, return
    the first component carrying the id -/
def getById (refuseEmpty : Bool) (lists : List (List Comp)) (i : String) : Option Comp :=
  if refuseEmpty && i.isEmpty then none else
  lists.flatten.find? (fun c => c.hasId && c.id == i)

end NmlVerif.Introspect
