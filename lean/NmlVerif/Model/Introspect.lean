import NmlVerif.Model.Schema
/-
Introspection helpers of `generatedssupersuper.py` over the binding table: `_get_members` (MemberSpecs of the whole
MRO, as a set), `info`, `parentinfo`, `_check_arg_list`, and `get_by_id` of NeuroMLDocument / Network.
Mathlib-free, executable.
-/
namespace NmlVerif.Introspect
open NmlVerif.Binding NmlVerif.Schema

def dedup : List Spec → List Spec
  | [] => []
  | s :: l => if l.contains s then dedup l else s :: dedup l

/-- `_get_members`: own `member_data_items_` plus those of every class in the MRO, through `list(set(…))`
    (so: a set; the order is not defined and nothing may depend on it) -/
def getMembers (T : Table) (c : Nat) : List Spec := dedup ((chain T T.length c).flatMap (·.specs))

/-- `info(return_format="dict", show_contents=…)` keys with type / required -/
def info (T : Table) (c : Nat) : List (Nat × Nat × Bool) := (getMembers T c).map fun s => (s.name, s.dtype, !s.optional)

/-- `parentinfo(return_format="dict")`: every class one of whose members has this class as data type -/
def parentinfo (T : Table) (c : Nat) : List (Nat × Spec) :=
  T.flatMap fun p => ((getMembers T p.name).filter (fun s => s.dtype == c)).map fun s => (p.name, s)

/-- `_check_arg_list`: a keyword is accepted iff it is the name of a member -/
def checkArg (T : Table) (c : Nat) (kw : Nat) : Bool := (getMembers T c).any (fun s => s.name == kw)

/-- public constructor keywords of a class (own and inherited); generateDS-internal parameters end in `_` and are
    flagged by the translator through `cast = 9`-style markers — here: every parameter except the listed internals -/
def ctorKeywords (T : Table) (internals : List Nat) (c : Nat) : List Nat :=
  match findClass T c with
  | some k => (k.ctor.map (·.name)).filter (fun n => !internals.contains n)
  | none => []

def sameSet (a b : List Nat) : Bool := a.all b.contains && b.all a.contains

/-- classes whose `info()` member names differ from their public constructor keywords -/
def infoCtorViolations (T : Table) (internals : List Nat) : List Nat :=
  (T.filter fun k => !sameSet ((getMembers T k.name).map (·.name)) (ctorKeywords T internals k.name)).map (·.name)

/-- does one MemberSpec say what the schema says about the attribute / element it stands for? -/
def specAgrees (untyped anyName : Nat) (k : ClassIR) (x : XType) (s : Spec) : Bool :=
  if s.name == anyName then k.expChildren.any (fun c => c.kind == .any) && x.hasAny else
  match (k.expAttrs.find? (fun a => a.member == s.name)), (k.expChildren.find? (fun c => c.member == s.name)) with
  | some a, _ =>
    match x.attrs.find? (fun xa => xa.name == a.xml) with
    | some xa => s.optional == !xa.required && !s.container
                 && (match xa.stype with | some t => s.dtype == t | none => true)
    | none => false
  | none, some c =>
    match x.elems.find? (fun e => e.tag == c.tag) with
    | some e => (s.dtype == e.type || (e.text && s.dtype == untyped)) && s.container == (hiNat e.hi > 1)
                && s.optional == (e.lo == 0)
    | none => c.kind == .any
  | none, none => false

def specViolations (T : Table) (X : Xsd) (untyped anyName : Nat) : List (Nat × Nat) :=
  T.flatMap fun k =>
    match findType X k.name with
    | some x => (k.specs.filter (fun s => !specAgrees untyped anyName k x s)).map fun s => (k.name, s.name)
    | none => [(k.name, 0)]

/-! ### second pass: class-level state, statement-level vocabularies, formats, histories

The introspection helpers read and (in `_get_members`) WRITE class-level data: the per-class lists
`member_data_items_` (mutable Python lists shared by every instance) and the cache `__all_members_`.  The state below
carries both; a list-valued variable is either a fresh list or an ALIAS of one class's table (`LVal`), so that an
in-place `+=` through an alias changes the table, exactly as in Python. -/

inductive LVal where
  | fresh (l : List Spec)
  | table (c : Nat)
deriving Repr, DecidableEq, Inhabited

structure CState where
  tables : List (Nat × List Spec)     -- `K.member_data_items_` for every class K (own entries only)
  cache : List (Nat × LVal)           -- `__all_members_`, keyed by class name
deriving Repr, DecidableEq, Inhabited

def initState (T : Table) : CState := ⟨T.map (fun k => (k.name, k.specs)), []⟩

/-- `c.member_data_items_`; a class without a table contributes nothing (`except AttributeError: pass`) -/
def tableOf (S : CState) (c : Nat) : List Spec :=
  match lookup c S.tables with
  | some l => l
  | none => []

def setA {α : Type} (c : Nat) (v : α) : List (Nat × α) → List (Nat × α)
  | [] => [(c, v)]
  | (k, w) :: r => if c = k then (k, v) :: r else (k, w) :: setA c v r

def readL (S : CState) : LVal → List Spec
  | .fresh l => l
  | .table c => tableOf S c

/-- in-place `x += l` on a list-valued variable: through an alias the class table itself grows -/
def iaddL (S : CState) (x : LVal) (l : List Spec) : CState × LVal :=
  match x with
  | .fresh a => (S, .fresh (a ++ l))
  | .table c => ({ S with tables := setA c (tableOf S c ++ l) S.tables }, .table c)

/-- names of the classes in `cls.__mro__` that carry a table: the class itself first, then its ancestors -/
def mro (T : Table) (c : Nat) : List Nat := (chain T T.length c).map (·.name)

/-- hand model of `_get_members` WITH its cache: a hit returns the stored list; a miss stores
    `list(set(copy(own) + Σ_{k ∈ mro} k.member_data_items_))` as a fresh list -/
def getMembersM (T : Table) (S : CState) (c : Nat) : List Spec × CState :=
  match lookup c S.cache with
  | some v => (readL S v, S)
  | none =>
    let l := dedup (tableOf S c ++ (mro T c).flatMap (tableOf S))
    (l, { S with cache := setA c (.fresh l) S.cache })

/-! #### vocabulary of `_get_members` (one constructor per Python statement form the translator recognises) -/

inductive GMCmd where
  | bindCurrentClass        -- current_class = cls.__name__
  | tryReturnCached         -- try: return cls.__all_members_[current_class] / except AttributeError: … = {} / except KeyError: pass
  | cacheAssignCopyOwn      -- cls.__all_members_[current_class] = copy.copy(cls.member_data_items_)
  | cacheAssignOwn          -- cls.__all_members_[current_class] = cls.member_data_items_           (alias)
  | localAssignCopyOwn      -- all_members = copy.copy(cls.member_data_items_)
  | localAssignOwn          -- all_members = cls.member_data_items_                                (alias)
  | forMroIaddCache         -- for c in cls.__mro__: try: cls.__all_members_[current_class] += c.member_data_items_ …
  | forMroIaddLocal         -- for c in cls.__mro__: try: all_members += c.member_data_items_ …
  | cacheDedup              -- cls.__all_members_[current_class] = list(set(cls.__all_members_[current_class]))
  | cacheAssignDedupLocal   -- cls.__all_members_[current_class] = list(set(all_members))
  | returnCache             -- return cls.__all_members_[current_class]
deriving Repr, DecidableEq, Inhabited

structure GMState where
  S : CState
  loc : Option LVal := none          -- the local `all_members`
  bound : Bool := false              -- `current_class` is bound
  ret : Option (List Spec) := none   -- value returned (execution stops)
  err : Bool := false                -- NameError / KeyError (use before definition)
deriving Repr, Inhabited

def iaddMro (T : Table) (c : Nat) (S : CState) (x : LVal) : CState × LVal :=
  (mro T c).foldl (fun (p : CState × LVal) k => iaddL p.1 p.2 (tableOf p.1 k)) (S, x)

def GMCmd.exec (T : Table) (c : Nat) (σ : GMState) : GMCmd → GMState
  | .bindCurrentClass => { σ with bound := true }
  | .tryReturnCached =>
    if !σ.bound then { σ with err := true } else
    match lookup c σ.S.cache with
    | some v => { σ with ret := some (readL σ.S v) }
    | none => σ
  | .cacheAssignCopyOwn =>
    if !σ.bound then { σ with err := true } else
    { σ with S := { σ.S with cache := setA c (.fresh (tableOf σ.S c)) σ.S.cache } }
  | .cacheAssignOwn =>
    if !σ.bound then { σ with err := true } else
    { σ with S := { σ.S with cache := setA c (.table c) σ.S.cache } }
  | .localAssignCopyOwn => { σ with loc := some (.fresh (tableOf σ.S c)) }
  | .localAssignOwn => { σ with loc := some (.table c) }
  | .forMroIaddCache =>
    match lookup c σ.S.cache with
    | none => { σ with err := true }
    | some v =>
      let (S', v') := iaddMro T c σ.S v
      { σ with S := { S' with cache := setA c v' S'.cache } }
  | .forMroIaddLocal =>
    match σ.loc with
    | none => { σ with err := true }
    | some v =>
      let (S', v') := iaddMro T c σ.S v
      { σ with S := S', loc := some v' }
  | .cacheDedup =>
    match lookup c σ.S.cache with
    | none => { σ with err := true }
    | some v => { σ with S := { σ.S with cache := setA c (.fresh (dedup (readL σ.S v))) σ.S.cache } }
  | .cacheAssignDedupLocal =>
    match σ.loc with
    | none => { σ with err := true }
    | some v =>
      if !σ.bound then { σ with err := true } else
      { σ with S := { σ.S with cache := setA c (.fresh (dedup (readL σ.S v))) σ.S.cache } }
  | .returnCache =>
    match lookup c σ.S.cache with
    | none => { σ with err := true }
    | some v => { σ with ret := some (readL σ.S v) }

def runGMCmds (T : Table) (c : Nat) : List GMCmd → GMState → GMState
  | [], σ => σ
  | s :: r, σ => if σ.ret.isSome || σ.err then σ else runGMCmds T c r (s.exec T c σ)

/-- run a translated `_get_members` body on class `c`; `none` = raised or fell off the end (returns `None`) -/
def runGM (T : Table) (prog : List GMCmd) (S : CState) (c : Nat) : Option (List Spec) × CState :=
  let σ := runGMCmds T c prog { S := S }
  (if σ.err then none else σ.ret, σ.S)

/-! #### `info()`: the three return formats -/

inductive Fmt where
  | string | list | dict
deriving Repr, DecidableEq, Inhabited

inductive NExp where
  | name | dtype                -- member.get_name() / member.get_data_type()
deriving Repr, DecidableEq, Inhabited

inductive BExp where
  | optional                    -- member.get_optional() (truthiness)
  | const (b : Bool)
  | ite (c t e : BExp)          -- t if c else e
  | not (b : BExp)
deriving Repr, DecidableEq, Inhabited

def NExp.eval (s : Spec) : NExp → Nat
  | .name => s.name
  | .dtype => s.dtype

def BExp.eval (s : Spec) : BExp → Bool
  | .optional => s.optional
  | .const b => b
  | .ite c t e => if c.eval s then t.eval s else e.eval s
  | .not b => !(b.eval s)

/-- what `info` returns, up to the texts around the member lines: a list of member names, a dict
    name ↦ (required, type) (insertion-ordered, later assignments overwrite), or the string, of which the model keeps
    one line `* name (class: type, Optional|Required)` per member as (name, type, saysOptional) -/
inductive InfoOut where
  | names (l : List Nat)
  | dict (l : List (Nat × Bool × Nat))
  | lines (l : List (Nat × Nat × Bool))
deriving Repr, DecidableEq, Inhabited

/-- the translated sub-expressions of the `for member in all_members:` statement of `info` -/
structure InfoLoop where
  lineName : NExp
  lineType : NExp
  lineOptional : BExp        -- `"Optional" if <this> else "Required"`
  dictKey : NExp
  dictRequired : BExp
  dictType : NExp
  listItem : NExp
deriving Repr, DecidableEq, Inhabited

inductive ICmd where
  | initRet                  -- if show_contents: info_ret = {} else: info_ret = []
  | header                   -- try: info_str = doc … ; class_name = … ; info_str += … (×2)
  | bindMembers              -- all_members = self._get_members()
  | forMembers (l : InfoLoop)
  | retByFormat              -- if return_format == "list": (keys of a dict | the list) elif "dict": return info_ret
  | printStr                 -- print(info_str)
  | retStr                   -- return info_str
deriving Repr, DecidableEq, Inhabited

structure IState where
  retList : List Nat := []
  retDict : List (Nat × Bool × Nat) := []
  lines : Option (List (Nat × Nat × Bool)) := none     -- `info_str` (none = unbound)
  inited : Bool := false
  members : Option (List Spec) := none
  out : Option InfoOut := none
  err : Bool := false
deriving Repr, Inhabited

def ICmd.exec (ms : List Spec) (sc : Bool) (fmt : Fmt) (σ : IState) : ICmd → IState
  | .initRet => { σ with inited := true, retList := [], retDict := [] }
  | .header => { σ with lines := some [] }
  | .bindMembers => { σ with members := some ms }
  | .forMembers L =>
    match σ.members, σ.lines with
    | some m, some ls =>
      if !σ.inited then { σ with err := true } else
      { σ with lines := some (ls ++ m.map fun s => (L.lineName.eval s, L.lineType.eval s, L.lineOptional.eval s)),
               retDict := if sc then m.foldl (fun d s => setA (L.dictKey.eval s) (L.dictRequired.eval s, L.dictType.eval s) d) σ.retDict
                          else σ.retDict,
               retList := if sc then σ.retList else σ.retList ++ m.map (L.listItem.eval) }
    | _, _ => { σ with err := true }
  | .retByFormat =>
    if !σ.inited then { σ with err := true } else
    match fmt with
    | .list => { σ with out := some (.names (if sc then σ.retDict.map (·.1) else σ.retList)) }
    | .dict => { σ with out := some (if sc then .dict σ.retDict else .names σ.retList) }
    | .string => σ
  | .printStr => match σ.lines with | some _ => σ | none => { σ with err := true }
  | .retStr => match σ.lines with | some ls => { σ with out := some (.lines ls) } | none => { σ with err := true }

def runICmds (ms : List Spec) (sc : Bool) (fmt : Fmt) : List ICmd → IState → IState
  | [], σ => σ
  | s :: r, σ => if σ.out.isSome || σ.err then σ else runICmds ms sc fmt r (s.exec ms sc fmt σ)

def runInfo (prog : List ICmd) (ms : List Spec) (sc : Bool) (fmt : Fmt) : Option InfoOut :=
  let σ := runICmds ms sc fmt prog {}
  if σ.err then none else σ.out

def dictOf (ms : List Spec) : List (Nat × Bool × Nat) :=
  ms.foldl (fun d s => setA s.name (!s.optional, s.dtype) d) []

/-- hand model of `info(show_contents, return_format)` over the member list `_get_members` gave -/
def infoOut (ms : List Spec) (sc : Bool) (fmt : Fmt) : InfoOut :=
  match fmt, sc with
  | .string, _ => .lines (ms.map fun s => (s.name, s.dtype, s.optional))
  | .list, false => .names (ms.map (·.name))
  | .list, true => .names ((dictOf ms).map (·.1))
  | .dict, false => .names (ms.map (·.name))
  | .dict, true => .dict (dictOf ms)

/-- the member names an `info` answer speaks about -/
def InfoOut.memberNames : InfoOut → List Nat
  | .names l => l
  | .dict l => l.map (·.1)
  | .lines l => l.map (·.1)

/-! #### `parentinfo()` -/

inductive PInfoOut where
  | parents (l : List Nat)
  | dict (l : List (Nat × List (Nat × Bool × Nat)))     -- parent ↦ (member ↦ (required, type))
  | lines (l : List (Nat × List (Nat × Bool × Nat)))    -- the string: `* parent` then one line per member
deriving Repr, DecidableEq, Inhabited

structure PLoop where
  matchType : NExp           -- `amember.<this>() == self.__class__.__name__`
  key : NExp                 -- retinfo[ac][<this>]
  required : BExp            -- required = <this>
  type : NExp                -- "type": <this>
deriving Repr, DecidableEq, Inhabited

inductive PCmd where
  | excluded                 -- excluded_classes = [...]
  | header                   -- try: info_str = doc …; info_str += … (×2)
  | initRetinfo              -- retinfo = {}
  | moduleClasses            -- module_object = …; nml_ct_classes = dir(module_object)
  | forClasses (l : PLoop)   -- for ac in nml_ct_classes: … cc()._get_members() … retinfo[ac][…] = {…}
  | buildString              -- for parent, members in retinfo.items(): info_str += …
  | retByFormat              -- if "list": return list(retinfo.keys()) elif "dict": return retinfo
  | printStr
  | retStr
deriving Repr, DecidableEq, Inhabited

/-- `retinfo[ac][key] = v`, creating `retinfo[ac] = {}` first when absent -/
def pinsert (p key : Nat) (v : Bool × Nat) (d : List (Nat × List (Nat × Bool × Nat))) :
    List (Nat × List (Nat × Bool × Nat)) :=
  match lookup p d with
  | some inner => setA p (setA key v inner) d
  | none => setA p [(key, v)] d

def pinfoFold (L : PLoop) (c : Nat) (cm : List (Nat × List Spec)) : List (Nat × List (Nat × Bool × Nat)) :=
  cm.foldl (fun d (pm : Nat × List Spec) =>
    pm.2.foldl (fun d s => if L.matchType.eval s == c then pinsert pm.1 (L.key.eval s) (L.required.eval s, L.type.eval s) d else d) d) []

structure PState where
  retinfo : Option (List (Nat × List (Nat × Bool × Nat))) := none
  str : Bool := false
  built : Bool := false
  classes : Bool := false
  excl : Bool := false
  out : Option PInfoOut := none
  err : Bool := false
deriving Repr, Inhabited

def PCmd.exec (cm : List (Nat × List Spec)) (c : Nat) (fmt : Fmt) (σ : PState) : PCmd → PState
  | .excluded => { σ with excl := true }
  | .header => { σ with str := true }
  | .initRetinfo => { σ with retinfo := some [] }
  | .moduleClasses => { σ with classes := true }
  | .forClasses L =>
    match σ.retinfo with
    | some [] => if σ.classes && σ.excl then { σ with retinfo := some (pinfoFold L c cm) } else { σ with err := true }
    | _ => { σ with err := true }
  | .buildString => if σ.str && σ.retinfo.isSome then { σ with built := true } else { σ with err := true }
  | .retByFormat =>
    match σ.retinfo, fmt with
    | some d, .list => { σ with out := some (.parents (d.map (·.1))) }
    | some d, .dict => { σ with out := some (.dict d) }
    | some _, .string => σ
    | none, _ => { σ with err := true }
  | .printStr => if σ.str then σ else { σ with err := true }
  | .retStr =>
    match σ.retinfo with
    | some d => if σ.built then { σ with out := some (.lines d) } else { σ with err := true }
    | none => { σ with err := true }

def runPCmds (cm : List (Nat × List Spec)) (c : Nat) (fmt : Fmt) : List PCmd → PState → PState
  | [], σ => σ
  | s :: r, σ => if σ.out.isSome || σ.err then σ else runPCmds cm c fmt r (s.exec cm c fmt σ)

def runPinfo (prog : List PCmd) (cm : List (Nat × List Spec)) (c : Nat) (fmt : Fmt) : Option PInfoOut :=
  let σ := runPCmds cm c fmt prog {}
  if σ.err then none else σ.out

/-- hand model: the dict `parent ↦ member ↦ (required, type)` over (class, its members) pairs -/
def pinfoDict (cm : List (Nat × List Spec)) (c : Nat) : List (Nat × List (Nat × Bool × Nat)) :=
  cm.foldl (fun d (pm : Nat × List Spec) =>
    pm.2.foldl (fun d s => if s.dtype == c then pinsert pm.1 s.name (!s.optional, s.dtype) d else d) d) []

def pinfoOut (cm : List (Nat × List Spec)) (c : Nat) (fmt : Fmt) : PInfoOut :=
  match fmt with
  | .list => .parents ((pinfoDict cm c).map (·.1))
  | .dict => .dict (pinfoDict cm c)
  | .string => .lines (pinfoDict cm c)

/-- (class, members) for every class the module exports, through the pure `getMembers` -/
def classMembers (T : Table) : List (Nat × List Spec) := T.map fun k => (k.name, getMembers T k.name)

/-! #### `_check_arg_list` -/

inductive CCmd where
  | bindMembers              -- members = self._get_members()
  | initNames                -- member_names = []
  | forCollect (e : NExp)    -- for m in members: member_names.append(m.<e>())
  | bindArgs                 -- args = list(kwargs.keys())
  | forArgsRaise             -- for arg in args: if arg not in member_names: … raise ValueError(err)
deriving Repr, DecidableEq, Inhabited

structure CCState where
  members : Option (List Spec) := none
  names : Option (List Nat) := none
  args : Option (List Nat) := none
  raised : Bool := false
  err : Bool := false
deriving Repr, Inhabited

def CCmd.exec (ms : List Spec) (kws : List Nat) (σ : CCState) : CCmd → CCState
  | .bindMembers => { σ with members := some ms }
  | .initNames => { σ with names := some [] }
  | .forCollect e =>
    match σ.members, σ.names with
    | some m, some n => { σ with names := some (n ++ m.map e.eval) }
    | _, _ => { σ with err := true }
  | .bindArgs => { σ with args := some kws }
  | .forArgsRaise =>
    match σ.args, σ.names with
    | some a, some n => { σ with raised := a.any (fun k => !n.contains k) }
    | _, _ => { σ with err := true }

def runCCmds (ms : List Spec) (kws : List Nat) : List CCmd → CCState → CCState
  | [], σ => σ
  | s :: r, σ => if σ.raised || σ.err then σ else runCCmds ms kws r (s.exec ms kws σ)

/-- `some true` = accepted (returns None), `some false` = ValueError, `none` = the translated body is ill-formed -/
def runCheck (prog : List CCmd) (ms : List Spec) (kws : List Nat) : Option Bool :=
  let σ := runCCmds ms kws prog {}
  if σ.err then none else some (!σ.raised)

def checkArgs (ms : List Spec) (kws : List Nat) : Bool := kws.all fun k => (ms.map (·.name)).contains k

/-! ### get_by_id -/

/-- the values an `id` (of a component, or asked for) takes in practice -/
inductive IdVal where
  | none
  | str (s : String)
  | int (n : Int)
deriving Repr, DecidableEq, Inhabited

def IdVal.isStr : IdVal → Bool
  | .str _ => true
  | _ => false

structure Comp where
  hasId : Bool       -- `hasattr(m, "id")`
  id : IdVal
  tag : Nat          -- which object (payload for comparison)
deriving Repr, DecidableEq, Inhabited

/-- value of one attribute of the document / network object -/
inductive MVal where
  | none                       -- None
  | chars (n : Nat)            -- a string: iterating gives n one-character strings (no `id`)
  | comps (l : List Comp)      -- a list of objects
  | scalar                     -- a single non-iterable object (`for m in mlist` raises TypeError)
deriving Repr, DecidableEq, Inhabited

inductive GRes where
  | ret (c : Option Comp)
  | typeError
  | attrError                  -- `getattr(self, name)` on a name the object does not have
deriving Repr, DecidableEq, Inhabited

/-- inner loop `for m in mlist:` — `inl c`: `return m`; `inr ids`: the extended `all_ids` -/
def scanList (i : IdVal) : List Comp → List IdVal → Sum Comp (List IdVal)
  | [], ids => .inr ids
  | m :: r, ids =>
    if m.hasId then (if m.id = i then .inl m else scanList i r (ids ++ [m.id])) else scanList i r ids

inductive Flow where
  | cont (ids : List IdVal)
  | found (c : Comp)
  | raised (e : GRes)
deriving Repr, DecidableEq, Inhabited

/-- outer loop `for ms in self.member_data_items_:` over the member NAMES of the table, in table order -/
def scanMembers (vals : List (Nat × MVal)) (i : IdVal) : List Nat → List IdVal → Flow
  | [], ids => .cont ids
  | n :: r, ids =>
    match lookup n vals with
    | Option.none => .raised .attrError
    | some .none => scanMembers vals i r ids
    | some (.chars _) => scanMembers vals i r ids
    | some .scalar => .raised .typeError
    | some (.comps l) =>
      match scanList i l ids with
      | .inl c => .found c
      | .inr ids' => scanMembers vals i r ids'

/-- `sorted(all_ids)` raises TypeError as soon as two ids have to be compared that Python cannot order: any `None`
    among ≥ 2 ids, or a string and an integer -/
def unsortable (ids : List IdVal) : Bool :=
  decide (2 ≤ ids.length) && (ids.any (· == IdVal.none) || (ids.any IdVal.isStr && ids.any (fun x => match x with | .int _ => true | _ => false)))

/-- the warning block: `if self.warn_count < 10: print("Id " + id + … + str(sorted(all_ids[, key=str]))); self.warn_count += 1
    elif self.warn_count == 10: print(…)`; `none` = TypeError -/
def warnStep (keyStr : Bool) (i : IdVal) (ids : List IdVal) (wc : Nat) : Option Nat :=
  if wc < 10 then
    (if !i.isStr then Option.none else if !keyStr && unsortable ids then Option.none else some (wc + 1))
  else some wc

inductive GCmd where
  | guardEmptyId                     -- if len(id) == 0: … print … return None          (document only)
  | initAllIds                       -- all_ids = []
  | scan                             -- for ms in self.member_data_items_: … return m / all_ids.append(m.id)
  | warn (keyStr : Bool)             -- the warning block (keyStr: `sorted(all_ids, key=str)`)
  | returnNone
deriving Repr, DecidableEq, Inhabited

structure GSt where
  ids : Option (List IdVal) := Option.none
  wc : Nat
  out : Option GRes := Option.none
deriving Repr, Inhabited

def GCmd.exec (names : List Nat) (vals : List (Nat × MVal)) (i : IdVal) (σ : GSt) : GCmd → GSt
  | .guardEmptyId =>
    match i with
    | .str s => if s.isEmpty then { σ with out := some (.ret Option.none) } else σ
    | _ => { σ with out := some .typeError }          -- len(None) / len(3)
  | .initAllIds => { σ with ids := some [] }
  | .scan =>
    match σ.ids with
    | Option.none => { σ with out := some .attrError }  -- NameError (ill-formed body); never generated
    | some ids =>
      match scanMembers vals i names ids with
      | .cont ids' => { σ with ids := some ids' }
      | .found c => { σ with out := some (.ret (some c)) }
      | .raised e => { σ with out := some e }
  | .warn k =>
    match σ.ids with
    | Option.none => { σ with out := some .attrError }
    | some ids =>
      match warnStep k i ids σ.wc with
      | Option.none => { σ with out := some .typeError }
      | some w => { σ with wc := w }
  | .returnNone => { σ with out := some (.ret Option.none) }

def runGCmds (names : List Nat) (vals : List (Nat × MVal)) (i : IdVal) : List GCmd → GSt → GSt
  | [], σ => σ
  | s :: r, σ => if σ.out.isSome then σ else runGCmds names vals i r (s.exec names vals i σ)

/-- (result, new `warn_count`); falling off the end returns `None` -/
def GSt.result (σ : GSt) : GRes × Nat :=
  (match σ.out with | some r => r | Option.none => .ret Option.none, σ.wc)

/-- run a translated `get_by_id` body -/
def runGet (prog : List GCmd) (names : List Nat) (vals : List (Nat × MVal)) (wc : Nat) (i : IdVal) : GRes × Nat :=
  (runGCmds names vals i prog { wc := wc }).result

/-- what the statements after the scan do, given the scan's outcome -/
def afterScan (k : Bool) (i : IdVal) (wc : Nat) : Flow → GRes × Nat
  | .found c => (.ret (some c), wc)
  | .raised e => (e, wc)
  | .cont ids =>
    match warnStep k i ids wc with
    | Option.none => (.typeError, wc)
    | some w => (.ret Option.none, w)

/-- hand model of `get_by_id` of a document (`doc`) / network, closed form.  `keyStr`: the proposed repair
    (`sorted(all_ids, key=str)`) is in the tree -/
def getByIdM (doc keyStr : Bool) (names : List Nat) (vals : List (Nat × MVal)) (wc : Nat) (i : IdVal) : GRes × Nat :=
  if doc then
    match i with
    | .str s => if s.isEmpty then (.ret Option.none, wc) else afterScan keyStr i wc (scanMembers vals i names [])
    | _ => (.typeError, wc)
  else afterScan keyStr i wc (scanMembers vals i names [])

/-- all components (with an `id` attribute) the scan can see, in scan order -/
def visible (vals : List (Nat × MVal)) : List Nat → List Comp
  | [] => []
  | n :: r =>
    match lookup n vals with
    | some (.comps l) => l.filter (·.hasId) ++ visible vals r
    | _ => visible vals r

/-- every scanned attribute exists and is None, a string or a list -/
def holderOK (vals : List (Nat × MVal)) (names : List Nat) : Bool :=
  names.all fun n => match lookup n vals with
    | some .scalar => false
    | Option.none => false
    | _ => true

/-! ### call histories -/

inductive Op where
  | members (c : Nat)
  | info (c : Nat) (sc : Bool) (fmt : Fmt)
  | parentinfo (c : Nat) (fmt : Fmt)
  | checkArg (c : Nat) (kws : List Nat)
  | getById (doc : Bool) (hc : Nat) (vals : List (Nat × MVal)) (wc : Nat) (i : IdVal)
deriving Repr, Inhabited

inductive Ans where
  | members (l : Option (List Spec))
  | info (o : Option InfoOut)
  | pinfo (o : Option PInfoOut)
  | check (b : Option Bool)
  | got (r : GRes) (wc : Nat)
deriving Repr, DecidableEq, Inhabited

/-- the translated bodies a history runs -/
structure Progs where
  gm : List GMCmd
  info : List ICmd
  pinfo : List PCmd
  check : List CCmd
  docGet : List GCmd
  netGet : List GCmd
deriving Repr, Inhabited

/-- `cc()._get_members()` for every class of the module, threading the class-level state -/
def allMembersRun (T : Table) (gm : CState → Nat → Option (List Spec) × CState) (S : CState) :
    List ClassIR → List (Nat × List Spec) × CState
  | [] => ([], S)
  | k :: r =>
    let (m, S1) := gm S k.name
    let (rest, S2) := allMembersRun T gm S1 r
    ((k.name, match m with | some l => l | none => []) :: rest, S2)

def step (T : Table) (P : Progs) (S : CState) : Op → Ans × CState
  | .members c => let (m, S') := runGM T P.gm S c; (.members m, S')
  | .info c sc fmt =>
    let (m, S') := runGM T P.gm S c
    (.info (match m with | some ms => runInfo P.info ms sc fmt | none => none), S')
  | .parentinfo c fmt =>
    let (cm, S') := allMembersRun T (runGM T P.gm) S T
    (.pinfo (runPinfo P.pinfo cm c fmt), S')
  | .checkArg c kws =>
    let (m, S') := runGM T P.gm S c
    (.check (match m with | some ms => runCheck P.check ms kws | none => none), S')
  | .getById doc hc vals wc i =>
    let r := runGet (if doc then P.docGet else P.netGet) ((tableOf S hc).map (·.name)) vals wc i
    (.got r.1 r.2, S)

def run (T : Table) (P : Progs) : CState → List Op → List Ans × CState
  | S, [] => ([], S)
  | S, op :: r =>
    let (a, S1) := step T P S op
    let (as, S2) := run T P S1 r
    (a :: as, S2)

/-- the answer of an operation in the pure (state-free) reading of the tables -/
def pureAns (T : Table) (keyStr : Bool) : Op → Ans
  | .members c => .members (some (getMembers T c))
  | .info c sc fmt => .info (some (infoOut (getMembers T c) sc fmt))
  | .parentinfo c fmt => .pinfo (some (pinfoOut (classMembers T) c fmt))
  | .checkArg c kws => .check (some (checkArgs (getMembers T c) kws))
  | .getById doc hc vals wc i =>
    let r := getByIdM doc keyStr ((tableOf (initState T) hc).map (·.name)) vals wc i
    .got r.1 r.2

/-! ### schema name -> Python member name (`generateds_config.py` / `changed_names.csv`) -/

/-- `changed_names.csv` first, then generateDS's keyword clean-up (`from` -> `from_`) -/
def mapName (csv kw : List (Nat × Nat)) (x : Nat) : Nat :=
  let n := match lookup x csv with | some v => v | none => x
  match lookup n kw with | some v => v | none => n

/-- an attribute whose mapped name is also the mapped name of a child of the same type gets `_attr` -/
def attrName (csv kw sfx : List (Nat × Nat)) (elemNames : List Nat) (x : Nat) : Nat :=
  let n := mapName csv kw x
  if elemNames.contains n then (match lookup n sfx with | some v => v | none => n) else n

/-- the member names the mapping prescribes for the own attributes and elements of a complex type -/
def schemaMemberNames (csv kw sfx : List (Nat × Nat)) (x : XType) : List Nat :=
  let elems := x.elems.map fun e => mapName csv kw e.tag
  x.attrs.map (fun a => attrName csv kw sfx elems a.name) ++ elems

/-- (class, xml name) of exported attributes / children whose member is not the mapped name -/
def nameMapViolations (T : Table) (csv kw sfx : List (Nat × Nat)) : List (Nat × Nat) :=
  T.flatMap fun k =>
    let kids := k.expChildren.filter (fun c => c.kind != .any)
    let elems := kids.map fun c => mapName csv kw c.tag
    (((k.expAttrs.filter (fun a => a.fmt != .xsitype)).filter
        (fun a => a.member != attrName csv kw sfx elems a.xml)).map fun a => (k.name, a.xml))
    ++ ((kids.filter (fun c => c.member != mapName csv kw c.tag)).map fun c => (k.name, c.tag))

/-- members a class exports (own level): one per schema attribute / element -/
def exportedMembers (k : ClassIR) : List Nat :=
  (k.expAttrs.filter (fun a => a.fmt != .xsitype)).map (·.member)
  ++ (k.expChildren.filter (fun c => c.kind != .any)).map (·.member)

/-- classes for which two different schema items (own or inherited) collapse to one member name -/
def nameClashes (T : Table) : List Nat :=
  (T.filter fun k => !nodupNat ((chain T T.length k.name).flatMap exportedMembers)).map (·.name)

/-- classes whose own `info()` entries are not exactly the mapped names of the schema type's own attributes and
    elements (plus the `__ANY__` pseudo-member exactly when the type has an `xs:any` particle) -/
def infoSchemaNameViolations (T : Table) (X : Xsd) (csv kw sfx : List (Nat × Nat)) (anyName : Nat) : List Nat :=
  (T.filter fun k =>
    match findType X k.name with
    | some x => !sameSet (k.specs.map (·.name)) (schemaMemberNames csv kw sfx x ++ (if x.hasAny then [anyName] else []))
    | none => true).map (·.name)

/-- classes in which two members reported by `info()` (own or inherited) share a name -/
def dupMemberNames (T : Table) : List Nat :=
  (T.filter fun k => !nodupNat ((getMembers T k.name).map (·.name))).map (·.name)

end NmlVerif.Introspect
