/-!
# Member table of the generated bindings and `_get_members`

`neuroml/nml/nml.py`: every generated class carries `member_data_items_ = [MemberSpec_(name, data_type, container,
optional, …), …]` for its OWN members; `GeneratedsSuperSuper._get_members` (generatedssupersuper.py:206-254) merges
the lists along `cls.__mro__` (own list first, then every class of the MRO that has one) and removes duplicates
with `list(set(…))` (identity of the `MemberSpec_` objects: an own entry collected twice is kept once; two
distinct entries are both kept, even when they look alike).

The table itself is extracted from the source on every run (`translators/members_extract.py` →
`Gen/Members.lean`); names are interned as `Nat` (index into `Gen.Members.names`).

No Mathlib. Shared by the models of C09 (`Model/Factory.lean`) and C10 (`Model/Add.lean`).
-/
namespace NmlVerif

/-- one `MemberSpec_(name, data_type, container, optional, …)`; `dataType` is what `get_data_type()` returns
    (the last element when the source gives a list such as `['Notes', 'xs:string']`) -/
structure MemberSpec where
  name : Nat
  dataType : Nat
  container : Bool
  optional : Bool
deriving DecidableEq, Repr

/-- one generated class: its name, its (single) base class if that is a generated class too, its own members -/
structure ClassRow where
  name : Nat
  base : Option Nat
  own : List MemberSpec
deriving DecidableEq, Repr

abbrev Table := List ClassRow

/-- executable duplicate-freeness (`Proofs/Members.lean`: `nodupB l = true ↔ l.Nodup`) -/
def nodupB : List Nat → Bool
  | [] => true
  | a :: l => !l.contains a && nodupB l

namespace Table

def row? (T : Table) (c : Nat) : Option ClassRow := T.find? (fun r => r.name == c)

/-- members along the base-class chain, own members first (`cls.__mro__` of a single-inheritance class);
    a class that is not in the table contributes nothing and ends the walk (`GeneratedsSuper`, `object`) -/
def membersFuel (T : Table) : Nat → Nat → List MemberSpec
  | 0, _ => []
  | fuel + 1, c =>
    match T.row? c with
    | none => []
    | some r => r.own ++ (match r.base with
                          | none => []
                          | some b => membersFuel T fuel b)

/-- `cls._get_members()` up to the order of the result (Python returns `list(set(…))`, i.e. some permutation) -/
def getMembers (T : Table) (c : Nat) : List MemberSpec := membersFuel T T.length c

def memberNames (T : Table) (c : Nat) : List Nat := (getMembers T c).map (·.name)

/-- the base-class walk from `c` ends (reaches a class without base / outside the table) within `fuel` steps -/
def chainEnds (T : Table) : Nat → Nat → Bool
  | 0, _ => false
  | fuel + 1, c =>
    match T.row? c with
    | none => true
    | some r => match r.base with
                | none => true
                | some b => chainEnds T fuel b

/-- table obligation: class names are distinct and every base-class chain ends within `T.length` steps -/
def chainsOk (T : Table) : Bool :=
  nodupB (T.map (·.name)) && T.all (fun r => chainEnds T T.length r.name)

/-- table obligation: along every class's chain no member name occurs twice
    (so a hint names at most one member and the order `_get_members` returns is immaterial) -/
def namesNodup (T : Table) : Bool := T.all (fun r => nodupB (memberNames T r.name))

end Table
end NmlVerif
