/-!
# Morphology metrics of `neuroml.Cell` (property C13)

Executable, total model over `Rat` (core Lean, no Mathlib) of the tree metrics of class `Cell`
(`neuroml/nml/helper_methods.py`, identical copy in `neuroml/nml/nml.py`):
`get_actual_proximal`, `get_segment_adjacency_list`, `get_graph`, `get_distance`,
`get_all_distances_from_segment`, `get_segments_at_distance`, `get_branching_points`, `get_extremeties`,
`get_morphology_root`, `get_segment_location_info`, `get_ordered_segments_in_groups`.

* A morphology is the list of its segments in file order (`Morph`).
* Segment lengths enter every metric as a function `len : Nat → Rat` (the real length needs a square root; every
  metric of this property is linear in the lengths). The driver instantiates `len` with `axisLength` (exact for
  axis-aligned segments).
* Python exceptions are `none`. Recursion over parent links takes explicit fuel; the theorems hold for every fuel
  larger than the rank of the segments, the driver uses `m.length + 1`.
* The first part is the SPEC (what the property statement calls "the values that follow directly from the
  parent / fraction_along definition"); the second part follows the code line by line (IMPLEMENTATION model).
* `networkx` Dijkstra is replaced by its specification on a forest (every node has at most one incoming edge):
  walk the unique chain of incoming edges from the target up to the source, `none` when the source is not on it.
* The `…Old` definitions are the code before the repairs `fixes/C13-*.patch` (graph without isolated nodes, tips
  measured from segment id 0, location-info walk indexing the predecessor of the root); they are only used for the witness theorems that document the repaired defects.
-/
namespace NmlVerif.Morph

structure Pt where
  x : Rat
  y : Rat
  z : Rat
  d : Rat
deriving DecidableEq, Repr, Inhabited

structure Seg where
  id : Nat
  /-- `(parent.segments, float(parent.fraction_along))` -/
  parent : Option (Nat × Rat)
  prox : Option Pt
  dist : Pt
deriving Repr, Inhabited

abbrev Morph := List Seg

/-- `Cell.get_segment`: the first segment with that id -/
def find (m : Morph) (i : Nat) : Option Seg := m.find? (fun s => s.id == i)

def ids (m : Morph) : List Nat := m.map (·.id)

/-! ## SPEC -/

/-- the point at fraction `f` on the straight line from `a` to `b` (all four coordinates, diameter included) -/
def lerp (a b : Pt) (f : Rat) : Pt :=
  ⟨(1 - f) * a.x + f * b.x, (1 - f) * a.y + f * b.y, (1 - f) * a.z + f * b.z, (1 - f) * a.d + f * b.d⟩

/-- effective proximal point: the segment's own proximal point, or else the point at `fraction_along` on the
    parent (from the parent's effective proximal point to its distal point) -/
inductive ActualProxS (m : Morph) : Nat → Pt → Prop
  | own {i : Nat} {s : Seg} {p : Pt} : find m i = some s → s.prox = some p → ActualProxS m i p
  | onParent {i : Nat} {s : Seg} {pid : Nat} {f : Rat} {ps : Seg} {pp : Pt} :
      find m i = some s → s.prox = none → s.parent = some (pid, f) → find m pid = some ps →
      ActualProxS m pid pp → ActualProxS m i (lerp pp ps.dist f)

/-- path length from the root to the proximal end of a segment: `0` at a segment without parent, otherwise the
    parent's value plus `fraction_along` × the parent's length -/
inductive ToProxS (m : Morph) (len : Nat → Rat) : Nat → Rat → Prop
  | root {i : Nat} {s : Seg} : find m i = some s → s.parent = none → ToProxS m len i 0
  | step {i : Nat} {s : Seg} {pid : Nat} {f x : Rat} :
      find m i = some s → s.parent = some (pid, f) → ToProxS m len pid x → ToProxS m len i (x + f * len pid)

/-- path length from the root to the distal end -/
def ToDistS (m : Morph) (len : Nat → Rat) (i : Nat) (y : Rat) : Prop := ∃ x, ToProxS m len i x ∧ y = x + len i

def parentIs (p : Nat) (s : Seg) : Bool :=
  match s.parent with
  | some (q, _) => q == p
  | none => false

/-- children of `p`, in file order -/
def childrenS (m : Morph) (p : Nat) : List Nat := (m.filter (parentIs p)).map (·.id)

/-- segments without parent, in file order -/
def rootsS (m : Morph) : List Nat := (m.filter (fun s => s.parent.isNone)).map (·.id)

def IsBranchS (m : Morph) (i : Nat) : Prop := i ∈ ids m ∧ 2 ≤ (childrenS m i).length

def IsTipS (m : Morph) (i : Nat) : Prop := i ∈ ids m ∧ childrenS m i = []

/-- segment `i` (of non-zero length) contains the point at path length `d` from the root, at fraction `fr` -/
def AtDistanceS (m : Morph) (len : Nat → Rat) (d : Rat) (i : Nat) (fr : Rat) : Prop :=
  i ∈ ids m ∧ len i ≠ 0 ∧ ∃ x, ToProxS m len i x ∧ x ≤ d ∧ d ≤ x + len i ∧ fr = (d - x) / len i

/-- some segment on the way from `i` up to the root (`i` included) has a sibling -/
inductive HasBranchAbove (m : Morph) : Nat → Prop
  | here {i : Nat} {s : Seg} {p : Nat} {f : Rat} : find m i = some s → s.parent = some (p, f) →
      (childrenS m p).length ≠ 1 → HasBranchAbove m i
  | up {i : Nat} {s : Seg} {p : Nat} {f : Rat} : find m i = some s → s.parent = some (p, f) →
      (childrenS m p).length = 1 → HasBranchAbove m p → HasBranchAbove m i

/-- no segment on the way from `i` up to the root has a sibling -/
inductive NoBranchAbove (m : Morph) : Nat → Prop
  | root {i : Nat} {s : Seg} : find m i = some s → s.parent = none → NoBranchAbove m i
  | up {i : Nat} {s : Seg} {p : Nat} {f : Rat} : find m i = some s → s.parent = some (p, f) →
      (childrenS m p).length = 1 → NoBranchAbove m p → NoBranchAbove m i

/-- `cur` is the first segment of the unbranched stretch that contains `i`: walk up from `i` while the segment is an
    only child; stop at a segment without parent or with a sibling -/
inductive StretchTopS (m : Morph) : Nat → Nat → Prop
  | root {i : Nat} {s : Seg} : find m i = some s → s.parent = none → StretchTopS m i i
  | branch {i : Nat} {s : Seg} {p : Nat} {f : Rat} : find m i = some s → s.parent = some (p, f) →
      (childrenS m p).length ≠ 1 → StretchTopS m i i
  | up {i cur : Nat} {s : Seg} {p : Nat} {f : Rat} : find m i = some s → s.parent = some (p, f) →
      (childrenS m p).length = 1 → StretchTopS m p cur → StretchTopS m i cur

/-- running totals `t + a₁, t + a₁ + a₂, …`: the cumulative lengths of a list of segment lengths -/
def prefixSumsS (t : Rat) : List Rat → List Rat
  | [] => []
  | a :: as => (t + a) :: prefixSumsS (t + a) as

/-! ## IMPLEMENTATION model -/

/-- `Cell.get_actual_proximal` -/
def actualProximal (m : Morph) : Nat → Nat → Option Pt
  | 0, _ => none
  | k + 1, i =>
    match find m i with
    | none => none                                   -- ValueError
    | some s =>
      match s.prox with
      | some p => some p
      | none =>
        match s.parent with
        | none => none                               -- AttributeError
        | some (pid, f) =>
          match find m pid with
          | none => none
          | some ps =>
            if f = 1 then some ps.dist
            else if f = 0 then actualProximal m k pid
            else
              match actualProximal m k pid with
              | none => none
              | some pp =>
                some ⟨(1 - f) * pp.x + f * ps.dist.x, (1 - f) * pp.y + f * ps.dist.y,
                      (1 - f) * pp.z + f * ps.dist.z, (1 - f) * pp.d + f * ps.dist.d⟩

def absR (a : Rat) : Rat := if a < 0 then -a else a

/-- exact length of an axis-aligned segment (`none` when more than one coordinate differs): what
    `((ax-bx)**2 + (ay-by)**2 + (az-bz)**2)**0.5` evaluates to on such inputs -/
def axisDist (a b : Pt) : Option Rat :=
  let dx := absR (a.x - b.x)
  let dy := absR (a.y - b.y)
  let dz := absR (a.z - b.z)
  if dy = 0 ∧ dz = 0 then some dx
  else if dx = 0 ∧ dz = 0 then some dy
  else if dx = 0 ∧ dy = 0 then some dz
  else none

/-- `Cell.get_segment_length` on axis-aligned segments -/
def axisLength (m : Morph) (fuel : Nat) (i : Nat) : Option Rat :=
  match find m i, actualProximal m fuel i with
  | some s, some p => axisDist s.dist p
  | _, _ => none

/-! ### adjacency list -/

abbrev Adj := List (Nat × List Nat)

/-- `if parent not in child_lists: child_lists[parent] = []` / `child_lists[parent].append(id)` on an
    insertion-ordered dict -/
def adjInsert : Adj → Nat → Nat → Adj
  | [], p, c => [(p, [c])]
  | (q, cs) :: rest, p, c => if q = p then (q, cs ++ [c]) :: rest else (q, cs) :: adjInsert rest p c

def adjStep (al : Adj) (s : Seg) : Adj :=
  match s.parent with
  | none => al                                        -- AttributeError caught, warning printed
  | some (p, _) => adjInsert al p s.id

/-- `Cell.get_segment_adjacency_list` (leaves are absent) -/
def adjacencyList (m : Morph) : Adj := m.foldl adjStep []

def adjLookup (al : Adj) (p : Nat) : Option (List Nat) := (al.find? (fun e => e.1 == p)).map (·.2)

/-! ### graph -/

structure Edge where
  src : Nat
  dst : Nat
  w : Rat
deriving Repr, DecidableEq

structure Graph where
  nodes : List Nat
  edges : List Edge

/-- `float(self.get_segment(cid).parent.fraction_along)` -/
def fracOf (m : Morph) (c : Nat) : Rat :=
  match find m c with
  | some s => (match s.parent with | some (_, f) => f | none => 0)
  | none => 0

/-- edges in insertion order; weight = parent length × fraction_along of the child -/
def graphEdges (m : Morph) (len : Nat → Rat) : List Edge :=
  (adjacencyList m).flatMap (fun e => e.2.map (fun c => (⟨e.1, c, len e.1 * fracOf m c⟩ : Edge)))

def addNode (ns : List Nat) (v : Nat) : List Nat := if v ∈ ns then ns else ns ++ [v]

/-- nodes created by `add_edge`, in insertion order -/
def edgeNodes (es : List Edge) : List Nat := es.foldl (fun ns e => addNode (addNode ns e.src) e.dst) []

/-- `Cell.get_graph` before the repair: nodes only come from edges -/
def getGraphOld (m : Morph) (len : Nat → Rat) : Graph :=
  ⟨edgeNodes (graphEdges m len), graphEdges m len⟩

/-- `Cell.get_graph`: edges, then `add_nodes_from(segment ids)` -/
def getGraph (m : Morph) (len : Nat → Rat) : Graph :=
  ⟨(ids m).foldl addNode (edgeNodes (graphEdges m len)), graphEdges m len⟩

/-- the incoming edge of a node (unique on a forest) -/
def inEdge (es : List Edge) (v : Nat) : Option Edge := es.find? (fun e => e.dst == v)

/-- Dijkstra's result on a forest: the weights along the chain of incoming edges from `dst` up to `src`,
    added from the source downwards; `none` if `src` is not on the chain -/
def distUp (es : List Edge) (src : Nat) : Nat → Nat → Option Rat
  | 0, dst => if dst = src then some 0 else none
  | k + 1, dst =>
    if dst = src then some 0
    else
      match inEdge es dst with
      | none => none                                  -- NetworkXNoPath
      | some e =>
        match distUp es src k e.src with
        | none => none
        | some x => some (x + e.w)

/-- `nx.dijkstra_path_length(graph, source, dest)` -/
def distanceG (g : Graph) (fuel : Nat) (src dst : Nat) : Option Rat :=
  if src ∈ g.nodes then distUp g.edges src fuel dst else none   -- NodeNotFound

/-- `nx.single_source_dijkstra(graph, source)[0]` (as an association list over the nodes) -/
def allDistancesG (g : Graph) (fuel : Nat) (src : Nat) : Option (List (Nat × Rat)) :=
  if src ∈ g.nodes then
    some (g.nodes.filterMap (fun v => (distUp g.edges src fuel v).map (fun x => (v, x))))
  else none

/-- body of the loop of `get_segments_at_distance` -/
def atDistStep (len : Nat → Rat) (d : Rat) (e : Nat × Rat) : Option (Nat × Rat) :=
  if len e.1 = 0 then none                            -- ZeroDivisionError caught: `continue`
  else
    if 1 < (d - e.2) / len e.1 then none             -- `frac_along > 1.0`: not in this segment
    else some (e.1, (d - e.2) / len e.1)

/-- `Cell.get_segments_at_distance` (Dijkstra with `cutoff=distance` keeps the source and the nodes at distance
    `≤ cutoff`; with non-negative edge weights a node beyond the cut-off has no descendant within it) -/
def segmentsAtDistanceG (g : Graph) (len : Nat → Rat) (fuel : Nat) (d : Rat) (src : Nat) :
    Option (List (Nat × Rat)) :=
  match allDistancesG g fuel src with
  | none => none
  | some l => some ((l.filter (fun e => e.1 == src || decide (e.2 ≤ d))).filterMap (atDistStep len d))

def outDeg (g : Graph) (n : Nat) : Nat := (g.edges.filter (fun e => e.src == n)).length
def inDeg (g : Graph) (n : Nat) : Nat := (g.edges.filter (fun e => e.dst == n)).length

/-- `Cell.get_branching_points` -/
def branchingPointsG (g : Graph) : List Nat := g.nodes.filter (fun n => decide (1 < outDeg g n))

def rootByDegree (g : Graph) : Option Nat :=
  match g.nodes.filter (fun n => outOfEdges n) with
  | [r] => some r
  | _ => none                                         -- AssertionError
where outOfEdges (n : Nat) : Bool := inDeg g n == 0

/-- `Cell.get_morphology_root` -/
def morphologyRootG (m : Morph) (g : Graph) : Option Nat :=
  match find m 0 with
  | some s => if s.parent.isNone then some 0 else rootByDegree g
  | none => rootByDegree g                            -- ValueError caught

def mapOpt {α β : Type} (f : α → Option β) : List α → Option (List β)
  | [] => some []
  | a :: as =>
    match f a with
    | none => none
    | some b =>
      match mapOpt f as with
      | none => none
      | some bs => some (b :: bs)

def tipNodes (g : Graph) : List Nat := g.nodes.filter (fun n => outDeg g n == 0)

/-- `Cell.get_extremeties` (repaired): tips with their distance from the morphology root -/
def extremitiesG (m : Morph) (g : Graph) (fuel : Nat) : Option (List (Nat × Rat)) :=
  match morphologyRootG m g with
  | none => none
  | some root => mapOpt (fun s => (distanceG g fuel root s).map (fun x => (s, x))) (tipNodes g)

/-- `Cell.get_extremeties` before the repair: `self.get_distance(s)` = distance from segment id 0 -/
def extremitiesOldG (g : Graph) (fuel : Nat) : Option (List (Nat × Rat)) :=
  mapOpt (fun s => (distanceG g fuel 0 s).map (fun x => (s, x))) (tipNodes g)

def preds (g : Graph) (v : Nat) : List Nat := (g.edges.filter (fun e => e.dst == v)).map (·.src)
def succs (g : Graph) (v : Nat) : List Nat := (g.edges.filter (fun e => e.src == v)).map (·.dst)

/-- the walk of `get_segment_location_info` BEFORE the repair `fixes/C13-location-info-stops-at-root.patch`
    (`parent = list(graph.predecessors(current))[0]` / `while len(children) == 1`); result = `current` at loop exit -/
def walkBranchOld (g : Graph) : Nat → Nat → Option Nat
  | 0, _ => none
  | k + 1, cur =>
    match preds g cur with
    | [] => none                                      -- IndexError: `list(graph.predecessors(current))[0]`
    | par :: _ => if (succs g par).length = 1 then walkBranchOld g k par else some cur

/-- the walk of `get_segment_location_info` (`preds = list(graph.predecessors(current))` /
    `while preds and len(list(graph.successors(preds[0]))) == 1`): stops at a segment without predecessor; result =
    `current` at loop exit -/
def walkBranch (g : Graph) : Nat → Nat → Option Nat
  | 0, _ => none
  | k + 1, cur =>
    match preds g cur with
    | [] => some cur                                  -- the morphology root: measured from here
    | par :: _ => if (succs g par).length = 1 then walkBranch g k par else some cur

structure LocInfo where
  length : Rat
  fromRoot : Rat
  fromBranch : Rat
deriving Repr

/-- the body of `get_segment_location_info` around a given walk -/
def locInfoWith (walk : Graph → Nat → Nat → Option Nat) (m : Morph) (len : Nat → Rat) (g : Graph) (fuel : Nat)
    (i : Nat) : Option LocInfo :=
  match morphologyRootG m g with
  | none => none
  | some root =>
    match distanceG g fuel root i with
    | none => none
    | some dRoot =>
      match walk g fuel i with
      | none => none
      | some cur =>
        match distanceG g fuel cur i with
        | none => none
        | some dB => some ⟨len i, dRoot, dB⟩

/-- `Cell.get_segment_location_info` for a cell without unbranched ("section") segment groups -/
def segmentLocationInfoG (m : Morph) (len : Nat → Rat) (g : Graph) (fuel : Nat) (i : Nat) : Option LocInfo :=
  locInfoWith walkBranch m len g fuel i

/-- … before the repair -/
def segmentLocationInfoOldG (m : Morph) (len : Nat → Rat) (g : Graph) (fuel : Nat) (i : Nat) : Option LocInfo :=
  locInfoWith walkBranchOld m len g fuel i

/-! ### the methods on a cell (fresh caches) -/

def distance (m : Morph) (len : Nat → Rat) (fuel : Nat) (src dst : Nat) : Option Rat :=
  distanceG (getGraph m len) fuel src dst
def allDistances (m : Morph) (len : Nat → Rat) (fuel : Nat) (src : Nat) : Option (List (Nat × Rat)) :=
  allDistancesG (getGraph m len) fuel src
def segmentsAtDistance (m : Morph) (len : Nat → Rat) (fuel : Nat) (d : Rat) (src : Nat) :
    Option (List (Nat × Rat)) :=
  segmentsAtDistanceG (getGraph m len) len fuel d src
def branchingPoints (m : Morph) (len : Nat → Rat) : List Nat := branchingPointsG (getGraph m len)
def morphologyRoot (m : Morph) (len : Nat → Rat) : Option Nat := morphologyRootG m (getGraph m len)
def extremities (m : Morph) (len : Nat → Rat) (fuel : Nat) : Option (List (Nat × Rat)) :=
  extremitiesG m (getGraph m len) fuel
def segmentLocationInfo (m : Morph) (len : Nat → Rat) (fuel : Nat) (i : Nat) : Option LocInfo :=
  segmentLocationInfoG m len (getGraph m len) fuel i

/-- before the repair -/
def segmentLocationInfoOld (m : Morph) (len : Nat → Rat) (fuel : Nat) (i : Nat) : Option LocInfo :=
  segmentLocationInfoOldG m len (getGraph m len) fuel i
def morphologyRootOld (m : Morph) (len : Nat → Rat) : Option Nat := morphologyRootG m (getGraphOld m len)
def extremitiesOld (m : Morph) (len : Nat → Rat) (fuel : Nat) : Option (List (Nat × Rat)) :=
  extremitiesOldG (getGraphOld m len) fuel

/-! ### `get_ordered_segments_in_groups` (path lengths, cumulative lengths) -/

abbrev RMap := List (Nat × Rat)

/-- dict lookup; a later store for the same key is consed in front and wins -/
def rlookup (mp : RMap) (i : Nat) : Option Rat := (mp.find? (fun e => e.1 == i)).map (·.2)

/-- the `while par_seg_element != None` walk up to the root: adds `par_length * fract` bottom-up -/
def walkUp (m : Morph) (len : Nat → Rat) : Nat → Nat → Rat → Option Rat
  | 0, _, _ => none
  | k + 1, i, acc =>
    match find m i with
    | none => none
    | some s =>
      match s.parent with
      | none => some acc
      | some (p, f) =>
        match find m p with
        | none => none                                -- KeyError
        | some _ => walkUp m len k p (acc + len p * f)

structure OrdState where
  prox : RMap
  dist : RMap
  tot : Rat
  cum : List Rat

/-- path length to the proximal end of segment `s` (id `i`) inside the loop -/
def ordProx (m : Morph) (len : Nat → Rat) (fuel : Nat) (st : OrdState) (i : Nat) (s : Seg) : Option Rat :=
  match s.parent with
  | none => walkUp m len fuel i 0
  | some (p, f) =>
    match rlookup st.dist p with
    | none => walkUp m len fuel i 0                   -- parent not processed yet: walk up to the root
    | some pd =>
      match rlookup st.prox p with
      | none => none
      | some pp => some (pp + (pd - pp) * f)

/-- loop body for one segment of the sorted list -/
def ordStep (m : Morph) (len : Nat → Rat) (fuel : Nat) (st : OrdState) (i : Nat) : Option OrdState :=
  match find m i with
  | none => none
  | some s =>
    match ordProx m len fuel st i s with
    | none => none
    | some x => some ⟨(i, x) :: st.prox, (i, x + len i) :: st.dist, st.tot + len i, st.cum ++ [st.tot + len i]⟩

def foldlOpt {σ α : Type} (f : σ → α → Option σ) : σ → List α → Option σ
  | s, [] => some s
  | s, a :: as =>
    match f s a with
    | none => none
    | some s' => foldlOpt f s' as

def sortIds (group : List Nat) : List Nat := group.mergeSort (fun a b => decide (a ≤ b))

/-- `get_ordered_segments_in_groups(group, include_cumulative_lengths=True, include_path_lengths=True)` for one
    group given as the list of its segment ids (`get_all_segments_in_group`): ids sorted, then the loop -/
def orderedSegments (m : Morph) (len : Nat → Rat) (fuel : Nat) (group : List Nat) : Option (List Nat × OrdState) :=
  match foldlOpt (ordStep m len fuel) ⟨[], [], 0, []⟩ (sortIds group) with
  | none => none
  | some st => some (sortIds group, st)

/-! ### executable well-formedness (driver only) -/

def reachesRoot (m : Morph) : Nat → Nat → Bool
  | 0, _ => false
  | k + 1, i =>
    match find m i with
    | none => false
    | some s =>
      match s.parent with
      | none => true
      | some (p, _) => reachesRoot m k p

def nodupB : List Nat → Bool
  | [] => true
  | a :: as => !(as.contains a) && nodupB as

/-- ids unique, every parent chain ends at a segment without parent, segments without parent have a proximal -/
def wfForestB (m : Morph) : Bool :=
  nodupB (ids m) && m.all (fun s => reachesRoot m (m.length + 1) s.id) &&
    m.all (fun s => s.parent.isSome || s.prox.isSome)

end NmlVerif.Morph
