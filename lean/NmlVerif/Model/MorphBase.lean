import NmlVerif.Model.Morph
/-!
# C13, second pass — base vocabulary of the TRANSLATED tree-metric methods (hand-written, core Lean only)

`Gen/Morph.lean` (regenerated on every check run by `translators/py2lean_morph.py` from `helper_methods.py` AND
`nml.py`) is written against this file:

* `CellS` — the `Cell` OBJECT as far as the methods read and write it: the segment list and the two caches
  `self.adjacency_list`, `self.cell_graph` (`none` = attribute absent / `None`). Every translated method is
  state-passing: `CellS → Option (CellS × result)` (`none` = an exception leaves the method).
* Python `dict` operations on insertion-ordered association lists (`dictHas`, `dictSet`, `dictAppend`).
* the `networkx` API the methods use: `DiGraph()`, `add_edge`, `add_nodes_from`, `out_degree`, `in_degree`,
  `dijkstra_path_length`, `single_source_dijkstra`. Shortest paths are an EXECUTABLE Bellman–Ford recurrence
  (`spDist`: minimum over all walks with at most `k` edges, for ANY weighted digraph); nothing about forests is built
  in. `Proofs/MorphSP.lean` proves that it is the minimum over walks, and that on the graph of a well-formed forest it
  is the length of the unique ancestor chain (`distUp` of the first-pass model).
* `exactLength` — `Cell.get_segment_length` in exact rational arithmetic: the rational square root of the squared
  distance between the effective proximal and the distal point when that is a perfect square (every generated
  geometry: axis-aligned or Pythagorean quadruples), `none` otherwise.
-/
namespace NmlVerif.Morph

/-- the `Cell` object: `morphology.segments`, `self.adjacency_list`, `self.cell_graph` -/
structure CellS where
  segments : Morph
  adjacency_list : Option Adj
  cell_graph : Option Graph

/-- a freshly built cell: no cache attribute yet -/
def CellS.fresh (m : Morph) : CellS := ⟨m, none, none⟩

/-- `for x in xs:` over a loop state; `none` = an exception left the loop -/
def forOpt {σ α : Type} (xs : List α) (init : σ) (f : σ → α → Option σ) : Option σ := foldlOpt f init xs

/-! ### `dict` (insertion ordered) -/

/-- `k in d` -/
def dictHas {β : Type} (d : List (Nat × β)) (k : Nat) : Bool := d.any (fun e => e.1 == k)

/-- `d[k] = v`: replaces the value of an existing key in place, else appends -/
def dictSet {β : Type} : List (Nat × β) → Nat → β → List (Nat × β)
  | [], k, v => [(k, v)]
  | (q, w) :: rest, k, v => if q = k then (q, v) :: rest else (q, w) :: dictSet rest k v

/-- `d[k].append(v)` (`KeyError` = `none` when `k` is absent) -/
def dictAppend : Adj → Nat → Nat → Option Adj
  | [], _, _ => none
  | (q, cs) :: rest, k, v =>
    if q = k then some ((q, cs ++ [v]) :: rest)
    else
      match dictAppend rest k v with
      | none => none
      | some rest' => some ((q, cs) :: rest')

/-! ### networkx -/

/-- `nx.DiGraph()` -/
def nx_DiGraph : Graph := ⟨[], []⟩

/-- `G.add_edge(u, v, weight=w)`: nodes `u`, `v` are created when missing (in this order). The pairs `(u, v)` that
    `get_graph` adds are pairwise distinct (they come from the keys / values of an adjacency list of a cell with
    unique ids), so the "update the weight of an existing edge" case of networkx is not modelled. -/
def nx_add_edge (g : Graph) (u v : Nat) (w : Rat) : Graph :=
  ⟨addNode (addNode g.nodes u) v, g.edges ++ [⟨u, v, w⟩]⟩

/-- `G.add_nodes_from(ids)` -/
def nx_add_nodes_from (g : Graph) (l : List Nat) : Graph := ⟨l.foldl addNode g.nodes, g.edges⟩

/-- `G.out_degree` as `(node, degree)` pairs in node order -/
def nx_out_degree (g : Graph) : List (Nat × Nat) := g.nodes.map (fun n => (n, outDeg g n))

/-- `G.in_degree` -/
def nx_in_degree (g : Graph) : List (Nat × Nat) := g.nodes.map (fun n => (n, inDeg g n))

/-- minimum of two optional distances (`none` = unreachable) -/
def optMin : Option Rat → Option Rat → Option Rat
  | none, b => b
  | some a, none => some a
  | some a, some b => some (if b < a then b else a)

/-- distance of `v` when it is the source itself -/
def spInit (src v : Nat) : Option Rat := if v = src then some 0 else none

/-- distance of the head of `e` when reached through `e`, given the distances `prev` of the previous round -/
def spCand (prev : Nat → Option Rat) (e : Edge) : Option Rat :=
  match prev e.src with
  | none => none
  | some x => some (x + e.w)

/-- one relaxation of `v` through its incoming edge `e` -/
def spRelax (prev : Nat → Option Rat) (acc : Option Rat) (e : Edge) : Option Rat := optMin acc (spCand prev e)

/-- **shortest path, executable, any weighted digraph** (Bellman–Ford recurrence): the least total weight of a walk
    with at most `k` edges from `src` to `v`; `none` when there is none -/
def spDist (es : List Edge) (src : Nat) : Nat → Nat → Option Rat
  | 0, v => spInit src v
  | k + 1, v => (es.filter (fun e => e.dst == v)).foldl (spRelax (spDist es src k)) (spInit src v)

/-- number of relaxation rounds: a shortest walk visits every node at most once -/
def spRounds (g : Graph) : Nat := g.nodes.length

/-- `nx.dijkstra_path_length(G, source, target)`: `NodeNotFound` / `NetworkXNoPath` = `none` -/
def nx_dijkstra_path_length (g : Graph) (source target : Nat) : Option Rat :=
  if source ∈ g.nodes then spDist g.edges source (spRounds g) target else none

/-- `nx.single_source_dijkstra(G, source, cutoff=c)[0]` as an association list in node order: the reachable nodes,
    with `cutoff` only those at distance `≤ cutoff` (the source itself always). Edge weights are non-negative
    (length × fraction), so a node within the cut-off is reached through nodes within it. -/
def nx_single_source_dijkstra (g : Graph) (source : Nat) (cutoff : Option Rat) : Option RMap :=
  if source ∈ g.nodes then
    some (g.nodes.filterMap (fun v =>
      match spDist g.edges source (spRounds g) v with
      | none => none
      | some x =>
        match cutoff with
        | none => some (v, x)
        | some c => if v == source || decide (x ≤ c) then some (v, x) else none))
  else none

/-! ### exact segment length -/

def sqDist (a b : Pt) : Rat :=
  (a.x - b.x) * (a.x - b.x) + (a.y - b.y) * (a.y - b.y) + (a.z - b.z) * (a.z - b.z)

/-- integer square root by bisection (`lo² ≤ n < hi²` is kept); only used to PROPOSE a root, which is then checked -/
def isqrtAux (n : Nat) : Nat → Nat → Nat → Nat
  | 0, lo, _ => lo
  | fuel + 1, lo, hi =>
    if hi ≤ lo + 1 then lo
    else
      let mid := (lo + hi) / 2
      if mid * mid ≤ n then isqrtAux n fuel mid hi else isqrtAux n fuel lo mid

def isqrt (n : Nat) : Nat := isqrtAux n (n.log2 + 2) 0 (n + 1)

/-- the non-negative rational square root of `q` when `q` is the square of a rational -/
def ratSqrt? (q : Rat) : Option Rat :=
  let c : Rat := mkRat (isqrt q.num.toNat) (isqrt q.den)
  if 0 ≤ c ∧ c * c = q then some c else none

/-- `Cell.get_segment_length` in exact arithmetic: `√|distal − effective proximal|²` when rational -/
def exactLength (m : Morph) (i : Nat) : Option Rat :=
  match find m i, actualProximal m (m.length + 1) i with
  | some s, some p => ratSqrt? (sqDist s.dist p)
  | _, _ => none

end NmlVerif.Morph
