import NmlVerif.Model.MorphBase
/-!
# C13, second pass — hand model of the `Cell` OBJECT with its caches, and call histories

State-passing versions of the graph-based methods: each takes the cell object (`CellS`: segment list,
`self.adjacency_list`, `self.cell_graph`) and returns the object afterwards together with the result (`none` = the
method raised; the object is returned as it is at that moment). `Props/C13Gen.lean` proves the definitions that
`translators/py2lean_morph.py` regenerates from the Python source on every run EQUAL to these; `Proofs/MorphCell.lean`
relates them to the first-pass, cache-free model (`Model/Morph.lean`) and `Props/C13Hist.lean` states what call
histories may and may not change.

`L m i` stands for `Cell.get_segment_length(i)` on the cell whose segment list is `m` (C12's business; the driver
instantiates it with `exactLength`).

What the code does with the caches (bug for bug):
* `get_segment_adjacency_list` ALWAYS recomputes and stores `adjacency_list`;
* `get_graph` ALWAYS rebuilds and stores `cell_graph`, but from the STORED adjacency list when there is one (lengths,
  fractions and the node set are read from the current segments);
* every other method uses the stored `cell_graph` when there is one and calls `get_graph` otherwise.
-/
namespace NmlVerif.Morph

/-- `r >>= f` for "object afterwards × result-or-raised" -/
def bindS {α β : Type} (r : CellS × Option α) (f : CellS → α → CellS × Option β) : CellS × Option β :=
  match r with
  | (s, none) => (s, none)
  | (s, some a) => f s a

/-- loop body of `get_segment_adjacency_list` (a segment without parent: `AttributeError` caught, warning printed) -/
def adjStepS (cl : Adj) (s : Seg) : Option Adj :=
  match s.parent with
  | none => some cl
  | some pf => dictAppend (if dictHas cl pf.1 then cl else dictSet cl pf.1 []) pf.1 s.id

/-- `Cell.get_segment_adjacency_list` -/
def getAdjS (self : CellS) : CellS × Option Adj :=
  match forOpt self.segments [] adjStepS with
  | none => (self, none)
  | some al => ({ self with adjacency_list := some al }, some al)

section
variable (L : Morph → Nat → Option Rat)

/-- inner loop of `get_graph`: the edges from `p` (length `pl`) to its children -/
def graphInner (m : Morph) (p : Nat) (pl : Rat) (g : Graph) (cs : List Nat) : Option Graph :=
  forOpt cs g (fun g c =>
    match find m c with
    | none => none                                       -- ValueError
    | some ch =>
      match ch.parent with
      | none => none                                     -- AttributeError
      | some pf => some (nx_add_edge g p c (pl * pf.2)))

/-- outer loop of `get_graph` over the items of the adjacency list -/
def graphOuter (m : Morph) (al : Adj) : Option Graph :=
  forOpt al nx_DiGraph (fun g e =>
    match L m e.1 with
    | none => none
    | some pl => graphInner m e.1 pl g e.2)

/-- the graph `get_graph` builds from an adjacency list `al` and the segments `m` -/
def graphFrom (m : Morph) (al : Adj) : Option Graph :=
  match graphOuter L m al with
  | none => none
  | some g => some (nx_add_nodes_from g (m.map (fun s => s.id)))

/-- `adlist = getattr(self, "adjacency_list", None)` / `if adlist is None: adlist = self.get_segment_adjacency_list()` -/
def withAdj (self : CellS) : CellS × Option Adj :=
  match self.adjacency_list with
  | some al => (self, some al)
  | none => getAdjS self

/-- `Cell.get_graph` -/
def getGraphS (self : CellS) : CellS × Option Graph :=
  bindS (withAdj self) (fun self al =>
    match graphFrom L self.segments al with
    | none => (self, none)
    | some g => ({ self with cell_graph := some g }, some g))

/-- `graph = getattr(self, "cell_graph", None)` / `if graph is None: graph = self.get_graph()` -/
def withGraph (self : CellS) : CellS × Option Graph :=
  match self.cell_graph with
  | some g => (self, some g)
  | none => getGraphS L self

/-- `Cell.get_distance(dest, source)` -/
def getDistanceS (self : CellS) (dest source : Nat) : CellS × Option Rat :=
  bindS (withGraph L self) (fun self g => (self, nx_dijkstra_path_length g source dest))

/-- `Cell.get_all_distances_from_segment(seg_id)` (the distance dictionary) -/
def getAllDistancesS (self : CellS) (seg_id : Nat) : CellS × Option RMap :=
  bindS (withGraph L self) (fun self g => (self, nx_single_source_dijkstra g seg_id none))

/-- loop body of `get_segments_at_distance` -/
def atDistStepS (m : Morph) (distance : Rat) (acc : RMap) (e : Nat × Rat) : Option RMap :=
  match L m e.1 with
  | none => none
  | some l =>
    if l = 0 then some acc                               -- ZeroDivisionError caught: `continue`
    else if (distance - e.2) / l > 1 then some acc       -- `frac_along > 1.0`: `continue`
    else some (dictSet acc e.1 ((distance - e.2) / l))

/-- `Cell.get_segments_at_distance(distance, src_seg)` -/
def getSegmentsAtDistanceS (self : CellS) (distance : Rat) (src_seg : Nat) : CellS × Option RMap :=
  bindS (withGraph L self) (fun self g =>
    match nx_single_source_dijkstra g src_seg (some distance) with
    | none => (self, none)
    | some target => (self, forOpt target [] (atDistStepS L self.segments distance)))

/-- `[n for (n, d) in graph.out_degree if d > 1]` -/
def branchNodesS (g : Graph) : List Nat := (nx_out_degree g).filterMap (fun e => if e.2 > 1 then some e.1 else none)

/-- `[n for (n, d) in graph.out_degree if d == 0]` -/
def tipNodesS (g : Graph) : List Nat := (nx_out_degree g).filterMap (fun e => if e.2 = 0 then some e.1 else none)

/-- `[n for (n, d) in graph.in_degree if d == 0]` -/
def rootNodesS (g : Graph) : List Nat := (nx_in_degree g).filterMap (fun e => if e.2 = 0 then some e.1 else none)

/-- `Cell.get_branching_points` -/
def getBranchingPointsS (self : CellS) : CellS × Option (List Nat) :=
  bindS (withGraph L self) (fun self g => (self, some (branchNodesS g)))

/-- `assert len(segs) == 1` / `return segs[0]` -/
def rootByDegreeS (g : Graph) : Option Nat := if (rootNodesS g).length = 1 then (rootNodesS g)[0]? else none

/-- the part of `get_morphology_root` after the id-0 shortcut -/
def rootViaGraphS (self : CellS) : CellS × Option Nat :=
  bindS (withGraph L self) (fun self g => (self, rootByDegreeS g))

/-- `Cell.get_morphology_root`: when segment 0 exists and has no parent the caches are not touched -/
def getMorphologyRootS (self : CellS) : CellS × Option Nat :=
  match find self.segments 0 with
  | none => rootViaGraphS L self                         -- ValueError caught
  | some s =>
    match s.parent with
    | none => (self, some 0)
    | some _ => rootViaGraphS L self

/-- loop body of `get_extremeties` -/
def tipStepS (root : Nat) (st : RMap × CellS) (s : Nat) : Option (RMap × CellS) :=
  match getDistanceS L st.2 s root with
  | (_, none) => none
  | (self, some x) => some (dictSet st.1 s x, self)

/-- `Cell.get_extremeties` -/
def getExtremitiesS (self : CellS) : CellS × Option RMap :=
  bindS (withGraph L self) (fun self g =>
    bindS (getMorphologyRootS L self) (fun self root =>
      match forOpt (tipNodesS g) ([], self) (tipStepS L root) with
      | none => (self, none)
      | some (res, self) => (self, some res)))

/-! ### calls, values, histories -/

/-- one method call with its arguments -/
inductive Call where
  | adjacency
  | graph
  | distance (dest source : Nat)
  | allDistances (src : Nat)
  | atDistance (d : Rat) (src : Nat)
  | branching
  | root
  | tips

/-- what a call returns -/
inductive Val where
  | adj (a : Adj)
  | graph (g : Graph)
  | num (x : Rat)
  | dists (l : RMap)
  | idl (l : List Nat)
  | nat (n : Nat)

def mapVal {α : Type} (f : α → Val) (r : CellS × Option α) : CellS × Option Val := (r.1, r.2.map f)

/-- run one call on the object -/
def runCall (self : CellS) : Call → CellS × Option Val
  | .adjacency => mapVal .adj (getAdjS self)
  | .graph => mapVal .graph (getGraphS L self)
  | .distance d s => mapVal .num (getDistanceS L self d s)
  | .allDistances s => mapVal .dists (getAllDistancesS L self s)
  | .atDistance d s => mapVal .dists (getSegmentsAtDistanceS L self d s)
  | .branching => mapVal .idl (getBranchingPointsS L self)
  | .root => mapVal .nat (getMorphologyRootS L self)
  | .tips => mapVal .dists (getExtremitiesS L self)

/-- one step of a history: a call, or an edit of `morphology.segments` (ANY new segment list; the caches stay) -/
inductive Op where
  | call (c : Call)
  | edit (m' : Morph)

def stepOp (self : CellS) : Op → CellS × Option Val
  | .call c => runCall L self c
  | .edit m' => ({ self with segments := m' }, none)

/-- the objects and results along a history -/
def runOps : CellS → List Op → List (CellS × Option Val)
  | _, [] => []
  | self, o :: os => stepOp L self o :: runOps (stepOp L self o).1 os

/-- a history of calls only -/
def runCalls : CellS → List Call → List (CellS × Option Val)
  | _, [] => []
  | self, c :: cs => runCall L self c :: runCalls (runCall L self c).1 cs

end

end NmlVerif.Morph
