import NmlVerif.Model.Glue
/-
Executable model of `neuroml/hdf5/NetworkBuilder.py` (the handler interface of `DefaultNetworkHandler` that the HDF5
and XML parsers drive), for property C07.

Two builders `A` (`who = true`) and `B` (`who = false`) live in one `World`.  Every builder owns the objects it creates
(populations, projections, input lists: lists inside its `BState`) and has its own copy of the seven lookup tables;
the `World` additionally has ONE shared copy of the tables.  `Cfg` says, table by table, whether handler methods
use the shared copy (the table is a class attribute of `NetworkBuilder`: what the code did before the repair) or
the builder's own copy (created in `__init__`).  Which one applies is not chosen by hand: the driver derives `Cfg`
from the extracted `Gen.Glue.table`.

A table entry is a reference `(who, idx)` to an object of builder `who`; entries read from a PRIVATE table always
denote the reading builder's own objects.  Handler methods mutate the referenced object wherever it lives: with shared
tables that can be the other builder's document — the defect.

Bug-for-bug notes: numbers whose exact text matters travel as the `str()`/`repr()` token produced by Python plus the
flags the code branches on (`weight == 1`, `delay == 0`, `segId != 0`, `fract != 0.5`); a failing dictionary lookup is
`KeyError` and leaves everything unchanged (all lookups of a handler precede its first mutation); after an error a
builder ignores further calls (the parser driving it has died).
-/
namespace NmlVerif.NetBuilder
open NmlVerif.Glue

structure Ref where
  who : Bool
  idx : Nat
deriving DecidableEq, Repr, Inhabited

structure Pop where
  net : Nat
  id : String
  component : String
  size : Int
  notes : Option String
  props : List (String × String)
  typ : Option String
  instances : List (String × String × String × String)     -- id, x, y, z
deriving DecidableEq, Repr, Inhabited

/-- a connection / input: class tag and the constructor arguments in a fixed order, as text -/
structure Item where
  kind : String
  fields : List String
deriving DecidableEq, Repr, Inhabited

structure Proj where
  net : Nat
  kind : String                   -- projection | electricalProjection | continuousProjection
  id : String
  pre : String
  post : String
  synapse : Option String
  conns : List Item
deriving DecidableEq, Repr, Inhabited

structure IList where
  net : Nat
  id : String
  component : String
  populations : String
  inputs : List Item
deriving DecidableEq, Repr, Inhabited

structure Net where
  id : String
  notes : Option String
  temperature : Option String
deriving DecidableEq, Repr, Inhabited

structure Tables where
  pops : List (String × Ref) := []
  projs : List (String × Ref) := []
  ilists : List (String × Ref) := []
  projSyn : List (String × Option String) := []
  projType : List (String × String) := []
  projSynPre : List (String × String) := []
  wd : List (String × Bool) := []
deriving DecidableEq, Repr, Inhabited

/-- one builder: the document it is building (objects live here) and its own tables -/
structure BState where
  doc : Option (String × Option String) := none     -- id, notes
  comps : List String := []                          -- standalone components appended to the document
  nets : List Net := []
  pops : List Pop := []
  projs : List Proj := []
  ilists : List IList := []
  priv : Tables := {}
  err : Option String := none
  /-- index of the first network of the document being built: `handle_document_start` makes a NEW `NeuroMLDocument`
      but (today) leaves `self.network`, the tables and the objects they point to alone; the networks, populations ..
      of earlier documents stay alive in the lists below `docBase` (reachable through stale table entries only) -/
  docBase : Nat := 0
deriving DecidableEq, Repr, Inhabited

structure World where
  a : BState := {}
  b : BState := {}
  shared : Tables := {}
deriving DecidableEq, Repr, Inhabited

/-- `true` = the table is shared by all builders (class attribute), `false` = per instance -/
structure Cfg where
  pops : Bool
  projs : Bool
  ilists : Bool
  projSyn : Bool
  projType : Bool
  projSynPre : Bool
  wd : Bool
deriving DecidableEq, Repr, Inhabited

def Cfg.allPrivate : Cfg := ⟨false, false, false, false, false, false, false⟩
def Cfg.allShared : Cfg := ⟨true, true, true, true, true, true, true⟩

inductive HCall where
  | docStart (id : String) (notes : Option String)
  | network (id : String) (notes : Option String) (temperature : Option String)
  | population (id comp : String) (size : Int) (compObj : Option String) (props : List (String × String))
      (notes : Option String)
  | location (id : String) (pop : String) (xyz : Option (String × String × String))
  | projection (id pre post : String) (syn : Option String) (hasWD : Bool) (typ : String)
      (synObj preSynObj : Option (String × String))          -- (document token, id) of the object passed along
  | finaliseProjection (id pre post : String) (syn : Option String) (typ : Option String)
  | connection (proj connId pre post : String) (preCell postCell : Int) (preSeg postSeg preFract postFract : String)
      (delay : String) (delayIsZero : Bool) (weight : String) (weightIsOne : Bool)
  | inputList (id pop comp : String) (compObj : Option String)
  | singleInput (list id : String) (cell : Int) (seg : String) (segIsZero : Bool) (fract : String)
      (fractIsHalf : Bool) (weight : String) (weightIsOne : Bool)
  | finaliseInputSource (id : String)
deriving DecidableEq, Repr, Inhabited

/-! ### dictionaries -/

def alookup {α : Type} (l : List (String × α)) (k : String) : Option α := (l.find? (fun p => p.1 == k)).map (·.2)
def aset {α : Type} (l : List (String × α)) (k : String) (v : α) : List (String × α) :=
  (k, v) :: l.filter (fun p => p.1 != k)

def modNth {α : Type} (l : List α) (i : Nat) (f : α → α) : List α :=
  match l, i with
  | [], _ => []
  | x :: xs, 0 => f x :: xs
  | x :: xs, i + 1 => x :: modNth xs i f

/-! ### world access -/

def World.get (w : World) (who : Bool) : BState := if who then w.a else w.b
def World.set (w : World) (who : Bool) (s : BState) : World := if who then { w with a := s } else { w with b := s }
def World.upd (w : World) (who : Bool) (f : BState → BState) : World := w.set who (f (w.get who))

/-- read table `sel` for builder `me`: the shared copy when `sh`, else `me`'s own -/
def tab {α : Type} (sh : Bool) (me : Bool) (w : World) (sel : Tables → List (String × α)) : List (String × α) :=
  if sh then sel w.shared else sel (w.get me).priv

/-- a reference read from a private table denotes one of the reader's own objects -/
def lookRef (sh : Bool) (me : Bool) (w : World) (sel : Tables → List (String × Ref)) (k : String) : Option Ref :=
  if sh then alookup (sel w.shared) k else (alookup (sel (w.get me).priv) k).map (fun r => ⟨me, r.idx⟩)

/-- the reference stored for a new object of builder `me`: absolute in a shared table; in a private table only the
    index matters (the owner is the reader) and the owner field is normalised -/
def mkRef (sh : Bool) (me : Bool) (idx : Nat) : Ref := ⟨if sh then me else true, idx⟩

def updTab (sh : Bool) (me : Bool) (w : World) (f : Tables → Tables) : World :=
  if sh then { w with shared := f w.shared } else w.upd me (fun s => { s with priv := f s.priv })

def getPop (w : World) (r : Ref) : Option Pop := (w.get r.who).pops[r.idx]?
def getProj (w : World) (r : Ref) : Option Proj := (w.get r.who).projs[r.idx]?
def getIList (w : World) (r : Ref) : Option IList := (w.get r.who).ilists[r.idx]?
def modPop (w : World) (r : Ref) (f : Pop → Pop) : World := w.upd r.who (fun s => { s with pops := modNth s.pops r.idx f })
def modProj (w : World) (r : Ref) (f : Proj → Proj) : World :=
  w.upd r.who (fun s => { s with projs := modNth s.projs r.idx f })
def modIList (w : World) (r : Ref) (f : IList → IList) : World :=
  w.upd r.who (fun s => { s with ilists := modNth s.ilists r.idx f })

def fail (w : World) (me : Bool) (e : String) : World := w.upd me (fun s => { s with err := some e })

/-- `if notes and len(notes) > 0` -/
def keepNotes : Option String → Option String
  | some s => if s.isEmpty then none else some s
  | none => none

/-- `self.nml_doc.append(obj)`: `GeneratedsSuperSuper.__add` does not add an object that is already in the list
    (`obj in list`); the parsers hand over the same object every time an id recurs, so the token decides -/
def addComp (w : World) (me : Bool) (c : Option String) : World :=
  match c with
  | some t => w.upd me (fun s => if s.comps.contains t then s else { s with comps := s.comps ++ [t] })
  | none => w

/-- `"../%s/%i/%s" % (pop, cell, component)`, or `"../%s[%i]"` for a population without instances -/
def cellPath (pop : String) (cell : Int) (p : Pop) : String :=
  match p.typ with
  | none => "../" ++ pop ++ "[" ++ toString cell ++ "]"
  | some _ => "../" ++ pop ++ "/" ++ toString cell ++ "/" ++ p.component

/-! ### the handler methods -/

def hPopulation (cfg : Cfg) (me : Bool) (w : World) (id comp : String) (size : Int) (compObj : Option String)
    (props : List (String × String)) (notes : Option String) : World :=
  let s := w.get me
  match s.nets.length with
  | 0 => fail w me "AttributeError"
  | n + 1 =>
    let w := addComp w me compObj
    let idx := (w.get me).pops.length
    let pop : Pop := ⟨n, id, comp, size, keepNotes notes, props, none, []⟩
    let w := updTab cfg.pops me w (fun t => { t with pops := aset t.pops id (mkRef cfg.pops me idx) })
    w.upd me (fun s => { s with pops := s.pops ++ [pop] })

def hLocation (cfg : Cfg) (me : Bool) (w : World) (id pop : String) (xyz : Option (String × String × String)) : World :=
  match xyz with
  | none => w
  | some (x, y, z) =>
    match lookRef cfg.pops me w (·.pops) pop with
    | none => fail w me "KeyError"
    | some r => modPop w r (fun p => { p with instances := p.instances ++ [(id, x, y, z)], typ := some "populationList" })

def hProjection (cfg : Cfg) (me : Bool) (w : World) (id pre post : String) (syn : Option String) (hasWD : Bool)
    (typ : String) (synObj preSynObj : Option (String × String)) : World :=
  let s := w.get me
  match s.nets.length with
  | 0 => fail w me "AttributeError"
  | n + 1 =>
    let w := addComp w me (synObj.map (·.1))
    let w := addComp w me (preSynObj.map (·.1))
    let idx := (w.get me).projs.length
    let known := typ == "projection" || typ == "electricalProjection" || typ == "continuousProjection"
    if !known then fail w me "unsupported" else
    let proj : Proj := ⟨n, typ, id, pre, post, if typ == "projection" then syn else none, []⟩
    let w := w.upd me (fun s => { s with projs := s.projs ++ [proj] })
    let w :=
      if typ == "electricalProjection" then
        updTab cfg.projSyn me w (fun t => { t with projSyn := aset t.projSyn id syn })
      else if typ == "continuousProjection" then
        let postSyn : Option String := match synObj with
          | some o => some o.2
          | none => syn
        let w := updTab cfg.projSyn me w (fun t => { t with projSyn := aset t.projSyn id postSyn })
        let (w, preId) := match preSynObj with
          | some o => (w, o.2)
          | none => (addComp w me (some ("SilentSynapse:silentSyn_" ++ id)), "silentSyn_" ++ id)
        updTab cfg.projSynPre me w (fun t => { t with projSynPre := aset t.projSynPre id preId })
      else w
    let w := updTab cfg.projs me w (fun t => { t with projs := aset t.projs id (mkRef cfg.projs me idx) })
    let w := updTab cfg.projType me w (fun t => { t with projType := aset t.projType id typ })
    updTab cfg.wd me w (fun t => { t with wd := aset t.wd id hasWD })

def finaliseCore (me : Bool) (w : World) (id pre post : String) (syn : Option String) (t : String) : World :=
  let s := w.get me
  match s.nets.length with
  | 0 => fail w me "AttributeError"
  | n + 1 =>
    if t == "projection" || t == "electricalProjection" then
      if s.projs.any (fun p => p.net == n && p.kind == t && p.id == id) then w
      else w.upd me (fun s => { s with projs := s.projs ++
        [⟨n, t, id, pre, post, if t == "projection" then syn else none, []⟩] })
    else w

def hFinaliseProjection (cfg : Cfg) (me : Bool) (w : World) (id pre post : String) (syn : Option String)
    (typ : Option String) : World :=
  let typ? := match typ with
    | some t => some t
    | none => alookup (tab cfg.projType me w (·.projType)) id
  match typ? with
  | none => fail w me "KeyError"
  | some t => finaliseCore me w id pre post syn t

def hConnection (cfg : Cfg) (me : Bool) (w : World) (proj connId pre post : String) (preCell postCell : Int)
    (preSeg postSeg preFract postFract delay : String) (delayIsZero : Bool) (weight : String) (weightIsOne : Bool) :
    World :=
  match lookRef cfg.pops me w (·.pops) pre, lookRef cfg.pops me w (·.pops) post with
  | some rp, some rq =>
    match getPop w rp, getPop w rq, lookRef cfg.projs me w (·.projs) proj with
    | some pp, some pq, some rj =>
      match getProj w rj with
      | none => fail w me "KeyError"
      | some pj =>
        let prePath := cellPath pre preCell pp
        let postPath := cellPath post postCell pq
        let instances := !pp.instances.isEmpty || !pq.instances.isEmpty
        if pj.kind == "electricalProjection" then
          -- (accepted repair C05-electrical-weight-sized-refused) a weight other than 1 between populations without
          -- instances is refused -- before the synapse is looked up -- instead of being dropped silently
          if !instances && !weightIsOne then fail w me "Exception" else
          match alookup (tab cfg.projSyn me w (·.projSyn)) proj with
          | none => fail w me "KeyError"
          | some syn =>
            let synS := syn.getD "None"
            let item : Item :=
              if !instances then ⟨"ec", [connId, toString preCell, preSeg, preFract, toString postCell, postSeg, postFract, synS]⟩
              else if weightIsOne then ⟨"eci", [connId, prePath, preSeg, preFract, postPath, postSeg, postFract, synS]⟩
              else ⟨"eciw", [connId, prePath, preSeg, preFract, postPath, postSeg, postFract, synS, weight]⟩
            modProj w rj (fun p => { p with conns := p.conns ++ [item] })
        else if pj.kind == "continuousProjection" then
          match alookup (tab cfg.projSynPre me w (·.projSynPre)) proj, alookup (tab cfg.projSyn me w (·.projSyn)) proj with
          | some preC, some postC =>
            let postS := postC.getD "None"
            if !instances && !weightIsOne then fail w me "Exception" else
            let item : Item :=
              if !instances then ⟨"cc", [connId, toString preCell, preSeg, preFract, toString postCell, postSeg, postFract, preC, postS]⟩
              else if weightIsOne then ⟨"cci", [connId, prePath, preSeg, preFract, postPath, postSeg, postFract, preC, postS]⟩
              else ⟨"cciw", [connId, prePath, preSeg, preFract, postPath, postSeg, postFract, preC, postS, weight]⟩
            modProj w rj (fun p => { p with conns := p.conns ++ [item] })
          | _, _ => fail w me "KeyError"
        else
          match alookup (tab cfg.wd me w (·.wd)) proj with
          | none => fail w me "KeyError"
          | some wd =>
            let item : Item :=
              if !wd && delayIsZero && weightIsOne then ⟨"c", [connId, prePath, preSeg, preFract, postPath, postSeg, postFract]⟩
              else ⟨"cwd", [connId, prePath, preSeg, preFract, postPath, postSeg, postFract, weight, delay ++ "ms"]⟩
            modProj w rj (fun p => { p with conns := p.conns ++ [item] })
    | _, _, _ => fail w me "KeyError"
  | _, _ => fail w me "KeyError"

def hInputList (cfg : Cfg) (me : Bool) (w : World) (id pop comp : String) (compObj : Option String) : World :=
  let s := w.get me
  match s.nets.length with
  | 0 => fail w me "AttributeError"
  | n + 1 =>
    let w := addComp w me compObj
    let idx := (w.get me).ilists.length
    let w := updTab cfg.ilists me w (fun t => { t with ilists := aset t.ilists id (mkRef cfg.ilists me idx) })
    w.upd me (fun s => { s with ilists := s.ilists ++ [⟨n, id, comp, pop, []⟩] })

def hSingleInput (cfg : Cfg) (me : Bool) (w : World) (list id : String) (cell : Int) (seg : String) (segIsZero : Bool)
    (fract : String) (fractIsHalf : Bool) (weight : String) (weightIsOne : Bool) : World :=
  match lookRef cfg.ilists me w (·.ilists) list with
  | none => fail w me "KeyError"
  | some rl =>
    match getIList w rl with
    | none => fail w me "KeyError"
    | some il =>
      match lookRef cfg.pops me w (·.pops) il.populations with
      | none => fail w me "KeyError"
      | some rp =>
        match getPop w rp with
        | none => fail w me "KeyError"
        | some p =>
          let target := cellPath il.populations cell p
          let segF := if segIsZero then "None" else seg
          let frF := if fractIsHalf then "None" else fract
          let item : Item := if weightIsOne then ⟨"i", [id, target, segF, frF]⟩ else ⟨"iw", [id, target, segF, frF, weight]⟩
          modIList w rl (fun l => { l with inputs := l.inputs ++ [item] })

def HCall.isDocStart : HCall → Bool
  | .docStart _ _ => true
  | _ => false

/-- one handler call by builder `me`.  After an error a builder ignores further calls (the parser driving it has
    died) until the next `handle_document_start` (a new parse on the same builder). -/
def step (cfg : Cfg) (me : Bool) (w : World) (c : HCall) : World :=
  if (w.get me).err.isSome && !c.isDocStart then w else
  match c with
  | .docStart id notes =>
    w.upd me (fun s => { s with doc := some (id, keepNotes notes), comps := [], docBase := s.nets.length, err := none })
  | .network id notes temp =>
    match (w.get me).doc with
    | none => fail w me "AttributeError"
    | some _ => w.upd me (fun s => { s with nets := s.nets ++ [⟨id, keepNotes notes, temp⟩] })
  | .population id comp size compObj props notes => hPopulation cfg me w id comp size compObj props notes
  | .location id pop xyz => hLocation cfg me w id pop xyz
  | .projection id pre post syn hasWD typ synObj preSynObj => hProjection cfg me w id pre post syn hasWD typ synObj preSynObj
  | .finaliseProjection id pre post syn typ => hFinaliseProjection cfg me w id pre post syn typ
  | .connection proj connId pre post preCell postCell preSeg postSeg preFract postFract delay dz weight w1 =>
    hConnection cfg me w proj connId pre post preCell postCell preSeg postSeg preFract postFract delay dz weight w1
  | .inputList id pop comp compObj => hInputList cfg me w id pop comp compObj
  | .singleInput list id cell seg sz fract fh weight w1 => hSingleInput cfg me w list id cell seg sz fract fh weight w1
  | .finaliseInputSource _ => w

/-- an interleaved run: `(true, c)` is a call by builder A, `(false, c)` by builder B -/
def runWorld (cfg : Cfg) : List (Bool × HCall) → World → World
  | [], w => w
  | (who, c) :: es, w => runWorld cfg es (step cfg who w c)

/-- a single builder with per-instance tables: what a `NetworkBuilder` does when nothing is shared -/
def bstep (s : BState) (c : HCall) : BState := (step Cfg.allPrivate true { a := s } c).a

def brun : List HCall → BState → BState
  | [], s => s
  | c :: cs, s => brun cs (bstep s c)

/-- the proposed repair: `handle_document_start` also forgets `self.network` and the seven tables, i.e. the builder
    starts every document from the state of a new builder (`reset = true`); `reset = false` is today's code -/
def bstepR (reset : Bool) (s : BState) (c : HCall) : BState :=
  if reset && c.isDocStart then bstep {} c else bstep s c

def brunR (reset : Bool) : List HCall → BState → BState
  | [], s => s
  | c :: cs, s => brunR reset cs (bstepR reset s c)

/-- what the document under construction shows: header, standalone components, and the networks created since the
    last `handle_document_start` with their populations / projections / input lists (network indices relative to the
    document) -/
structure View where
  doc : Option (String × Option String)
  comps : List String
  nets : List (Net × List Pop × List Proj × List IList)
  err : Option String
deriving DecidableEq, Repr, Inhabited

def view (s : BState) : View :=
  { doc := s.doc, comps := s.comps, err := s.err,
    nets := ((List.range s.nets.length).zip s.nets).filterMap fun p =>
      if p.1 < s.docBase then none else
        some (p.2, (s.pops.filter (·.net == p.1)).map (fun x => { x with net := p.1 - s.docBase }),
          (s.projs.filter (·.net == p.1)).map (fun x => { x with net := p.1 - s.docBase }),
          (s.ilists.filter (·.net == p.1)).map (fun x => { x with net := p.1 - s.docBase })) }

/-- the calls builder `who` issues in an interleaved schedule, in order -/
def callsOf (who : Bool) : List (Bool × HCall) → List HCall
  | [] => []
  | (b, c) :: es => if b = who then c :: callsOf who es else callsOf who es

/-! ### which tables are shared: read off the extracted table -/

/-- the class attribute `NetworkBuilder.<attr>` is a table shared between builders when the scan found it as a
    class-level mutable that the constructors do not shadow -/
def sharedAttr (t : Table) (names : Array String) (attr : String) : Bool :=
  t.vars.any fun v =>
    v.kind == .classAttr && v.mutableVal && !v.initShadowed &&
      names[v.id]? == some ("neuroml/hdf5/NetworkBuilder.py::NetworkBuilder." ++ attr)

def cfgOfTable (t : Table) (names : Array String) : Cfg :=
  ⟨sharedAttr t names "populations", sharedAttr t names "projections", sharedAttr t names "input_lists",
   sharedAttr t names "projection_syns", sharedAttr t names "projection_types", sharedAttr t names "projection_syns_pre",
   sharedAttr t names "weightDelays"⟩

/-! ### what the handler translator extracts from `NetworkBuilder.py` (Gen/Handlers.lean) -/

/-- an attribute reached through `self`: declared in a class body? with a mutable value? assigned by `__init__` on
    every path? -/
structure AttrInfo where
  id : Nat
  classLevel : Bool
  mutableVal : Bool
  initAssigned : Bool
deriving DecidableEq, Repr, Inhabited

/-- shared by all instances: a class-level mutable object that the constructor does not replace -/
def AttrInfo.shared (a : AttrInfo) : Bool := a.classLevel && a.mutableVal && !a.initAssigned

structure HandlerTouch where
  handler : String
  reads : List Nat
  stores : List Nat
  deep : List Nat
deriving DecidableEq, Repr, Inhabited

/-- no handler method touches an attribute that all builder instances share -/
def handlersPrivate (attrs : List AttrInfo) (touch : List HandlerTouch) : Bool :=
  touch.all fun h => (h.reads ++ h.stores ++ h.deep).all fun a =>
    attrs.all fun i => !(i.id == a) || !i.shared

def sharedId (attrs : List AttrInfo) (id : Nat) : Bool := attrs.any fun i => i.id == id && i.shared

/-- the sharing configuration read off the extracted attribute table (`ids` = the seven tables in model order) -/
def cfgOfAttrs (attrs : List AttrInfo) (ids : List Nat) : Cfg :=
  match ids with
  | [a, b, c, d, e, f, g] => ⟨sharedId attrs a, sharedId attrs b, sharedId attrs c, sharedId attrs d, sharedId attrs e,
      sharedId attrs f, sharedId attrs g⟩
  | _ => Cfg.allShared

/-- every one of the seven tables exists as an attribute of the class -/
def tablesExist (attrs : List AttrInfo) (ids : List Nat) : Bool :=
  ids.length == 7 && ids.all fun t => attrs.any fun i => i.id == t

/-- **the hand model's access pattern**: handler method -> tables (0 populations, 1 projections, 2 input_lists,
    3 projection_syns, 4 projection_types, 5 projection_syns_pre, 6 weightDelays) whose content it looks up / it
    stores an entry into / through which it mutates an object (population, projection, input list).  This is what
    `hPopulation` .. `hSingleInput` above do; `Gen.Handlers.use` (extracted from the source) must equal it, for the variant
    (`reset`) of `handle_document_start` that the translator finds in the source. -/
def modelUse (reset : Bool) : List (String × List Nat × List Nat × List Nat) := [
  -- `bstepR`: the repaired `handle_document_start` replaces all seven tables, today's touches none
  ("handle_document_start", [], if reset then [0, 1, 2, 3, 4, 5, 6] else [], []),
  ("handle_network", [], [], []),
  ("handle_population", [], [0], []),
  ("handle_location", [0], [], [0]),
  ("handle_projection", [], [1, 3, 4, 5, 6], []),
  ("finalise_projection", [4], [], []),
  ("handle_connection", [0, 1, 3, 5, 6], [], [1]),
  ("handle_input_list", [], [2], []),
  ("handle_single_input", [0, 2], [], [2]),
  ("finalise_input_source", [], [], [])]

end NmlVerif.NetBuilder
