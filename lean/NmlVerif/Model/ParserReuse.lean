/-
State that a `NeuroMLHdf5Parser` OBJECT carries from one `parse()` to the next (property C07, second pass).

Of everything the parser keeps in instance attributes, two survive a successful `parse()` and are read by the next one
before being assigned (the cursor fields `currPopulation`, `currentProjectionId`, … are put back to `""` by
`end_group` and only stay dirty when a parse dies half way; `doc_id` / `doc_notes` are assigned by every parse):

* `nml_doc_extra_elements`: assigned only when the file carries the `neuroml_top_level` attribute (the XML of the
  stand-alone components; `NeuroMLHdf5Writer.write(.., embed_xml=False)` leaves it out).  `start_group` looks every
  population's `component` up in it and hands the object found to `handle_population(component_obj=..)`; the loader
  (and the optimized `get_nml_doc`) merges all of it into the returned document.
* `optimizedNetwork` (optimized mode): assigned only when the file has a `network` group; `get_nml_doc` appends it
  to the new document.  On a new parser the attribute does not exist (`AttributeError`).

`reset = false` is the code as it is, `reset = true` the proposed repair (`parse` starts by putting every per-parse
attribute back to its initial value; `get_nml_doc` appends the network only if there is one).

Mathlib-free, executable.
-/
namespace NmlVerif.ParserReuse

/-- an HDF5 NeuroML file, as far as this state is concerned -/
structure H5File where
  id : String
  /-- `neuroml_top_level`: (component id, token of the object) of the embedded XML; `none` = not embedded -/
  embedded : Option (List (String × String))
  /-- id of the `network` group, if the file has one -/
  network : Option String
  /-- populations: (id, component) -/
  pops : List (String × String)
deriving DecidableEq, Repr, Inhabited

/-- the two attributes that outlive a parse -/
structure PState where
  extra : Option (List (String × String)) := none
  optNet : Option String := none
deriving DecidableEq, Repr, Inhabited

def lookup (l : List (String × String)) (k : String) : Option String := (l.find? (fun p => p.1 == k)).map (·.2)

/-- the attributes after `parse(f)` -/
def parse (reset : Bool) (st : PState) (f : H5File) : PState :=
  let st0 : PState := if reset then {} else st
  { extra := match f.embedded with
      | some e => some e
      | none => st0.extra,
    optNet := match f.network with
      | some n => some n
      | none => st0.optNet }

/-- `component_obj` handed to `handle_population` for every population of the file (non-optimized mode) -/
def popCompObjs (reset : Bool) (st : PState) (f : H5File) : List (String × Option String) :=
  f.pops.map fun p => (p.1, match (parse reset st f).extra with
    | some e => lookup e p.2
    | none => none)

inductive Res where
  | doc (id : String) (comps : List String) (nets : List String)
  | attributeError
deriving DecidableEq, Repr, Inhabited

/-- optimized mode: `parse(f); get_nml_doc()` -/
def getDocOpt (reset : Bool) (st : PState) (f : H5File) : Res :=
  let st' := parse reset st f
  let comps := match st'.extra with
    | some e => e.map (·.2)
    | none => []
  match st'.optNet with
  | some n => .doc f.id comps [n]
  | none => if reset then .doc f.id comps [] else .attributeError

/-- the attributes after a history of parses on one parser object -/
def runParses (reset : Bool) : List H5File → PState → PState
  | [], st => st
  | f :: fs, st => runParses reset fs (parse reset st f)

end NmlVerif.ParserReuse
