/-
A heap of Python objects as an object GRAPH, and `copy.deepcopy` with its memo (property C17, second pass).
Mathlib-free, executable, total.

`Model/FixExternal.lean` (first pass) sees documents as trees.  Real documents are graphs: every object read from a
file points back to its container (`parent_object_`), all objects of one document share one `gds_collector_`, a
user may put one `Morphology` object in two places.  Here an object is a `Node` (class name + `__dict__` in order,
or the items of a Python `list`), a value is `None`, a primitive (opaque tagged text) or a reference, and object
identity is the index in the heap: `id(o)` is a position, allocation appends, "the object existed before the call"
is `i < h.length`.

`copy.deepcopy(x, memo)` (CPython `copy.py`: `deepcopy`, `_reconstruct`, `_deepcopy_list`):
  y = memo.get(id(x)); if found return it
  otherwise allocate the copy, enter it in the memo *before* the contents are copied (this is what makes cycles
  and shared sub-objects come out right), then copy the fields / items in order.
`visit` does the traversal and only decides *which* objects are copied and in which order (the allocation order:
depth first, an object before its contents); the copies are then written down with every reference translated
through the final memo.  This gives the same final heap as writing each copy when its contents are done.
Termination: `fuel` bounds the nesting depth; `h.length + 1` always suffices (`Proofs/PyHeap.lean`,
`visit_total`, `deepcopy_total`), `none` = out of fuel or a dangling reference (neither happens on a well-formed heap).
-/
namespace NmlVerif.PyHeap

/-- a Python value as far as identity matters: `None`, a primitive (tagged text, e.g. `s:m1`, `i:5`), an object -/
inductive Val where
  | none
  | prim (s : String)
  | ref (i : Nat)
deriving DecidableEq, Repr, Inhabited

/-- an object: class name and `__dict__` in insertion order; a Python `list` is a node of class `list` whose
    fields are its items (field names unused) -/
structure Node where
  cls : String
  fields : List (String × Val)
deriving DecidableEq, Repr, Inhabited

/-- identity = index; allocation = append -/
abbrev Heap := List Node

def Val.refs : Val → List Nat
  | .ref i => [i]
  | _ => []

/-- the objects a node refers to, in field order -/
def Node.refs (nd : Node) : List Nat := nd.fields.flatMap (fun kv => kv.2.refs)

/-- every reference of every object points to an object of the heap -/
def WF (h : Heap) : Prop := ∀ nd ∈ h, ∀ r ∈ nd.refs, r < h.length

def lookupField (fs : List (String × Val)) (f : String) : Val :=
  match fs with
  | [] => .none
  | (k, v) :: rest => if k = f then v else lookupField rest f

/-- `getattr(o, f, None)`; a field that is absent reads as `None` (the harness omits most `None` fields) -/
def getattr (h : Heap) (o : Nat) (f : String) : Val :=
  match h[o]? with
  | some nd => lookupField nd.fields f
  | none => .none

def getattrV (h : Heap) (o : Val) (f : String) : Val :=
  match o with
  | .ref i => getattr h i f
  | _ => .none

def setField (fs : List (String × Val)) (f : String) (v : Val) : List (String × Val) :=
  match fs with
  | [] => [(f, v)]
  | (k, w) :: rest => if k = f then (k, v) :: rest else (k, w) :: setField rest f v

/-- `o.f = v` -/
def setattr (h : Heap) (o : Nat) (f : String) (v : Val) : Heap :=
  match h[o]? with
  | some nd => h.set o { nd with fields := setField nd.fields f v }
  | none => h

def setattrV (h : Heap) (o : Val) (f : String) (v : Val) : Heap :=
  match o with
  | .ref i => setattr h i f v
  | _ => h

/-- the items of the list object `l` (what `for x in l` visits) -/
def listItems (h : Heap) (l : Val) : List Val :=
  match l with
  | .ref i =>
    match h[i]? with
    | some nd => nd.fields.map (·.2)
    | none => []
  | _ => []

/-! ### deepcopy -/

/-- `memo`: source identity ↦ identity of its copy; assignment prepends, lookup takes the first hit -/
abbrev Memo := List (Nat × Nat)

def Memo.get? (m : Memo) (x : Nat) : Option Nat :=
  match m with
  | [] => none
  | (k, v) :: rest => if k = x then some v else Memo.get? rest x

/-- the memo entries of the objects copied so far: `order` lists their sources, most recent first; the copy of
    the k-th source allocated (counting from 0) is object `base + k` -/
def pairs (base : Nat) : List Nat → Memo
  | [] => []
  | x :: xs => (x, base + xs.length) :: pairs base xs

def memoOf (base : Nat) (memo0 : Memo) (order : List Nat) : Memo := pairs base order ++ memo0

/-- visit a list of references in order, threading the state -/
def visitL (rec : List Nat → Nat → Option (List Nat)) : List Nat → List Nat → Option (List Nat)
  | [], order => some order
  | r :: rs, order =>
    match rec order r with
    | none => none
    | some order' => visitL rec rs order'

/-- the traversal of `deepcopy(x, memo)`: which objects get copied, in allocation order (reversed) -/
def visit (src : Heap) (base : Nat) (memo0 : Memo) : Nat → List Nat → Nat → Option (List Nat)
  | 0, _, _ => none
  | f + 1, order, x =>
    match (memoOf base memo0 order).get? x with
    | some _ => some order
    | none =>
      match src[x]? with
      | none => none
      | some nd => visitL (visit src base memo0 f) nd.refs (x :: order)

def mapVal (m : Memo) : Val → Val
  | .ref r => match m.get? r with | some y => .ref y | none => .ref r
  | v => v

def mapNode (m : Memo) (nd : Node) : Node :=
  { nd with fields := nd.fields.map (fun kv => (kv.1, mapVal m kv.2)) }

/-- the copy of source object `x` under the final memo -/
def copyOf (h : Heap) (m : Memo) (x : Nat) : Node :=
  match h[x]? with
  | some nd => mapNode m nd
  | none => ⟨"", []⟩

structure Copied where
  heap : Heap
  root : Nat          -- the object returned by `deepcopy`
  memo : Memo         -- the memo afterwards
deriving Repr

/-- `copy.deepcopy(x, memo0)` on heap `h` -/
def deepcopy (h : Heap) (memo0 : Memo) (x : Nat) : Option Copied :=
  match visit h h.length memo0 (h.length + 1) [] x with
  | none => none
  | some order =>
    match (memoOf h.length memo0 order).get? x with
    | none => none
    | some y => some ⟨h ++ order.reverse.map (copyOf h (memoOf h.length memo0 order)), y, memoOf h.length memo0 order⟩

/-! ### reading a file: new objects, appended -/

def shiftVal (k : Nat) : Val → Val
  | .ref i => .ref (i + k)
  | v => v

def shiftNode (k : Nat) (nd : Node) : Node :=
  { nd with fields := nd.fields.map (fun kv => (kv.1, shiftVal k kv.2)) }

/-- a file as the loader turns it into objects: nodes with references relative to the first one, which is the
    document object -/
abbrev Template := List Node

/-- the loader builds the objects of the file; returns the new heap and the document object -/
def loadTemplate (h : Heap) (t : Template) : Heap × Val :=
  (h ++ t.map (shiftNode h.length), .ref h.length)

end NmlVerif.PyHeap
