/-!
# Model for C20 — regeneration of the bindings from the helper-method source (generateDS `--user-methods`)

What generateDS does for every class it writes (`generateDS.py`, `generateClasses` → `generateUserMethods`):

```
for spec in METHOD_SPECS:                      # tuple order
    if spec.match_name(class_name):            # helper_methods.MethodSpec.match_name
        wrt(spec.get_interpolated_source({'class_name': class_name}))
```
called LAST in the class body (after `build` / `_buildAttributes` / `_buildChildren`). `match_name` is

```
self.class_names == class_name or (isinstance(self.class_names, list) and class_name in self.class_names)
```
i.e. string equality, or membership of a Python *list*; any other value (tuple, `None`, compiled regex …)
never matches. No regular expression is used (the commented-out `re.compile` in `MethodSpec.__init__` is dead).

The tables (`Tables`) are produced by `translators/helpers_extract.py`; names are polymorphic (`α`): `Nat`
(interned) in the generated table, `String` in the driver.
-/
namespace NmlVerif.Regen

/-- the run-time value of `MethodSpec.class_names` as far as `match_name` can tell -/
inductive ClassNames (α : Type) where
  | str (s : α)
  | list (l : List α)
  | other
  deriving DecidableEq, Repr

/-- one class-body statement of a user-method source: its name (function name, or a pseudo-name for an
    assignment) and the digest of its normalised AST (the function name is part of the digested AST) -/
structure Item (α : Type) where
  name : α
  digest : Nat
  deriving DecidableEq, Repr

structure Spec (α : Type) where
  name : α
  classNames : ClassNames α
  /-- statements of the source as interpolated for a class name that occurs nowhere (`%(class_name)s` absent: for
      every class) -/
  items : List (Item α)
  /-- second pass — `get_interpolated_source({'class_name': cls})`: the classes for which the interpolated source
      yields OTHER statements than `items` (a source that mentions `%(class_name)s`), with those statements -/
  perClass : List (α × List (Item α))
  deriving DecidableEq, Repr

/-- the statements `spec.get_interpolated_source({'class_name': cls})` pastes into class `cls` -/
def Spec.itemsFor {α : Type} [DecidableEq α] (s : Spec α) (cls : α) : List (Item α) :=
  match s.perClass.find? (fun p => decide (p.1 = cls)) with
  | some p => p.2
  | none => s.items

/-- `MethodSpec.match_name` -/
def matchName {α : Type} [DecidableEq α] (cn : ClassNames α) (cls : α) : Bool :=
  match cn with
  | .str s => decide (s = cls)
  | .list l => decide (cls ∈ l)
  | .other => false

def insertionRule {α : Type} [DecidableEq α] (spec : Spec α) (cls : α) : Bool :=
  matchName spec.classNames cls

/-- the user part of class `cls` that `generateUserMethods` writes -/
def regenerated {α : Type} [DecidableEq α] (specs : List (Spec α)) (cls : α) : List (Item α) :=
  (specs.filter (insertionRule · cls)).flatMap (·.itemsFor cls)

/-- the class names a spec mentions -/
def ClassNames.named {α : Type} : ClassNames α → List α
  | .str s => [s]
  | .list l => l
  | .other => []

/-- version / command-line strings read from the sources -/
structure Versions where
  /-- `neuroml/__version__.py`: `current_neuroml_version` -/
  current : String
  /-- file the complex types of the table were read from (`NeuroML_<current>.xsd`, must exist) -/
  xsdRead : String
  /-- nml.py header, "Command line arguments:" -/
  headerXsd : String
  /-- nml.py header, positional argument of "Command line:" -/
  headerCmdXsd : String
  /-- nml.py header, "Command line options:" -/
  headerOptions : List (String × String)
  /-- nml.py header, options of "Command line:" -/
  headerCmdOptions : List (String × String)
  /-- what regenerate-nml.sh's `grep | cut | tr` pipeline yields on `__version__.py` -/
  scriptVersion : String
  /-- regenerate-nml.sh: `SCHEMA_FILE=<pre>${NEUROML_VERSION}<post>` -/
  scriptPre : String
  scriptPost : String
  /-- regenerate-nml.sh: options of the generateDS invocation (run on `$SCHEMA_FILE`) -/
  scriptOptions : List (String × String)
  /-- writers.py: file name in the schemaLocation URL is `<pre>%s<post> % neuroml.current_neuroml_version` -/
  writerPre : String
  writerPost : String
  /-- the `*.xsd` files shipped in `neuroml/nml/` -/
  bundled : List String
  /-- the user-methods file the specs of the table were read from -/
  helperFile : String
  deriving Repr

/-! ## Second pass: every occurrence of a schema file name / version in the package's code -/

/-- what an occurrence is used for -/
inductive OccRole where
  /-- selects / names the schema the bindings are (re)generated from or that written files point to -/
  | schema
  /-- `config.py: schema_name`: the schema `generateds_config.py` derives the NameTable (member naming) from -/
  | nameTable
  deriving DecidableEq, Repr

structure Occurrence where
  file : String
  what : String
  /-- the schema file name the occurrence denotes (templates filled with `current_neuroml_version`) -/
  schemaFile : String
  role : OccRole
  deriving DecidableEq, Repr

structure Tables where
  specs : List (Spec Nat)
  /-- binding class ↦ (name, digest) of its user statements, in source order -/
  shipped : List (Nat × List (Item Nat))
  /-- the binding classes of nml.py (classes with `member_data_items_` / `subclass`) -/
  classes : List Nat
  /-- complexType names of the schema, generateDS name mapping applied -/
  complexTypes : List Nat
  /-- the other top-level classes of nml.py -/
  otherClasses : List Nat
  /-- generateDS boiler-plate classes -/
  supportClasses : List Nat
  /-- simpleTypes of the schema that carry enumerations (generateDS writes an `Enum` class for each) -/
  enumTypes : List Nat
  /-- module-level imports of nml.py other than the ones generateDS's own header template writes -/
  shippedImports : List Nat
  /-- imports of the `--custom-imports-template` file (pasted into the header on regeneration) -/
  templateImports : List Nat
  versions : Versions
  /-- second pass: every occurrence of a schema file name / version in the package's code -/
  occurrences : List Occurrence
  /-- second pass: complexType ↦ its extension base (generateDS name mapping applied), from the XSD -/
  xsdBases : List (Nat × Option Nat)
  /-- second pass: binding class ↦ its Python base classes, from nml.py -/
  classBases : List (Nat × List Nat)
  /-- interned name of `GeneratedsSuper` (base class of a binding class whose complexType extends nothing) -/
  rootBase : Nat

/-! ## Abstract sources (for the lifting lemma): `σ` is the type of normalised class-body statements -/

structure SpecS (α σ : Type) where
  name : α
  classNames : ClassNames α
  /-- the interpolated source as class-body statements, per class name -/
  body : α → List σ

/-- what the translator records of a spec: same `class_names`, and for EVERY class the (name, digest) list of the
    source interpolated for that class is what the table row yields for it -/
def Abstracts {α σ : Type} [DecidableEq α] (key : σ → Item α) (s : SpecS α σ) (t : Spec α) : Prop :=
  t.classNames = s.classNames ∧ ∀ cls, (s.body cls).map key = t.itemsFor cls

/-- the table is the translator's view of the spec sources, spec by spec, in order -/
inductive AllAbstract {α σ : Type} [DecidableEq α] (key : σ → Item α) : List (SpecS α σ) → List (Spec α) → Prop
  | nil : AllAbstract key [] []
  | cons {s t ss ts} : Abstracts key s t → AllAbstract key ss ts → AllAbstract key (s :: ss) (t :: ts)

/-- the user statements generateDS writes into class `cls` -/
def regenS {α σ : Type} [DecidableEq α] (specs : List (SpecS α σ)) (cls : α) : List σ :=
  (specs.filter (fun s => matchName s.classNames cls)).flatMap (·.body cls)

/-- a class body: the schema-driven part followed by the user statements -/
structure ClassBody (σ : Type) where
  generated : List σ
  user : List σ

/-- regeneration keeps the schema-driven part (trusted: generateDS is deterministic in the schema) and
    replaces the user part by what the specs yield for this class -/
def regenClass {α σ : Type} [DecidableEq α] (specs : List (SpecS α σ)) (cls : α) (b : ClassBody σ) : ClassBody σ :=
  ⟨b.generated, regenS specs cls⟩

/-! ## Second pass: whole files (the regeneration is actually re-run; `translators/regen_run.py`) -/

/-- one top-level class of a bindings file: name, base classes, every class-body statement in order -/
structure ClassRow where
  name : Nat
  bases : List Nat
  members : List (Item Nat)
  deriving DecidableEq, Repr

/-- one bindings file as the translator reads it -/
structure FileTable where
  classes : List ClassRow
  /-- module-level statements other than imports, in order; a class is the item `⟨"class <name>", 0⟩` -/
  moduleItems : List (Item Nat)
  /-- module-level imports, one alias each, sorted (normalisation N2) -/
  imports : List Nat
  deriving DecidableEq, Repr

/-- the statements after the user-method boundary (`_buildChildren`): what `generateUserMethods` wrote -/
def userPart (boundary : Nat) (ms : List (Item Nat)) : List (Item Nat) :=
  (ms.dropWhile (fun m => !(Nat.beq m.name boundary))).drop 1

/-- the schema-driven statements: everything up to and including the boundary -/
def generatedPart (boundary : Nat) (ms : List (Item Nat)) : List (Item Nat) :=
  ms.takeWhile (fun m => !(Nat.beq m.name boundary)) ++ (ms.dropWhile (fun m => !(Nat.beq m.name boundary))).take 1

def userRows (boundary : Nat) (cs : List ClassRow) : List (Nat × List (Item Nat)) :=
  cs.map (fun c => (c.name, userPart boundary c.members))

/-- what the re-run produced besides the final file -/
structure RegenMeta where
  /-- interned name of `_buildChildren` -/
  boundary : Nat
  /-- generateDS version in the header of the shipped file / installed version that was re-run -/
  headerVersion : String
  installedVersion : String
  /-- N1: number of `<Class>.superclass.validate_(self, gds_collector, recursive)` statements removed from the
      regenerated side, and number of regenerated classes with a non-`None` `superclass` -/
  driftRemoved : Nat
  withBase : Nat
  /-- (class, user statements) of the RAW generateDS output (before the sed steps), after both sed steps -/
  rawUser : List (Nat × List (Item Nat))
  sedUser : List (Nat × List (Item Nat))
  deriving Repr

/-- the Python base-class list generateDS writes for a complexType -/
def expectedBases (rootBase : Nat) : Option Nat → List Nat
  | some b => [b]
  | none => [rootBase]

end NmlVerif.Regen
