/-!
# Model for C20 — regeneration of the bindings from the helper-method source (generateDS `--user-methods`)

What generateDS does for every class it writes (`generateDS.py`, `generateClasses` → `generateUserMethods`):

```
for spec in METHOD_SPECS:                      # tuple order
    if spec.match_name(class_name):            # helper_methods.MethodSpec.match_name
        wrt(spec.get_interpolated_source({'class_name': class_name}))
```
called LAST in the class body (after `build` / `_buildAttributes` / `_buildChildren`). `match_name` is

```
self.class_names == class_name or (isinstance(self.class_names, list) and class_name in self.class_names)
```
i.e. string equality, or membership of a Python *list*; any other value (tuple, `None`, compiled regex …)
never matches. No regular expression is used (the commented-out `re.compile` in `MethodSpec.__init__` is dead).

The tables (`Tables`) are produced by `translators/helpers_extract.py`; names are polymorphic (`α`): `Nat`
(interned) in the generated table, `String` in the driver.
-/
namespace NmlVerif.Regen

/-- the run-time value of `MethodSpec.class_names` as far as `match_name` can tell -/
inductive ClassNames (α : Type) where
  | str (s : α)
  | list (l : List α)
  | other
  deriving DecidableEq, Repr

/-- one class-body statement of a user-method source: its name (function name, or a pseudo-name for an
    assignment) and the digest of its normalised AST (the function name is part of the digested AST) -/
structure Item (α : Type) where
  name : α
  digest : Nat
  deriving DecidableEq, Repr

structure Spec (α : Type) where
  name : α
  classNames : ClassNames α
  items : List (Item α)
  deriving DecidableEq, Repr

/-- `MethodSpec.match_name` -/
def matchName {α : Type} [DecidableEq α] (cn : ClassNames α) (cls : α) : Bool :=
  match cn with
  | .str s => decide (s = cls)
  | .list l => decide (cls ∈ l)
  | .other => false

def insertionRule {α : Type} [DecidableEq α] (spec : Spec α) (cls : α) : Bool :=
  matchName spec.classNames cls

/-- the user part of class `cls` that `generateUserMethods` writes -/
def regenerated {α : Type} [DecidableEq α] (specs : List (Spec α)) (cls : α) : List (Item α) :=
  (specs.filter (insertionRule · cls)).flatMap (·.items)

/-- the class names a spec mentions -/
def ClassNames.named {α : Type} : ClassNames α → List α
  | .str s => [s]
  | .list l => l
  | .other => []

/-- version / command-line strings read from the sources -/
structure Versions where
  /-- `neuroml/__version__.py`: `current_neuroml_version` -/
  current : String
  /-- file the complex types of the table were read from (`NeuroML_<current>.xsd`, must exist) -/
  xsdRead : String
  /-- nml.py header, "Command line arguments:" -/
  headerXsd : String
  /-- nml.py header, positional argument of "Command line:" -/
  headerCmdXsd : String
  /-- nml.py header, "Command line options:" -/
  headerOptions : List (String × String)
  /-- nml.py header, options of "Command line:" -/
  headerCmdOptions : List (String × String)
  /-- what regenerate-nml.sh's `grep | cut | tr` pipeline yields on `__version__.py` -/
  scriptVersion : String
  /-- regenerate-nml.sh: `SCHEMA_FILE=<pre>${NEUROML_VERSION}<post>` -/
  scriptPre : String
  scriptPost : String
  /-- regenerate-nml.sh: options of the generateDS invocation (run on `$SCHEMA_FILE`) -/
  scriptOptions : List (String × String)
  /-- writers.py: file name in the schemaLocation URL is `<pre>%s<post> % neuroml.current_neuroml_version` -/
  writerPre : String
  writerPost : String
  /-- the `*.xsd` files shipped in `neuroml/nml/` -/
  bundled : List String
  /-- the user-methods file the specs of the table were read from -/
  helperFile : String
  deriving Repr

structure Tables where
  specs : List (Spec Nat)
  /-- binding class ↦ (name, digest) of its user statements, in source order -/
  shipped : List (Nat × List (Item Nat))
  /-- the binding classes of nml.py (classes with `member_data_items_` / `subclass`) -/
  classes : List Nat
  /-- complexType names of the schema, generateDS name mapping applied -/
  complexTypes : List Nat
  /-- the other top-level classes of nml.py -/
  otherClasses : List Nat
  /-- generateDS boiler-plate classes -/
  supportClasses : List Nat
  /-- simpleTypes of the schema that carry enumerations (generateDS writes an `Enum` class for each) -/
  enumTypes : List Nat
  /-- module-level imports of nml.py other than the ones generateDS's own header template writes -/
  shippedImports : List Nat
  /-- imports of the `--custom-imports-template` file (pasted into the header on regeneration) -/
  templateImports : List Nat
  versions : Versions

/-! ## Abstract sources (for the lifting lemma): `σ` is the type of normalised class-body statements -/

structure SpecS (α σ : Type) where
  name : α
  classNames : ClassNames α
  body : List σ

/-- what the translator records of a spec -/
def SpecS.abstract {α σ : Type} (key : σ → Item α) (s : SpecS α σ) : Spec α :=
  ⟨s.name, s.classNames, s.body.map key⟩

/-- the user statements generateDS writes into class `cls` -/
def regenS {α σ : Type} [DecidableEq α] (specs : List (SpecS α σ)) (cls : α) : List σ :=
  (specs.filter (fun s => matchName s.classNames cls)).flatMap (·.body)

/-- a class body: the schema-driven part followed by the user statements -/
structure ClassBody (σ : Type) where
  generated : List σ
  user : List σ

/-- regeneration keeps the schema-driven part (trusted: generateDS is deterministic in the schema) and
    replaces the user part by what the specs yield for this class -/
def regenClass {α σ : Type} [DecidableEq α] (specs : List (SpecS α σ)) (cls : α) (b : ClassBody σ) : ClassBody σ :=
  ⟨b.generated, regenS specs cls⟩

end NmlVerif.Regen
