import NmlVerif.Model.Accessors
/-
Regular expressions of the kind the NeuroML schema uses in its `xs:pattern` facets (and generateDS copies into the
`validate_*_patterns_` tables of `nml.py`): character classes, concatenation, alternation, `?`, `*`, `+`.

* `Rx` is the syntax; `harness/props/c19.py` (translators/c19_rx.py) parses the pattern strings found in the XSD and in
  `nml.py` with Python's own `re._parser` and emits them as `Rx` terms into `Gen/Accessors.lean`.
* `Matches` is the declarative meaning (the whole string is in the language; this is how generateDS applies a pattern:
  `^(…)$` and the match must span the target).
* `accepts` is an executable matcher (Brzozowski derivatives) used by the driver; `Proofs/Rx.lean` proves
  `accepts r s = true ↔ Matches r s`.

Mathlib-free, executable.
-/
namespace NmlVerif.Rx

/-- a character class: a union of code-point ranges, optionally with Python's `\s` (`str.isspace`, the prelude's
    `Acc.isSpace`) -/
structure CSet where
  ranges : List (Nat × Nat)
  space : Bool
deriving DecidableEq, Repr, Inhabited

def CSet.mem (cs : CSet) (c : Char) : Bool :=
  cs.ranges.any (fun r => decide (r.1 ≤ c.toNat) && decide (c.toNat ≤ r.2)) || (cs.space && Acc.isSpace c)

inductive Rx where
  | none                 -- matches nothing (only produced by derivatives)
  | eps                  -- the empty string
  | set (cs : CSet)      -- one character of the class
  | seq (a b : Rx)
  | alt (a b : Rx)
  | star (a : Rx)
deriving DecidableEq, Repr, Inhabited

namespace Rx

/-- a literal character -/
def chr (c : Char) : Rx := .set ⟨[(c.toNat, c.toNat)], false⟩
/-- `r?` -/
def opt (r : Rx) : Rx := .alt r .eps
/-- `r+` -/
def plus (r : Rx) : Rx := .seq r (.star r)

end Rx

/-- the whole string is in the language of the expression -/
inductive Matches : Rx → List Char → Prop where
  | eps : Matches .eps []
  | set (cs : CSet) (c : Char) (h : cs.mem c = true) : Matches (.set cs) [c]
  | seq {a b : Rx} {s t : List Char} : Matches a s → Matches b t → Matches (.seq a b) (s ++ t)
  | altL {a b : Rx} {s : List Char} : Matches a s → Matches (.alt a b) s
  | altR {a b : Rx} {s : List Char} : Matches b s → Matches (.alt a b) s
  | starNil {a : Rx} : Matches (.star a) []
  | starCons {a : Rx} {s t : List Char} : Matches a s → Matches (.star a) t → Matches (.star a) (s ++ t)

/-! ### executable matcher -/

def nullable : Rx → Bool
  | .none => false
  | .eps => true
  | .set _ => false
  | .seq a b => nullable a && nullable b
  | .alt a b => nullable a || nullable b
  | .star _ => true

/-- `seq` that keeps derivatives small -/
def sSeq (a b : Rx) : Rx :=
  match a with
  | .none => .none
  | .eps => b
  | a => .seq a b

/-- `alt` that keeps derivatives small -/
def sAlt (a b : Rx) : Rx :=
  match a, b with
  | .none, b => b
  | a, .none => a
  | a, b => .alt a b

/-- Brzozowski derivative -/
def deriv (c : Char) : Rx → Rx
  | .none => .none
  | .eps => .none
  | .set cs => if cs.mem c then .eps else .none
  | .seq a b => if nullable a then sAlt (sSeq (deriv c a) b) (deriv c b) else sSeq (deriv c a) b
  | .alt a b => sAlt (deriv c a) (deriv c b)
  | .star a => sSeq (deriv c a) (.star a)

def derivs (r : Rx) : List Char → Rx
  | [] => r
  | c :: s => derivs (deriv c r) s

def accepts (r : Rx) (s : List Char) : Bool := nullable (derivs r s)

/-! ### the two schema patterns the accessors of C19 live under (hand copies; `Props/C19Rx.lean` proves the
copies extracted from the XSD and from `nml.py` on every run are these terms) -/

def digit : Rx := .set ⟨[(48, 57)], false⟩
def idHead : Rx := .set ⟨[(97, 122), (65, 90), (95, 95)], false⟩
def idChar : Rx := .set ⟨[(97, 122), (65, 90), (48, 57), (95, 95)], false⟩
def spaceCls : Rx := .set ⟨[], true⟩
def expMark : Rx := .set ⟨[(101, 101), (69, 69)], false⟩

/-- `Nml2Quantity_time`: `-?([0-9]*(\.[0-9]+)?)([eE]-?[0-9]+)?[\s]*(s|ms)` -/
def timeRx : Rx :=
  .seq (Rx.opt (Rx.chr '-'))
    (.seq (.seq (.star digit) (Rx.opt (.seq (Rx.chr '.') (Rx.plus digit))))
      (.seq (Rx.opt (.seq expMark (.seq (Rx.opt (Rx.chr '-')) (Rx.plus digit))))
        (.seq (.star spaceCls) (.alt (Rx.chr 's') (.seq (Rx.chr 'm') (Rx.chr 's'))))))

/-- `Nml2PopulationReferencePath`:
    `(\.\./)?([a-zA-Z_][a-zA-Z0-9_]*)((\[[0-9]+\])|(/[0-9]+)+((/[a-zA-Z_][a-zA-Z0-9_]*)?)/?)` -/
def refRx : Rx :=
  .seq (Rx.opt (.seq (Rx.chr '.') (.seq (Rx.chr '.') (Rx.chr '/'))))
    (.seq (.seq idHead (.star idChar))
      (.alt (.seq (Rx.chr '[') (.seq (Rx.plus digit) (Rx.chr ']')))
        (.seq (Rx.plus (.seq (Rx.chr '/') (Rx.plus digit)))
          (.seq (Rx.opt (.seq (Rx.chr '/') (.seq idHead (.star idChar)))) (Rx.opt (Rx.chr '/'))))))

/-- `NmlId`: `[a-zA-Z_][a-zA-Z0-9_]*` -/
def nmlIdRx : Rx := .seq idHead (.star idChar)

/-! ### the number part of a time quantity, and the number it denotes -/

/-- the pieces of a string matched by `-?([0-9]*(\.[0-9]+)?)([eE]-?[0-9]+)?` -/
structure TimeNum where
  neg : Bool                                -- `-?`
  ip : List Char                            -- `[0-9]*`
  fd : Option (List Char)                   -- `(\.[0-9]+)?` : the digits after the point
  ex : Option (Char × Bool × List Char)     -- `([eE]-?[0-9]+)?` : the mark, `-?`, the digits
deriving Repr, Inhabited

/-- the mantissa text `<ip>[.<digits>]` -/
def mantText (ip : List Char) (fd : Option (List Char)) : List Char :=
  ip ++ (match fd with
    | Option.none => []
    | some d => '.' :: d)

/-- the exponent text `[eE]-?<digits>` -/
def expText (ex : Option (Char × Bool × List Char)) : List Char :=
  match ex with
  | Option.none => []
  | some (e, m, d) => e :: ((if m then ['-'] else []) ++ d)

def TimeNum.text (p : TimeNum) : List Char :=
  (if p.neg then ['-'] else []) ++ (mantText p.ip p.fd ++ expText p.ex)

/-- the pieces are what the pattern allows -/
structure TimeNum.WF (p : TimeNum) : Prop where
  ip_digits : ∀ c ∈ p.ip, c.isDigit = true
  fd_digits : ∀ d, p.fd = some d → Acc.isDigits d = true
  ex_ok : ∀ e m d, p.ex = some (e, m, d) → (e = 'e' ∨ e = 'E') ∧ Acc.isDigits d = true

/-- the decimal exponent -/
def TimeNum.expo (p : TimeNum) : Int :=
  match p.ex with
  | Option.none => 0
  | some (_, m, d) => if m then - (Acc.decVal d : Int) else (Acc.decVal d : Int)

/-- the value of the digits after the point -/
def fracOf : Option (List Char) → Rat
  | Option.none => 0
  | some d => (Acc.decVal d : Rat) * Acc.pow10 (-(d.length : Int))

/-- the number the spelling denotes, read as a decimal: `none` when there is no digit before the exponent
    (`""`, `"-"`, `"e5"`: the degenerate spellings the pattern admits and `float()` rejects) -/
def TimeNum.value (p : TimeNum) : Option Rat :=
  if p.ip = [] ∧ p.fd = Option.none then Option.none
  else
    let u : Rat := ((Acc.decVal p.ip : Rat) + fracOf p.fd) * Acc.pow10 p.expo
    some (if p.neg then -u else u)

/-! ### the slash forms the reference pattern admits -/

/-- the pieces of a string matched by `(\.\./)?<id>(/[0-9]+)+(/<id>)?/?` -/
structure RefParts where
  dots : Bool                     -- `(\.\./)?`
  pop : List Char                 -- the population id
  d1 : List Char                  -- the first index
  more : List (List Char)         -- further indices (`(/[0-9]+)+` repeats)
  comp : Option (List Char)       -- `(/<id>)?`
  slash : Bool                    -- the trailing `/?`
deriving Repr, Inhabited

/-- what follows the indices: `(/<id>)?/?` -/
def refEnd (comp : Option (List Char)) (slash : Bool) : List Char :=
  (match comp with
    | Option.none => []
    | some c => '/' :: c) ++ (if slash then ['/'] else [])

/-- what follows the first index -/
def refTail (more : List (List Char)) (comp : Option (List Char)) (slash : Bool) : List Char :=
  match more with
  | d :: m => '/' :: (d ++ refTail m comp slash)
  | [] => refEnd comp slash

def RefParts.text (p : RefParts) : List Char :=
  (if p.dots then ['.', '.', '/'] else []) ++ (p.pop ++ '/' :: (p.d1 ++ refTail p.more p.comp p.slash))

structure RefParts.WF (p : RefParts) : Prop where
  pop_id : Acc.isNmlId p.pop = true
  d1_digits : Acc.isDigits p.d1 = true
  more_digits : ∀ d ∈ p.more, Acc.isDigits d = true
  comp_id : ∀ c, p.comp = some c → Acc.isNmlId c = true

/-- what `_get_cell_id` does on a slash-form reference of the pattern: with the leading `../` the first index;
    without it `split('/')[2]` is one segment further along — the second index if there is one, else a component id
    or an empty string (`ValueError`), else nothing (`IndexError`) -/
def RefParts.outcome (p : RefParts) : Except Acc.Err Nat :=
  if p.dots then .ok (Acc.decVal p.d1)
  else match p.more with
    | d2 :: _ => .ok (Acc.decVal d2)
    | [] => if p.comp = Option.none ∧ p.slash = false then .error .indexError else .error .valueError

end NmlVerif.Rx
