import NmlVerif.Model.Binding
/-
Schema side of the binding table: the XSD as extracted by `translators/xsd_extract.py`, the validation items the
schema prescribes for a class (`schemaItems`), the model of `validate(recursive=True)` as repaired
(`validateAll`: every descendant against every class of its MRO) and as it was (`validateOld`: descendants only
against their own class), and agreement predicates between the two tables (decidable, kernel-checked per run).
Mathlib-free, executable.
-/
namespace NmlVerif.Schema
open NmlVerif.Binding

structure XAttr where
  name : Nat
  stype : Option Nat      -- a simple type declared in the schema (pattern / enumeration / range); none for xs:* builtins
  required : Bool
deriving Repr, DecidableEq, Inhabited

structure XElem where
  tag : Nat
  type : Nat
  lo : Nat                -- effective occurrence range (own × enclosing groups); 0 inside a choice
  hi : Option Nat
  inChoice : Bool
  text : Bool             -- simple content (a string element such as `notes`)
  stype : Option Nat
deriving Repr, DecidableEq, Inhabited

structure XType where
  name : Nat
  base : Option Nat
  attrs : List XAttr
  elems : List XElem      -- own element particles, flattened in document order
  hasAny : Bool
  requiredChoice : Bool   -- the own content model contains a choice group with minOccurs ≥ 1
  interleaved : Bool      -- … a repeated choice over a sequence group (cannot be written member-grouped)
  allGroup : Bool         -- the own content model is an `xs:all` group (any order, each particle at most once)
deriving Repr, Inhabited

abbrev Xsd := List XType

def findType (X : Xsd) (c : Nat) : Option XType := X.find? (fun t => t.name == c)

/-- a simple type's facets as they appear on either side (the schema's, or one `validate_<T>` copy in `nml.py`),
    canonicalised by the translators: anchored patterns stripped of `^(`…`)$`, enumerations in lexical form -/
structure Facets where
  name : Nat
  base : String
  patterns : List String
  enums : List String
  bounds : List (String × String)
deriving Repr, DecidableEq, Inhabited

def hiNat (h : Option Nat) : Nat := h.getD 9999999

/-- member that a class exports under an XML attribute name / element tag -/
def attrMember (k : ClassIR) (xml : Nat) : Option Nat := (k.expAttrs.find? (fun a => a.xml == xml)).map (·.member)
def elemMember (k : ClassIR) (tag : Nat) : Option Nat := (k.expChildren.find? (fun a => a.tag == tag)).map (·.member)

/-- the validation items the schema prescribes for the own members of a class -/
def schemaItems (k : ClassIR) (x : XType) : List VItem :=
  (x.attrs.flatMap fun a =>
    match attrMember k a.name with
    | none => []
    | some m => [VItem.req m a.required] ++ (match a.stype with | some t => [VItem.simple t m] | none => []))
  ++ (x.elems.flatMap fun e =>
    match elemMember k e.tag with
    | none => []
    | some m => (if e.inChoice then [] else [VItem.card m e.lo (hiNat e.hi)])
                ++ (match e.stype with | some t => [VItem.simple t m] | none => []))

def isBuiltin : VItem → Bool
  | .builtin _ _ => true
  | _ => false

/-- agreement of ONE class with its complex type (both directions) -/
def classAgrees (k : ClassIR) (x : XType) : Bool :=
  k.base == x.base
  -- the same attributes / elements under the same XML names, elements in particle order
  && (k.expAttrs.filter (fun a => a.fmt != .xsitype)).map (·.xml) == x.attrs.map (·.name)
  && (k.expChildren.filter (fun c => c.kind != .any)).map (·.tag) == x.elems.map (·.tag)
  && (k.expChildren.any (fun c => c.kind == .any)) == x.hasAny
  -- list-ness follows maxOccurs; text-ness follows simple content; child class = element type
  && (x.elems.all fun e => k.expChildren.any fun c => c.tag == e.tag && c.container == (hiNat e.hi > 1) && (c.kind == .text) == e.text)
  && (x.elems.all fun e => e.text || k.bldChildren.any fun b => b.tag == e.tag && b.cls == some e.type)
  -- every prescribed item is checked by `validate_` …
  && (schemaItems k x).all (fun it => k.validate.contains it)
  -- … and `validate_` checks nothing else (apart from always-true builtin-type items)
  && k.validate.all (fun it => isBuiltin it || (schemaItems k x).contains it)

def agree (T : Table) (X : Xsd) : Bool :=
  T.length == X.length
  && T.all (fun k => match findType X k.name with
      | some x => classAgrees k x
      | none => false)

def agreeViolations (T : Table) (X : Xsd) : List Nat :=
  (T.filter (fun k => match findType X k.name with
      | some x => !(classAgrees k x)
      | none => true)).map (·.name)

/-! ### objects: member counts and values -/

def attrVal (o : Obj) (m : Nat) : Option String :=
  match o with
  | .mk _ as _ ks =>
    match lookup m as with
    | some (some s) => some s
    | _ =>
      match lookup m ks with
      | some (Obj.mk _ _ (some s) _ :: _) => some s
      | _ => none

def count (o : Obj) (m : Nat) : Nat :=
  match o with
  | .mk _ as _ ks =>
    match lookup m as with
    | some (some _) => 1
    | some none => 0
    | none => (kidsOf m ks).length

/-- one generated check. `st v s`: does lexical value `s` satisfy simple type `v` (abstract: the facets agree
    syntactically on both sides, see `facetsAgree`). -/
def itemOK (st : Nat → String → Bool) (o : Obj) : VItem → Bool
  | .req m r => !r || decide (1 ≤ count o m)
  | .card m lo hi => decide (lo ≤ count o m) && decide (count o m ≤ hi)
  | .simple v m => match attrVal o m with | some s => st v s | none => true
  | .builtin _ _ => true

/-- `validate_` of every class in the MRO, on this object only -/
def nodeOK (T : Table) (st : Nat → String → Bool) (o : Obj) : Bool :=
  (chain T T.length o.cls).all fun k => k.validate.all (itemOK st o)

def objKids : Obj → List Obj
  | .mk _ _ _ ks => (ks.flatMap (·.2)).filter (fun c => c.cls != textCls)

/-- `validate(recursive=True)` as repaired: the whole MRO for this component, then the same for every child -/
def validateAll (T : Table) (st : Nat → String → Bool) : Nat → Obj → Bool
  | 0, _ => false
  | f+1, o => nodeOK T st o && (objKids o).all (validateAll T st f)

/-- `validate(recursive=False)` -/
def validateFlat (T : Table) (st : Nat → String → Bool) (o : Obj) : Bool := nodeOK T st o

/-- the generated `validate_(recursive=True)` of ONE class: own items, then the children it declares, each through
    the child's OWN class only -/
def ownOK (T : Table) (st : Nat → String → Bool) : Nat → Nat → Obj → Bool
  | 0, _, _ => false
  | f+1, c, o =>
    match findClass T c with
    | none => true
    | some k =>
      k.validate.all (itemOK st o)
      && k.recurse.all fun (m, _) => (match o with | .mk _ _ _ ks => kidsOf m ks).all fun ch => ownOK T st f ch.cls ch

/-- `validate(recursive=True)` as it was before the repair: every class of the ROOT's MRO runs its generated
    `validate_(recursive=True)` -/
def validateOld (T : Table) (st : Nat → String → Bool) (fuel : Nat) (o : Obj) : Bool :=
  (chain T T.length o.cls).all fun k => ownOK T st fuel k.name o

end NmlVerif.Schema

namespace NmlVerif.Schema
open NmlVerif.Binding

/-- every copy of a simple-type validator in `nml.py` carries the facets of the schema's simple type of that name -/
def facetsAgree (S : List Facets) (B : List (Nat × Facets)) : Bool :=
  B.all fun (_, f) => S.any fun s => s.name == f.name && s.patterns == f.patterns && s.enums == f.enums && s.bounds == f.bounds

/-- a required choice group (minOccurs ≥ 1) of the own content model has at least one branch present -/
def requiredChoiceOK (k : ClassIR) (x : XType) (o : Obj) : Bool :=
  !x.requiredChoice || (x.elems.filter (·.inChoice)).any fun e =>
    match elemMember k e.tag with
    | some m => decide (1 ≤ count o m)
    | none => false

/-- descendants through object-valued members (reflexive) -/
inductive Desc : Obj → Obj → Prop where
  | refl (o : Obj) : Desc o o
  | step {o c d : Obj} : c ∈ objKids o → Desc c d → Desc o d

def depth : Nat → Obj → Bool   -- `depth f o`: the tree below `o` has fewer than `f` levels
  | 0, _ => false
  | f+1, o => (objKids o).all (depth f)

end NmlVerif.Schema

namespace NmlVerif.Schema
open NmlVerif.Binding

/-! ### content models built from `sequence`s of element particles -/

def XElem.okCount (p : XElem) (n : Nat) : Bool :=
  decide (p.lo ≤ n) && (match p.hi with | none => true | some h => decide (n ≤ h))

/-- executable matcher for a `sequence` of element particles (what is compared with libxml2's verdicts): consume
    the maximal run of the current tag, check its occurrence range, continue -/
def matchSeq : List XElem → List Nat → Bool
  | [], w => w.isEmpty
  | p :: ps, w =>
    let n := (w.takeWhile (· == p.tag)).length
    p.okCount n && matchSeq ps (w.drop n)

/-- all element particles of a type, base types first (`extension` = base content followed by own content) -/
def fullElems (X : Xsd) : Nat → Nat → List XElem
  | 0, _ => []
  | f+1, c =>
    match findType X c with
    | none => []
    | some x => (match x.base with | some b => fullElems X f b | none => []) ++ x.elems

/-- the whole content model of the type is a sequence of element particles (no choice, no wildcard, no `all` group)
    along the extension chain: `matchSeq` is then exactly the schema's content model -/
def seqShaped (X : Xsd) : Nat → Nat → Bool
  | 0, _ => false
  | f+1, c =>
    match findType X c with
    | none => false
    | some x => !x.hasAny && !x.allGroup && x.elems.all (fun e => !e.inChoice)
                && (match x.base with | some b => seqShaped X f b | none => true)

/-- like `seqShaped` but `all` groups allowed: the sequence matcher is then only a SUFFICIENT condition
    (an `all` group also accepts the other orders) -/
def seqOrAllShaped (X : Xsd) : Nat → Nat → Bool
  | 0, _ => false
  | f+1, c =>
    match findType X c with
    | none => false
    | some x => !x.hasAny && x.elems.all (fun e => !e.inChoice)
                && (match x.base with | some b => seqOrAllShaped X f b | none => true)

/-- every class writes its children (inherited ones first) under the tags and in the order of the schema's
    particles, and those tags are pairwise distinct -/
def contentOrderAgrees (T : Table) (X : Xsd) : Bool :=
  T.all fun k =>
    match flatten T k.name with
    | some f => f.kids.map (·.tag) == (fullElems X X.length k.name).map (·.tag)
                && nodupNat (f.kids.map (·.tag))
    | none => false

end NmlVerif.Schema

namespace NmlVerif.Schema
open NmlVerif.Binding

/-! ### content models with `all` groups and element-level choices (second pass) -/

/-- one group of the own content model: a `sequence` of element particles, an `xs:all` group (each particle at most
    once, any order), or a `choice` (exactly one branch; a branch is an element particle with its own occurrence
    range, and a branch with `minOccurs = 0` may be empty) -/
inductive XGroup where
  | seq (es : List XElem)
  | all (es : List XElem)
  | choice (es : List XElem)
deriving Repr, Inhabited

def XGroup.elems : XGroup → List XElem
  | .seq es => es
  | .all es => es
  | .choice es => es

def XGroup.tags (g : XGroup) : List Nat := g.elems.map (·.tag)

def countTag (t : Nat) (w : List Nat) : Nat := (w.filter (· == t)).length

/-- one group against the part of the word that belongs to it -/
def matchGroup : XGroup → List Nat → Bool
  | .seq es, w => matchSeq es w
  | .all es, w => es.all (fun e => decide (e.lo ≤ countTag e.tag w) && decide (countTag e.tag w ≤ 1))
  | .choice es, w => es.any (fun e => w.all (· == e.tag) && e.okCount w.length)

/-- a sequence of groups with pairwise disjoint tag sets: every group takes the maximal prefix made of its own tags -/
def matchGroups : List XGroup → List Nat → Bool
  | [], w => w.isEmpty
  | g :: gs, w =>
    let mine := w.takeWhile (fun t => g.tags.contains t)
    matchGroup g mine && matchGroups gs (w.drop mine.length)

/-- the groups of a type, base types first; `none` when some type of the chain has a wildcard or a nested group the
    three group kinds do not express -/
def fullGroups (G : List (Nat × Option (List XGroup))) (X : Xsd) : Nat → Nat → Option (List XGroup)
  | 0, _ => none
  | f+1, c =>
    match findType X c, lookup c G with
    | some x, some (some gs) =>
      (match x.base with
       | some b => (fullGroups G X f b).map (· ++ gs)
       | none => some gs)
    | _, _ => none

/-- the group table lists exactly the element particles of the type table, in order (a choice branch carries its OWN
    occurrence range here, the effective range `0 …` there, so tags are compared); types without a group list are
    exactly those with a wildcard or a repeated choice over a sequence group -/
def groupsAgree (G : List (Nat × Option (List XGroup))) (X : Xsd) : Bool :=
  X.all fun x =>
    match lookup x.name G with
    | some (some gs) => (gs.flatMap XGroup.elems).map (·.tag) == x.elems.map (·.tag) && !x.hasAny
    | some none => x.hasAny || x.interleaved
    | none => false

/-- attribute declarations of a type, base types first -/
def fullAttrs (X : Xsd) : Nat → Nat → List XAttr
  | 0, _ => []
  | f+1, c =>
    match findType X c with
    | none => []
    | some x => (match x.base with | some b => fullAttrs X f b | none => []) ++ x.attrs

/-- every class writes its attributes (inherited ones first) under the schema's attribute names, in declaration
    order, pairwise distinct -/
def attrNamesAgree (T : Table) (X : Xsd) : Bool :=
  T.all fun k =>
    match flatten T k.name with
    | some f => f.attrs.map (·.xml) == (fullAttrs X X.length k.name).map (·.name)
                && nodupNat (f.attrs.map (·.xml))
    | none => false

end NmlVerif.Schema

