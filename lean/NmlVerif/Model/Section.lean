/-
Model of `Cell.create_unbranched_segment_group_branches` (neuroml/nml/helper_methods.py, copy in
neuroml/nml/nml.py class Cell) with the private `__sectionise` (iterative, explicit stack of branches:
fixes/C16-iterative-sectionise.patch), `add_unbranched_segment_group` /
`add_segment_group` / `get_segment_group`, `get_segment_adjacency_list`, `get_segment`, `get_actual_proximal`,
`reorder_segment_groups` and the part of `optimise_segment_groups` that C16 depends on.
Mathlib-free, executable, bug-for-bug (it says what the code DOES, including the reuse of an existing group
with a generated name, the stale `adjacency_list` cache and the interpreter's recursion limit, which after the
fix only `get_actual_proximal` can hit).

Python -> Lean
* a cell is a value `St = (segs, groups)`; every mutation returns a new value.  A group object reference is
  the *index* of the group in `morphology.segment_groups` (groups are only appended during sectioning).
* coordinates / `fraction_along` are `Rat` (the harness only feeds dyadic values, on which the float
  arithmetic of `get_actual_proximal` is exact).
* `lim` = number of Python frames still available to calls made from the body of
  `create_unbranched_segment_group_branches`; `__sectionise` takes one (it no longer calls itself) and every
  nested `get_actual_proximal` takes one; running out is `RecursionError`.
* `fuel` is a model artefact that makes `walk` / `sectLoop` structurally recursive on arbitrary (even cyclic)
  adjacency dictionaries; `Proofs/Section.lean` shows that `size t + 1` (hence `segs.length + 2`) suffices on a
  tree.
-/
namespace NmlVerif.Section

/-- `Point3DWithDiam` -/
structure Pt where
  x : Rat
  y : Rat
  z : Rat
  d : Rat
deriving DecidableEq, Repr, Inhabited

/-- `Segment`: id, `parent = (parent.segments, parent.fraction_along)`, optional proximal, distal -/
structure Seg where
  id : Nat
  parent : Option (Nat × Rat)
  prox : Option Pt
  dist : Pt
deriving DecidableEq, Repr, Inhabited

/-- `SegmentGroup`: id, neuro_lex_id, `members[*].segments`, `includes[*].segment_groups` -/
structure Group where
  id : String
  nlx : Option String
  members : List Nat
  includes : List String
deriving DecidableEq, Repr, Inhabited

structure St where
  segs : List Seg
  groups : List Group
deriving DecidableEq, Repr, Inhabited

inductive Err where
  | recursion      -- RecursionError
  | noSegment      -- ValueError from get_segment
  | noParent       -- AttributeError: segment without proximal and without parent
  | noGroup        -- ValueError from get_segment_group (empty id)
  | fuel           -- model artefact: the adjacency dictionary is not tree shaped (the real loop does not end)
deriving DecidableEq, Repr, Inhabited

/-- `neuroml.neuro_lex_ids.neuro_lex_ids["section"]` -/
def sectionNlx : String := "sao864921383"

/-! ### `get_segment_adjacency_list` : a dict parent id -> list of child ids, in document order -/

abbrev Adj := List (Nat × List Nat)

def lookup (adj : Adj) (k : Nat) : Option (List Nat) :=
  match adj with
  | [] => none
  | (k', v) :: r => if k' = k then some v else lookup r k

/-- `if parent not in child_lists: child_lists[parent] = []` ; `child_lists[parent].append(id)` -/
def adjInsert (adj : Adj) (p c : Nat) : Adj :=
  match adj with
  | [] => [(p, [c])]
  | (k, v) :: r => if k = p then (k, v ++ [c]) :: r else (k, v) :: adjInsert r p c

def adjStep (adj : Adj) (s : Seg) : Adj :=
  match s.parent with
  | some (p, _) => adjInsert adj p s.id
  | none => adj                            -- AttributeError caught: "Warning: Segment ... has no parent"

def adjacency (segs : List Seg) : Adj := segs.foldl adjStep []

/-! ### `get_segment`, `get_actual_proximal` -/

def getSegment (segs : List Seg) (i : Nat) : Option Seg := segs.find? (fun s => s.id == i)

/-- `(1-fract)*pp + fract*pd`, coordinate-wise and for the diameter -/
def lerp (f : Rat) (pp pd : Pt) : Pt :=
  ⟨(1 - f) * pp.x + f * pd.x, (1 - f) * pp.y + f * pd.y, (1 - f) * pp.z + f * pd.z, (1 - f) * pp.d + f * pd.d⟩

/-- `get_actual_proximal(segment_id)` with `lim` frames available -/
def actualProximal (segs : List Seg) : Nat → Nat → Except Err Pt
  | 0, _ => .error .recursion
  | lim + 1, i =>
    match getSegment segs i with
    | none => .error .noSegment
    | some s =>
      match s.prox with
      | some p => .ok p
      | none =>
        match s.parent with
        | none => .error .noParent
        | some (pid, f) =>
          match getSegment segs pid with
          | none => .error .noSegment
          | some ps =>
            if f = 1 then .ok ps.dist
            else if f = 0 then actualProximal segs lim pid
            else match actualProximal segs lim pid with
              | .ok pp => .ok (lerp f pp ps.dist)
              | .error e => .error e

/-- `seg = get_segment(i); seg.proximal = p` (the first segment with that id is the object mutated) -/
def setProx (segs : List Seg) (i : Nat) (p : Pt) : List Seg :=
  match segs with
  | [] => []
  | s :: r => if s.id = i then { s with prox := some p } :: r else s :: setProx r i p

/-! ### groups -/

/-- the f-string `f"seg_group_{n}_seg_{seg_id}"` -/
def genName (n segId : Nat) : String := "seg_group_" ++ toString n ++ "_seg_" ++ toString segId

/-- `get_segment_group(sg_id)`: index of the first group with that id; an empty id is never found -/
def findGroup (gs : List Group) (name : String) : Option Nat :=
  if name = "" then none else gs.findIdx? (fun g => g.id == name)

/-- `add_unbranched_segment_group(name)`: the existing group with that id (left as it is, also its
    neuro_lex_id), or a new empty group carrying the section NeuroLex id, appended -/
def addGroup (gs : List Group) (name : String) : List Group × Nat :=
  match findGroup gs name with
  | some i => (gs, i)
  | none => (gs ++ [⟨name, some sectionNlx, [], []⟩], gs.length)

def modifyAt (gs : List Group) (i : Nat) (f : Group → Group) : List Group :=
  match gs, i with
  | [], _ => []
  | g :: r, 0 => f g :: r
  | g :: r, i + 1 => g :: modifyAt r i f

/-- `seg_group.add("Member", segments=s)`: the generic `add` refuses a member equal to an existing one -/
def addMemberG (s : Nat) (g : Group) : Group :=
  if s ∈ g.members then g else { g with members := g.members ++ [s] }

def St.addMember (st : St) (gi s : Nat) : St := { st with groups := modifyAt st.groups gi (addMemberG s) }

/-! ### `__sectionise` (iterative: the branches still to be processed are kept on an explicit stack)

```
todo = [(root_segment_id, seg_group)]
while todo:
    root_segment_id, seg_group = todo.pop()
    if seg_group is None:                                   -- `openBranch`
        seg = self.get_segment(root_segment_id)
        seg.proximal = self.get_actual_proximal(seg.id)
        group_name = f"seg_group_{len(self.morphology.segment_groups) - 1}_seg_{seg.id}"
        seg_group = self.add_unbranched_segment_group(group_name)
    try:                                                    -- `walk`
        children = morph_tree[root_segment_id]
        while len(children) == 1:
            seg_group.add("Member", segments=root_segment_id)
            root_segment_id = children[0]
            children = morph_tree[root_segment_id]
        if len(children) > 1:
            seg_group.add("Member", segments=root_segment_id)
            for child in reversed(children):
                todo.append((child, None))
    except KeyError:
        seg_group.add("Member", segments=root_segment_id)
```
The Python stack grows at the END of `todo`; the model keeps the top of the stack at the HEAD of the list, so
pushing the children in reverse at the end is prepending them in order. -/

/-- the `try:` block for the branch starting at `x` whose group is `groups[gi]`: walk down while there is exactly
    one child; returns the new cell and the children that start new branches (none at a leaf) -/
def walk (adj : Adj) : Nat → St → Nat → Nat → Except Err (St × List Nat)
  | 0, _, _, _ => .error .fuel
  | fuel + 1, st, x, gi =>
    match lookup adj x with
    | none => .ok (st.addMember gi x, [])                     -- KeyError: leaf
    | some [] => .ok (st, [])                                  -- empty child list (hand-made cache): nothing added
    | some [c] => walk adj fuel (st.addMember gi x) c gi
    | some (c1 :: c2 :: cs) => .ok (st.addMember gi x, c1 :: c2 :: cs)

/-- `if seg_group is None:` the first segment `c` of a new branch: make its proximal explicit (with `lim` frames
    for `get_actual_proximal`), open its group -/
def openBranch (st : St) (lim c : Nat) : Except Err (St × Nat) :=
  match getSegment st.segs c with
  | none => .error .noSegment
  | some s =>
    match actualProximal st.segs lim s.id with
    | .error e => .error e
    | .ok p =>
      let segs' := setProx st.segs c p
      let (gs', gi') := addGroup st.groups (genName (st.groups.length - 1) s.id)
      .ok (⟨segs', gs'⟩, gi')

/-- `while todo:`; a stack entry is (first segment of the branch, index of its group if it exists already) -/
def sectLoop (adj : Adj) : Nat → Nat → St → List (Nat × Option Nat) → Except Err St
  | _, _, st, [] => .ok st
  | 0, _, _, _ :: _ => .error .fuel
  | fuel + 1, lim, st, (x, og) :: todo =>
    match (match og with
      | some gi => (.ok (st, gi) : Except Err (St × Nat))
      | none => openBranch st lim x) with
    | .error e => .error e
    | .ok (st1, gi) =>
      match walk adj fuel st1 x gi with
      | .error e => .error e
      | .ok (st2, kids) => sectLoop adj fuel lim st2 (kids.map (fun c => (c, none)) ++ todo)

/-! ### `reorder_segment_groups` -/

/-- `seg_groups.append(seg_groups.pop(seg_groups.index(sg)))` for the first group called `name` -/
def moveToEnd (gs : List Group) (name : String) : List Group :=
  match findGroup gs name with
  | none => gs
  | some i =>
    match gs[i]? with
    | none => gs
    | some g => gs.eraseIdx i ++ [g]

def defaultGroups : List String := ["soma_group", "axon_group", "dendrite_group", "all"]

def reorderGroups (gs : List Group) : List Group := defaultGroups.foldl moveToEnd gs

/-! ### `optimise_segment_groups`

`optimise_segment_group` on a group WITHOUT includes only de-duplicates the members.  What it does to a group
with includes (sorting, dropping members that an included group resolves to) is the subject of property C14
and is a parameter `oi` here: C16's theorems hold for every `oi`, and the driver marks such groups as not
modelled. -/

def dedup : List Nat → List Nat
  | [] => []
  | a :: l => let r := dedup l; a :: r.filter (fun b => b != a)

def optGroup (oi : List Group → Group → Group) (gs : List Group) (g : Group) : Group :=
  let g1 := { g with members := dedup g.members }
  if g.includes = [] then g1 else oi gs g1

/-- `optimise_segment_group(name)` -/
def optimiseOne (oi : List Group → Group → Group) (gs : List Group) (name : String) : Except Err (List Group) :=
  match findGroup gs name with
  | none => .error .noGroup
  | some i => .ok (modifyAt gs i (optGroup oi gs))

/-- `for seg_group in segment_groups: optimise_segment_group(seg_group.id)` -/
def optimiseAll (oi : List Group → Group → Group) (gs : List Group) : List String → Except Err (List Group)
  | [] => .ok gs
  | n :: ns =>
    match optimiseOne oi gs n with
    | .error e => .error e
    | .ok gs' => optimiseAll oi gs' ns

/-! ### `create_unbranched_segment_group_branches` -/

/-- the root segment opens the first group: its proximal is made explicit as well
    (`if seg.proximal is None and seg.parent is not None: seg.proximal = self.get_actual_proximal(seg.id)`) -/
def rootProx (segs : List Seg) (lim : Nat) (s : Seg) (root : Nat) : Except Err (List Seg) :=
  if s.prox = none ∧ s.parent ≠ none then
    match actualProximal segs lim s.id with
    | .ok p => .ok (setProx segs root p)
    | .error e => .error e
  else .ok segs

/-- the sectioning phase: everything before the optional reorder / optimise passes.
    `cache` = `getattr(self, "adjacency_list", None)`. -/
def sectionPhase (cell : St) (cache : Option Adj) (root lim fuel : Nat) : Except Err St :=
  let adj := cache.getD (adjacency cell.segs)
  match getSegment cell.segs root with
  | none => .error .noSegment
  | some s =>
    match rootProx cell.segs lim s root with
    | .error e => .error e
    | .ok segs' =>
      let (gs, gi) := addGroup cell.groups (genName cell.groups.length s.id)
      match lim with
      | 0 => .error .recursion
      | lim' + 1 => sectLoop adj fuel lim' ⟨segs', gs⟩ [(root, some gi)]

def run (oi : List Group → Group → Group) (cell : St) (cache : Option Adj) (root : Nat)
    (reorder optimise : Bool) (lim fuel : Nat) : Except Err St :=
  match sectionPhase cell cache root lim fuel with
  | .error e => .error e
  | .ok st =>
    let gs1 := if reorder then reorderGroups st.groups else st.groups
    if optimise then
      match optimiseAll oi gs1 (gs1.map (·.id)) with
      | .error e => .error e
      | .ok gs2 => .ok ⟨st.segs, gs2⟩
    else .ok ⟨st.segs, gs1⟩

/-! ### the cell OBJECT over its life: morphology + the cached adjacency list (`cell.adjacency_list`)

`create_unbranched_segment_group_branches` reads `getattr(self, "adjacency_list", None)`, computes and STORES the
adjacency list when there is none (`get_segment_adjacency_list` assigns `self.adjacency_list`), and never
modifies the dictionary.  So a call leaves a cache behind, later calls (and `get_graph`) reuse it, and only
`get_segment_adjacency_list()` brings it up to date after the morphology has grown. -/

structure CellS where
  segs : List Seg
  groups : List Group
  /-- `cell.adjacency_list` (`none`: the attribute does not exist) -/
  cache : Option Adj
deriving DecidableEq, Repr, Inhabited

def CellS.st (c : CellS) : St := ⟨c.segs, c.groups⟩

/-- `get_segment_adjacency_list()`: recomputed and stored, every time -/
def CellS.refresh (c : CellS) : CellS := { c with cache := some (adjacency c.segs) }

/-- `getattr(self, "adjacency_list", None)`, computed and stored only if absent (first lines of
    `create_unbranched_segment_group_branches` and of `get_graph`) -/
def CellS.ensure (c : CellS) : CellS := { c with cache := some (c.cache.getD (adjacency c.segs)) }

/-- one call of `create_unbranched_segment_group_branches` on the cell object: the adjacency list it used stays
    cached, unmodified -/
def call (oi : List Group → Group → Group) (c : CellS) (root : Nat) (reorder optimise : Bool) (lim fuel : Nat) :
    Except Err CellS :=
  match run oi c.st c.cache root reorder optimise lim fuel with
  | .error e => .error e
  | .ok st => .ok ⟨st.segs, st.groups, c.ensure.cache⟩

/-- what can happen to a cell object between / around sectioning calls (as far as C16 is concerned) -/
inductive Op where
  | sect (root : Nat) (reorder optimise : Bool)   -- create_unbranched_segment_group_branches(root, ...)
  | refresh                                        -- get_segment_adjacency_list()
  | ensure                                         -- get_graph() (reads the cache, fills it if absent)
  | append (s : Seg)                               -- morphology.segments.append(s): the cache is NOT updated
  | addGroup (g : Group)                           -- morphology.segment_groups.append(g)
deriving Repr, Inhabited

def step (oi : List Group → Group → Group) (lim fuel : Nat) (c : CellS) : Op → Except Err CellS
  | .sect root reorder optimise => call oi c root reorder optimise lim fuel
  | .refresh => .ok c.refresh
  | .ensure => .ok c.ensure
  | .append s => .ok { c with segs := c.segs ++ [s] }
  | .addGroup g => .ok { c with groups := c.groups ++ [g] }

/-- a history: the operations in order, stopping at the first exception -/
def runOps (oi : List Group → Group → Group) (lim fuel : Nat) : CellS → List Op → Except Err CellS
  | c, [] => .ok c
  | c, op :: ops =>
    match step oi lim fuel c op with
    | .error e => .error e
    | .ok c' => runOps oi lim fuel c' ops

/-! ### the tree an adjacency dictionary unfolds to (used by the driver to evaluate theorem hypotheses) -/

inductive Tree where
  | node (id : Nat) (kids : List Tree)
deriving Repr, Inhabited

def Tree.id : Tree → Nat | .node i _ => i
def Tree.kids : Tree → List Tree | .node _ ks => ks

def mapOpt {α β : Type} (f : α → Option β) : List α → Option (List β)
  | [] => some []
  | a :: l => match f a with
    | none => none
    | some b => match mapOpt f l with
      | none => none
      | some bs => some (b :: bs)

/-- unfold `adj` from `root` (`none` when `fuel` runs out, or an entry is an empty child list) -/
def buildTree (adj : Adj) : Nat → Nat → Option Tree
  | 0, _ => none
  | fuel + 1, root =>
    match lookup adj root with
    | none => some (.node root [])
    | some [] => none
    | some (c :: cs) =>
      match mapOpt (buildTree adj fuel) (c :: cs) with
      | none => none
      | some ks => some (.node root ks)

mutual
  def preorder : Tree → List Nat
    | .node i ks => i :: preorderL ks
  def preorderL : List Tree → List Nat
    | [] => []
    | t :: ts => preorder t ++ preorderL ts
end

mutual
  /-- number of nodes -/
  def size : Tree → Nat
    | .node _ ks => 1 + sizeL ks
  def sizeL : List Tree → Nat
    | [] => 0
    | t :: ts => size t + sizeL ts
end

mutual
  /-- number of branch points nested on a root-to-leaf path (the recursion depth of the sectioniser before
      fixes/C16-iterative-sectionise.patch; irrelevant now, reported by the driver for the input distribution) -/
  def nest : Tree → Nat
    | .node _ [] => 0
    | .node _ [k] => nest k
    | .node _ (k1 :: k2 :: ks) => 1 + nestL (k1 :: k2 :: ks)
  def nestL : List Tree → Nat
    | [] => 0
    | t :: ts => max (nest t) (nestL ts)
end

/-! ### specification-level functions on the tree (not part of the model of the code)

`first t` is the maximal unbranched chain that starts at the root of `t`; `rest t` lists, in the order in
which the code opens them, the remaining chains as `(first segment, chain)`. -/

def first : Tree → List Nat
  | .node i [] => [i]
  | .node i [k] => i :: first k
  | .node i (_ :: _ :: _) => [i]

/-- the subtrees hanging off the end of the chain `first t` (none at a leaf, at least two at a branch point) -/
def endKids : Tree → List Tree
  | .node _ [] => []
  | .node _ [k] => endKids k
  | .node _ (k1 :: k2 :: ks) => k1 :: k2 :: ks

mutual
  def rest : Tree → List (Nat × List Nat)
    | .node _ [] => []
    | .node _ [k] => rest k
    | .node _ (k1 :: k2 :: ks) => restL (k1 :: k2 :: ks)
  def restL : List Tree → List (Nat × List Nat)
    | [] => []
    | t :: ts => ((t.id, first t) :: rest t) ++ restL ts
end

/-- the group that is opened when `morphology.segment_groups` has `L` entries, for the chain `ch` -/
def freshAt (L : Nat) (ch : Nat × List Nat) : Group := ⟨genName (L - 1) ch.1, some sectionNlx, ch.2, []⟩

def mkFresh (L : Nat) : List (Nat × List Nat) → List Group
  | [] => []
  | ch :: r => freshAt L ch :: mkFresh (L + 1) r

/-- the new unbranched groups, in creation order, for a cell that had `G0` groups -/
def newGroups (G0 : Nat) (t : Tree) : List Group :=
  ⟨genName G0 t.id, some sectionNlx, first t, []⟩ :: mkFresh (G0 + 1) (rest t)

def nodupB : List Nat → Bool
  | [] => true
  | a :: l => !l.contains a && nodupB l

def isOk {ε α : Type} : Except ε α → Bool
  | .ok _ => true
  | .error _ => false

/-- decidable form of the hypotheses of the C16 theorems (`Proofs/Section.lean: hypB_sound`): evaluated by the
    driver on every generated case.  Only the root and the first segment of every later chain need a resolvable
    proximal (within `lim - 1` frames: `get_actual_proximal` is called from `__sectionise`). -/
def hypB (cell : St) (cache : Option Adj) (root lim fuel : Nat) : Bool :=
  (match cache with | none => true | some a => decide (a = adjacency cell.segs)) &&
  nodupB (cell.segs.map (·.id)) && (getSegment cell.segs root).isSome &&
  match buildTree (adjacency cell.segs) (cell.segs.length + 1) root with
  | none => false
  | some t =>
    nodupB (preorder t) && decide (1 ≤ lim) && decide (size t + 1 ≤ fuel) &&
    (root :: (rest t).map (·.1)).all (fun x => isOk (actualProximal cell.segs (lim - 1) x)) &&
    cell.groups.all (fun g => !(newGroups cell.groups.length t).any (fun n => n.id == g.id)) &&
    cell.groups.all (fun g => g.id != "")

instance {ε α : Type} [DecidableEq ε] [DecidableEq α] : DecidableEq (Except ε α) := fun a b =>
  match a, b with
  | .ok x, .ok y => if h : x = y then isTrue (by rw [h]) else isFalse (by intro e; cases e; exact h rfl)
  | .error x, .error y => if h : x = y then isTrue (by rw [h]) else isFalse (by intro e; cases e; exact h rfl)
  | .ok _, .error _ => isFalse (by intro e; cases e)
  | .error _, .ok _ => isFalse (by intro e; cases e)

end NmlVerif.Section
