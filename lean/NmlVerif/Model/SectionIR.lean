import NmlVerif.Model.Section
/-!
A small imperative vocabulary for the two methods of C16, `Cell.create_unbranched_segment_group_branches` and the
private `Cell.__sectionise`: the *statements* of those methods (one primitive per statement form, with the meaning
the hand model `Model/Section.lean` gives it) and generic *control-flow combinators* (`block`, `whileC`, `ifC`,
`tryKeyError`, `forEach`, `callMethod`).

`translators/py2lean_section.py` reads the two methods from `neuroml/nml/helper_methods.py` and `neuroml/nml/nml.py`
on every run and writes them down, statement by statement and with their real nesting, as terms of this vocabulary
(`lean/NmlVerif/Gen/Section.lean`); `Props/C16Gen.lean` proves that those terms compute what the hand model
(`sectLoop`, `call`) computes.  So the order of statements, the nesting of loops / `if` / `try`, which branch adds
the member, the direction in which children are pushed … are taken from the source, not from a reading of it.

Python -> here
* local variables = the record `Locals`; a `SegmentGroup` reference = index into `morphology.segment_groups`;
  `seg` = (the id it was looked up with, the segment as it was then); `todo` = the Python list, LAST element on top.
* exceptions: `KeyError` is a result of its own (it is caught inside `__sectionise`); every other exception of the
  model (`Err`) propagates; reading an unbound local / `None.add` / `[][0]` / `[].pop()` is `stuck`.
* `fuel` bounds the iterations of every `while` (model artefact, as in `Model/Section.lean`).
-/
namespace NmlVerif.Section.IR

structure Locals where
  root_segment_id : Nat := 0
  seg_group : Option Nat := none
  new_seg_group : Option Nat := none
  morph_tree : Option Adj := none
  children : List Nat := []
  todo : List (Nat × Option Nat) := []
  seg : Option (Nat × Seg) := none
  group_name : String := ""
  num_seg_groups : Nat := 0
  child : Nat := 0
  reorder_segment_groups : Bool := false
  optimise_segment_groups : Bool := false
deriving Inhabited

/-- the cell object (`st`, `cache` = `self.adjacency_list`), the Python frames still available to calls made from
    the running method, the locals of the running method -/
structure Sigma where
  st : St
  cache : Option Adj
  frames : Nat
  loc : Locals
deriving Inhabited

inductive Res where
  | normal (σ : Sigma)
  | keyError (σ : Sigma)          -- a KeyError is propagating; what was done so far stays done
  | error (e : Err)               -- any other exception of the model (incl. out of `fuel`)
  | stuck                         -- the program read an unbound local: cannot happen in a translated method
deriving Inhabited

/-- a statement (list): fuel → state → result -/
abbrev Cmd := Nat → Sigma → Res

/-! ### control flow (generic) -/

def skip : Cmd := fun _ σ => .normal σ

def seq (a b : Cmd) : Cmd := fun f σ =>
  match a f σ with
  | .normal σ' => b f σ'
  | r => r

def block : List Cmd → Cmd
  | [] => skip
  | c :: cs => seq c (block cs)

/-- `while cond: body` -/
def whileC (cond : Sigma → Bool) (body : Cmd) : Nat → Sigma → Res
  | 0, σ => if cond σ then .error .fuel else .normal σ
  | f + 1, σ =>
    if cond σ then
      match body f σ with
      | .normal σ' => whileC cond body f σ'
      | r => r
    else .normal σ

/-- `if cond: body` (no `else`) -/
def ifC (cond : Sigma → Bool) (body : Cmd) : Cmd := fun f σ => if cond σ then body f σ else .normal σ

/-- `try: body` / `except KeyError: handler` -/
def tryKeyError (body handler : Cmd) : Cmd := fun f σ =>
  match body f σ with
  | .keyError σ' => handler f σ'
  | r => r

/-- `for child in xs: body` -/
def forEach (xs : Sigma → List Nat) (body : Cmd) : Cmd := fun f σ =>
  (xs σ).foldl (fun r x =>
    match r with
    | .normal σ' => body f { σ' with loc := { σ'.loc with child := x } }
    | r => r) (.normal σ)

/-- `self.<callee>(root_segment_id, new_seg_group, morph_tree)`: one Python frame, fresh locals bound to the
    arguments; the caller's locals come back afterwards -/
def callSectionise (callee : Cmd) : Cmd := fun f σ =>
  match σ.frames with
  | 0 => .error .recursion
  | l + 1 =>
    let args : Locals :=
      { root_segment_id := σ.loc.root_segment_id, seg_group := σ.loc.new_seg_group, morph_tree := σ.loc.morph_tree }
    match callee f { σ with frames := l, loc := args } with
    | .normal σ' => .normal { σ with st := σ'.st, cache := σ'.cache }
    | .keyError σ' => .keyError { σ with st := σ'.st, cache := σ'.cache }
    | r => r

/-! ### conditions -/

/-- `todo` -/
def todoNonEmpty (σ : Sigma) : Bool := !σ.loc.todo.isEmpty
/-- `seg_group is None` -/
def segGroupIsNone (σ : Sigma) : Bool := σ.loc.seg_group.isNone
/-- `len(children) == 1` -/
def oneChild (σ : Sigma) : Bool := σ.loc.children.length == 1
/-- `len(children) > 1` -/
def manyChildren (σ : Sigma) : Bool := decide (σ.loc.children.length > 1)
/-- `morph_tree is None` -/
def morphTreeIsNone (σ : Sigma) : Bool := σ.loc.morph_tree.isNone
/-- `seg.proximal is None and seg.parent is not None` -/
def segProxNoneAndParent (σ : Sigma) : Bool :=
  match σ.loc.seg with
  | some (_, s) => s.prox.isNone && s.parent.isSome
  | none => false
/-- `reorder_segment_groups` -/
def reorderFlag (σ : Sigma) : Bool := σ.loc.reorder_segment_groups
/-- `optimise_segment_groups` -/
def optimiseFlag (σ : Sigma) : Bool := σ.loc.optimise_segment_groups

/-- `reversed(children)` -/
def reversedChildren (σ : Sigma) : List Nat := σ.loc.children.reverse
/-- `children` -/
def childrenInOrder (σ : Sigma) : List Nat := σ.loc.children

/-! ### statements -/

/-- `todo = [(root_segment_id, seg_group)]` -/
def initTodo : Cmd := fun _ σ =>
  .normal { σ with loc := { σ.loc with todo := [(σ.loc.root_segment_id, σ.loc.seg_group)] } }

/-- `root_segment_id, seg_group = todo.pop()` -/
def popTodo : Cmd := fun _ σ =>
  match σ.loc.todo.getLast? with
  | none => .stuck
  | some (x, g) => .normal { σ with loc := { σ.loc with todo := σ.loc.todo.dropLast, root_segment_id := x, seg_group := g } }

/-- `seg = self.get_segment(root_segment_id)` -/
def getSegmentRoot : Cmd := fun _ σ =>
  match getSegment σ.st.segs σ.loc.root_segment_id with
  | none => .error .noSegment
  | some s => .normal { σ with loc := { σ.loc with seg := some (σ.loc.root_segment_id, s) } }

/-- `seg.proximal = self.get_actual_proximal(seg.id)` -/
def setProximalActual : Cmd := fun _ σ =>
  match σ.loc.seg with
  | none => .stuck
  | some (ref, s) =>
    match actualProximal σ.st.segs σ.frames s.id with
    | .error e => .error e
    | .ok p => .normal { σ with st := { σ.st with segs := setProx σ.st.segs ref p } }

/-- `group_name = f"seg_group_{len(self.morphology.segment_groups) - 1}_seg_{seg.id}"` -/
def groupNameCountMinus1 : Cmd := fun _ σ =>
  match σ.loc.seg with
  | none => .stuck
  | some (_, s) => .normal { σ with loc := { σ.loc with group_name := genName (σ.st.groups.length - 1) s.id } }

/-- `num_seg_groups = len(self.morphology.segment_groups)` -/
def numSegGroups : Cmd := fun _ σ =>
  .normal { σ with loc := { σ.loc with num_seg_groups := σ.st.groups.length } }

/-- `group_name = f"seg_group_{num_seg_groups}_seg_{seg.id}"` -/
def groupNameNum : Cmd := fun _ σ =>
  match σ.loc.seg with
  | none => .stuck
  | some (_, s) => .normal { σ with loc := { σ.loc with group_name := genName σ.loc.num_seg_groups s.id } }

/-- `seg_group = self.add_unbranched_segment_group(group_name)` -/
def addUnbranchedSegGroup : Cmd := fun _ σ =>
  let r := addGroup σ.st.groups σ.loc.group_name
  .normal { σ with st := { σ.st with groups := r.1 }, loc := { σ.loc with seg_group := some r.2 } }

/-- `new_seg_group = self.add_unbranched_segment_group(group_name)` -/
def addUnbranchedNewSegGroup : Cmd := fun _ σ =>
  let r := addGroup σ.st.groups σ.loc.group_name
  .normal { σ with st := { σ.st with groups := r.1 }, loc := { σ.loc with new_seg_group := some r.2 } }

/-- `children = morph_tree[root_segment_id]` -/
def lookupChildren : Cmd := fun _ σ =>
  match σ.loc.morph_tree with
  | none => .stuck
  | some adj =>
    match lookup adj σ.loc.root_segment_id with
    | none => .keyError σ
    | some cs => .normal { σ with loc := { σ.loc with children := cs } }

/-- `seg_group.add("Member", segments=root_segment_id)` -/
def addMember : Cmd := fun _ σ =>
  match σ.loc.seg_group with
  | none => .stuck
  | some gi => .normal { σ with st := σ.st.addMember gi σ.loc.root_segment_id }

/-- `root_segment_id = children[0]` -/
def descend : Cmd := fun _ σ =>
  match σ.loc.children with
  | [] => .stuck
  | c :: _ => .normal { σ with loc := { σ.loc with root_segment_id := c } }

/-- `todo.append((child, None))` -/
def appendTodoChildNone : Cmd := fun _ σ =>
  .normal { σ with loc := { σ.loc with todo := σ.loc.todo ++ [(σ.loc.child, none)] } }

/-- `morph_tree = getattr(self, "adjacency_list", None)` -/
def getCachedTree : Cmd := fun _ σ => .normal { σ with loc := { σ.loc with morph_tree := σ.cache } }

/-- `morph_tree = self.get_segment_adjacency_list()` (which also assigns `self.adjacency_list`) -/
def computeTree : Cmd := fun _ σ =>
  let a := adjacency σ.st.segs
  .normal { σ with cache := some a, loc := { σ.loc with morph_tree := some a } }

/-- `self.reorder_segment_groups()` -/
def reorderGroupsP : Cmd := fun _ σ => .normal { σ with st := { σ.st with groups := reorderGroups σ.st.groups } }

/-- `self.optimise_segment_groups()` -/
def optimiseGroupsP (oi : List Group → Group → Group) : Cmd := fun _ σ =>
  match optimiseAll oi σ.st.groups (σ.st.groups.map (·.id)) with
  | .error e => .error e
  | .ok gs => .normal { σ with st := { σ.st with groups := gs } }

/-- a statement the translator does not know (never generated without a reported gap) -/
def unsupported : Cmd := fun _ _ => .stuck

end NmlVerif.Section.IR
