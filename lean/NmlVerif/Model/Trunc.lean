/-
Truncation clause of C08: the token stream a model XML writer emits for an element tree, and the
well-formedness check a parser applies to it.  Mathlib-free, executable.

generateDS `export` writes, for an element with children, `<tag attrs>` children `</tag>`; for an element
without children `<tag attrs/>`; character data (`notes`, annotations) as text.  A token is one of these four
pieces; bytes inside a token are handled by `cutTokens` (a cut inside a token leaves an unterminated piece).
-/
namespace NmlVerif.Trunc

inductive Tok where
  | op (tag : Nat)        -- `<tag …>`
  | cl (tag : Nat)        -- `</tag>`
  | empty (tag : Nat)     -- `<tag …/>`
  | text                  -- character data
  | partial_              -- a token cut in the middle: `<ta`, `<tag att="x`, `</ta`, half a character reference
deriving DecidableEq, Repr

inductive Tree where
  | node (tag : Nat) (kids : List Tree)
  | leaf (tag : Nat)
  | text
deriving Repr

mutual
def tokens : Tree → List Tok
  | .node t ks => .op t :: (tokensL ks ++ [.cl t])
  | .leaf t => [.empty t]
  | .text => [.text]
def tokensL : List Tree → List Tok
  | [] => []
  | x :: xs => tokens x ++ tokensL xs
end

/-- a document's root is an element -/
def Tree.isElement : Tree → Bool
  | .text => false
  | _ => true

/-- nesting depth after reading `l` starting at depth `d`; `none` = rejected (close without open, cut token) -/
def bal : List Tok → Nat → Option Nat
  | [], d => some d
  | .op _ :: r, d => bal r (d + 1)
  | .cl _ :: r, d => match d with | 0 => none | d + 1 => bal r d
  | .empty _ :: r, d => bal r d
  | .text :: r, d => bal r d
  | .partial_ :: _, _ => none

/-- what a parser accepts as a complete document (necessary condition): something was read, nothing is cut,
    every opened element is closed -/
def Complete (l : List Tok) : Prop := l ≠ [] ∧ bal l 0 = some 0

instance (l : List Tok) : Decidable (Complete l) := by unfold Complete; exact inferInstance

/-- the token stream seen after cutting the byte stream: `k` whole tokens, then (if `inside`) a piece of the
    next one -/
def cutTokens (l : List Tok) (k : Nat) (inside : Bool) : List Tok :=
  l.take k ++ (if inside then [.partial_] else [])

end NmlVerif.Trunc
