/-
Truncation clause of C08, second model: the token stream of a written XML file *with its white space*, and the
acceptor a parser applies to it.  Mathlib-free, executable.

`Model/Trunc.lean` (first pass) has no white-space tokens and a necessary condition only (`bal`).  Here

* the document is `tokens root ++ trail`: the element tree as generateDS `export` lays it out — `<tag attrs>`,
  children, `</tag>`; `<tag attrs/>`; character data; the indentation and line ends between tags are tokens of
  their own (`ws`) — followed by the white space the writer puts after the root's end tag (`</neuroml>` is
  followed by one line feed);
* a byte cut falls either on a token boundary, or inside a markup token (what is left of it is `partial_`:
  `<ta`, `<tag att="x`, `</neuro`), or inside character data / white space (what is left is again character
  data or white space — *not* a broken token);
* the acceptor `scan` is what an XML parser demands of the token sequence: exactly one root element, every
  element closed, no character data outside the root, nothing broken.  White space is allowed anywhere,
  in particular after the root.
-/
namespace NmlVerif.TruncWs

inductive Tok where
  | op (tag : Nat)        -- `<tag …>`
  | cl (tag : Nat)        -- `</tag>`
  | empty (tag : Nat)     -- `<tag …/>`
  | text                  -- character data with at least one non-blank character
  | ws                    -- white space only
  | partial_              -- a markup token cut in the middle
deriving DecidableEq, Repr

inductive Tree where
  | node (tag : Nat) (kids : List Tree)
  | leaf (tag : Nat)
  | text
  | ws
deriving Repr

mutual
def tokens : Tree → List Tok
  | .node t ks => .op t :: (tokensL ks ++ [.cl t])
  | .leaf t => [.empty t]
  | .text => [.text]
  | .ws => [.ws]
def tokensL : List Tree → List Tok
  | [] => []
  | x :: xs => tokens x ++ tokensL xs
end

/-- a document's root is an element -/
def Tree.isElement : Tree → Bool
  | .node _ _ => true
  | .leaf _ => true
  | _ => false

/-- parser state: (nesting depth, the root element has been closed) -/
abbrev PS := Nat × Bool

def step : PS → Tok → Option PS
  | (d, done), .op _ => if done then none else some (d + 1, false)      -- a second root element is rejected
  | (0, _), .cl _ => none                                               -- end tag without start tag
  | (d + 1, _), .cl _ => some (d, d == 0)
  | (d, done), .empty _ => if done then none else some (d, d == 0)
  | (0, _), .text => none                                               -- character data outside the root element
  | (d + 1, b), .text => some (d + 1, b)
  | s, .ws => some s
  | _, .partial_ => none

def scan : List Tok → PS → Option PS
  | [], s => some s
  | t :: r, s => (step s t).bind (scan r)

/-- accepted as a complete document: one root element, closed; nothing broken, nothing but white space around -/
def Complete (l : List Tok) : Prop := scan l (0, false) = some (0, true)

instance (l : List Tok) : Decidable (Complete l) := by unfold Complete; exact inferInstance

/-- the white space after the root's end tag -/
def trail (n : Nat) : List Tok := List.replicate n .ws

/-- what is left of a token that is cut in the middle -/
inductive Rest where
  | boundary          -- the cut falls between two tokens
  | markup            -- inside `<…>`: a broken token
  | chars             -- inside character data: shorter character data
  | blank             -- inside white space (or in the blank head of character data): shorter white space
deriving DecidableEq, Repr

def Rest.toks : Rest → List Tok
  | .boundary => []
  | .markup => [.partial_]
  | .chars => [.text]
  | .blank => [.ws]

/-- the token stream seen after cutting the byte stream: `k` whole tokens, then the rest of the next one -/
def cut (l : List Tok) (k : Nat) (r : Rest) : List Tok := l.take k ++ r.toks

end NmlVerif.TruncWs
