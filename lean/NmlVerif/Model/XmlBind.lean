import NmlVerif.Model.Binding
import NmlVerif.Model.XmlText
/-!
Link between the binding level (`XNode`: names interned as `Nat`, values as `String`) and the text level (`TNode`:
names and values as `List Char`): a name table, `rename` / `unrename`, and the composed writer / reader
"object tree → characters" and "characters → object tree".  Mathlib-free, executable.
-/
namespace NmlVerif.XmlBind
open NmlVerif.Binding NmlVerif.XmlText

abbrev NameTable := List (Nat × Str)

/-- the XML name interned under `n` (the empty string — not an XML name — for numbers outside the table) -/
def nm (T : NameTable) (n : Nat) : Str := (lookup n T).getD []

/-- the number an XML name is interned under (first entry carrying that name) -/
def ix (T : NameTable) (s : Str) : Option Nat := (T.find? fun p => p.2 = s).map (·.1)

/-- per-entry check of a name table: every entry is an XML name and is found again under its own number -/
def namesOK (T : NameTable) : Bool := T.all fun p => isName p.2 && (ix T p.2 == some p.1) && (lookup p.1 T == some p.2)

def known (T : NameTable) (n : Nat) : Bool := (lookup n T).isSome

/-- every element tag and attribute name the export methods of a binding table write is in the name table -/
def tableNamesOK (T : NameTable) (B : Table) : Bool :=
  B.all fun k =>
    k.expAttrs.all (fun a => a.fmt == .xsitype || known T a.xml) &&
    k.expChildren.all (fun c => c.kind == .any || known T c.tag)

def mapOpt' {α β : Type} (f : α → Option β) : List α → Option (List β)
  | [] => some []
  | a :: l =>
    match f a, mapOpt' f l with
    | some b, some bs => some (b :: bs)
    | _, _ => none

def rename (T : NameTable) : Nat → XNode → TNode
  | 0, _ => .mk [] [] none []
  | f + 1, .mk tag attrs text ch =>
    .mk (nm T tag) (attrs.map fun p => (nm T p.1, p.2.toList)) (text.map (·.toList)) (ch.map (rename T f))

def unrename (T : NameTable) : Nat → TNode → Option XNode
  | 0, _ => none
  | f + 1, .mk tag attrs text ch =>
    match ix T tag, mapOpt' (fun (p : Str × Str) => (ix T p.1).map fun n => (n, String.ofList p.2)) attrs,
          mapOpt' (unrename T f) ch with
    | some t, some as, some cs => some (.mk t as (text.map String.ofList) cs)
    | _, _, _ => none

/-- `export` to characters: the tree the binding level exports, named, laid out as `export(pretty_print=True)` does -/
def writeObj (T : NameTable) (flat : Nat → Option FlatClass) (fuel tag : Nat) (o : Obj) : Option Str :=
  (exportObj flat fuel tag o).map fun x => serialise fuel (rename T fuel x)

/-- characters to object tree: XML reader, names looked up, `build` of class `c` -/
def readObj (T : NameTable) (flat : Nat → Option FlatClass) (fuel c : Nat) (txt : Str) : Option Obj :=
  ((parse txt).bind (unrename T fuel)).bind (buildObj flat fuel c)

end NmlVerif.XmlBind
