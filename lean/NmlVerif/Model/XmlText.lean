/-
Text level of the XML binding (properties C01 / C04): what `export` writes as characters and what an XML 1.0
parser reads back from them.  Mathlib-free, executable.  Strings are `List Char`.

* §1  Python string primitives used by the translated support functions (`Gen/Quote.lean` is regenerated from
      `neuroml/nml/nml.py` on every run and proved equal to the hand definitions of §2 in `Props/C01Text.lean`).
* §2  `quoteXmlAux`, `quoteXml`, `quoteAttrib`, boolean / integer codecs: bug-for-bug hand models.
* §3  the reader's character-level decoding (XML 1.0 §2.2 Char, §2.11 end-of-line handling, §3.3.3 attribute-value
      normalisation, §4.1 character references, §4.6 predefined entities).
* §4  concrete tokens (`CTok`: every presentation choice of a tag is a field), `render`, the tokenizer.
* §5  trees with string names (`TNode`), the tree builder `treeOf` (a stack machine over tokens), `parse`.
* §6  the writer's layout: `toks` (tokens of a tree under an arbitrary decoration of the gaps between children),
      `prettyDeco` (what `export(pretty_print=True)` writes), `serialise`.
-/
namespace NmlVerif.XmlText

abbrev Str := List Char

/-! ## §1 Python primitives -/
namespace Py

/-- `s.replace(c, r)` for a one-character `c` (the translator refuses longer search strings) -/
def replace1 (c : Char) (r : Str) (s : Str) : Str := s.flatMap fun x => if x = c then r else [x]

/-- `isinstance(x, BaseStrType_) and x or "%s" % x` (and its conditional-expression spelling) on a `str`: the identity
    (for the empty string the `or` branch formats it, giving the empty string again) -/
def strCoerce (s : Str) : Str := s

/-- `s[a:b]` for `0 ≤ a`, `0 ≤ b` -/
def slice (s : Str) (a b : Nat) : Str := (s.drop a).take (b - a)

/-- `s[a:]` -/
def sliceFrom (s : Str) (a : Nat) : Str := s.drop a

/-- `pre + s + post` (the result of `'<pre>%s<post>' % s`) -/
def wrap (pre post : Str) (s : Str) : Str := pre ++ s ++ post

def cdataOpen : Str := "<![CDATA[".toList
def cdataClose : Str := "]]>".toList

/-- offset of the first occurrence of `p` in `s`, where `s` is the suffix of the subject string at offset `i` -/
def findAt (p : Str) : Str → Nat → Option Nat
  | [], i => if p = [] then some i else none
  | c :: r, i => if p.isPrefixOf (c :: r) then some i else findAt p r (i + 1)

/-- the successive leftmost non-overlapping matches of `<!\[CDATA\[.*?\]\]>` (DOTALL, non-greedy) as (start, end) -/
def cdataMatches : Nat → Str → Nat → List (Nat × Nat)
  | 0, _, _ => []
  | f + 1, s, off =>
    match findAt cdataOpen s off with
    | none => []
    | some a =>
      match findAt cdataClose (s.drop (a - off + 9)) (a + 9) with
      | none => []
      | some b => (a, b + 3) :: cdataMatches f (s.drop (b + 3 - off)) (b + 3)

/-- `CDATA_pattern_.finditer(s)` -/
def cdataFinditer (s : Str) : List (Nat × Nat) := cdataMatches (s.length + 1) s 0

/-- Python `str.strip()` restricted to the ASCII whitespace characters -/
def isPySpace (c : Char) : Bool :=
  c = ' ' || c = '\t' || c = '\n' || c = '\r' || c = '\x0b' || c = '\x0c' || c = '\x1c' || c = '\x1d' || c = '\x1e' || c = '\x1f'

def strip (s : Str) : Str := ((s.dropWhile isPySpace).reverse.dropWhile isPySpace).reverse

/-- what CPython's two float formatting operations give for one value: `"%s" % x` (= `repr`) and `"%.15f" % float(x)`.
    The value itself never enters the model (trusted base: CPython float formatting / parsing, sampled). -/
structure FloatLex where
  repr : Str
  f15 : Str

/-- `s.rstrip(c)` for a one-character `c` -/
def rstrip1 (c : Char) (s : Str) : Str := (s.reverse.dropWhile (· = c)).reverse

/-- `s.endswith(p)` -/
def endswith (p s : Str) : Bool := p.reverse.isPrefixOf s.reverse

/-- `{k: v, ...}.get(key, default)` -/
def dictGet (tbl : List (Str × Str)) (key dflt : Str) : Str :=
  match tbl.find? (fun p => p.1 = key) with
  | some p => p.2
  | none => dflt

def strOfBool (b : Bool) : Str := if b then "True".toList else "False".toList      -- `"%s" % b`
def lower (s : Str) : Str := s.map Char.toLower                                     -- `s.lower()` (ASCII)
def fmtD (i : Int) : Str := (toString i).toList                                     -- `"%d" % i`

/-- digits of a Python integer literal body: decimal digits, single underscores only between digits -/
def pyDigits : Str → Option Nat → Bool → Option Nat        -- rest, accumulator (none = no digit yet), previous was '_'
  | [], some n, false => some n
  | [], _, _ => none
  | c :: r, acc, us =>
    if c.isDigit then pyDigits r (some (acc.getD 0 * 10 + (c.toNat - 48))) false
    else if c = '_' then (match acc, us with | some _, false => pyDigits r acc true | _, _ => none)
    else none

/-- the builtin `int(s)` on ASCII input: surrounding whitespace stripped, optional sign, decimal digits with single
    underscores between them (non-ASCII digits and whitespace are not modelled); `none` = `ValueError` -/
def int (s : Str) : Option Int :=
  match strip s with
  | '-' :: r => (pyDigits r none false).map fun n => - (n : Int)
  | '+' :: r => (pyDigits r none false).map fun n => (n : Int)
  | r => (pyDigits r none false).map fun n => (n : Int)

end Py

/-! ## §2 the support functions of `nml.py` (hand models) -/

def quoteXmlAux (inStr : Str) : Str :=
  let s1 := Py.replace1 '&' "&amp;".toList inStr
  let s1 := Py.replace1 '<' "&lt;".toList s1
  let s1 := Py.replace1 '>' "&gt;".toList s1
  s1

/-- `quote_xml`: CDATA sections are copied verbatim, everything between them goes through `quote_xml_aux` -/
def quoteXml (inStr : Str) : Str :=
  if inStr = [] then [] else
  let s1 := Py.strCoerce inStr
  let s2 : Str := []
  let pos : Nat := 0
  let matchobjects := Py.cdataFinditer s1
  let st := matchobjects.foldl (fun (st : Str × Nat) (mo : Nat × Nat) =>
      let s2 := st.1
      let pos := st.2
      let s3 := Py.slice s1 pos mo.1
      let s2 := s2 ++ quoteXmlAux s3
      let s2 := s2 ++ Py.slice s1 mo.1 mo.2
      let pos := mo.2
      (s2, pos)) (s2, pos)
  let s2 := st.1
  let pos := st.2
  let s3 := Py.sliceFrom s1 pos
  let s2 := s2 ++ quoteXmlAux s3
  s2

def quoteAttrib (inStr : Str) : Str :=
  let s1 := Py.strCoerce inStr
  let s1 := Py.replace1 '&' "&amp;".toList s1
  let s1 := Py.replace1 '<' "&lt;".toList s1
  let s1 := Py.replace1 '>' "&gt;".toList s1
  let s1 := Py.replace1 '\n' "&#10;".toList s1
  if '"' ∈ s1 then
    if '\'' ∈ s1 then
      Py.wrap ['"'] ['"'] (Py.replace1 '"' "&quot;".toList s1)
    else
      Py.wrap ['\''] ['\''] s1
  else
    Py.wrap ['"'] ['"'] s1

/-- `gds_format_boolean`: `("%s" % b).lower()` -/
def fmtBool (b : Bool) : Str := if b then "true".toList else "false".toList

/-- `gds_parse_boolean`: strip, then `true`/`1` or `false`/`0`; anything else raises -/
def parseBool (s : Str) : Option Bool :=
  let s := Py.strip s
  if s = "true".toList ∨ s = "1".toList then some true
  else if s = "false".toList ∨ s = "0".toList then some false
  else none

/-- `gds_format_integer`: `"%d" % int(i)` -/
def fmtInt (i : Int) : Str := (toString i).toList

/-- the XSD spellings of the non-finite values -/
def xsdNonfinite (s : Str) : Str :=
  Py.dictGet [("inf".toList, "INF".toList), ("-inf".toList, "-INF".toList), ("nan".toList, "NaN".toList)] s s

/-- `gds_format_double` on the lexical level: `"%s" % x`, non-finite values re-spelled when `xsd` -/
def fmtDouble (xsd : Bool) (x : Py.FloatLex) : Str :=
  let value := x.repr
  if xsd then xsdNonfinite value else value

/-- `gds_format_float` on the lexical level: `"%.15f" % x` without trailing zeros (one kept after the point) -/
def fmtFloat (xsd : Bool) (x : Py.FloatLex) : Str :=
  let value := Py.rstrip1 '0' x.f15
  let value := if Py.endswith ['.'] value = true then value ++ "0".toList else value
  if xsd then xsdNonfinite value else value

/-- `gds_parse_integer`: `int(s)`, a `ValueError` becomes a parse error -/
def parseInt (s : Str) : Option Int := Py.int s

/-! ## §3 character-level decoding done by an XML 1.0 processor -/

/-- XML 1.0 §2.2 `Char` (surrogates are not Lean `Char`s) -/
def isXmlChar (c : Char) : Bool :=
  c = '\t' || c = '\n' || c = '\r' || (0x20 ≤ c.toNat && c.toNat ≠ 0xFFFE && c.toNat ≠ 0xFFFF)

/-- XML 1.0 §2.3 `S` -/
def isWs (c : Char) : Bool := c = ' ' || c = '\t' || c = '\n' || c = '\r'

/-- §2.11: CR LF and lone CR become LF before anything else happens -/
def eolGo : Bool → Str → Str          -- flag: the previous character was a CR
  | _, [] => []
  | cr, c :: r =>
    if c = '\r' then '\n' :: eolGo true r
    else if c = '\n' ∧ cr = true then eolGo false r
    else c :: eolGo false r

def eolNorm (s : Str) : Str := eolGo false s

def hexVal (c : Char) : Option Nat :=
  if c.isDigit then some (c.toNat - 48)
  else if 'a'.toNat ≤ c.toNat ∧ c.toNat ≤ 'f'.toNat then some (c.toNat - 87)
  else if 'A'.toNat ≤ c.toNat ∧ c.toNat ≤ 'F'.toNat then some (c.toNat - 55)
  else none

def decNum : Str → Option Nat → Option Nat
  | [], acc => acc
  | c :: r, acc => if c.isDigit then decNum r (some (acc.getD 0 * 10 + (c.toNat - 48))) else none

def hexNum : Str → Option Nat → Option Nat
  | [], acc => acc
  | c :: r, acc => match hexVal c with
    | some v => hexNum r (some (acc.getD 0 * 16 + v))
    | none => none

def charOfCode (n : Nat) : Option Char :=
  if n.isValidChar ∧ isXmlChar (Char.ofNat n) = true then some (Char.ofNat n) else none

/-- the replacement text of the reference `&name;` (predefined entities §4.6, character references §4.1);
    no DTD, so every other entity name is an error -/
def resolve : Str → Option Char
  | ['a', 'm', 'p'] => some '&'
  | ['l', 't'] => some '<'
  | ['g', 't'] => some '>'
  | ['q', 'u', 'o', 't'] => some '"'
  | ['a', 'p', 'o', 's'] => some '\''
  | '#' :: 'x' :: ds => (hexNum ds none).bind charOfCode
  | '#' :: ds => (decNum ds none).bind charOfCode
  | _ => none

/-- decoding of raw character data (`attr = false`) or of a raw attribute value (`attr = true`, §3.3.3: a literal
    white-space character becomes a space, characters coming from references are kept).  `none`: not well-formed
    (raw `<`, a character outside `Char`, an unknown or unterminated reference).
    Second argument: the name of the reference being read, if any. -/
def decGo (attr : Bool) : Option Str → Str → Option Str
  | none, [] => some []
  | some _, [] => none
  | none, c :: r =>
    if c = '&' then decGo attr (some []) r
    else if c = '<' then none
    else if isXmlChar c = false then none
    else (decGo attr none r).map ((if attr && isWs c then ' ' else c) :: ·)
  | some acc, c :: r =>
    if c = ';' then
      match resolve acc with
      | some x => (decGo attr none r).map (x :: ·)
      | none => none
    else decGo attr (some (acc ++ [c])) r

def decAttrRaw (raw : Str) : Option Str := decGo true none raw

/-- `]]>` must not occur in character data (§2.4) -/
def hasCdataClose : Str → Bool
  | ']' :: ']' :: '>' :: _ => true
  | _ :: r => hasCdataClose r
  | [] => false

def decTextRaw (raw : Str) : Option Str := if hasCdataClose raw then none else decGo false none raw

/-- what the parser returns for the attribute value literal `q` (delimiter, body, same delimiter) -/
def readAttr (q : Str) : Option Str :=
  match eolNorm q with
  | [] => none
  | d :: rest =>
    if d = '"' ∨ d = '\'' then
      let body := rest.takeWhile (· ≠ d)
      if rest.drop body.length = [d] then decAttrRaw body else none
    else none

/-- what the parser returns for character data written as `t` (one text run without markup) -/
def readText (t : Str) : Option Str := decTextRaw (eolNorm t)

/-! ## §4 tokens -/

def isNameStart (c : Char) : Bool := c.isAlpha || c = '_' || c = ':'
def isNameChar (c : Char) : Bool := c.isAlpha || c.isDigit || c = '_' || c = ':' || c = '-' || c = '.'

/-- an XML name over the ASCII subset of `NameStartChar` / `NameChar` (all names of the bindings are ASCII) -/
def isName : Str → Bool
  | [] => false
  | c :: r => isNameStart c && r.all isNameChar

/-- an attribute as it is written: white space, name, `=`, delimiter, raw value -/
structure CAttr where
  ws : Str          -- before the name (at least one white-space character)
  name : Str
  ws1 : Str         -- between the name and `=`
  ws2 : Str         -- between `=` and the delimiter
  quote : Char      -- `"` or `'`
  raw : Str
deriving Repr, DecidableEq

inductive CTok where
  | open (name : Str) (attrs : List CAttr) (wsEnd : Str)         -- `<name attrs wsEnd>`
  | selfClose (name : Str) (attrs : List CAttr) (wsEnd : Str)    -- `<name attrs wsEnd/>`
  | close (name : Str) (ws : Str)                                -- `</name ws>`
  | chars (raw : Str)                                            -- character data up to the next `<`
  | cdata (body : Str)                                           -- `<![CDATA[body]]>`
  | comment (body : Str)                                         -- `<!--body-->`
  | pi (body : Str)                                              -- `<?body?>` (XML declaration, processing instruction)
deriving Repr, DecidableEq

inductive Tok where
  | open (name : Str) (attrs : List (Str × Str))
  | selfClose (name : Str) (attrs : List (Str × Str))
  | close (name : Str)
  | chars (s : Str)
  | misc
deriving Repr, DecidableEq

def renderAttr (a : CAttr) : Str := a.ws ++ a.name ++ a.ws1 ++ ['='] ++ a.ws2 ++ [a.quote] ++ a.raw ++ [a.quote]

def renderTok : CTok → Str
  | .open n as w => '<' :: n ++ as.flatMap renderAttr ++ w ++ ['>']
  | .selfClose n as w => '<' :: n ++ as.flatMap renderAttr ++ w ++ ['/', '>']
  | .close n w => '<' :: '/' :: n ++ w ++ ['>']
  | .chars raw => raw
  | .cdata b => '<' :: '!' :: '[' :: 'C' :: 'D' :: 'A' :: 'T' :: 'A' :: '[' :: (b ++ [']', ']', '>'])
  | .comment b => '<' :: '!' :: '-' :: '-' :: (b ++ ['-', '-', '>'])
  | .pi b => '<' :: '?' :: b ++ ['?', '>']

def render (cs : List CTok) : Str := cs.flatMap renderTok

def absAttr (a : CAttr) : Option (Str × Str) := (decAttrRaw a.raw).map fun v => (a.name, v)

def mapOpt {α β : Type} (f : α → Option β) : List α → Option (List β)
  | [] => some []
  | a :: l =>
    match f a, mapOpt f l with
    | some b, some bs => some (b :: bs)
    | _, _ => none

def nodupStr : List Str → Bool
  | [] => true
  | a :: l => !(l.contains a) && nodupStr l

/-- the abstract token a concrete token stands for (`none`: its raw value does not decode) -/
def absTok : CTok → Option Tok
  | .open n as _ => (mapOpt absAttr as).bind fun l => if nodupStr (l.map (·.1)) = false then none else some (Tok.open n l)
  | .selfClose n as _ => (mapOpt absAttr as).bind fun l => if nodupStr (l.map (·.1)) = false then none else some (Tok.selfClose n l)
  | .close n _ => some (.close n)
  | .chars raw => (decTextRaw raw).map Tok.chars
  | .cdata b => if b.all isXmlChar then some (.chars b) else none
  | .comment _ => some .misc
  | .pi _ => some .misc

/-- split at the first occurrence of `p`: (before, after) -/
def splitAt? (p : Str) : Str → Option (Str × Str)
  | [] => if p = [] then some ([], []) else none
  | c :: r =>
    if p.isPrefixOf (c :: r) then some ([], (c :: r).drop p.length)
    else (splitAt? p r).map fun x => (c :: x.1, x.2)

/-- attributes of a start tag, up to and including `>` or `/>`: (attributes, self-closing, rest).
    White space is required before every attribute. -/
def readAttrs : Nat → Str → Option (List (Str × Str) × Bool × Str)
  | 0, _ => none
  | f + 1, s =>
    let s1 := s.dropWhile isWs
    if s1.head? = some '>' then some ([], false, s1.tail)
    else if s1.head? = some '/' then (if s1.tail.head? = some '>' then some ([], true, s1.tail.tail) else none)
    else if s.head?.map isWs ≠ some true then none
    else
      let name := s1.takeWhile isNameChar
      if isName name = false then none else
      let s2 := (s1.drop name.length).dropWhile isWs
      if s2.head? ≠ some '=' then none else
      let s3 := s2.tail.dropWhile isWs
      match s3 with
      | [] => none
      | q :: r2 =>
        if q = '"' ∨ q = '\'' then
          let raw := r2.takeWhile (· ≠ q)
          if (r2.drop raw.length).head? ≠ some q then none else
          match decAttrRaw raw, readAttrs f (r2.drop raw.length).tail with
          | some v, some (as, sc, rest) => some ((name, v) :: as, sc, rest)
          | _, _ => none
        else none

/-- one tag after `<` -/
def readTag (s : Str) : Option (Tok × Str) :=
  if s.head? = some '/' then
    let r := s.tail
    let name := r.takeWhile isNameChar
    if isName name = false then none else
    let r1 := (r.drop name.length).dropWhile isWs
    if r1.head? = some '>' then some (.close name, r1.tail) else none
  else
    let name := s.takeWhile isNameChar
    if isName name = false then none else
    match readAttrs (s.length + 1) (s.drop name.length) with
    | some (as, sc, rest) =>
      if nodupStr (as.map (·.1)) = false then none
      else some (if sc then .selfClose name as else .open name as, rest)
    | none => none

def tokenize : Nat → Str → Option (List Tok)
  | 0, _ => none
  | _ + 1, [] => some []
  | f + 1, '<' :: r =>
    if "!--".toList.isPrefixOf r then
      match splitAt? "--".toList (r.drop 3) with
      | some (_, '>' :: rest) => (tokenize f rest).map (.misc :: ·)
      | _ => none
    else if "![CDATA[".toList.isPrefixOf r then
      match splitAt? "]]>".toList (r.drop 8) with
      | some (b, rest) => if b.all isXmlChar then (tokenize f rest).map (.chars b :: ·) else none
      | none => none
    else if "?".toList.isPrefixOf r then
      match splitAt? "?>".toList (r.drop 1) with
      | some (_, rest) => (tokenize f rest).map (.misc :: ·)
      | none => none
    else
      match readTag r with
      | some (t, rest) => (tokenize f rest).map (t :: ·)
      | none => none
  | f + 1, c :: r =>
    let raw := (c :: r).takeWhile (· ≠ '<')
    match decTextRaw raw with
    | some s => (tokenize f ((c :: r).drop raw.length)).map (.chars s :: ·)
    | none => none

/-! ## §5 trees -/

inductive TNode where
  | mk (tag : Str) (attrs : List (Str × Str)) (text : Option Str) (children : List TNode)
deriving Inhabited

def TNode.tag : TNode → Str | .mk t _ _ _ => t

structure Frame where
  name : Str
  attrs : List (Str × Str)
  text : Str
  kids : List TNode

/-- a finished element goes to its parent, or becomes the document element -/
def addChild (n : TNode) : List Frame → Option TNode → Option (List Frame × Option TNode)
  | [], none => some ([], some n)
  | [], some _ => none
  | f :: st, d => some ({ f with kids := f.kids ++ [n] } :: st, d)

def closeNode (f : Frame) : TNode :=
  .mk f.name f.attrs (if f.kids.isEmpty then some f.text else none) f.kids

/-- the tree builder: the text of an element is all its character data if it has no child element and an explicit
    end tag (`<a/>` has none); character data of an element WITH child elements is dropped — no `build` of the
    bindings ever reads it; comments and processing instructions are skipped -/
def run : List Frame → Option TNode → List Tok → Option TNode
  | [], some t, [] => some t
  | _, _, [] => none
  | st, d, .misc :: r => run st d r
  | st, d, .open n a :: r =>
    match st, d with
    | [], some _ => none
    | _, _ => run (⟨n, a, [], []⟩ :: st) d r
  | st, d, .selfClose n a :: r =>
    match addChild (.mk n a none []) st d with
    | some (st', d') => run st' d' r
    | none => none
  | [], _, .close _ :: _ => none
  | f :: st, d, .close n :: r =>
    if f.name = n then
      match addChild (closeNode f) st d with
      | some (st', d') => run st' d' r
      | none => none
    else none
  | [], d, .chars s :: r => if s.all isWs then run [] d r else none
  | f :: st, d, .chars s :: r => run ({ f with text := f.text ++ s } :: st) d r

def treeOf (ts : List Tok) : Option TNode := run [] none ts

/-- the reader: end-of-line normalisation, tokens, tree -/
def parse (txt : Str) : Option TNode :=
  let s := eolNorm txt
  (tokenize (s.length + 1) s).bind treeOf

/-! ## §6 the writer's layout -/

/-- a gap between children: white space, then (comment, white space) any number of times -/
structure Gap where
  ws : Str
  more : List (Str × Str)

def wsToks (w : Str) : List CTok := if w = [] then [] else [.chars w]

def gapToks (g : Gap) : List CTok := wsToks g.ws ++ g.more.flatMap fun p => .comment p.1 :: wsToks p.2

/-- the attribute as `_exportAttributes` writes it: ` name=` followed by `quote_attrib(value)` -/
def attrQuote (v : Str) : Char :=
  let s1 := Py.replace1 '\n' "&#10;".toList (quoteXmlAux v)
  if '"' ∈ s1 then (if '\'' ∈ s1 then '"' else '\'') else '"'

def attrBody (v : Str) : Str :=
  let s1 := Py.replace1 '\n' "&#10;".toList (quoteXmlAux v)
  if '"' ∈ s1 then (if '\'' ∈ s1 then Py.replace1 '"' "&quot;".toList s1 else s1) else s1

def canonAttr (p : Str × Str) : CAttr :=
  { ws := [' '], name := p.1, ws1 := [], ws2 := [], quote := attrQuote p.2, raw := attrBody p.2 }

def kidsToks (rec : Nat → TNode → List CTok) (gap : Nat → Gap) : Nat → List TNode → List CTok
  | _, [] => []
  | i, c :: cs => rec i c ++ gapToks (gap (i + 1)) ++ kidsToks rec gap (i + 1) cs

/-- tokens of a tree; `deco path n i` is the gap before child `i` (after the last child for `i = n`) of the node at
    `path` (child indices, innermost first) that has `n` children -/
def toks (deco : List Nat → Nat → Nat → Gap) : Nat → List Nat → TNode → List CTok
  | 0, _, _ => []
  | f + 1, path, .mk tag attrs text children =>
    match children, text with
    | [], none => [.selfClose tag (attrs.map canonAttr) []]
    | [], some s => [.open tag (attrs.map canonAttr) []] ++ wsToks (quoteXml s) ++ [.close tag []]
    | c :: cs, _ =>
      [.open tag (attrs.map canonAttr) []] ++ gapToks (deco path (cs.length + 1) 0)
        ++ kidsToks (fun i k => toks deco f (i :: path) k) (deco path (cs.length + 1)) 0 (c :: cs) ++ [.close tag []]

def indent (level : Nat) : Str := (List.replicate level "    ".toList).flatten

/-- `export(..., pretty_print=True)`: every element on its own line, children one level deeper, the end tag back at
    the element's own level -/
def prettyDeco (path : List Nat) (n i : Nat) : Gap :=
  ⟨'\n' :: indent (if i = n then path.length else path.length + 1), []⟩

/-- the characters `export(outfile, 0, name_=tag, pretty_print=True)` writes for a tree (no namespace definitions) -/
def serialise (fuel : Nat) (t : TNode) : Str := render (toks prettyDeco fuel [] t) ++ ['\n']

/-- attributes written in front of the document element's own (the writer's `namespacedef_`) -/
def addRootAttrs (extra : List CAttr) : List CTok → List CTok
  | .open n as w :: r => .open n (extra ++ as) w :: r
  | .selfClose n as w :: r => .selfClose n (extra ++ as) w :: r
  | l => l

def serialiseDoc (extra : List CAttr) (fuel : Nat) (t : TNode) : Str :=
  render (addRootAttrs extra (toks prettyDeco fuel [] t)) ++ ['\n']

end NmlVerif.XmlText
