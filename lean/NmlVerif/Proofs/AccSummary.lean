import NmlVerif.Model.AccSummary
/-!
Lemmas about the interpreter of `Model/AccSummary.lean`: a counter evolves independently of the strings (projection
of the semantics on one counter), a string variable no statement writes keeps its value (frame), and sums over
`sorted(…)`.
-/
namespace NmlVerif.Acc.Summ

/-! ### state updates -/

@[simp] theorem setStr_nats (st : St) (x v : String) : (st.setStr x v).nats = st.nats := rfl
@[simp] theorem setNat_strs (st : St) (x : String) (n : Nat) : (st.setNat x n).strs = st.strs := rfl
@[simp] theorem note_nats (st : St) (e : Option Err) : (st.note e).nats = st.nats := by
  unfold St.note; split <;> rfl
@[simp] theorem note_strs (st : St) (e : Option Err) : (st.note e).strs = st.strs := by
  unfold St.note; split <;> rfl
theorem setNat_nats (st : St) (x : String) (n : Nat) (t : String) :
    (st.setNat x n).nats t = if t = x then n else st.nats t := rfl
theorem setStr_strs (st : St) (x v : String) (y : String) :
    (st.setStr x v).strs y = if y = x then v else st.strs y := rfl

/-! ### projection of the semantics on one counter -/

/-- how the counter `t` changes under a simple statement -/
def natSimple (t : String) (env : Env) (s : Simple) (v : Nat) : Nat :=
  match s with
  | .setN x n => if t = x then n else v
  | .addN x e => if t = x then v + evalNE env e else v
  | _ => v

/-- how the counter `t` changes under a control-flow statement, given how it changes one level below -/
def natCtl {α : Type} (g : Env → α → Nat → Nat) (env : Env) (c : Ctl α) (v : Nat) : Nat :=
  match c with
  | .base a => g env a v
  | .ifC cnd body => if evalC env cnd then body.foldl (fun v a => g env a v) v else v
  | .forNet attr sorted body =>
    (netItems env attr sorted).foldl (fun v it => body.foldl (fun v a => g { env with item := some it } a v) v) v
  | .forItem attr body =>
    (itemLeaves env attr).foldl (fun v lf => body.foldl (fun v a => g { env with leaf := some lf } a v) v) v

def nat1 (t : String) : Env → L1 → Nat → Nat := natCtl (natSimple t)
def nat2 (t : String) : Env → L2 → Nat → Nat := natCtl (nat1 t)
def nat3 (t : String) : Env → L3 → Nat → Nat := natCtl (nat2 t)

theorem execSimple_nat (t : String) (env : Env) (s : Simple) (st : St) :
    (execSimple env s st).nats t = natSimple t env s (st.nats t) := by
  cases s with
  | setS x v => rfl
  | setN x n => simp [execSimple, natSimple, setNat_nats]
  | addS x es => simp [execSimple, natSimple]
  | addN x e =>
    simp only [execSimple, natSimple, setNat_nats]
    split
    · rename_i h; subst h; rfl
    · rfl

theorem foldl_proj {β : Type} (t : String) (f : β → St → St) (g : β → Nat → Nat)
    (H : ∀ b st, (f b st).nats t = g b (st.nats t)) (l : List β) (st : St) :
    (l.foldl (fun st b => f b st) st).nats t = l.foldl (fun v b => g b v) (st.nats t) := by
  induction l generalizing st with
  | nil => rfl
  | cons b r ih => simp only [List.foldl]; rw [ih, H]

theorem execCtl_nat {α : Type} (t : String) (f : Env → α → St → St) (g : Env → α → Nat → Nat)
    (H : ∀ env a st, (f env a st).nats t = g env a (st.nats t)) (env : Env) (c : Ctl α) (st : St) :
    (execCtl f env c st).nats t = natCtl g env c (st.nats t) := by
  cases c with
  | base a => exact H env a st
  | ifC cnd body =>
    simp only [execCtl, natCtl, runList]
    split
    · exact foldl_proj t (f env) (g env) (H env) body st
    · rfl
  | forNet attr sorted body =>
    simp only [execCtl, natCtl, runList]
    exact foldl_proj t _ _ (fun it st => foldl_proj t (f _) (g _) (H _) body st) _ st
  | forItem attr body =>
    simp only [execCtl, natCtl, runList]
    exact foldl_proj t _ _ (fun lf st => foldl_proj t (f _) (g _) (H _) body st) _ st

theorem exec1_nat (t : String) (env : Env) (c : L1) (st : St) : (exec1 env c st).nats t = nat1 t env c (st.nats t) :=
  execCtl_nat t execSimple (natSimple t) (execSimple_nat t) env c st
theorem exec2_nat (t : String) (env : Env) (c : L2) (st : St) : (exec2 env c st).nats t = nat2 t env c (st.nats t) :=
  execCtl_nat t exec1 (nat1 t) (exec1_nat t) env c st
theorem exec3_nat (t : String) (env : Env) (c : L3) (st : St) : (exec3 env c st).nats t = nat3 t env c (st.nats t) :=
  execCtl_nat t exec2 (nat2 t) (exec2_nat t) env c st

/-- **a counter after running a program segment depends only on its value before and on the network** -/
theorem runNet_nat (t : String) (prog : List L3) (net : NetD) (st : St) :
    (runNet prog net st).nats t =
      prog.foldl (fun v c => nat3 t ⟨net, Option.none, Option.none⟩ c v) (st.nats t) :=
  foldl_proj t (exec3 _) (nat3 t _) (exec3_nat t _) prog st

/-! ### frame: a string variable no statement writes -/

def wSimple (x : String) : Simple → Bool
  | .setS y _ => y == x
  | .addS y _ => y == x
  | _ => false

def wCtl {α : Type} (w : α → Bool) : Ctl α → Bool
  | .base a => w a
  | .ifC _ body => body.any w
  | .forNet _ _ body => body.any w
  | .forItem _ body => body.any w

def w1 (x : String) : L1 → Bool := wCtl (wSimple x)
def w2 (x : String) : L2 → Bool := wCtl (w1 x)
def w3 (x : String) : L3 → Bool := wCtl (w2 x)

theorem execSimple_frame (x : String) (env : Env) (s : Simple) (st : St) (h : wSimple x s = false) :
    (execSimple env s st).strs x = st.strs x := by
  cases s with
  | setS y v =>
    have : x ≠ y := by intro e; subst e; simp [wSimple] at h
    simp [execSimple, setStr_strs, this]
  | setN y n => rfl
  | addS y es =>
    have : x ≠ y := by intro e; subst e; simp [wSimple] at h
    simp [execSimple, setStr_strs, this]
  | addN y e => rfl

theorem foldl_frame {β : Type} (x : String) (f : β → St → St) (w : β → Bool)
    (H : ∀ b st, w b = false → (f b st).strs x = st.strs x) (l : List β) (hl : l.any w = false) (st : St) :
    (l.foldl (fun st b => f b st) st).strs x = st.strs x := by
  induction l generalizing st with
  | nil => rfl
  | cons b r ih =>
    simp only [List.any_cons, Bool.or_eq_false_iff] at hl
    simp only [List.foldl]
    rw [ih hl.2, H b st hl.1]

theorem foldl_frame_const {β : Type} (x : String) (f : β → St → St)
    (H : ∀ b st, (f b st).strs x = st.strs x) (l : List β) (st : St) :
    (l.foldl (fun st b => f b st) st).strs x = st.strs x := by
  induction l generalizing st with
  | nil => rfl
  | cons b r ih => simp only [List.foldl]; rw [ih, H]

theorem execCtl_frame {α : Type} (x : String) (f : Env → α → St → St) (w : α → Bool)
    (H : ∀ env a st, w a = false → (f env a st).strs x = st.strs x) (env : Env) (c : Ctl α) (st : St)
    (h : wCtl w c = false) : (execCtl f env c st).strs x = st.strs x := by
  cases c with
  | base a => exact H env a st h
  | ifC cnd body =>
    simp only [execCtl, runList]
    split
    · exact foldl_frame x (f env) w (H env) body h st
    · rfl
  | forNet attr sorted body =>
    simp only [execCtl, runList]
    exact foldl_frame_const x _ (fun it st => foldl_frame x (f _) w (H _) body h st) _ st
  | forItem attr body =>
    simp only [execCtl, runList]
    exact foldl_frame_const x _ (fun lf st => foldl_frame x (f _) w (H _) body h st) _ st

theorem exec1_frame (x : String) (env : Env) (c : L1) (st : St) (h : w1 x c = false) :
    (exec1 env c st).strs x = st.strs x := execCtl_frame x execSimple (wSimple x) (execSimple_frame x) env c st h
theorem exec2_frame (x : String) (env : Env) (c : L2) (st : St) (h : w2 x c = false) :
    (exec2 env c st).strs x = st.strs x := execCtl_frame x exec1 (w1 x) (exec1_frame x) env c st h
theorem exec3_frame (x : String) (env : Env) (c : L3) (st : St) (h : w3 x c = false) :
    (exec3 env c st).strs x = st.strs x := execCtl_frame x exec2 (w2 x) (exec2_frame x) env c st h

/-- **a string variable that no statement of the segment assigns keeps its value** -/
theorem runNet_frame (x : String) (prog : List L3) (net : NetD) (st : St) (h : prog.any (w3 x) = false) :
    (runNet prog net st).strs x = st.strs x :=
  foldl_frame x (exec3 _) (w3 x) (exec3_frame x _) prog h st

theorem runNet_append (a b : List L3) (net : NetD) (st : St) :
    runNet (a ++ b) net st = runNet b net (runNet a net st) := by
  simp [runNet, runList, List.foldl_append]

/-! ### sums -/

theorem foldl_add {β : Type} (f : β → Nat) (l : List β) (a : Nat) :
    l.foldl (fun v b => v + f b) a = a + (l.map f).sum := by
  induction l generalizing a with
  | nil => simp
  | cons x r ih => simp [List.foldl, ih, Nat.add_assoc]

theorem foldl_add2 {β : Type} (f g : β → Nat) (l : List β) (a : Nat) :
    l.foldl (fun v b => v + f b + g b) a = a + (l.map (fun b => f b + g b)).sum := by
  have : (fun (v : Nat) (b : β) => v + f b + g b) = (fun v b => v + (f b + g b)) := by
    funext v b; omega
  rw [this, foldl_add]

theorem foldl_add3 {β : Type} (f g h : β → Nat) (l : List β) (a : Nat) :
    l.foldl (fun v b => v + f b + g b + h b) a = a + (l.map (fun b => f b + g b + h b)).sum := by
  have : (fun (v : Nat) (b : β) => v + f b + g b + h b) = (fun v b => v + (f b + g b + h b)) := by
    funext v b; omega
  rw [this, foldl_add]

theorem foldl_keep {β : Type} (l : List β) (a : Nat) : l.foldl (fun v _ => v) a = a := by
  induction l with
  | nil => rfl
  | cons x r ih => simpa [List.foldl] using ih

theorem sortById_perm (l : List Item) : (sortById l).Perm l := List.mergeSort_perm _ _

theorem sum_sortById (f : Item → Nat) (l : List Item) : ((sortById l).map f).sum = (l.map f).sum :=
  List.Perm.sum_nat ((sortById_perm l).map f)

theorem length_sortById (l : List Item) : (sortById l).length = l.length := (sortById_perm l).length_eq

theorem sum_map_add' {β : Type} (f g : β → Nat) (l : List β) :
    (l.map (fun x => f x + g x)).sum = (l.map f).sum + (l.map g).sum := by
  induction l with
  | nil => simp
  | cons x r ih => simp [ih]; omega

theorem sum_map_one' {β : Type} (l : List β) : (l.map (fun _ => 1)).sum = l.length := by
  induction l with
  | nil => simp
  | cons x r ih => simp [ih]; omega

end NmlVerif.Acc.Summ
