import NmlVerif.Model.Accessors
import Std.Data.String.ToNat
/-!
Helper lemmas for C19: the Python string prelude (`split`, `in`, `strip`, slices, `int()` on `repr n`), the
prelude combinators on evaluated arguments, constructor lookup, the totals interpreter.
-/
namespace NmlVerif.Acc

/-! ### characters -/

theorem isSpace_of_isDigit (c : Char) (h : c.isDigit = true) : isSpace c = false := by
  simp only [Char.isDigit, Bool.and_eq_true, decide_eq_true_eq] at h
  have h1 : 48 ≤ c.toNat := UInt32.le_iff_toNat_le.mp h.1
  have h2 : c.toNat ≤ 57 := UInt32.le_iff_toNat_le.mp h.2
  simp only [isSpace]
  generalize c.toNat = n at *
  simp
  omega

theorem isIdChar_of_isNmlId {s : List Char} (h : isNmlId s = true) : ∀ c ∈ s, isIdChar c = true := by
  cases s with
  | nil => simp [isNmlId] at h
  | cons a r =>
    simp only [isNmlId, Bool.and_eq_true, List.all_eq_true] at h
    intro c hc
    rcases List.mem_cons.mp hc with rfl | hc
    · rcases Bool.or_eq_true _ _ |>.mp h.1 with h1 | h1
      · simp [isIdChar, Char.isAlphanum, h1]
      · simp [isIdChar, h1]
    · exact h.2 c hc

/-- a character that is not an id character does not occur in an NmlId -/
theorem not_mem_of_isNmlId {s : List Char} (h : isNmlId s = true) (c : Char) (hc : isIdChar c = false) :
    c ∉ s := by
  intro hm
  have := isIdChar_of_isNmlId h c hm
  simp [hc] at this

theorem isSpace_of_isTimeNumChar (c : Char) (h : isTimeNumChar c = true) : isSpace c = false := by
  simp only [isTimeNumChar, Bool.or_eq_true, beq_iff_eq] at h
  rcases h with (((h | h) | h) | h) | h
  · exact isSpace_of_isDigit c h
  all_goals (subst h; decide)

theorem ne_of_isTimeNumChar (c d : Char) (h : isTimeNumChar c = true) (hd : isTimeNumChar d = false) : c ≠ d := by
  intro e; subst e; simp [hd] at h

/-! ### the time-pattern recogniser splits a string into number part and rest -/

theorem mem_takeWhile_imp {p : Char → Bool} {l : List Char} {c : Char} (h : c ∈ l.takeWhile p) : p c = true := by
  induction l with
  | nil => simp at h
  | cons a r ih =>
    simp only [List.takeWhile] at h
    split at h
    · rename_i hp
      rcases List.mem_cons.mp h with rfl | h
      · exact hp
      · exact ih h
    · simp at h

theorem isTimeNumChar_of_isDigit (c : Char) (h : c.isDigit = true) : isTimeNumChar c = true := by
  simp [isTimeNumChar, h]

theorem takeWhile_digits_ok (s : List Char) : ∀ c ∈ s.takeWhile Char.isDigit, isTimeNumChar c = true := by
  intro c hc
  exact isTimeNumChar_of_isDigit c (mem_takeWhile_imp hc)

theorem optMinus_spec (s : List Char) :
    s = (optMinus s).1 ++ (optMinus s).2 ∧ ∀ c ∈ (optMinus s).1, isTimeNumChar c = true := by
  unfold optMinus
  split
  · refine ⟨rfl, ?_⟩
    intro c hc; simp at hc; subst hc; decide
  · exact ⟨rfl, by simp⟩

theorem optFrac_spec (s : List Char) :
    s = (optFrac s).1 ++ (optFrac s).2 ∧ ∀ c ∈ (optFrac s).1, isTimeNumChar c = true := by
  unfold optFrac
  split
  · rename_i r
    split
    · exact ⟨rfl, by simp⟩
    · refine ⟨by simp [List.takeWhile_append_dropWhile], ?_⟩
      intro c hc
      rcases List.mem_cons.mp hc with rfl | hc
      · decide
      · exact takeWhile_digits_ok r c hc
  · exact ⟨rfl, by simp⟩

theorem optExp_spec (s : List Char) :
    s = (optExp s).1 ++ (optExp s).2 ∧ ∀ c ∈ (optExp s).1, isTimeNumChar c = true := by
  unfold optExp
  split
  · rename_i c r
    split
    · rename_i hc
      split
      · exact ⟨rfl, by simp⟩
      · have hm := optMinus_spec r
        refine ⟨?_, ?_⟩
        · simp only [List.cons_append, List.append_assoc, List.takeWhile_append_dropWhile]
          rw [← hm.1]
        · intro d hd
          rcases List.mem_cons.mp hd with rfl | hd
          · rcases hc with rfl | rfl <;> decide
          · rcases List.mem_append.mp hd with hd | hd
            · exact hm.2 d hd
            · exact takeWhile_digits_ok _ d hd
    · exact ⟨rfl, by simp⟩
  · exact ⟨rfl, by simp⟩

theorem timeNumSplit_spec (s : List Char) :
    s = (timeNumSplit s).1 ++ (timeNumSplit s).2 ∧ ∀ c ∈ (timeNumSplit s).1, isTimeNumChar c = true := by
  have h1 := optMinus_spec s
  have h3 := optFrac_spec ((optMinus s).2.dropWhile Char.isDigit)
  have h4 := optExp_spec (optFrac ((optMinus s).2.dropWhile Char.isDigit)).2
  constructor
  · simp only [timeNumSplit, List.append_assoc]
    rw [← h4.1, ← h3.1, List.takeWhile_append_dropWhile, ← h1.1]
  · intro c hc
    simp only [timeNumSplit, List.mem_append] at hc
    rcases hc with ((hc | hc) | hc) | hc
    · exact h1.2 c hc
    · exact takeWhile_digits_ok _ c hc
    · exact h3.2 c hc
    · exact h4.2 c hc

/-- every string the recogniser accepts is `<num><ws>s` or `<num><ws>ms` with `num` over the number alphabet
    and `ws` whitespace -/
theorem matchTime_decompose (s : List Char) (h : matchTime s = true) :
    ∃ num ws, (∀ c ∈ num, isTimeNumChar c = true) ∧ (∀ c ∈ ws, isSpace c = true) ∧
      (s = num ++ ws ++ ['s'] ∨ s = num ++ ws ++ ['m', 's']) := by
  have hs := timeNumSplit_spec s
  refine ⟨(timeNumSplit s).1, (timeNumSplit s).2.takeWhile isSpace, hs.2,
    fun c hc => mem_takeWhile_imp hc, ?_⟩
  simp only [matchTime, Bool.or_eq_true, beq_iff_eq] at h
  have hr : (timeNumSplit s).2 = (timeNumSplit s).2.takeWhile isSpace ++ (timeNumSplit s).2.dropWhile isSpace :=
    (List.takeWhile_append_dropWhile).symm
  rcases h with h | h
  · left
    rw [h] at hr
    calc s = (timeNumSplit s).1 ++ (timeNumSplit s).2 := hs.1
      _ = _ := by rw [List.append_assoc, ← hr]
  · right
    rw [h] at hr
    calc s = (timeNumSplit s).1 ++ (timeNumSplit s).2 := hs.1
      _ = _ := by rw [List.append_assoc, ← hr]

/-! ### digits of `Nat.repr` -/

theorem isDigit_of_mem_repr (n : Nat) (c : Char) (h : c ∈ (Nat.repr n).toList) : c.isDigit = true := by
  rw [Nat.toList_repr] at h
  exact Nat.isDigit_of_mem_toDigits (by decide) (by decide) h

theorem digits_no (c : Char) (hc : c.isDigit = false) (n : Nat) : c ∉ (Nat.repr n).toList := by
  intro h
  have := isDigit_of_mem_repr n c h
  simp [hc] at this

theorem repr_ne_nil (n : Nat) : (Nat.repr n).toList ≠ [] := by
  rw [Nat.toList_repr]; exact Nat.toDigits_ne_nil

theorem toNat?_nil : (String.ofList []).toNat? = none := by
  rw [String.toNat?_eq_none_iff]
  cases h : (String.ofList []).isNat with
  | false => rfl
  | true =>
    have := (String.isNat_iff.mp h).1
    exact absurd rfl this

/-! ### `split` -/

theorem split_ne_nil (sep : Char) (s : List Char) : split sep s ≠ [] := by
  induction s with
  | nil => simp [split]
  | cons c cs ih =>
    unfold split; split
    · simp
    · split <;> simp

theorem split_append (sep : Char) (a b : List Char) (ha : sep ∉ a) :
    split sep (a ++ sep :: b) = a :: split sep b := by
  induction a with
  | nil => simp [split]
  | cons c cs ih =>
    have hc : c ≠ sep := by intro h; apply ha; simp [h]
    have hcs : sep ∉ cs := by intro h; apply ha; simp [h]
    simp [split, hc, ih hcs]

theorem split_none (sep : Char) (a : List Char) (ha : sep ∉ a) : split sep a = [a] := by
  induction a with
  | nil => simp [split]
  | cons c cs ih =>
    have hc : c ≠ sep := by intro h; apply ha; simp [h]
    have hcs : sep ∉ cs := by intro h; apply ha; simp [h]
    simp [split, hc, ih hcs]

/-! ### `in` -/

theorem contains_single (c : Char) (s : List Char) : contains [c] s = decide (c ∈ s) := by
  induction s with
  | nil => simp [contains]
  | cons a r ih =>
    simp only [contains, ih, List.isPrefixOf, List.mem_cons]
    by_cases h : c = a
    · subst h; simp
    · have h' : (c == a) = false := by simp [h]
      simp [h', h]

/-- `needle in (a + needle)` -/
theorem contains_append_self (needle a : List Char) : contains needle (a ++ needle) = true := by
  induction a with
  | nil =>
    cases needle with
    | nil => simp [contains]
    | cons c r => simp [contains]
  | cons c r ih => simp [contains, ih]

/-- a needle starting with `c` is not in a string without `c` -/
theorem contains_false_of_head (c : Char) (needle s : List Char) (h : c ∉ s) :
    contains (c :: needle) s = false := by
  induction s with
  | nil => simp [contains]
  | cons a r ih =>
    have ha : (c == a) = false := by
      have : c ≠ a := by intro e; apply h; simp [e]
      simp [this]
    have hr : c ∉ r := by intro e; apply h; simp [e]
    simp [contains, List.isPrefixOf, ha, ih hr]

/-- `'ms' in (a + 's')` is false when `a` has no `m` -/
theorem contains_ms_s (a : List Char) (h : 'm' ∉ a) : contains ['m', 's'] (a ++ ['s']) = false := by
  apply contains_false_of_head
  intro hm
  rcases List.mem_append.mp hm with hm | hm
  · exact h hm
  · simp at hm

/-! ### slices, `strip`, `endswith` -/

theorem dropRight_append (a b : List α) : dropRight b.length (a ++ b) = a := by
  simp [dropRight]

theorem dropWhile_eq_self (p : Char → Bool) (s : List Char) (h : ∀ c ∈ s, p c = false) : s.dropWhile p = s := by
  cases s with
  | nil => rfl
  | cons a r => simp [List.dropWhile, h a (by simp)]

theorem dropWhile_all (p : Char → Bool) (s : List Char) (h : ∀ c ∈ s, p c = true) : s.dropWhile p = [] := by
  induction s with
  | nil => rfl
  | cons a r ih =>
    simp only [List.dropWhile, h a (by simp)]
    exact ih (fun c hc => h c (by simp [hc]))

/-- `(num + ws).strip() = num` when `num` has no whitespace and `ws` is whitespace -/
theorem strip_append_ws (num ws : List Char) (hn : ∀ c ∈ num, isSpace c = false)
    (hw : ∀ c ∈ ws, isSpace c = true) : strip (num ++ ws) = num := by
  unfold strip rstrip lstrip
  cases num with
  | nil =>
    simp only [List.nil_append]
    rw [dropWhile_all _ _ hw]; rfl
  | cons a r =>
    have hl : List.dropWhile isSpace (a :: r ++ ws) = a :: r ++ ws := by
      simp [hn a (by simp)]
    rw [hl, List.reverse_append, List.dropWhile_append]
    have h1 : List.dropWhile isSpace ws.reverse = [] :=
      dropWhile_all _ _ (fun c hc => hw c (List.mem_reverse.mp hc))
    have h2 : List.dropWhile isSpace (a :: r).reverse = (a :: r).reverse :=
      dropWhile_eq_self _ _ (fun c hc => hn c (List.mem_reverse.mp hc))
    rw [h1, h2]; simp

theorem strip_id (s : List Char) (h : ∀ c ∈ s, isSpace c = false) : strip s = s := by
  have := strip_append_ws s [] h (by simp)
  simpa using this

theorem isSuffixOf_append_self (a suf : List Char) : suf.isSuffixOf (a ++ suf) = true := by
  rw [List.isSuffixOf_iff_suffix]; exact List.suffix_append a suf

/-- `(a + 's').endswith('ms')` is false when `a` does not end in `m` -/
theorem isSuffixOf_ms_s (a : List Char) (h : 'm' ∉ a) : ['m', 's'].isSuffixOf (a ++ ['s']) = false := by
  cases hb : ['m', 's'].isSuffixOf (a ++ ['s']) with
  | false => rfl
  | true =>
    exfalso
    rw [List.isSuffixOf_iff_suffix] at hb
    obtain ⟨t, ht⟩ := hb
    have h2 : t ++ ['m'] ++ ['s'] = a ++ ['s'] := by simpa using ht
    have h3 := List.append_cancel_right h2
    apply h; rw [← h3]; simp

theorem isSuffixOf_false_of_not_mem (c : Char) (suf s : List Char) (hc : c ∈ suf) (h : c ∉ s) :
    suf.isSuffixOf s = false := by
  cases hb : suf.isSuffixOf s with
  | false => rfl
  | true =>
    exfalso
    rw [List.isSuffixOf_iff_suffix] at hb
    obtain ⟨t, ht⟩ := hb
    apply h; rw [← ht]; simp [hc]

/-! ### `int()` -/

theorem asciiDigit_ascii (c : Char) (h : c.toNat < 128) : asciiDigit c = c := by
  simp [asciiDigit, h]

theorem map_asciiDigit_id (s : List Char) (h : ∀ c ∈ s, c.toNat < 128) : s.map asciiDigit = s := by
  induction s with
  | nil => rfl
  | cons a r ih =>
    simp only [List.map_cons, asciiDigit_ascii a (h a (by simp)), ih (fun c hc => h c (by simp [hc]))]

theorem ascii_of_isDigit (c : Char) (h : c.isDigit = true) : c.toNat < 128 := by
  simp only [Char.isDigit, Bool.and_eq_true, decide_eq_true_eq] at h
  have h2 : c.toNat ≤ 57 := UInt32.le_iff_toNat_le.mp h.2
  omega

theorem intOfStr_digits (s : List Char) (hs : ∀ c ∈ s, c.isDigit = true) :
    intOfStr s = (String.ofList s).toNat?.map (fun n => (n : Int)) := by
  unfold intOfStr
  rw [strip_id s (fun c hc => isSpace_of_isDigit c (hs c hc)),
    map_asciiDigit_id s (fun c hc => ascii_of_isDigit c (hs c hc))]
  cases s with
  | nil =>
    simp only [toNat?_nil]; rfl
  | cons a r =>
    have ha := hs a (by simp)
    have h1 : a ≠ '-' := by intro e; subst e; revert ha; decide
    have h2 : a ≠ '+' := by intro e; subst e; revert ha; decide
    simp [h1, h2]

/-- `int(str(n)) = n` -/
theorem intOfStr_repr (n : Nat) : intOfStr (Nat.repr n).toList = some (n : Int) := by
  rw [intOfStr_digits _ (isDigit_of_mem_repr n)]
  have : String.ofList (Nat.repr n).toList = Nat.repr n := String.ofList_toList
  rw [this, Nat.toNat?_repr]; rfl

/-! ### index spellings `[0-9]+` -/

theorem isDigit_of_isDigits {ds : List Char} (h : isDigits ds = true) : ∀ c ∈ ds, c.isDigit = true := by
  simp only [isDigits, Bool.and_eq_true, List.all_eq_true] at h
  exact h.2

theorem ne_nil_of_isDigits {ds : List Char} (h : isDigits ds = true) : ds ≠ [] := by
  intro e; subst e; simp [isDigits] at h

theorem not_mem_of_isDigits {ds : List Char} (h : isDigits ds = true) (c : Char) (hc : c.isDigit = false) :
    c ∉ ds := by
  intro hm
  have := isDigit_of_isDigits h c hm
  simp [hc] at this

/-- `int(ds)` is the decimal value, for every digit string (leading zeros included) -/
theorem intOfStr_isDigits (ds : List Char) (h : isDigits ds = true) : intOfStr ds = some (decVal ds : Int) := by
  rw [intOfStr_digits ds (isDigit_of_isDigits h)]
  have hne : String.ofList ds ≠ "" := by
    intro e
    have : (String.ofList ds).toList = "".toList := by rw [e]
    rw [String.toList_ofList] at this
    exact ne_nil_of_isDigits h this
  have hnat : (String.ofList ds).isNat = true :=
    String.isNat_of_isDigit hne (by rw [String.toList_ofList]; exact isDigit_of_isDigits h)
  rw [String.toNat?_eq_some_ofDigitChars hnat, String.toList_ofList]
  have hf : ds.filter (fun c => c != '_') = ds := by
    apply List.filter_eq_self.mpr
    intro c hc
    have hd := isDigit_of_isDigits h c hc
    have : c ≠ '_' := by intro e; subst e; revert hd; decide
    simp [this]
  rw [hf]; rfl

theorem isDigits_repr (n : Nat) : isDigits (Nat.repr n).toList = true := by
  simp only [isDigits, Bool.and_eq_true, List.all_eq_true, Bool.not_eq_true', List.isEmpty_eq_false_iff]
  exact ⟨repr_ne_nil n, isDigit_of_mem_repr n⟩

theorem decVal_repr (n : Nat) : decVal (Nat.repr n).toList = n := by
  rw [Nat.toList_repr]; exact Nat.ofDigitChars_ten_toDigits

/-! ### combinators on evaluated arguments -/

variable {F : Type}

@[simp] theorem pIn_str (n s : List Char) : pIn (F := F) n (.ok (.str s)) = .ok (.bool (contains n s)) := rfl
@[simp] theorem pSplit_str (c : Char) (s : List Char) : pSplit (F := F) c (.ok (.str s)) = .ok (.strs (split c s)) := rfl
@[simp] theorem pStrip_str (s : List Char) : pStrip (F := F) (.ok (.str s)) = .ok (.str (strip s)) := rfl
@[simp] theorem pEndsWith_str (n s : List Char) :
    pEndsWith (F := F) n (.ok (.str s)) = .ok (.bool (n.isSuffixOf s)) := rfl
@[simp] theorem pDropRight_str (k : Nat) (s : List Char) :
    pDropRight (F := F) k (.ok (.str s)) = .ok (.str (dropRight k s)) := rfl
@[simp] theorem pIndex_zero (x : List Char) (l : List (List Char)) :
    pIndex (F := F) 0 (.ok (.strs (x :: l))) = .ok (.str x) := rfl
@[simp] theorem pIndex_succ (i : Nat) (x : List Char) (l : List (List Char)) :
    pIndex (F := F) (i + 1) (.ok (.strs (x :: l))) = pIndex i (.ok (.strs l)) := by
  simp [pIndex]
@[simp] theorem pIfElse_true (fs : FloatSem F) (a b : Res F) : pIfElse fs (.ok (.bool true)) a b = a := rfl
@[simp] theorem pIfElse_false (fs : FloatSem F) (a b : Res F) : pIfElse fs (.ok (.bool false)) a b = b := rfl
@[simp] theorem pInt_int (fs : FloatSem F) (i : Int) : pInt fs (.ok (.int i)) = .ok (.int i) := rfl
@[simp] theorem pFloat_num (fs : FloatSem F) (x : F) : pFloat fs (.ok (.num x)) = .ok (.num x) := rfl
theorem pFloat_str (fs : FloatSem F) (s : List Char) :
    pFloat fs (.ok (.str s)) = (match fs.parse s with
      | some x => .ok (.num x)
      | none => .error .valueError) := rfl
@[simp] theorem pNeNone_none : pNeNone (F := F) (.ok .none) = .ok (.bool false) := rfl
@[simp] theorem pIsNotNone_none : pIsNotNone (F := F) (.ok .none) = .ok (.bool false) := rfl

theorem pInt_repr (fs : FloatSem F) (n : Nat) : pInt fs (.ok (.str (Nat.repr n).toList)) = .ok (.int n) := by
  simp only [pInt, intOfStr_repr]

theorem pInt_isDigits (fs : FloatSem F) (ds : List Char) (h : isDigits ds = true) :
    pInt fs (.ok (.str ds)) = .ok (.int (decVal ds)) := by
  simp only [pInt, intOfStr_isDigits ds h]

theorem attr_some (self : Obj F) (name : String) (v : Val F) (h : self name = some v) :
    attr self name = .ok v := by
  simp [attr, h]

theorem attr_none (self : Obj F) (name : String) (h : self name = none) :
    attr self name = .error .attributeError := by
  simp [attr, h]

/-! ### constructor lookup -/

theorem construct_lookup (fs : FloatSem F) (given : String → Option (Val F)) :
    ∀ (fields : List CtorField) (o : Obj F), construct fs fields given = .ok o →
    (fields.map (·.name)).Nodup →
    ∀ f ∈ fields, ∃ v, castVal fs f.cast ((given f.name).getD f.dflt.toVal) = .ok v ∧ o f.name = some v := by
  intro fields
  induction fields with
  | nil => intro o _ _ f hf; cases hf
  | cons g rest ih =>
    intro o hc hnd f hf
    simp only [construct] at hc
    split at hc
    · cases hc
    · rename_i v hv
      split at hc
      · cases hc
      · rename_i o' ho'
        cases hc
        simp only [List.map_cons, List.nodup_cons] at hnd
        rcases List.mem_cons.mp hf with rfl | hf'
        · exact ⟨v, hv, by simp⟩
        · obtain ⟨w, hw1, hw2⟩ := ih o' ho' hnd.2 f hf'
          refine ⟨w, hw1, ?_⟩
          have : f.name ≠ g.name := by
            intro e; apply hnd.1; rw [← e]; exact List.mem_map_of_mem hf'
          simp [this, hw2]

theorem not_all_eq_any_not {α : Type} (p : α → Bool) (l : List α) : (!l.all p) = l.any (fun c => !p c) := by
  induction l with
  | nil => rfl
  | cons a r ih => simp [List.all_cons, List.any_cons, Bool.not_and, ih]

/-! ### totals -/

theorem foldl_add_eq (f : Item → Nat) (l : List Item) (a : Nat) :
    l.foldl (fun acc it => acc + f it) a = a + (l.map f).sum := by
  induction l generalizing a with
  | nil => simp
  | cons x r ih => simp [List.foldl, ih, Nat.add_assoc]

theorem sum_map_add (f g : Item → Nat) (l : List Item) :
    (l.map (fun x => f x + g x)).sum = (l.map f).sum + (l.map g).sum := by
  induction l with
  | nil => simp
  | cons x r ih => simp [ih]; omega

theorem sum_map_one (l : List Item) : (l.map (fun _ => 1)).sum = l.length := by
  induction l with
  | nil => simp
  | cons x r ih => simp [ih]; omega

theorem addendVal_lenIfPos (it : Item) (a : String) : addendVal it (.lenIfPos a) = it.sub a := by
  simp only [addendVal]; split <;> omega

end NmlVerif.Acc
