import NmlVerif.Model.Add
import NmlVerif.Proofs.Members
/-! Helper lemmas for C10 (`Model/Add.lean`). Core Lean only. -/
namespace NmlVerif.Add

/-! ### attribute dictionary -/

theorem lookup_setF_eq : ∀ (fs : List (Nat × Val)) (n : Nat) (v : Val), lookup (setF fs n v) n = some v
  | [], n, v => by simp [setF, lookup]
  | (k, w) :: r, n, v => by
    by_cases h : k = n
    · subst h; simp [setF, lookup]
    · have hb : (k == n) = false := by simpa using h
      have ih := lookup_setF_eq r n v
      simp [setF, hb, lookup, ih]

theorem lookup_setF_ne : ∀ (fs : List (Nat × Val)) (n n' : Nat) (v : Val), n' ≠ n →
    lookup (setF fs n v) n' = lookup fs n'
  | [], n, n', v, h => by
    have hb : (n == n') = false := by simpa using (Ne.symm h)
    simp [setF, lookup, hb]
  | (k, w) :: r, n, n', v, h => by
    by_cases hk : k = n
    · subst hk
      have hb : (k == n') = false := by simpa using (Ne.symm h)
      simp [setF, lookup, hb]
    · have hb : (k == n) = false := by simpa using hk
      have ih := lookup_setF_ne r n n' v h
      simp [setF, hb, lookup, ih]

@[simp] theorem get_set_eq (o : Obj) (n : Nat) (v : Val) : (o.set n v).get n = some v := by
  cases o; simp [Obj.set, Obj.get, Obj.fields, lookup_setF_eq]

theorem get_set_ne (o : Obj) (n n' : Nat) (v : Val) (h : n' ≠ n) : (o.set n v).get n' = o.get n' := by
  cases o; simp [Obj.set, Obj.get, Obj.fields, lookup_setF_ne _ _ _ _ h]

@[simp] theorem set_oid (o : Obj) (n : Nat) (v : Val) : (o.set n v).oid = o.oid := by cases o; rfl
@[simp] theorem set_cls (o : Obj) (n : Nat) (v : Val) : (o.set n v).cls = o.cls := by cases o; rfl

/-! ### `==` on components built programmatically -/

mutual
theorem pyEq_nodeFree : ∀ (a b : Val), b.nodeFree = true → pyEq true a b = pyEq false a b
  | .none, b, _ => by cases b <;> simp [pyEq]
  | .atom _ _, b, _ => by cases b <;> simp [pyEq]
  | .node _, b, hb => by cases b <;> simp [pyEq, Val.nodeFree] at hb ⊢
  | .obj o, b, hb => by
    cases b with
    | obj o' => simp only [pyEq]; exact objEq_nodeFree o o' (by simpa [Val.nodeFree] using hb)
    | _ => simp [pyEq]
  | .list l, b, hb => by
    cases b with
    | list l' => simp only [pyEq]; exact listEq_nodeFree l l' (by simpa [Val.nodeFree] using hb)
    | _ => simp [pyEq]
theorem objEq_nodeFree : ∀ (a b : Obj), b.nodeFree = true → objEq true a b = objEq false a b
  | .mk i c fs, .mk j d gs, hb => by
    simp only [objEq]
    rw [fieldsEq_nodeFree fs gs (by simpa [Obj.nodeFree] using hb)]
theorem fieldsEq_nodeFree : ∀ (a b : List (Nat × Val)), fieldsNodeFree b = true → fieldsEq true a b = fieldsEq false a b
  | [], [], _ => rfl
  | [], _ :: _, _ => rfl
  | _ :: _, [], _ => rfl
  | (k, v) :: r, (k', v') :: r', hb => by
    simp only [fieldsNodeFree, Bool.and_eq_true] at hb
    simp only [fieldsEq]
    rw [pyEq_nodeFree v v' hb.1, fieldsEq_nodeFree r r' hb.2]
theorem listEq_nodeFree : ∀ (a b : List Val), listNodeFree b = true → listEq true a b = listEq false a b
  | [], [], _ => rfl
  | [], _ :: _, _ => rfl
  | _ :: _, [], _ => rfl
  | v :: r, v' :: r', hb => by
    simp only [listNodeFree, Bool.and_eq_true] at hb
    simp only [listEq]
    rw [pyEq_nodeFree v v' hb.1, listEq_nodeFree r r' hb.2]
end

theorem pyIn_nodeFree (child : Obj) (l : List Val) (h : child.nodeFree = true) :
    pyIn true child l = pyIn false child l := by
  unfold pyIn
  congr 1
  funext x
  exact pyEq_nodeFree x (.obj child) (by simpa [Val.nodeFree] using h)

/-! ### `__add` -/

theorem storedIn_set_single (parent child : Obj) (m : MemberSpec) (hc : m.container = false) :
    StoredIn parent (parent.set m.name (.obj child)) m child := by
  refine ⟨set_oid _ _ _, set_cls _ _ _, fun n hn => get_set_ne _ _ _ _ hn, ?_⟩
  simp [hc]

theorem storedIn_set_list (parent child : Obj) (m : MemberSpec) (l : List Val) (hc : m.container = true)
    (hg : parent.get m.name = some (.list l)) :
    StoredIn parent (parent.set m.name (.list (l ++ [.obj child]))) m child := by
  refine ⟨set_oid _ _ _, set_cls _ _ _, fun n hn => get_set_ne _ _ _ _ hn, ?_⟩
  simp only [hc, ↓reduceIte]
  exact ⟨l, hg, get_set_eq _ _ _⟩

/-- everything `__add` can do -/
theorem place_cases (sOk : Bool) (parent child : Obj) (m : MemberSpec) (force : Bool) :
    (∃ p', place sOk parent child m force = .ok (p', none) ∧ Storable parent child m force ∧
        StoredIn parent p' m child)
    ∨ (Taken parent child m ∧ force = false ∧
        ((place sOk parent child m force = .ok (parent, some (warnOf m)) ∧ (m.container = true → sOk = true))
         ∨ (place sOk parent child m force = .error .strFails ∧ m.container = true ∧ sOk = false)))
    ∨ ((place sOk parent child m force = .error .keyError ∨ place sOk parent child m force = .error .notAList)
        ∧ ¬ Storable parent child m force ∧ ¬ Taken parent child m) := by
  cases hc : m.container with
  | false =>
    cases force with
    | true =>
      left
      refine ⟨parent.set m.name (.obj child), by simp [place, hc], by simp [Storable, hc],
        storedIn_set_single parent child m hc⟩
    | false =>
      cases hg : parent.get m.name with
      | none => right; right; simp [place, Storable, Taken, hc, hg]
      | some v =>
        cases ht : v.truthy with
        | true =>
          right; left
          simp [place, Taken, warnOf, hc, hg, ht]
        | false =>
          left
          refine ⟨parent.set m.name (.obj child), by simp [place, hc, hg, ht], by simp [Storable, hc, hg, ht],
            storedIn_set_single parent child m hc⟩
  | true =>
    cases hg : parent.get m.name with
    | none => right; right; simp [place, Storable, Taken, hc, hg]
    | some v =>
      cases v with
      | list l =>
        cases force with
        | true =>
          left
          refine ⟨parent.set m.name (.list (l ++ [.obj child])), by simp [place, hc, hg],
            by simp [Storable, hc, hg], storedIn_set_list parent child m l hc hg⟩
        | false =>
          cases hi : pyIn true child l with
          | true =>
            right; left
            cases sOk <;> simp [place, Taken, warnOf, hc, hg, hi]
          | false =>
            left
            refine ⟨parent.set m.name (.list (l ++ [.obj child])), by simp [place, hc, hg, hi],
              by simp [Storable, hc, hg, hi], storedIn_set_list parent child m l hc hg⟩
      | none => right; right; simp [place, Storable, Taken, hc, hg]
      | atom r t => right; right; simp [place, Storable, Taken, hc, hg]
      | node i => right; right; simp [place, Storable, Taken, hc, hg]
      | obj o => right; right; simp [place, Storable, Taken, hc, hg]

theorem storable_not_taken {parent child : Obj} {m : MemberSpec} (h : Storable parent child m false)
    (ht : Taken parent child m) : False := by
  unfold Storable at h; unfold Taken at ht
  cases hc : m.container with
  | true =>
    simp only [hc, ↓reduceIte, Bool.false_eq_true, false_or] at h ht
    obtain ⟨l, hl, hi⟩ := h
    obtain ⟨l', hl', hi'⟩ := ht
    rw [hl] at hl'; cases hl'
    rw [hi] at hi'; cases hi'
  | false =>
    simp only [hc, Bool.false_eq_true, ↓reduceIte, false_or] at h ht
    obtain ⟨v, hv, hi⟩ := h
    obtain ⟨v', hv', hi'⟩ := ht
    rw [hv] at hv'; cases hv'
    rw [hi] at hi'; cases hi'

theorem place_storable {parent child : Obj} {m : MemberSpec} {force : Bool} (sOk : Bool)
    (h : Storable parent child m force) :
    ∃ p', place sOk parent child m force = .ok (p', none) ∧ StoredIn parent p' m child := by
  rcases place_cases sOk parent child m force with ⟨p', hp, _, hs⟩ | ⟨ht, hf, _⟩ | ⟨_, hns, _⟩
  · exact ⟨p', hp, hs⟩
  · subst hf; exact (storable_not_taken h ht).elim
  · exact absurd h hns

theorem place_taken {parent child : Obj} {m : MemberSpec} (sOk : Bool) (h : Taken parent child m)
    (hs : m.container = true → sOk = true) :
    place sOk parent child m false = .ok (parent, some (warnOf m)) := by
  rcases place_cases sOk parent child m false with ⟨p', _, hst, _⟩ | ⟨_, _, ⟨hp, _⟩ | ⟨_, hc, hso⟩⟩ | ⟨_, _, hnt⟩
  · exact (storable_not_taken hst h).elim
  · exact hp
  · rw [hs hc] at hso; cases hso
  · exact absurd h hnt

theorem place_taken_strFails {parent child : Obj} {m : MemberSpec} (h : Taken parent child m)
    (hc : m.container = true) : place false parent child m false = .error .strFails := by
  rcases place_cases false parent child m false with ⟨p', _, hst, _⟩ | ⟨_, _, ⟨_, hs⟩ | ⟨hp, _, _⟩⟩ | ⟨_, _, hnt⟩
  · exact (storable_not_taken hst h).elim
  · exact absurd (hs hc) (by decide)
  · exact hp
  · exact absurd h hnt

/-! ### target selection -/

theorem select_nil (s : Bool) (h : Option Nat) : select s [] h = .error .noMember := rfl
theorem select_single (s : Bool) (m : MemberSpec) (h : Option Nat) : select s [m] h = .ok (some m) := rfl

theorem two_le_cases {ts : List MemberSpec} (h : 2 ≤ ts.length) : ∃ a b r, ts = a :: b :: r := by
  match ts, h with
  | a :: b :: r, _ => exact ⟨a, b, r, rfl⟩

theorem select_many_none (s : Bool) {ts : List MemberSpec} (h : 2 ≤ ts.length) :
    select s ts none = .error .ambiguous := by
  obtain ⟨a, b, r, rfl⟩ := two_le_cases h; rfl

theorem select_many_hit (s : Bool) {ts : List MemberSpec} (h : 2 ≤ ts.length) (hn : Nat) (m : MemberSpec)
    (hf : ts.find? (fun m => m.name == hn) = some m) : select s ts (some hn) = .ok (some m) := by
  obtain ⟨a, b, r, rfl⟩ := two_le_cases h
  simp only [select, hf]

theorem select_many_miss (s : Bool) {ts : List MemberSpec} (h : 2 ≤ ts.length) (hn : Nat)
    (hf : ∀ m ∈ ts, m.name ≠ hn) :
    select s ts (some hn) = if s then .error .badHint else .ok none := by
  obtain ⟨a, b, r, rfl⟩ := two_le_cases h
  have : (a :: b :: r).find? (fun m => m.name == hn) = none := by
    rw [List.find?_eq_none]
    intro m hm
    simpa using hf m hm
  simp only [select, this]

theorem select_ok_mem {s : Bool} {ts : List MemberSpec} {h : Option Nat} {m : MemberSpec}
    (hs : select s ts h = .ok (some m)) : m ∈ ts := by
  match ts, hs with
  | [m'], hs => simp only [select] at hs; cases hs; simp
  | a :: b :: r, hs =>
    cases h with
    | none => simp [select] at hs
    | some hn =>
      simp only [select] at hs
      cases hf : (a :: b :: r).find? (fun m => m.name == hn) with
      | none => rw [hf] at hs; cases s <;> simp at hs
      | some m' =>
        rw [hf] at hs
        simp only [Except.ok.injEq, Option.some.injEq] at hs
        subst hs
        exact List.mem_of_find?_eq_some hf

theorem select_strict_ne_none {ts : List MemberSpec} {h : Option Nat} : select true ts h ≠ .ok none := by
  intro hs
  match ts, hs with
  | [m'], hs => simp [select] at hs
  | a :: b :: r, hs =>
    cases h with
    | none => simp [select] at hs
    | some hn =>
      simp only [select] at hs
      cases hf : (a :: b :: r).find? (fun m => m.name == hn) with
      | none => rw [hf] at hs; simp at hs
      | some m' => rw [hf] at hs; simp at hs

/-- with pairwise distinct names the first member carrying a name is the only one -/
theorem find?_of_nodup_names : ∀ {ts : List MemberSpec} {m : MemberSpec} (hn : Nat),
    (ts.map (·.name)).Nodup → m ∈ ts → m.name = hn → ts.find? (fun x => x.name == hn) = some m
  | a :: r, m, hn, hnd, hm, he => by
    simp only [List.map_cons, List.nodup_cons] at hnd
    rcases List.mem_cons.mp hm with rfl | hm'
    · simp [List.find?, he]
    · have hne : a.name ≠ hn := by
        intro ha
        apply hnd.1
        rw [ha, ← he]
        exact List.mem_map_of_mem hm'
      have hb : (a.name == hn) = false := by simpa using hne
      simp only [List.find?, hb]
      exact find?_of_nodup_names hn hnd.2 hm' he

theorem eq_of_nodup_names : ∀ {ms : List MemberSpec} {x m : MemberSpec},
    (ms.map (·.name)).Nodup → x ∈ ms → m ∈ ms → x.name = m.name → x = m
  | a :: r, x, m, hnd, hx, hm, he => by
    simp only [List.map_cons, List.nodup_cons] at hnd
    rcases List.mem_cons.mp hx with rfl | hx' <;> rcases List.mem_cons.mp hm with rfl | hm'
    · rfl
    · exact absurd (he ▸ List.mem_map_of_mem (f := (·.name)) hm') hnd.1
    · exact absurd (he ▸ List.mem_map_of_mem (f := (·.name)) hx') hnd.1
    · exact eq_of_nodup_names hnd.2 hx' hm' he

theorem targets_sublist (members : List MemberSpec) (c : Nat) : (targets members c).Sublist members :=
  List.filter_sublist

theorem targets_names_nodup {members : List MemberSpec} (c : Nat) (h : (members.map (·.name)).Nodup) :
    ((targets members c).map (·.name)).Nodup :=
  h.sublist ((targets_sublist members c).map _)

/-! ### order of the member list (`_get_members` returns `list(set(…))`) -/

theorem find?_perm_nodup {ts ts' : List MemberSpec} (hp : ts.Perm ts') (hnd : (ts.map (·.name)).Nodup)
    (hn : Nat) : ts.find? (fun x => x.name == hn) = ts'.find? (fun x => x.name == hn) := by
  have hnd' : (ts'.map (·.name)).Nodup := (hp.map _).nodup_iff.mp hnd
  cases hf : ts.find? (fun x => x.name == hn) with
  | some m =>
    have hm := List.mem_of_find?_eq_some hf
    have he : m.name = hn := by simpa using List.find?_some hf
    exact (find?_of_nodup_names hn hnd' (hp.mem_iff.mp hm) he).symm
  | none =>
    symm
    rw [List.find?_eq_none] at hf ⊢
    intro x hx
    exact hf x (hp.mem_iff.mpr hx)

theorem select_perm (s : Bool) {ts ts' : List MemberSpec} (hp : ts.Perm ts') (hnd : (ts.map (·.name)).Nodup)
    (h : Option Nat) : select s ts h = select s ts' h := by
  have hl := hp.length_eq
  match ts, ts', hp, hl, hnd with
  | [], [], _, _, _ => rfl
  | [a], [b], hp, _, _ =>
    have : a = b := by
      have := hp.mem_iff (a := a)
      simp at this; exact this
    subst this; rfl
  | a :: b :: r, a' :: b' :: r', hp, _, hnd =>
    cases h with
    | none => rfl
    | some hn =>
      simp only [select]
      rw [find?_perm_nodup hp hnd hn]

end NmlVerif.Add
