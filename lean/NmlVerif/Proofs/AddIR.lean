import NmlVerif.Model.AddIR
import NmlVerif.Proofs.Add
/-! Lemmas relating the imperative vocabulary of `Model/AddIR.lean` to the hand model `Model/Add.lean`. Core Lean only. -/
namespace NmlVerif.Add

theorem placeX_generated (skip : List Nat) (sOk : Bool) (parent child : Obj) (m : MemberSpec) (force : Bool) :
    placeX .generatedEq .strObj skip sOk parent child m force = place sOk parent child m force := by
  unfold placeX place dupIn
  cases m.container <;> cases force <;> simp <;> rfl

theorem addCoreX_generated (skip : List Nat) (valid strOk : Obj → Bool) (members : List MemberSpec) (g : Gate)
    (parent child : Obj) (hint : Option Nat) (force : Bool) :
    addCoreX .generatedEq .strObj skip valid strOk members g parent child hint force
      = addCore true valid strOk members g parent child hint force := by
  unfold addCoreX addCore
  simp only [placeX_generated]
  rfl

namespace IR

/-! ### reference programs: what the two methods look like, with the two switches -/

def dupCond : DupTest → Cond
  | .generatedEq => objInMember
  | .sameContents => anySameContents

def warnDup : WarnFmt → Cmd
  | .strObj => block [warnDuplicateObj]
  | .guarded => block [tryExceptException (block [describeObj]) (block [describeObjRepr]), warnDuplicateDescription]

def refPlace (d : DupTest) (w : WarnFmt) : Cmd :=
  block [
    importWarnings,
    ifElse memberIsSingle (block [
      ifElse forceFlag (block [assignMember]) (block [
        ifElse memberValueTruthy (block [warnOccupied]) (block [assignMember])])])
    (block [
      ifElse forceFlag (block [appendMember]) (block [
        ifElse (dupCond d) (warnDup w) (block [appendMember])])])]

def errList : Cmd := forEach targetsIter bindT (block [appendTNameToErr])

def refAdd (place : Cmd) : Cmd :=
  block [
    ifC objFalsy (block [callInfo, retNone]),
    ifC objIsTypeOrStr (block [factoryAssign]),
    initTargets,
    getAllMembers,
    forEach allMembersIter bindMember (block [ifC memberTypeIsObjType (block [appendTarget])]),
    ifElse targetsLen0 (block [mkNoMemberError, raisePending]) (block [
      ifElse targetsLen1 (block [callAddFirst place]) (block [
        ifC notHint (block [setErrMultiple, errList, raisePending]),
        forElse targetsIter bindT (block [ifC hintIsTName (block [callAddT place, brk])])
          (block [setErrHint, errList, raisePending])])]),
    ifElse gateOn (block [validateSelf]) (block [logDisabled]),
    retObj]

/-! ### `__add` -/

/-- what a run of `__add`'s body must look like, given the hand model's verdict -/
def PlaceAgrees (σ : Locals) (r : Except Err (Obj × Option Warn)) (R : Res) : Prop :=
  match r with
  | .ok (p', wn) => ∃ σ', R = .normal σ' ∧ σ'.self = p' ∧ σ'.warns = σ.warns ++ wn.toList
  | .error e => ∃ σ', R = .raised σ' e ∧ σ'.self = σ.self ∧ σ'.warns = σ.warns

theorem block_cons (c : Cmd) (cs : List Cmd) : block (c :: cs) = seq c (block cs) := rfl
theorem block_nil : block [] = skip := rfl

theorem dupCond_list (d : DupTest) (env : Env) (σ : Locals) (m : MemberSpec) (l : List Val)
    (hm : σ.member = some m) (hg : σ.self.get m.name = some (.list l)) :
    dupCond d env σ = .ok (some (dupIn d env.skip σ.obj l)) := by
  cases d <;> simp [dupCond, objInMember, anySameContents, hm, hg, dupIn]

theorem dupCond_none (d : DupTest) (env : Env) (σ : Locals) (m : MemberSpec)
    (hm : σ.member = some m) (hg : σ.self.get m.name = none) :
    dupCond d env σ = .error .keyError := by
  cases d <;> simp [dupCond, objInMember, anySameContents, hm, hg]

theorem dupCond_notList (d : DupTest) (env : Env) (σ : Locals) (m : MemberSpec) (v : Val)
    (hm : σ.member = some m) (hg : σ.self.get m.name = some v) (hv : ∀ l, v ≠ .list l) :
    dupCond d env σ = .error .notAList := by
  cases v with
  | list l => exact absurd rfl (hv l)
  | none => cases d <;> simp [dupCond, objInMember, anySameContents, hm, hg]
  | atom r t => cases d <;> simp [dupCond, objInMember, anySameContents, hm, hg]
  | node i => cases d <;> simp [dupCond, objInMember, anySameContents, hm, hg]
  | obj o => cases d <;> simp [dupCond, objInMember, anySameContents, hm, hg]

theorem placeX_notList (d : DupTest) (w : WarnFmt) (skip : List Nat) (sOk : Bool) (parent child : Obj) (m : MemberSpec)
    (force : Bool) (v : Val) (hc : m.container = true) (hg : parent.get m.name = some v) (hv : ∀ l, v ≠ .list l) :
    placeX d w skip sOk parent child m force = .error .notAList := by
  cases v with
  | list l => exact absurd rfl (hv l)
  | none => simp [placeX, hc, hg]
  | atom r t => simp [placeX, hc, hg]
  | node i => simp [placeX, hc, hg]
  | obj o => simp [placeX, hc, hg]

theorem appendMember_notList (env : Env) (σ : Locals) (m : MemberSpec) (v : Val)
    (hm : σ.member = some m) (hg : σ.self.get m.name = some v) (hv : ∀ l, v ≠ .list l) :
    appendMember env σ = .raised σ .notAList := by
  cases v with
  | list l => exact absurd rfl (hv l)
  | none => simp [appendMember, hm, hg]
  | atom r t => simp [appendMember, hm, hg]
  | node i => simp [appendMember, hm, hg]
  | obj o => simp [appendMember, hm, hg]

theorem refPlace_agrees (d : DupTest) (w : WarnFmt) (env : Env) (σ : Locals) (m : MemberSpec)
    (hm : σ.member = some m) :
    PlaceAgrees σ (placeX d w env.skip (env.strOk σ.obj) σ.self σ.obj m σ.force) (refPlace d w env σ) := by
  cases hc : m.container
  · -- single-valued
    cases hf : σ.force
    · cases hg : σ.self.get m.name with
      | none =>
        simp [refPlace, placeX, PlaceAgrees, block, seq, importWarnings, skip, ifElse, memberIsSingle, forceFlag,
          memberValueTruthy, hm, hc, hf, hg]
      | some v =>
        cases ht : v.truthy
        · simp [refPlace, placeX, PlaceAgrees, block, seq, importWarnings, skip, ifElse, memberIsSingle, forceFlag,
            memberValueTruthy, assignMember, hm, hc, hf, hg, ht]
        · simp [refPlace, placeX, PlaceAgrees, block, seq, importWarnings, skip, ifElse, memberIsSingle, forceFlag,
            memberValueTruthy, warnOccupied, hm, hc, hf, hg, ht]
    · simp [refPlace, placeX, PlaceAgrees, block, seq, importWarnings, skip, ifElse, memberIsSingle, forceFlag,
        assignMember, hm, hc, hf]
  · -- list-valued
    cases hg : σ.self.get m.name with
    | none =>
      cases hf : σ.force
      · simp [refPlace, placeX, PlaceAgrees, block, seq, importWarnings, skip, ifElse, memberIsSingle, forceFlag,
          dupCond_none d env σ m hm hg, hm, hc, hf, hg]
      · simp [refPlace, placeX, PlaceAgrees, block, seq, importWarnings, skip, ifElse, memberIsSingle, forceFlag,
          appendMember, hm, hc, hf, hg]
    | some v =>
      by_cases hv : ∃ l, v = .list l
      · obtain ⟨l, rfl⟩ := hv
        cases hf : σ.force
        · cases hi : dupIn d env.skip σ.obj l
          · simp [refPlace, placeX, PlaceAgrees, block, seq, importWarnings, skip, ifElse, memberIsSingle, forceFlag,
              dupCond_list d env σ m l hm hg, appendMember, hm, hc, hf, hg, hi]
          · cases w <;> cases hs : env.strOk σ.obj <;>
              simp [refPlace, placeX, PlaceAgrees, block, seq, importWarnings, skip, ifElse, memberIsSingle, forceFlag,
                dupCond_list d env σ m l hm hg, warnDup, warnDuplicateObj, tryExceptException, describeObj,
                describeObjRepr, warnDuplicateDescription, hm, hc, hf, hg, hi, hs]
        · simp [refPlace, placeX, PlaceAgrees, block, seq, importWarnings, skip, ifElse, memberIsSingle, forceFlag,
            appendMember, hm, hc, hf, hg]
      · have hv' : ∀ l, v ≠ .list l := fun l h => hv ⟨l, h⟩
        rw [placeX_notList d w env.skip _ σ.self σ.obj m σ.force v hc hg hv']
        cases hf : σ.force
        · simp [refPlace, PlaceAgrees, block, seq, importWarnings, skip, ifElse, memberIsSingle, forceFlag,
            dupCond_notList d env σ m v hm hg hv', hm, hc, hf]
        · simp [refPlace, PlaceAgrees, block, seq, importWarnings, skip, ifElse, memberIsSingle, forceFlag,
            appendMember_notList env σ m v hm hg hv', hm, hc, hf]

/-! ### loops of `add` -/

/-- the value a loop variable has after the loop -/
def lastOr : List MemberSpec → Option MemberSpec → Option MemberSpec
  | [], d => d
  | m :: r, _ => lastOr r (some m)

theorem lastOr_nil (d : Option MemberSpec) : lastOr [] d = d := rfl
theorem lastOr_cons (m : MemberSpec) (r : List MemberSpec) (d : Option MemberSpec) :
    lastOr (m :: r) d = lastOr r (some m) := rfl

def collectBody : Cmd := block [ifC memberTypeIsObjType (block [appendTarget])]

theorem collect_loop (env : Env) : ∀ (l : List MemberSpec) (σ : Locals) (ts : List MemberSpec), σ.targets = some ts →
    forLoop bindMember collectBody skip l env σ
      = .normal { σ with targets := some (ts ++ l.filter (fun m => m.dataType == σ.obj.cls)),
                         member := lastOr l σ.member }
  | [], σ, ts, hts => by
    cases σ
    simp only at hts
    subst hts
    simp [forLoop, skip, lastOr_nil]
  | m :: r, σ, ts, hts => by
    cases hp : (m.dataType == σ.obj.cls)
    · have hb : collectBody env (bindMember m σ) = .normal (bindMember m σ) := by
        simp [collectBody, block, seq, ifC, ifElse, memberTypeIsObjType, bindMember, skip, hp]
      simp only [forLoop, hb]
      rw [collect_loop env r (bindMember m σ) ts (by simpa [bindMember] using hts)]
      simp [bindMember, List.filter, hp, lastOr_cons]
    · have hb : collectBody env (bindMember m σ) = .normal { bindMember m σ with targets := some (ts ++ [m]) } := by
        simp [collectBody, block, seq, ifC, ifElse, memberTypeIsObjType, bindMember, skip, hp, appendTarget, hts]
      simp only [forLoop, hb]
      rw [collect_loop env r _ (ts ++ [m]) rfl]
      simp [bindMember, List.filter, hp, lastOr_cons]

theorem errList_loop (env : Env) (e : Err) : ∀ (l : List MemberSpec) (σ : Locals), σ.pending = some e →
    forLoop bindT (block [appendTNameToErr]) skip l env σ = .normal { σ with t := lastOr l σ.t }
  | [], σ, _ => by simp [forLoop, skip, lastOr_nil]
  | m :: r, σ, hp => by
    have hb : (block [appendTNameToErr]) env (bindT m σ) = .normal (bindT m σ) := by
      simp [block, seq, appendTNameToErr, bindT, skip, hp]
    simp only [forLoop, hb]
    rw [errList_loop env e r (bindT m σ) (by simpa [bindT] using hp)]
    simp [bindT, lastOr_cons]

theorem errList_eq (env : Env) (e : Err) (σ : Locals) (ts : List MemberSpec) (hp : σ.pending = some e)
    (ht : σ.targets = some ts) : errList env σ = .normal { σ with t := lastOr ts σ.t } := by
  have h1 : errList env σ = forLoop bindT (block [appendTNameToErr]) skip ts env σ := by
    simp only [errList, forEach, forElse, targetsIter, ht]
  rw [h1]
  exact errList_loop env e ts σ hp

def hintBody (place : Cmd) : Cmd := block [ifC hintIsTName (block [callAddT place, brk])]

theorem nat_beq_comm (h n : Nat) : (h == n) = (n == h) := by
  by_cases hn : h = n
  · subst hn; rfl
  · have h1 : (n == h) = false := by simpa using (Ne.symm hn)
    have h2 : (h == n) = false := by simpa using hn
    rw [h1, h2]

theorem hint_loop (place orelse : Cmd) (env : Env) (h : Nat) : ∀ (l : List MemberSpec) (σ : Locals), σ.hint = some h →
    forLoop bindT (hintBody place) orelse l env σ
      = match l.find? (fun m => m.name == h) with
        | some m =>
          (match callAddT place env (bindT m σ) with
           | .normal σ' => .normal σ'
           | .broke σ' => .normal σ'
           | r => r)
        | none => orelse env { σ with t := lastOr l σ.t }
  | [], σ, _ => by simp [forLoop, lastOr_nil]
  | m :: r, σ, hh => by
    have hc := nat_beq_comm h m.name
    cases hp : (m.name == h)
    · rw [hp] at hc
      have hb : hintBody place env (bindT m σ) = .normal (bindT m σ) := by
        simp [hintBody, block, seq, ifC, ifElse, hintIsTName, bindT, skip, hh, hc]
      simp only [forLoop, hb, List.find?, hp]
      rw [hint_loop place orelse env h r (bindT m σ) (by simpa [bindT] using hh)]
      simp [bindT, lastOr_cons]
    · rw [hp] at hc
      have hb : hintBody place env (bindT m σ) =
          (match callAddT place env (bindT m σ) with
           | .normal σ' => .broke σ'
           | r => r) := by
        simp only [hintBody, block, seq, ifC, ifElse, hintIsTName, bindT, skip, hh, hc, brk, Option.map_some,
          Option.some_beq_some]
        generalize callAddT place env _ = R
        cases R <;> rfl
      simp only [forLoop, hb, List.find?, hp]
      generalize callAddT place env _ = R
      cases R <;> rfl

/-! ### a call of `self.__add(...)` -/

theorem callPlace_agrees (d : DupTest) (w : WarnFmt) (env : Env) (σ : Locals) (arg : Locals → Option MemberSpec)
    (m : MemberSpec) (ha : arg σ = some m) :
    match placeX d w env.skip (env.strOk σ.obj) σ.self σ.obj m σ.force with
    | .ok (p', wn) => callPlace arg (refPlace d w) env σ = .normal { σ with self := p', warns := σ.warns ++ wn.toList }
    | .error e => callPlace arg (refPlace d w) env σ = .raised σ e := by
  have h := refPlace_agrees d w env
    { self := σ.self, obj := σ.obj, hint := none, force := σ.force, validate := true, member := some m, warns := σ.warns }
    m rfl
  simp only at h
  cases hr : placeX d w env.skip (env.strOk σ.obj) σ.self σ.obj m σ.force with
  | ok pw =>
    obtain ⟨p', wn⟩ := pw
    rw [hr] at h
    obtain ⟨σ', h1, h2, h3⟩ := h
    simp only [callPlace, ha, h1, h2, h3]
  | error e =>
    rw [hr] at h
    obtain ⟨σ', h1, h2, h3⟩ := h
    simp only [callPlace, ha, h1, h2, h3]

/-- what follows the placement: the validation gate and `return obj` -/
def tailCmd : Cmd := block [ifElse gateOn (block [validateSelf]) (block [logDisabled]), retObj]

theorem tail_eq (env : Env) (σ : Locals) :
    tailCmd env σ = if env.enabled && σ.validate && !env.valid σ.self then .raised σ .invalid
                    else .returned σ (some σ.obj) := by
  cases he : env.enabled <;> cases hv : σ.validate <;> cases hs : env.valid σ.self <;>
    simp [tailCmd, block, seq, ifElse, gateOn, validateSelf, logDisabled, retObj, skip, he, hv, hs]

/-- after a call of `__add` selected by `arg`, the rest of `add` produces the hand model's outcome -/
theorem placed_then_tail (d : DupTest) (w : WarnFmt) (env : Env) (σ : Locals) (arg : Locals → Option MemberSpec)
    (m : MemberSpec) (ha : arg σ = some m) (hw : σ.warns = []) :
    outcomeOf (match callPlace arg (refPlace d w) env σ with
               | .normal σ' => tailCmd env σ'
               | r => r)
      = some (match placeX d w env.skip (env.strOk σ.obj) σ.self σ.obj m σ.force with
              | .error e => ⟨σ.self, none, .error e⟩
              | .ok (p', w') => ⟨p', w', if (Gate.mk env.enabled σ.validate).on && !env.valid p' then .error .invalid
                                         else .ok σ.obj⟩) := by
  have h := callPlace_agrees d w env σ arg m ha
  cases hr : placeX d w env.skip (env.strOk σ.obj) σ.self σ.obj m σ.force with
  | error e =>
    rw [hr] at h
    simp only [h, outcomeOf, hw, warnOf?, Option.map_some]
  | ok pw =>
    obtain ⟨p', wn⟩ := pw
    rw [hr] at h
    simp only [h, tail_eq, hw, List.nil_append, Gate.on]
    by_cases hc : (env.enabled && σ.validate && !env.valid p') = true
    · cases wn <;> simp [outcomeOf, warnOf?, hc]
    · cases wn <;> simp [outcomeOf, warnOf?, hc]

/-- the state after `targets` has been collected -/
def afterCollect (env : Env) (parent child : Obj) (hint : Option Nat) (force validate : Bool) : Locals :=
  { start parent child hint force validate with
    all_members := some env.members, targets := some (targets env.members child.cls),
    member := lastOr env.members none }

/-- the split on `len(targets)` -/
def splitHead (place : Cmd) : Cmd :=
  ifElse targetsLen0 (block [mkNoMemberError, raisePending]) (block [
    ifElse targetsLen1 (block [callAddFirst place]) (block [
      ifC notHint (block [setErrMultiple, errList, raisePending]),
      forElse targetsIter bindT (hintBody place) (block [setErrHint, errList, raisePending])])])

/-- `add` from the split on `len(targets)` onwards -/
def splitCmd (place : Cmd) : Cmd := seq (splitHead place) tailCmd

theorem seq_skip (a : Cmd) : seq a skip = a := by
  funext env σ
  simp only [seq, skip]
  cases a env σ <;> rfl

theorem norm_id (R : Res) : (match R with | .normal σ' => Res.normal σ' | r => r) = R := by
  cases R <;> rfl

theorem seq_normal {a b : Cmd} {env : Env} {σ σ' : Locals} (h : a env σ = .normal σ') :
    seq a b env σ = b env σ' := by
  simp only [seq, h]

theorem ifC_false {c : Cond} {a : Cmd} {env : Env} {σ : Locals} (h : c env σ = .ok (some false)) :
    ifC c a env σ = .normal σ := by
  simp only [ifC, ifElse, h, skip]

theorem refAdd_unfold (place : Cmd) :
    refAdd place = seq (ifC objFalsy (block [callInfo, retNone])) (seq (ifC objIsTypeOrStr (block [factoryAssign]))
      (seq initTargets (seq getAllMembers (seq (forEach allMembersIter bindMember collectBody) (splitCmd place))))) := rfl

theorem refAdd_prefix (place : Cmd) (env : Env) (hk : env.kind = .component) (parent child : Obj) (hint : Option Nat)
    (force validate : Bool) :
    refAdd place env (start parent child hint force validate)
      = splitCmd place env (afterCollect env parent child hint force validate) := by
  have hl := collect_loop env env.members
    { start parent child hint force validate with targets := some [], all_members := some env.members } [] rfl
  rw [refAdd_unfold]
  rw [seq_normal (ifC_false (by simp [objFalsy, hk]))]
  rw [seq_normal (ifC_false (by simp [objIsTypeOrStr, hk]))]
  rw [seq_normal (σ' := { start parent child hint force validate with targets := some [] }) rfl]
  rw [seq_normal (σ' := { start parent child hint force validate with targets := some [], all_members := some env.members }) rfl]
  have hf : forEach allMembersIter bindMember collectBody env
      { start parent child hint force validate with targets := some [], all_members := some env.members }
      = .normal (afterCollect env parent child hint force validate) := by
    simp only [forEach, forElse, allMembersIter]
    rw [hl]
    simp [afterCollect, start, targets]
  rw [seq_normal hf]

theorem callPlace_broke (arg : Locals → Option MemberSpec) (callee : Cmd) (env : Env) (σ : Locals) :
    (match callPlace arg callee env σ with
     | .normal σ' => Res.normal σ'
     | .broke σ' => .normal σ'
     | r => r) = callPlace arg callee env σ := by
  unfold callPlace
  cases arg σ with
  | none => rfl
  | some m =>
    simp only
    generalize callee env _ = R
    cases R <;> rfl

theorem ifElse_true {c : Cond} {a b : Cmd} {env : Env} {σ : Locals} (h : c env σ = .ok (some true)) :
    ifElse c a b env σ = a env σ := by
  simp only [ifElse, h]

theorem ifElse_false {c : Cond} {a b : Cmd} {env : Env} {σ : Locals} (h : c env σ = .ok (some false)) :
    ifElse c a b env σ = b env σ := by
  simp only [ifElse, h]

theorem ifC_true {c : Cond} {a : Cmd} {env : Env} {σ : Locals} (h : c env σ = .ok (some true)) :
    ifC c a env σ = a env σ := ifElse_true h

theorem seq_raised {a b : Cmd} {env : Env} {σ σ' : Locals} {e : Err} (h : a env σ = .raised σ' e) :
    seq a b env σ = .raised σ' e := by
  simp only [seq, h]

theorem splitHead_nil (place : Cmd) (env : Env) (σ : Locals) (ht : σ.targets = some []) :
    splitHead place env σ = .raised { σ with pending := some .noMember } .noMember := by
  have h0 : (targetsLen0 env σ) = .ok (some true) := by simp [targetsLen0, ht]
  unfold splitHead
  rw [ifElse_true h0, block_cons, seq_normal (σ' := { σ with pending := some .noMember }) rfl]
  rfl

theorem splitHead_one (place : Cmd) (env : Env) (σ : Locals) (a : MemberSpec) (ht : σ.targets = some [a]) :
    splitHead place env σ = callPlace firstTarget place env σ := by
  have h0 : (targetsLen0 env σ) = .ok (some false) := by simp [targetsLen0, ht]
  have h1 : (targetsLen1 env σ) = .ok (some true) := by simp [targetsLen1, ht]
  unfold splitHead
  rw [ifElse_false h0, block_cons, block_nil, seq_skip, ifElse_true h1, block_cons, block_nil, seq_skip]
  rfl

theorem splitHead_many_none (place : Cmd) (env : Env) (σ : Locals) (a b : MemberSpec) (r : List MemberSpec)
    (ht : σ.targets = some (a :: b :: r)) (hh : σ.hint = none) :
    splitHead place env σ
      = .raised { σ with pending := some .ambiguous, t := lastOr (a :: b :: r) σ.t } .ambiguous := by
  have he := errList_eq env .ambiguous { σ with pending := some .ambiguous } (a :: b :: r) rfl ht
  have h0 : (targetsLen0 env σ) = .ok (some false) := by simp [targetsLen0, ht]
  have h1 : (targetsLen1 env σ) = .ok (some false) := by simp [targetsLen1, ht]
  have hn : notHint env σ = .ok (some true) := by simp [notHint, hh]
  have hs : (block [setErrMultiple, errList, raisePending]) env σ
      = .raised { σ with pending := some .ambiguous, t := lastOr (a :: b :: r) σ.t } .ambiguous := by
    rw [block_cons, seq_normal (σ' := { σ with pending := some .ambiguous }) rfl, block_cons, seq_normal he]
    rfl
  unfold splitHead
  rw [ifElse_false h0, block_cons, block_nil, seq_skip, ifElse_false h1, block_cons]
  exact seq_raised (by rw [ifC_true hn]; exact hs)

theorem splitHead_many_some (place : Cmd) (env : Env) (σ : Locals) (a b : MemberSpec) (r : List MemberSpec) (h : Nat)
    (ht : σ.targets = some (a :: b :: r)) (hh : σ.hint = some h) :
    splitHead place env σ
      = match (a :: b :: r).find? (fun m => m.name == h) with
        | some m => callPlace theT place env (bindT m σ)
        | none => .raised { σ with pending := some .badHint, t := lastOr (a :: b :: r) (lastOr (a :: b :: r) σ.t) } .badHint := by
  have hl := hint_loop place (block [setErrHint, errList, raisePending]) env h (a :: b :: r) σ hh
  have h0 : (targetsLen0 env σ) = .ok (some false) := by simp [targetsLen0, ht]
  have h1 : (targetsLen1 env σ) = .ok (some false) := by simp [targetsLen1, ht]
  have h2 : ifC notHint (block [setErrMultiple, errList, raisePending]) env σ = .normal σ :=
    ifC_false (by simp [notHint, hh])
  have hfe : forElse targetsIter bindT (hintBody place) (block [setErrHint, errList, raisePending]) env σ
      = forLoop bindT (hintBody place) (block [setErrHint, errList, raisePending]) (a :: b :: r) env σ := by
    simp only [forElse, targetsIter, ht]
  unfold splitHead
  rw [ifElse_false h0, block_cons, block_nil, seq_skip, ifElse_false h1, block_cons, seq_normal h2, block_cons,
    block_nil, seq_skip, hfe, hl]
  cases hf : (a :: b :: r).find? (fun m => m.name == h) with
  | some m => simp only [callAddT]; exact callPlace_broke theT place env (bindT m σ)
  | none =>
    have he := errList_eq env .badHint
      { σ with t := lastOr (a :: b :: r) σ.t, pending := some .badHint } (a :: b :: r) rfl ht
    simp only
    rw [block_cons, seq_normal (σ' := { σ with t := lastOr (a :: b :: r) σ.t, pending := some .badHint }) rfl,
      block_cons, seq_normal he]
    rfl

theorem splitCmd_outcome (d : DupTest) (w : WarnFmt) (env : Env) (parent child : Obj) (hint : Option Nat)
    (force validate : Bool) :
    outcomeOf (splitCmd (refPlace d w) env (afterCollect env parent child hint force validate))
      = some (addCoreX d w env.skip env.valid env.strOk env.members ⟨env.enabled, validate⟩ parent child hint force) := by
  have hts : (afterCollect env parent child hint force validate).targets = some (targets env.members child.cls) := rfl
  unfold addCoreX splitCmd
  simp only [seq]
  cases hT : targets env.members child.cls with
  | nil =>
    rw [splitHead_nil _ env _ (hT ▸ hts)]
    simp [outcomeOf, warnOf?, select, afterCollect, start]
  | cons a rest =>
    cases rest with
    | nil =>
      rw [splitHead_one _ env _ a (hT ▸ hts)]
      have hp := placed_then_tail d w env (afterCollect env parent child hint force validate) firstTarget a
        (by simp [firstTarget, hts, hT]) rfl
      simp only [select]
      exact hp
    | cons b rest =>
      cases hint with
      | none =>
        rw [splitHead_many_none _ env _ a b rest (hT ▸ hts) rfl]
        simp [outcomeOf, warnOf?, select, afterCollect, start]
      | some h =>
        rw [splitHead_many_some _ env _ a b rest h (hT ▸ hts) rfl]
        simp only [select]
        cases hf : (a :: b :: rest).find? (fun m => m.name == h) with
        | none => simp [outcomeOf, warnOf?, afterCollect, start]
        | some m =>
          have hp := placed_then_tail d w env (bindT m (afterCollect env parent child (some h) force validate)) theT m
            rfl rfl
          exact hp

theorem refAdd_outcome (d : DupTest) (w : WarnFmt) (env : Env) (hk : env.kind = .component) (parent child : Obj)
    (hint : Option Nat) (force validate : Bool) :
    outcomeOf (refAdd (refPlace d w) env (start parent child hint force validate))
      = some (addCoreX d w env.skip env.valid env.strOk env.members ⟨env.enabled, validate⟩ parent child hint force) := by
  rw [refAdd_prefix (refPlace d w) env hk]
  exact splitCmd_outcome d w env parent child hint force validate

end IR
end NmlVerif.Add
