import NmlVerif.Model.ArrayMorph
/-!
Helper lemmas for C18.

1. `ToRoot`: re-rooting on parent-pointer *functions* (lifted from the scratch proof, DESIGN-prototypes §G, now
   relative to a domain `[0, n)`): the recursive specification `rev` keeps the undirected edges, has exactly one
   root and is again ranked; the bottom-up loop `loopL` computes `rev`; depth of a ranked forest on `[0, n)` is
   `< n` (pigeonhole), so the model's fuel suffices.
2. refinement: the literal list/`Int`/negative-index loop of the model (`rootLoop`, `toRootFuel`) computes `loopL`
   on the abstraction of the list.
3. segment view / conversion lemmas; file-format lemmas.
-/
namespace NmlVerif.ArrayMorph

namespace ToRoot

abbrev Conn := Nat → Option Nat      -- parent pointer; `none` is the root (−1 in the array)

def upd (c : Conn) (k : Nat) (v : Option Nat) : Conn := fun x => if x = k then v else c x

@[simp] theorem upd_same (c : Conn) (k v) : upd c k v k = v := by simp [upd]
theorem upd_other (c : Conn) (k v x) (h : x ≠ k) : upd c k v x = c x := by simp [upd, h]

/-- re-root at `j`: re-root at the parent first, then flip the edge between `j` and its parent -/
def rev : Nat → Conn → Nat → Conn
  | 0, c, _ => c
  | f+1, c, j =>
    match c j with
    | none => c
    | some p => upd (upd (rev f c p) p (some j)) j none

/-- `rank` witnesses that following parent pointers terminates (a forest, whatever the numbering) -/
def Ranked (c : Conn) (rank : Nat → Nat) : Prop := ∀ v p, c v = some p → rank p < rank v

def Edge (c : Conn) (u v : Nat) : Prop := c u = some v ∨ c v = some u

/-- a tree on the vertex set `[0, n)` with root `r` -/
structure Tree (c : Conn) (n r : Nat) (rank : Nat → Nat) : Prop where
  hr : Ranked c rank
  hroot : ∀ v, v < n → (c v = none ↔ v = r)
  hdom : ∀ v p, c v = some p → v < n ∧ p < n
  hrn : r < n

theorem rev_local (c : Conn) (rank : Nat → Nat) (hr : Ranked c rank) :
    ∀ f p v, rank p < rank v → rev f c p v = c v := by
  intro f
  induction f with
  | zero => intro p v _; rfl
  | succ f ih =>
    intro p v hv
    unfold rev
    cases hp : c p with
    | none => rfl
    | some q =>
      simp only []
      have hq : rank q < rank p := hr p q hp
      have h1 : v ≠ p := by intro e; subst e; omega
      have h2 : v ≠ q := by intro e; subst e; omega
      rw [upd_other _ _ _ _ h1, upd_other _ _ _ _ h2]
      exact ih q v (by omega)

/-- `rev` only ever writes inside the domain -/
theorem rev_dom {c : Conn} {n r : Nat} {rank : Nat → Nat} (T : Tree c n r rank) :
    ∀ f j, j < n → ∀ v p, rev f c j v = some p → v < n ∧ p < n := by
  intro f
  induction f with
  | zero => intro j _ v p h; exact T.hdom v p h
  | succ f ih =>
    intro j hj v p h
    unfold rev at h
    cases hp : c j with
    | none => rw [hp] at h; exact T.hdom v p h
    | some q =>
      rw [hp] at h
      simp only [] at h
      have hq := (T.hdom j q hp).2
      by_cases hvj : v = j
      · subst hvj; simp at h
      · rw [upd_other _ _ _ _ hvj] at h
        by_cases hvq : v = q
        · subst hvq; simp at h; subst h; exact ⟨hq, hj⟩
        · rw [upd_other _ _ _ _ hvq] at h
          exact ih q hq v p h

/-- after re-rooting, `j` is the one and only root -/
theorem rev_root {c : Conn} {n r : Nat} {rank : Nat → Nat} (T : Tree c n r rank) :
    ∀ f j, j < n → rank j ≤ f → ∀ v, v < n → (rev f c j v = none ↔ v = j) := by
  intro f
  induction f with
  | zero =>
    intro j hjn hj v hv
    have : c j = none := by
      cases h : c j with
      | none => rfl
      | some p => have := T.hr j p h; omega
    have hjr : j = r := (T.hroot j hjn).mp this
    subst hjr
    exact T.hroot v hv
  | succ f ih =>
    intro j hjn hj v hv
    unfold rev
    cases hp : c j with
    | none =>
      have hjr : j = r := (T.hroot j hjn).mp hp
      subst hjr
      exact T.hroot v hv
    | some p =>
      simp only []
      have hpj : rank p < rank j := T.hr j p hp
      have hpn := (T.hdom j p hp).2
      have hne : p ≠ j := by intro e; subst e; omega
      have ihp := ih p hpn (by omega)
      by_cases hvj : v = j
      · subst hvj; simp
      · rw [upd_other _ _ _ _ hvj]
        by_cases hvp : v = p
        · subst hvp; simp [hvj]
        · rw [upd_other _ _ _ _ hvp]
          constructor
          · intro h; exact absurd ((ihp v hv).mp h) hvp
          · intro h; exact absurd h hvj

/-- the two writes of one `rev` step, read pointwise -/
theorem upd2_some (c' : Conn) (p j : Nat) (hne : p ≠ j) (x y : Nat) :
    upd (upd c' p (some j)) j none x = some y ↔
      ((x = p ∧ y = j) ∨ (x ≠ p ∧ x ≠ j ∧ c' x = some y)) := by
  by_cases hxj : x = j
  · subst hxj
    simp only [upd_same]
    constructor
    · intro h; cases h
    · rintro (⟨h, _⟩ | ⟨_, h, _⟩)
      · exact absurd h.symm hne
      · exact absurd rfl h
  · rw [upd_other _ _ _ _ hxj]
    by_cases hxp : x = p
    · subst hxp
      rw [upd_same]
      constructor
      · intro h; cases h; exact Or.inl ⟨rfl, rfl⟩
      · rintro (⟨_, h⟩ | ⟨h, _⟩)
        · rw [h]
        · exact absurd rfl h
    · rw [upd_other _ _ _ _ hxp]
      constructor
      · intro h; exact Or.inr ⟨hxp, hxj, h⟩
      · rintro (⟨h, _⟩ | ⟨_, _, h⟩)
        · exact absurd h hxp
        · exact h

/-- re-rooting keeps the undirected tree -/
theorem rev_edges {c : Conn} {n r : Nat} {rank : Nat → Nat} (T : Tree c n r rank) :
    ∀ f j, j < n → rank j ≤ f → ∀ u v, Edge (rev f c j) u v ↔ Edge c u v := by
  intro f
  induction f with
  | zero => intro j _ _ u v; exact Iff.rfl
  | succ f ih =>
    intro j hjn hj u v
    unfold rev
    cases hp : c j with
    | none => exact Iff.rfl
    | some p =>
      simp only []
      have hpj : rank p < rank j := T.hr j p hp
      have hpn := (T.hdom j p hp).2
      have hne : p ≠ j := by intro e; subst e; omega
      have ihp := ih p hpn (by omega)
      have hc'p : rev f c p p = none := (rev_root T f p hpn (by omega) p hpn).mpr rfl
      have hc'j : rev f c p j = some p := by rw [rev_local c rank T.hr f p j hpj]; exact hp
      rw [← ihp u v]
      unfold Edge
      rw [upd2_some _ p j hne u v, upd2_some _ p j hne v u]
      constructor
      · rintro ((⟨rfl, rfl⟩ | ⟨_, _, h⟩) | (⟨rfl, rfl⟩ | ⟨_, _, h⟩))
        · exact Or.inr hc'j
        · exact Or.inl h
        · exact Or.inl hc'j
        · exact Or.inr h
      · rintro (h | h)
        · by_cases huj : u = j
          · subst huj; rw [hc'j] at h; cases h; exact Or.inr (Or.inl ⟨rfl, rfl⟩)
          · by_cases hup : u = p
            · subst hup; rw [hc'p] at h; cases h
            · exact Or.inl (Or.inr ⟨hup, huj, h⟩)
        · by_cases hvj : v = j
          · subst hvj; rw [hc'j] at h; cases h; exact Or.inl (Or.inl ⟨rfl, rfl⟩)
          · by_cases hvp : v = p
            · subst hvp; rw [hc'p] at h; cases h
            · exact Or.inr (Or.inr ⟨hvp, hvj, h⟩)

/-! ### the re-rooted forest is ranked again -/

inductive Reach (c : Conn) : Nat → Nat → Prop
  | refl (x : Nat) : Reach c x x
  | step {x y z : Nat} : c x = some y → Reach c y z → Reach c x z

theorem Reach.rank_le {c : Conn} {rank : Nat → Nat} (hr : Ranked c rank) {x j : Nat} (h : Reach c x j) :
    rank j ≤ rank x := by
  induction h with
  | refl x => exact Nat.le_refl _
  | step hxy _ ih => have := hr _ _ hxy; omega

theorem Reach.down {c : Conn} {x y j : Nat} (h : Reach c x j) (hne : x ≠ j) (hxy : c x = some y) :
    Reach c y j := by
  cases h with
  | refl => exact absurd rfl hne
  | step hxy' h' => rw [hxy] at hxy'; cases hxy'; exact h'

theorem rev_ranked {c : Conn} {n r : Nat} {rank : Nat → Nat} (T : Tree c n r rank) :
    ∀ f j, j < n → rank j ≤ f → ∃ rank', Ranked (rev f c j) rank' := by
  intro f
  induction f with
  | zero => intro j _ _; exact ⟨rank, T.hr⟩
  | succ f ih =>
    intro j hjn hj
    unfold rev
    cases hp : c j with
    | none => exact ⟨rank, T.hr⟩
    | some p =>
      simp only []
      have hpj : rank p < rank j := T.hr j p hp
      have hpn := (T.hdom j p hp).2
      have hne : p ≠ j := by intro e; subst e; omega
      obtain ⟨rk, hrk⟩ := ih p hpn (by omega)
      have hc'p : rev f c p p = none := (rev_root T f p hpn (by omega) p hpn).mpr rfl
      refine ⟨fun x => open Classical in if Reach (rev f c p) x j then rk x - rk j else rk x + 1, ?_⟩
      intro x y hxy
      rw [upd2_some _ p j hne x y] at hxy
      have hpnr : ¬ Reach (rev f c p) p j := by
        intro h
        cases h with
        | refl => exact hne rfl
        | step h1 _ => rw [hc'p] at h1; cases h1
      rcases hxy with ⟨rfl, rfl⟩ | ⟨hxp, hxj, hxy⟩
      · simp only [hpnr, if_false, Reach.refl, if_true]; omega
      · have hlt := hrk x y hxy
        by_cases hR : Reach (rev f c p) x j
        · have hRy := hR.down hxj hxy
          have := hRy.rank_le hrk
          simp only [hR, hRy, if_true]; omega
        · have hRy : ¬ Reach (rev f c p) y j := fun h => hR (Reach.step hxy h)
          simp only [hR, hRy, if_false]; omega

/-! ### the bottom-up loop (reading parents from the untouched original) computes `rev` -/

def loopL (c0 : Conn) : Nat → Conn → Nat → Conn
  | 0, c, _ => c
  | f+1, c, idx =>
    match c0 idx with
    | none => c
    | some p => loopL c0 f (upd c p (some idx)) p

/-- writes commute with the clean loop when they are at or below its starting vertex -/
theorem loopL_upd (c0 : Conn) (rank : Nat → Nat) (hr : Ranked c0 rank) :
    ∀ f c idx k x, rank idx ≤ rank k → loopL c0 f (upd c k x) idx = upd (loopL c0 f c idx) k x := by
  intro f
  induction f with
  | zero => intro c idx k x _; rfl
  | succ f ih =>
    intro c idx k x hk
    unfold loopL
    cases hp : c0 idx with
    | none => rfl
    | some p =>
      simp only []
      have hpi : rank p < rank idx := hr idx p hp
      have hne : p ≠ k := by intro e; subst e; omega
      have hcomm : upd (upd c k x) p (some idx) = upd (upd c p (some idx)) k x := by
        funext y
        by_cases h1 : y = p
        · subst h1; simp [upd, hne]
        · by_cases h2 : y = k
          · subst h2; simp [upd, h1]
          · simp [upd, h1, h2]
      rw [hcomm]
      exact ih (upd c p (some idx)) p k x (by omega)

theorem rev_eq_loopL (c0 : Conn) (rank : Nat → Nat) (hr : Ranked c0 rank) :
    ∀ f j, rank j ≤ f → rev f c0 j = upd (loopL c0 f c0 j) j none := by
  intro f
  induction f with
  | zero =>
    intro j hj
    have : c0 j = none := by
      cases h : c0 j with
      | none => rfl
      | some p => have := hr j p h; omega
    funext v
    by_cases hv : v = j
    · subst hv; simp [rev, loopL, this]
    · simp [rev, loopL, upd, hv]
  | succ f ih =>
    intro j hj
    unfold rev loopL
    cases hp : c0 j with
    | none =>
      funext v
      by_cases hv : v = j
      · subst hv; simp [hp]
      · simp [upd, hv]
    | some p =>
      simp only []
      have hpj : rank p < rank j := hr j p hp
      rw [ih p (by omega), loopL_upd c0 rank hr f c0 p p (some j) (Nat.le_refl _)]
      funext v
      by_cases h1 : v = j
      · subst h1; simp [upd]
      · by_cases h2 : v = p
        · subst h2; simp [upd, h1]
        · simp [upd, h1, h2]

/-! ### depth is below the number of vertices (so the model's fuel `n + 1` is enough) -/

theorem nodup_bound : ∀ (n : Nat) (l : List Nat), l.Nodup → (∀ x ∈ l, x < n) → l.length ≤ n
  | 0, l, _, h => by
    cases l with
    | nil => simp
    | cons a t => exact absurd (h a (by simp)) (by omega)
  | n+1, l, hnd, h => by
    by_cases hm : n ∈ l
    · have h1 := nodup_bound n (l.erase n) (hnd.erase n) (by
        intro x hx
        have hx' := (hnd.mem_erase_iff).mp hx
        have := h x hx'.2
        have := hx'.1
        omega)
      rw [List.length_erase_of_mem hm] at h1
      omega
    · have h1 := nodup_bound n l hnd (by
        intro x hx
        have := h x hx
        have : x ≠ n := fun e => hm (e ▸ hx)
        omega)
      omega

/-- the vertices from `v` up to its root -/
def path (c : Conn) : Nat → Nat → List Nat
  | 0, v => [v]
  | f+1, v => match c v with
    | none => [v]
    | some p => v :: path c f p

theorem path_spec {c : Conn} {n r : Nat} {rank : Nat → Nat} (T : Tree c n r rank) :
    ∀ f v, v < n → (∀ x ∈ path c f v, x < n ∧ rank x ≤ rank v) ∧ (path c f v).Nodup := by
  intro f
  induction f with
  | zero => intro v hv; simp [path, hv]
  | succ f ih =>
    intro v hv
    unfold path
    cases hp : c v with
    | none => simp [hv]
    | some p =>
      simp only []
      have hpv := T.hr v p hp
      have hpn := (T.hdom v p hp).2
      obtain ⟨h1, h2⟩ := ih p hpn
      refine ⟨?_, ?_⟩
      · intro x hx
        rcases List.mem_cons.mp hx with rfl | hx
        · exact ⟨hv, Nat.le_refl _⟩
        · have := h1 x hx; exact ⟨this.1, by omega⟩
      · refine List.nodup_cons.mpr ⟨?_, h2⟩
        intro hmem
        have := (h1 v hmem).2
        omega

theorem path_length {c : Conn} {n r : Nat} {rank : Nat → Nat} (T : Tree c n r rank) (f v : Nat) (hv : v < n) :
    (path c f v).length ≤ n :=
  nodup_bound n _ (path_spec T f v hv).2 (fun x hx => ((path_spec T f v hv).1 x hx).1)

/-- number of parent steps from `v` to its root, computed with fuel -/
def depthF (c : Conn) : Nat → Nat → Nat
  | 0, _ => 0
  | f+1, v => match c v with
    | none => 0
    | some p => depthF c f p + 1

theorem depthF_path (c : Conn) : ∀ f v, depthF c f v + 1 = (path c f v).length := by
  intro f
  induction f with
  | zero => intro v; simp [depthF, path]
  | succ f ih =>
    intro v
    unfold depthF path
    cases c v with
    | none => simp
    | some p => simp only [List.length_cons]; rw [← ih p]

theorem depthF_stable (c : Conn) (rank : Nat → Nat) (hr : Ranked c rank) :
    ∀ f f' v, rank v ≤ f → rank v ≤ f' → depthF c f v = depthF c f' v := by
  intro f
  induction f with
  | zero =>
    intro f' v h0 _
    have hn : c v = none := by
      cases h : c v with
      | none => rfl
      | some p => have := hr v p h; omega
    cases f' with
    | zero => rfl
    | succ f' => simp [depthF, hn]
  | succ f ih =>
    intro f' v h1 h2
    cases hc : c v with
    | none =>
      cases f' with
      | zero => simp [depthF, hc]
      | succ f' => simp [depthF, hc]
    | some p =>
      have := hr v p hc
      cases f' with
      | zero => omega
      | succ f' =>
        simp only [depthF, hc]
        rw [ih f' p (by omega) (by omega)]

/-- every tree on `[0, n)` has a rank function with values below `n` (its depth function) -/
theorem bounded_rank {c : Conn} {n r : Nat} {rank : Nat → Nat} (T : Tree c n r rank) :
    ∃ rank', Tree c n r rank' ∧ ∀ v, v < n → rank' v < n := by
  refine ⟨fun v => depthF c (rank v) v, ⟨?_, T.hroot, T.hdom, T.hrn⟩, ?_⟩
  · intro v p hvp
    have hlt := T.hr v p hvp
    show depthF c (rank p) p < depthF c (rank v) v
    obtain ⟨k, hk⟩ : ∃ k, rank v = k + 1 := ⟨rank v - 1, by omega⟩
    rw [hk]
    simp only [depthF, hvp]
    rw [depthF_stable c rank T.hr (rank p) k p (Nat.le_refl _) (by omega)]
    omega
  · intro v hv
    have h1 := depthF_path c (rank v) v
    have h2 := path_length T (rank v) v hv
    show depthF c (rank v) v < n
    omega

end ToRoot

/-! ## 2. the literal loop on lists refines `loopL` -/

/-- array entry → parent pointer (`-1`, or any negative number, is "no parent") -/
def dec (x : Int) : Option Nat := if 0 ≤ x then some x.toNat else none
def enc : Option Nat → Int
  | none => -1
  | some p => (p : Int)

/-- the parent-pointer function a connectivity array stands for -/
def absC (l : List Int) : ToRoot.Conn := fun v => match l[v]? with
  | some x => dec x
  | none => none

/-- length `n`, every entry is `-1` or an index -/
def WFL (l : List Int) (n : Nat) : Prop := l.length = n ∧ ∀ x ∈ l, -1 ≤ x ∧ x < (n : Int)

theorem pyIdx_nat {n k : Nat} (h : k < n) : pyIdx n (k : Int) = some k := by
  unfold pyIdx
  have h0 : (0 : Int) ≤ (k : Int) := by omega
  simp [h0, h]

theorem pyIdx_neg1 {n : Nat} (h : 0 < n) : pyIdx n (-1) = some (n - 1) := by
  unfold pyIdx
  have h0 : ¬ ((0 : Int) ≤ -1) := by omega
  have h1 : -(n : Int) ≤ -1 := by omega
  simp only [h0, if_false, h1, if_true]
  congr 1
  omega

theorem pyIdx_big {n k : Nat} (h : n ≤ k) : pyIdx n (k : Int) = none := by
  unfold pyIdx
  have h0 : (0 : Int) ≤ (k : Int) := by omega
  have : ¬ k < n := by omega
  simp [h0, this]

theorem getI_nat {α} {l : List α} {k : Nat} (h : k < l.length) : getI l (k : Int) = .ok l[k] := by
  unfold getI
  rw [pyIdx_nat h]
  simp [h]

theorem getI_big {α} {l : List α} {k : Nat} (h : l.length ≤ k) : getI l (k : Int) = .error .indexError := by
  unfold getI
  rw [pyIdx_big h]

theorem getI_neg1 {α} {l : List α} (h : 0 < l.length) : ∃ x, getI l (-1) = .ok x ∧ x ∈ l := by
  unfold getI
  rw [pyIdx_neg1 h]
  have hk : l.length - 1 < l.length := by omega
  refine ⟨l[l.length - 1], ?_, List.getElem_mem hk⟩
  simp [hk]

theorem setI_nat {α} {l : List α} {k : Nat} (v : α) (h : k < l.length) : setI l (k : Int) v = .ok (l.set k v) := by
  unfold setI
  rw [pyIdx_nat h]

theorem enc_dec {x : Int} (h : -1 ≤ x) : enc (dec x) = x := by
  unfold dec
  by_cases h0 : 0 ≤ x
  · simp only [h0, if_true, enc]; omega
  · simp only [h0, if_false, enc]; omega

theorem dec_nat (k : Nat) : dec (k : Int) = some k := by simp [dec]
theorem dec_neg1 : dec (-1) = none := by simp [dec]

theorem absC_set (l : List Int) (k : Nat) (x : Int) (h : k < l.length) :
    absC (l.set k x) = ToRoot.upd (absC l) k (dec x) := by
  funext v
  unfold absC ToRoot.upd
  by_cases hv : v = k
  · subst hv; simp [h]
  · have : k ≠ v := fun e => hv e.symm
    simp [hv, List.getElem?_set_ne this]

theorem WFL_set {l : List Int} {n : Nat} (hw : WFL l n) (k : Nat) {x : Int} (h1 : -1 ≤ x) (h2 : x < (n : Int)) :
    WFL (l.set k x) n := by
  refine ⟨by simp [hw.1], ?_⟩
  intro y hy
  rcases List.mem_or_eq_of_mem_set hy with hy | rfl
  · exact hw.2 y hy
  · exact ⟨h1, h2⟩

theorem absC_enc {l : List Int} {n : Nat} (hw : WFL l n) {v : Nat} (hv : v < n) :
    ∃ x, l[v]? = some x ∧ x = enc (absC l v) := by
  have hv' : v < l.length := by rw [hw.1]; exact hv
  refine ⟨l[v], by simp [hv'], ?_⟩
  unfold absC
  simp only [List.getElem?_eq_getElem hv']
  exact (enc_dec (hw.2 _ (List.getElem_mem hv')).1).symm

theorem rootLoop_refines {c0 : ToRoot.Conn} {n r : Nat} {rank : Nat → Nat} (T : ToRoot.Tree c0 n r rank) :
    ∀ f (cl : List Int) (idx : Nat) (par grand : Int),
      WFL cl n → idx < n → rank idx < f →
      par = enc (c0 idx) → (∀ p, c0 idx = some p → grand = enc (c0 p)) →
      (∀ v, rank v < rank idx → absC cl v = c0 v) →
      ∃ cl', rootLoop (r : Int) f cl (idx : Int) par grand = .ok cl' ∧ WFL cl' n ∧
        absC cl' = ToRoot.loopL c0 f (absC cl) idx := by
  intro f
  induction f with
  | zero => intro cl idx par grand _ _ h; omega
  | succ f ih =>
    intro cl idx par grand hwf hidx hrank hpar hgrand hinv
    unfold rootLoop ToRoot.loopL
    by_cases hir : idx = r
    · subst hir
      have : c0 idx = none := (T.hroot idx hidx).mpr rfl
      simp only [this, if_true]
      exact ⟨cl, rfl, hwf, rfl⟩
    · have hne : ¬ ((idx : Int) = (r : Int)) := by omega
      cases hp : c0 idx with
      | none => exact absurd ((T.hroot idx hidx).mp hp) hir
      | some p =>
        have hpn := (T.hdom idx p hp).2
        have hpi := T.hr idx p hp
        have hpl : p < cl.length := by rw [hwf.1]; exact hpn
        rw [hp] at hpar
        simp only [enc] at hpar
        subst hpar
        simp only [hne, if_false]
        rw [setI_nat _ hpl]
        simp only []
        have hwf' : WFL (cl.set p (idx : Int)) n := WFL_set hwf p (by omega) (by omega)
        have habs' : absC (cl.set p (idx : Int)) = ToRoot.upd (absC cl) p (some idx) := by
          rw [absC_set _ _ _ hpl, dec_nat]
        have hinv' : ∀ v, rank v < rank p → absC (cl.set p (idx : Int)) v = c0 v := by
          intro v hv
          rw [habs', ToRoot.upd_other _ _ _ _ (by intro e; subst e; omega)]
          exact hinv v (by omega)
        have hg := hgrand p hp
        -- the prefetched grandparent read succeeds
        have hread : ∃ g', getI (cl.set p (idx : Int)) grand = .ok g' ∧
            (∀ q, c0 p = some q → g' = enc (c0 q)) := by
          cases hq : c0 p with
          | none =>
            rw [hq] at hg; simp only [enc] at hg; subst hg
            obtain ⟨x, hx, _⟩ := getI_neg1 (l := cl.set p (idx : Int)) (by simp; omega)
            exact ⟨x, hx, fun q h => by cases h⟩
          | some q =>
            rw [hq] at hg; simp only [enc] at hg; subst hg
            have hqn := (T.hdom p q hq).2
            have hqp := T.hr p q hq
            have hql : q < (cl.set p (idx : Int)).length := by simp; rw [hwf.1]; exact hqn
            refine ⟨_, getI_nat hql, ?_⟩
            intro q' hq'
            cases hq'
            obtain ⟨x, hx1, hx2⟩ := absC_enc hwf' hqn
            rw [hinv' q hqp] at hx2
            have : (cl.set p (idx : Int))[q]? = some ((cl.set p (idx : Int))[q]) := by simp
            rw [this] at hx1
            cases hx1
            exact hx2
        obtain ⟨g', hg1, hg2⟩ := hread
        rw [hg1]
        simp only []
        obtain ⟨cl', h1, h2, h3⟩ := ih (cl.set p (idx : Int)) p grand g' hwf' hpn (by omega) hg hg2 hinv'
        exact ⟨cl', h1, h2, by rw [h3, habs']⟩

/-! ### specification vocabulary on the arrays themselves -/

/-- the connectivity array `c` describes a tree on its index set with root `r`: `-1` at `r`, every other
    entry a valid index, and following parents terminates (some rank function decreases along every
    parent link) — any numbering of the vertices, no floating vertices -/
structure IsTree (c : List Int) (r : Nat) : Prop where
  root : c[r]? = some (-1)
  parent : ∀ (v : Nat) (x : Int), c[v]? = some x → v ≠ r → 0 ≤ x ∧ x < (c.length : Int)
  ranked : ∃ rank : Nat → Nat, ∀ (v : Nat) (x : Int), c[v]? = some x → v ≠ r → rank x.toNat < rank v

/-- `{u, v}` is an edge: one of them is the array's parent entry of the other -/
def EdgeL (c : List Int) (u v : Nat) : Prop := c[u]? = some (v : Int) ∨ c[v]? = some (u : Int)

theorem absC_some {l : List Int} {u v : Nat} : absC l u = some v ↔ l[u]? = some (v : Int) := by
  unfold absC
  cases h : l[u]? with
  | none => simp
  | some x =>
    simp only [dec]
    by_cases h0 : 0 ≤ x
    · simp only [h0, if_true, Option.some.injEq]
      constructor
      · intro e; omega
      · intro e; omega
    · simp only [h0, if_false]
      constructor
      · intro e; cases e
      · intro e; cases e; omega

theorem edge_abs (l : List Int) (u v : Nat) : ToRoot.Edge (absC l) u v ↔ EdgeL l u v := by
  unfold ToRoot.Edge EdgeL
  rw [absC_some, absC_some]

theorem IsTree.toTree {c : List Int} {r : Nat} (h : IsTree c r) :
    ∃ rank, ToRoot.Tree (absC c) c.length r rank ∧ WFL c c.length := by
  obtain ⟨rank, hrank⟩ := h.ranked
  have hrl : r < c.length := by
    have := h.root
    exact (List.getElem?_eq_some_iff.mp this).1
  have hroot_none : absC c r = none := by
    unfold absC; rw [h.root]; exact dec_neg1
  refine ⟨rank, ⟨?_, ?_, ?_, hrl⟩, rfl, ?_⟩
  · intro v p hvp
    have hvr : v ≠ r := by intro e; subst e; rw [hroot_none] at hvp; cases hvp
    have := hrank v (p : Int) (absC_some.mp hvp) hvr
    simpa using this
  · intro v hv
    constructor
    · intro hnone
      apply Classical.byContradiction
      intro hvr
      have hx : c[v]? = some c[v] := by simp [hv]
      have := (h.parent v c[v] hx hvr).1
      unfold absC at hnone
      rw [hx] at hnone
      simp [dec, this] at hnone
    · intro e; subst e; exact hroot_none
  · intro v p hvp
    have hvr : v ≠ r := by intro e; subst e; rw [hroot_none] at hvp; cases hvp
    have hx := absC_some.mp hvp
    have hv : v < c.length := (List.getElem?_eq_some_iff.mp hx).1
    have := (h.parent v (p : Int) hx hvr).2
    exact ⟨hv, by omega⟩
  · intro x hx
    obtain ⟨v, hv, rfl⟩ := List.getElem_of_mem hx
    by_cases hvr : v = r
    · subst hvr
      have := h.root
      rw [List.getElem?_eq_getElem hv] at this
      have e : c[v] = -1 := Option.some.inj this
      omega
    · have := h.parent v c[v] (by simp [hv]) hvr
      omega

theorem IsTree.ofTree {cl : List Int} {n j : Nat} {c' : ToRoot.Conn} (hw : WFL cl n) (habs : absC cl = c')
    (hjn : j < n) (hroot : ∀ v, v < n → (c' v = none ↔ v = j)) (hrk : ∃ rank', ToRoot.Ranked c' rank') :
    IsTree cl j := by
  have hlen := hw.1
  refine ⟨?_, ?_, ?_⟩
  · obtain ⟨x, hx1, hx2⟩ := absC_enc hw hjn
    rw [habs, (hroot j hjn).mpr rfl] at hx2
    rw [hx1, hx2]; rfl
  · intro v x hvx hvj
    have hv : v < cl.length := (List.getElem?_eq_some_iff.mp hvx).1
    have hmem : x ∈ cl := List.mem_of_getElem? hvx
    have hb := hw.2 x hmem
    have hnn : c' v ≠ none := fun e => hvj ((hroot v (by omega)).mp e)
    rw [← habs] at hnn
    unfold absC at hnn
    rw [hvx] at hnn
    simp only [dec] at hnn
    by_cases h0 : 0 ≤ x
    · exact ⟨h0, by omega⟩
    · simp [h0] at hnn
  · obtain ⟨rank', hr'⟩ := hrk
    refine ⟨rank', ?_⟩
    intro v x hvx hvj
    have hv : v < cl.length := (List.getElem?_eq_some_iff.mp hvx).1
    have hnn : c' v ≠ none := fun e => hvj ((hroot v (by omega)).mp e)
    rw [← habs] at hnn
    have hsome : absC cl v = some x.toNat := by
      unfold absC at hnn ⊢
      rw [hvx] at hnn ⊢
      simp only [dec] at hnn ⊢
      by_cases h0 : 0 ≤ x
      · simp [h0]
      · simp [h0] at hnn
    rw [habs] at hsome
    exact hr' v _ hsome

theorem firstIdx_spec {α} (p : α → Bool) : ∀ (l : List α) (k r : Nat) (x : α),
    l[r]? = some x → p x = true → (∀ v y, v < r → l[v]? = some y → p y = false) →
    firstIdx p k l = some (k + r) := by
  intro l
  induction l with
  | nil => intro k r x h; simp at h
  | cons a t ih =>
    intro k r x h hp hbefore
    unfold firstIdx
    cases r with
    | zero =>
      simp at h; subst h; simp [hp]
    | succ r =>
      have ha : p a = false := hbefore 0 a (by omega) (by simp)
      simp only [ha]
      have := ih (k + 1) r x (by simpa using h) hp (by
        intro v y hv hy
        exact hbefore (v + 1) y (by omega) (by simpa using hy))
      rw [this]
      simp; omega

theorem IsTree.rootIndex {c : List Int} {r : Nat} (h : IsTree c r) : rootIndex c = .ok r := by
  unfold ArrayMorph.rootIndex
  have := firstIdx_spec (fun x : Int => x == -1) c 0 r (-1) h.root (by simp) (by
    intro v y hv hy
    have := (h.parent v y hy (by omega)).1
    simp; omega)
  rw [this]
  simp

/-- **`to_root` as written re-roots every tree correctly**, for any fuel above the depth bound -/
theorem toRootFuel_spec (a : Arr) (r j : Nat) (h : IsTree a.conn r) (hj : j < a.conn.length) :
    ∃ c', toRoot a (j : Int) = .ok { a with conn := c' } ∧ c'.length = a.conn.length ∧ IsTree c' j ∧
      ∀ u v, EdgeL c' u v ↔ EdgeL a.conn u v := by
  obtain ⟨rank0, T0, hw⟩ := h.toTree
  obtain ⟨rank, T, hbound⟩ := ToRoot.bounded_rank T0
  let n := a.conn.length
  let c0 := absC a.conn
  have hrj : rank j < n := hbound j hj
  -- the prefetches
  obtain ⟨par, hpar1, hpar2⟩ := absC_enc hw hj
  have hgetpar : getI a.conn (j : Int) = .ok par := by
    rw [getI_nat hj]
    have : a.conn[j]? = some a.conn[j] := by simp [hj]
    rw [this] at hpar1; cases hpar1; rfl
  have hgrand : ∃ grand, getI a.conn par = .ok grand ∧ (∀ p, c0 j = some p → grand = enc (c0 p)) := by
    cases hq : c0 j with
    | none =>
      have : par = -1 := by rw [hpar2]; show enc (c0 j) = -1; rw [hq]; rfl
      subst this
      obtain ⟨x, hx, _⟩ := getI_neg1 (l := a.conn) (by omega)
      exact ⟨x, hx, fun p hp => by cases hp⟩
    | some p =>
      have : par = (p : Int) := by rw [hpar2]; show enc (c0 j) = _; rw [hq]; rfl
      subst this
      have hpn := (T.hdom j p hq).2
      refine ⟨_, getI_nat hpn, ?_⟩
      intro p' hp'
      cases hp'
      obtain ⟨x, hx1, hx2⟩ := absC_enc hw hpn
      have : a.conn[p]? = some a.conn[p] := by simp [hpn]
      rw [this] at hx1; cases hx1
      exact hx2
  obtain ⟨grand, hgrand1, hgrand2⟩ := hgrand
  obtain ⟨cl', hl1, hl2, hl3⟩ := rootLoop_refines T (n + 1) a.conn j par grand hw hj (by omega) hpar2 hgrand2
    (fun v _ => rfl)
  have hjl' : j < cl'.length := by rw [hl2.1]; exact hj
  have hfinal : absC (cl'.set j (-1)) = ToRoot.rev (n + 1) c0 j := by
    rw [absC_set _ _ _ hjl', dec_neg1, hl3, ToRoot.rev_eq_loopL c0 rank T.hr (n + 1) j (by omega)]
  have hw' : WFL (cl'.set j (-1)) n := WFL_set hl2 j (by omega) (by omega)
  refine ⟨cl'.set j (-1), ?_, by simp [hl2.1], ?_, ?_⟩
  · unfold toRoot toRootFuel
    rw [h.rootIndex]
    simp only [bind, Except.bind, hgetpar, hgrand1]
    rw [hl1]
    simp only [setI_nat _ hjl']
    rfl
  · exact IsTree.ofTree hw' hfinal hj (ToRoot.rev_root T (n + 1) j hj (by omega))
      (ToRoot.rev_ranked T (n + 1) j hj (by omega))
  · intro u v
    rw [← edge_abs, ← edge_abs, hfinal]
    exact ToRoot.rev_edges T (n + 1) j hj (by omega) u v

/-! ## 3. segment view and conversion -/

/-- arrays of one morphology without floating vertices: equal lengths, mask all false, connectivity a tree -/
structure Valid (a : Arr) (r : Nat) : Prop where
  lenV : a.vertices.length = a.conn.length
  lenM : a.mask.length = a.conn.length
  noFloating : ∀ b ∈ a.mask, b = false
  tree : IsTree a.conn r

theorem Valid.pos {a : Arr} {r : Nat} (h : Valid a r) : r < a.conn.length :=
  (List.getElem?_eq_some_iff.mp h.tree.root).1

theorem whereFalse_allFalse : ∀ (l : List Bool) (k : Nat), (∀ b ∈ l, b = false) →
    (whereFalse k l).map (· + 1) = (List.range' (k + 1) l.length).map (fun i : Nat => (i : Int)) := by
  intro l
  induction l with
  | nil => intro k _; simp [whereFalse]
  | cons b bs ih =>
    intro k h
    have hb : b = false := h b (by simp)
    subst hb
    have := ih (k + 1) (fun b hb => h b (by simp [hb]))
    simp only [whereFalse, Bool.false_eq_true, if_false, List.length_cons, List.range'_succ, List.map_cons]
    rw [this]
    congr 1

theorem Valid.distalIdx {a : Arr} {r : Nat} (h : Valid a r) :
    distalIdx a = (List.range' 1 a.conn.length).map (fun i : Nat => (i : Int)) := by
  unfold ArrayMorph.distalIdx
  rw [whereFalse_allFalse a.mask 0 h.noFloating, h.lenM]

theorem Valid.viewLen {a : Arr} {r : Nat} (h : Valid a r) : viewLen a = a.conn.length - 1 := by
  unfold ArrayMorph.viewLen
  have : a.mask.count true = 0 := by
    rw [List.count_eq_zero]
    intro hm
    have := h.noFloating true hm
    cases this
  rw [this, h.lenV]
  omega

/-- the segment the code builds for a non-root vertex `v`: the vertex itself and its parent vertex -/
theorem Valid.sfv_nonroot {a : Arr} {r : Nat} (h : Valid a r) (v : Nat) (hv : v < a.conn.length) (hvr : v ≠ r) :
    ∃ (p : Nat) (nv pv : Vec4), a.conn[v]? = some (p : Int) ∧ a.vertices[v]? = some nv ∧ a.vertices[p]? = some pv ∧
      segmentFromVertex a (v : Int) = .ok ⟨(v : Int), nv, pv, if 1 < v then some (p : Int) else none⟩ := by
  have hx : a.conn[v]? = some a.conn[v] := by simp [hv]
  obtain ⟨h0, h1⟩ := h.tree.parent v a.conn[v] hx hvr
  have hvV : v < a.vertices.length := by rw [h.lenV]; exact hv
  have hp : a.conn[v].toNat < a.vertices.length := by rw [h.lenV]; omega
  have hcast : ((a.conn[v].toNat : Nat) : Int) = a.conn[v] := by omega
  refine ⟨a.conn[v].toNat, a.vertices[v], a.vertices[a.conn[v].toNat], ?_, by simp [hvV], by simp [hp], ?_⟩
  · rw [hx, hcast]
  · unfold segmentFromVertex
    have e1 : getI a.conn (v : Int) = .ok a.conn[v] := getI_nat hv
    have e2 : getI a.vertices (v : Int) = .ok a.vertices[v] := getI_nat hvV
    have e3 : getI a.vertices a.conn[v] = .ok a.vertices[a.conn[v].toNat] := by
      have e := getI_nat (l := a.vertices) hp
      rw [hcast] at e
      exact e
    simp only [bind, Except.bind, e1, e2, e3, pure, Except.pure]
    congr 2
    by_cases h1v : 1 < v
    · have : (v : Int) > 1 := by omega
      simp [h1v, this, hcast]
    · have : ¬ (v : Int) > 1 := by omega
      simp [h1v, this]

theorem Valid.sfv_ok {a : Arr} {r : Nat} (h : Valid a r) (v : Nat) (hv : v < a.conn.length) :
    ∃ s, segmentFromVertex a (v : Int) = .ok s := by
  by_cases hvr : v = r
  · subst hvr
    have hvV : v < a.vertices.length := by rw [h.lenV]; exact hv
    have e1 : getI a.conn (v : Int) = .ok (-1) := by
      rw [getI_nat hv]
      have := h.tree.root
      rw [List.getElem?_eq_getElem hv] at this
      rw [Option.some.inj this]
    have e2 : getI a.vertices (v : Int) = .ok a.vertices[v] := getI_nat hvV
    obtain ⟨x, e3, _⟩ := getI_neg1 (l := a.vertices) (by omega)
    unfold segmentFromVertex
    simp only [bind, Except.bind, e1, e2, e3, pure, Except.pure]
    exact ⟨_, rfl⟩
  · obtain ⟨p, nv, pv, _, _, _, hs⟩ := h.sfv_nonroot v hv hvr
    exact ⟨_, hs⟩

theorem sfv_id {a : Arr} {x : Int} {s : Segment} (h : segmentFromVertex a x = .ok s) : s.id = x := by
  unfold segmentFromVertex at h
  cases e1 : getI a.conn x with
  | error e => simp only [bind, Except.bind, e1] at h; cases h
  | ok x1 =>
    cases e2 : getI a.vertices x with
    | error e => simp only [bind, Except.bind, e1, e2] at h; cases h
    | ok x2 =>
      cases e3 : getI a.vertices x1 with
      | error e => simp only [bind, Except.bind, e1, e2, e3] at h; cases h
      | ok x3 =>
        simp only [bind, Except.bind, e1, e2, e3, pure, Except.pure] at h
        cases h; rfl

theorem sfv_end (a : Arr) : segmentFromVertex a (a.conn.length : Int) = .error .indexError := by
  unfold segmentFromVertex
  rw [getI_big (Nat.le_refl _)]
  rfl

theorem mapE_iter (a : Arr) : ∀ (L : List Nat) (rest : List Int),
    (∀ v ∈ L, ∃ s, segmentFromVertex a (v : Int) = .ok s) →
    ∃ ss, mapE (fun k : Nat => segmentFromVertex a (k : Int)) L = .ok ss ∧ ss.length = L.length ∧
      iterGo a (L.map (fun i : Nat => (i : Int)) ++ rest) = ss ++ iterGo a rest ∧
      ∀ (i : Nat) (hi : i < ss.length) (hi' : i < L.length), segmentFromVertex a (L[i] : Int) = .ok ss[i] := by
  intro L
  induction L with
  | nil => intro rest _; exact ⟨[], rfl, rfl, rfl, fun i hi => by simp at hi⟩
  | cons v vs ih =>
    intro rest hall
    obtain ⟨s, hs⟩ := hall v (by simp)
    obtain ⟨ss, h1, h2, h3, h4⟩ := ih rest (fun w hw => hall w (by simp [hw]))
    refine ⟨s :: ss, ?_, by simp [h2], ?_, ?_⟩
    · simp only [mapE, hs, h1]
    · simp only [List.map_cons, List.cons_append, iterGo, hs, h3]
    · intro i hi hi'
      cases i with
      | zero => simpa using hs
      | succ i => simpa using h4 i (by simpa using hi) (by simpa using hi')

/-- everything the property says about the view and the conversion, in one package -/
theorem Valid.view {a : Arr} {r : Nat} (h : Valid a r) :
    ∃ ss, viewIter a = ss ∧ toNeuromlMorphology a = .ok ss ∧ ss.length = a.conn.length - 1 ∧
      ∀ (i : Nat) (hi : i < ss.length), viewGet a (i : Int) = .ok ss[i] ∧
        segmentFromVertex a ((i + 1 : Nat) : Int) = .ok ss[i] := by
  have hpos := h.pos
  obtain ⟨m, hm⟩ : ∃ m, a.conn.length = m + 1 := ⟨a.conn.length - 1, by omega⟩
  have hall : ∀ v ∈ List.range' 1 m, ∃ s, segmentFromVertex a (v : Int) = .ok s := by
    intro v hv
    have := List.mem_range'_1.mp hv
    exact h.sfv_ok v (by omega)
  obtain ⟨ss, h1, h2, h3, h4⟩ := mapE_iter a (List.range' 1 m) [((m + 1 : Nat) : Int)] hall
  have hlen : ss.length = m := by rw [h2]; simp
  have hend : iterGo a [((m + 1 : Nat) : Int)] = [] := by
    have := sfv_end a
    rw [hm] at this
    simp only [iterGo, this]
  refine ⟨ss, ?_, ?_, by omega, ?_⟩
  · unfold viewIter
    rw [h.distalIdx, hm, List.range'_concat, List.map_append]
    have : [1 + 1 * m].map (fun i : Nat => (i : Int)) = [((m + 1 : Nat) : Int)] := by
      simp; omega
    rw [this, h3, hend]
    simp
  · unfold toNeuromlMorphology
    rw [h.lenV, hm]
    simpa using h1
  · intro i hi
    have hi' : i < (List.range' 1 m).length := by simp; omega
    have h5 := h4 i hi hi'
    have hidx : (List.range' 1 m)[i] = i + 1 := by simp; omega
    rw [hidx] at h5
    refine ⟨?_, h5⟩
    unfold viewGet
    rw [h.distalIdx]
    have hil : i < ((List.range' 1 a.conn.length).map (fun i : Nat => (i : Int))).length := by simp; omega
    rw [getI_nat hil]
    simp only [bind, Except.bind, List.getElem_map, List.getElem_range']
    have : 1 + 1 * i = i + 1 := by omega
    rw [this]
    exact h5

/-! ## 4. the file format -/

/-- top-level group names the document writer uses -/
def cellNames : Nat → List Cell → List String
  | _, [] => []
  | k, c :: cs => dflt c.id "Cell" k :: cellNames (k + 1) cs
def morphNames : Nat → List Morph → List String
  | _, [] => []
  | k, m :: ms => dflt m.id "Morphology" k :: morphNames (k + 1) ms
def topNames (d : Doc) : List String := cellNames 0 d.cells ++ morphNames 0 d.morphs

/-- the array triples of a document, cells first -/
def docArrs (d : Doc) : List Arr := d.cells.map (·.morph.arr) ++ d.morphs.map (·.arr)

def cellEntries : Nat → List Cell → H5
  | _, [] => []
  | k, c :: cs => (dflt c.id "Cell" k, .cell [(dflt c.morph.id "Morphology" k, c.morph.arr)]) :: cellEntries (k + 1) cs
def morphEntries : Nat → List Morph → H5
  | _, [] => []
  | k, m :: ms => (dflt m.id "Morphology" k, .morph m.arr) :: morphEntries (k + 1) ms
/-- the file a document is written to (when no name collides) -/
def entries (d : Doc) : H5 := cellEntries 0 d.cells ++ morphEntries 0 d.morphs

theorem cellEntries_names : ∀ cs k, (cellEntries k cs).map (·.1) = cellNames k cs := by
  intro cs; induction cs with
  | nil => intro k; rfl
  | cons c cs ih => intro k; simp [cellEntries, cellNames, ih]
theorem morphEntries_names : ∀ ms k, (morphEntries k ms).map (·.1) = morphNames k ms := by
  intro ms; induction ms with
  | nil => intro k; rfl
  | cons m ms ih => intro k; simp [morphEntries, morphNames, ih]

theorem hasChild_iff (f : H5) (name : String) : hasChild f name = true ↔ name ∈ f.map (·.1) := by
  unfold hasChild
  simp only [List.any_eq_true, List.mem_map, beq_iff_eq]

theorem addNode_ok {f : H5} {name : String} (nd : Node) (h : name ∉ f.map (·.1)) :
    addNode f name nd = .ok (f ++ [(name, nd)]) := by
  unfold addNode
  have : hasChild f name = false := by
    cases hc : hasChild f name with
    | false => rfl
    | true => exact absurd ((hasChild_iff f name).mp hc) h
  simp [this]

theorem addNode_dup {f : H5} {name : String} (nd : Node) (h : name ∈ f.map (·.1)) :
    addNode f name nd = .error .nodeError := by
  unfold addNode
  simp [(hasChild_iff f name).mpr h]

theorem writeCells_ok : ∀ cs k (f : H5), (f.map (·.1) ++ cellNames k cs).Nodup →
    writeCells k cs f = .ok (f ++ cellEntries k cs) := by
  intro cs
  induction cs with
  | nil => intro k f _; simp [writeCells, cellEntries]
  | cons c cs ih =>
    intro k f hnd
    simp only [cellNames] at hnd
    have hfresh : dflt c.id "Cell" k ∉ f.map (·.1) := by
      intro hmem
      have := (List.nodup_append.mp hnd).2.2 _ hmem (dflt c.id "Cell" k) (by simp)
      exact this rfl
    simp only [writeCells, writeSingleCell, addNode_ok _ hfresh]
    rw [ih (k + 1) _ (by simpa [List.append_assoc] using hnd)]
    simp [cellEntries]

theorem writeMorphs_ok : ∀ ms k (f : H5), (f.map (·.1) ++ morphNames k ms).Nodup →
    writeMorphs k ms f = .ok (f ++ morphEntries k ms) := by
  intro ms
  induction ms with
  | nil => intro k f _; simp [writeMorphs, morphEntries]
  | cons m ms ih =>
    intro k f hnd
    simp only [morphNames] at hnd
    have hfresh : dflt m.id "Morphology" k ∉ f.map (·.1) := by
      intro hmem
      have := (List.nodup_append.mp hnd).2.2 _ hmem (dflt m.id "Morphology" k) (by simp)
      exact this rfl
    simp only [writeMorphs, writeSingleCell, addNode_ok _ hfresh]
    rw [ih (k + 1) _ (by simpa [List.append_assoc] using hnd)]
    simp [morphEntries]

theorem writeDoc_ok (d : Doc) (h : (topNames d).Nodup) : writeDoc d = .ok (entries d) := by
  unfold writeDoc entries
  unfold topNames at h
  have h1 : writeCells 0 d.cells [] = .ok (cellEntries 0 d.cells) := by
    have := writeCells_ok d.cells 0 [] (by simpa using (List.nodup_append.mp h).1)
    simpa using this
  rw [h1]
  simp only []
  exact writeMorphs_ok d.morphs 0 _ (by rw [cellEntries_names]; exact h)

/-- what the loader gets out of one well-formed child of the root group -/
def entryArrs : String × Node → List Arr
  | (_, .morph a) => [a]
  | (_, .cell ch) => ch.map (·.2)

theorem cellEntries_arrs : ∀ cs k, (cellEntries k cs).flatMap entryArrs = cs.map (·.morph.arr) := by
  intro cs; induction cs with
  | nil => intro k; rfl
  | cons c cs ih => intro k; simp [cellEntries, entryArrs, ih]
theorem morphEntries_arrs : ∀ ms k, (morphEntries k ms).flatMap entryArrs = ms.map (·.arr) := by
  intro ms; induction ms with
  | nil => intro k; rfl
  | cons m ms ih => intro k; simp [morphEntries, entryArrs, ih]

theorem entries_arrs (d : Doc) : (entries d).flatMap entryArrs = docArrs d := by
  unfold entries docArrs
  rw [List.flatMap_append, cellEntries_arrs, morphEntries_arrs]

/-! the pre-repair writer fails on every document that has a stand-alone morphology -/

theorem writeCells_eq : ∀ cs k (f f' : H5), writeCells k cs f = .ok f' → f' = f ++ cellEntries k cs := by
  intro cs
  induction cs with
  | nil => intro k f f' h; simp [writeCells] at h; simp [cellEntries, h]
  | cons c cs ih =>
    intro k f f' h
    simp only [writeCells, writeSingleCell] at h
    by_cases hm : dflt c.id "Cell" k ∈ f.map (·.1)
    · rw [addNode_dup _ hm] at h; cases h
    · rw [addNode_ok _ hm] at h
      simp only [] at h
      have := ih (k + 1) _ f' h
      rw [this]; simp [cellEntries]

theorem lastCellId_mem : ∀ cs k x, lastCellId k cs = some x → x ∈ cellNames k cs := by
  intro cs
  induction cs with
  | nil => intro k x h; simp [lastCellId] at h
  | cons c cs ih =>
    intro k x h
    cases cs with
    | nil => simp [lastCellId] at h; simp [cellNames, h]
    | cons c' cs' =>
      simp only [lastCellId] at h
      have := ih (k + 1) x h
      simp only [cellNames, List.mem_cons] at this ⊢
      exact Or.inr this

theorem lastCellId_none : ∀ cs k, lastCellId k cs = none → cs = [] := by
  intro cs
  induction cs with
  | nil => intro _ _; rfl
  | cons c cs ih =>
    intro k h
    cases cs with
    | nil => simp [lastCellId] at h
    | cons c' cs' => simp only [lastCellId] at h; have := ih (k + 1) h; cases this

/-- a 5-vertex tree in shuffled numbering (parent index above child index: 1 → 3, 4 → 1), root 0; used by the
    non-vacuity examples in `Props/C18.lean` -/
theorem isTree_example : IsTree [-1, 3, 0, 0, 1] 0 :=
  ⟨by decide, by
    intro v x hv hne
    match v, hv with
    | 1, hv => simp at hv; subst hv; decide
    | 2, hv => simp at hv; subst hv; decide
    | 3, hv => simp at hv; subst hv; decide
    | 4, hv => simp at hv; subst hv; decide
    | 0, _ => exact absurd rfl hne
    | (k + 5), hv => simp at hv,
   ⟨fun v => match v with | 0 => 0 | 3 => 1 | 2 => 1 | 1 => 2 | _ => 3, by
    intro v x hv hne
    match v, hv with
    | 1, hv => simp at hv; subst hv; decide
    | 2, hv => simp at hv; subst hv; decide
    | 3, hv => simp at hv; subst hv; decide
    | 4, hv => simp at hv; subst hv; decide
    | 0, _ => exact absurd rfl hne
    | (k + 5), hv => simp at hv⟩⟩

end NmlVerif.ArrayMorph
