import NmlVerif.Proofs.ArrayMorphDoc
/-!
Helper lemmas for documents in which one `ArrayMorphology` OBJECT is used by several members (two cells, a cell and
a stand-alone entry): the writer's `morphology.id = "Morphology" + str(default_id)` is an assignment on the object,
so later occurrences of the object are written under the name the first one was given.

`writeADoc` (`Model/ArrayMorph.lean`) is the literal loop (file + the ids assigned so far); `resolve` computes the id
every occurrence has when the writer reaches it; `writeADoc d = writeXDoc (resolve d)`.
-/
namespace NmlVerif.ArrayMorph

/-- the members as the writer meets them: every occurrence of an object with the id it has at that moment -/
def resolveCells : Nat → Ids → List ACell → List XCell × Ids
  | _, ids, [] => ([], ids)
  | k, ids, c :: cs =>
    match c.morph with
    | .array o =>
      let nm := dflt (curId ids o) "Morphology" k
      let r := resolveCells (k + 1) ((o.key, nm) :: ids) cs
      ({ id := c.id, morph := .array { id := some nm, arr := o.m.arr } } :: r.1, r.2)
    | .none => let r := resolveCells (k + 1) ids cs; ({ id := c.id, morph := .none } :: r.1, r.2)
    | .plain => let r := resolveCells (k + 1) ids cs; ({ id := c.id, morph := .plain } :: r.1, r.2)

def resolveMorphs : Nat → Ids → List AMorph → List XMorph
  | _, _, [] => []
  | k, ids, x :: ms =>
    match x with
    | .array o =>
      let nm := dflt (curId ids o) "Morphology" k
      .array { id := some nm, arr := o.m.arr } :: resolveMorphs (k + 1) ((o.key, nm) :: ids) ms
    | .plain => .plain :: resolveMorphs (k + 1) ids ms

def resolve (d : ADoc) : XDoc :=
  let r := resolveCells 0 [] d.cells
  { cells := r.1, morphs := resolveMorphs 0 r.2 d.morphs }

/-- the array triples of a document, one per OCCURRENCE (an object used twice is in the document twice) -/
def aCellArr? (c : ACell) : Option Arr := match c.morph with | .array o => some o.m.arr | _ => none
def aMorphArr? : AMorph → Option Arr | .array o => some o.m.arr | .plain => none
def adocArrs (d : ADoc) : List Arr := d.cells.filterMap aCellArr? ++ d.morphs.filterMap aMorphArr?

theorem dflt_some (s p : String) (k : Nat) : dflt (some s) p k = s := rfl

theorem writeACells_resolve : ∀ (cs : List ACell) (k : Nat) (ids : Ids) (f : H5),
    writeACells k ids cs f = (match writeXCells k (resolveCells k ids cs).1 f with
      | .ok f' => .ok (f', (resolveCells k ids cs).2)
      | .error e => .error e) := by
  intro cs
  induction cs with
  | nil => intro k ids f; rfl
  | cons c cs ih =>
    intro k ids f
    cases hm : c.morph with
    | none => simp only [writeACells, resolveCells, hm, writeXCells]; exact ih (k + 1) ids f
    | plain => simp only [writeACells, resolveCells, hm, writeXCells]; exact ih (k + 1) ids f
    | array o =>
      simp only [writeACells, resolveCells, hm, writeXCells, dflt_some]
      cases writeSingleCell { id := some (dflt (curId ids o) "Morphology" k), arr := o.m.arr } f
          (some (dflt c.id "Cell" k)) with
      | error e => rfl
      | ok f' => exact ih (k + 1) _ f'

theorem writeAMorphs_resolve : ∀ (ms : List AMorph) (k : Nat) (ids : Ids) (f : H5),
    writeAMorphs k ids ms f = writeXMorphs k (resolveMorphs k ids ms) f := by
  intro ms
  induction ms with
  | nil => intro k ids f; rfl
  | cons x ms ih =>
    intro k ids f
    cases x with
    | plain => simp only [writeAMorphs, resolveMorphs, writeXMorphs]; exact ih (k + 1) ids f
    | array o =>
      simp only [writeAMorphs, resolveMorphs, writeXMorphs, dflt_some]
      cases writeSingleCell { id := some (dflt (curId ids o) "Morphology" k), arr := o.m.arr } f none with
      | error e => rfl
      | ok f' => exact ih (k + 1) _ f'

theorem writeADoc_resolve (d : ADoc) : writeADoc d = writeXDoc (resolve d) := by
  unfold writeADoc writeXDoc resolve
  rw [writeACells_resolve]
  simp only []
  cases writeXCells 0 (resolveCells 0 [] d.cells).1 [] with
  | error e => rfl
  | ok f => exact writeAMorphs_resolve d.morphs 0 _ f

theorem resolveCells_arrs : ∀ (cs : List ACell) (k : Nat) (ids : Ids),
    (resolveCells k ids cs).1.filterMap xCellArr? = cs.filterMap aCellArr? := by
  intro cs
  induction cs with
  | nil => intro k ids; rfl
  | cons c cs ih =>
    intro k ids
    cases hm : c.morph <;> simp [resolveCells, xCellArr?, aCellArr?, hm, ih, List.filterMap_cons]

theorem resolveMorphs_arrs : ∀ (ms : List AMorph) (k : Nat) (ids : Ids),
    (resolveMorphs k ids ms).filterMap xMorphArr? = ms.filterMap aMorphArr? := by
  intro ms
  induction ms with
  | nil => intro k ids; rfl
  | cons x ms ih =>
    intro k ids
    cases x <;> simp [resolveMorphs, xMorphArr?, aMorphArr?, ih, List.filterMap_cons]

theorem resolve_arrs (d : ADoc) : xdocArrs (resolve d) = adocArrs d := by
  unfold xdocArrs adocArrs resolve
  simp only [resolveCells_arrs, resolveMorphs_arrs]

end NmlVerif.ArrayMorph
