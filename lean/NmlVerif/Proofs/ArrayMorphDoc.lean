import NmlVerif.Proofs.ArrayMorph
/-!
Helper lemmas for the document clauses of C18 (second pass): documents holding cells without an embedded
morphology / plain morphologies (`XDoc`), and the proposed loader repair (`loadFixed`).
-/
namespace NmlVerif.ArrayMorph

/-- every cell embeds an `ArrayMorphology`, every stand-alone morphology is one -/
def AllArray (d : XDoc) : Prop :=
  (∀ c ∈ d.cells, ∃ m, c.morph = .array m) ∧ (∀ x ∈ d.morphs, ∃ m, x = .array m)

def XCell.toCell? (c : XCell) : Option Cell :=
  match c.morph with
  | .array m => some { id := c.id, morph := m }
  | _ => none

def XMorph.toMorph? : XMorph → Option Morph
  | .array m => some m
  | .plain => none

/-- the array morphologies of a document as a `Doc` (all of it when `AllArray`) -/
def XDoc.arrayDoc (d : XDoc) : Doc :=
  { cells := d.cells.filterMap XCell.toCell?, morphs := d.morphs.filterMap XMorph.toMorph? }

def Doc.toX (d : Doc) : XDoc :=
  { cells := d.cells.map (fun c => { id := c.id, morph := .array c.morph }), morphs := d.morphs.map .array }

theorem writeXCells_all : ∀ (cs : List XCell) (k : Nat) (f : H5), (∀ c ∈ cs, ∃ m, c.morph = .array m) →
    writeXCells k cs f = writeCells k (cs.filterMap XCell.toCell?) f := by
  intro cs
  induction cs with
  | nil => intro k f _; rfl
  | cons c cs ih =>
    intro k f h
    obtain ⟨m, hm⟩ := h c (by simp)
    have hc : XCell.toCell? c = some { id := c.id, morph := m } := by simp [XCell.toCell?, hm]
    simp only [writeXCells, hm, List.filterMap_cons, hc, writeCells]
    cases writeSingleCell { m with id := some (dflt m.id "Morphology" k) } f (some (dflt c.id "Cell" k)) with
    | error e => rfl
    | ok f' => exact ih (k + 1) f' (fun x hx => h x (by simp [hx]))

theorem writeXMorphs_all : ∀ (ms : List XMorph) (k : Nat) (f : H5), (∀ x ∈ ms, ∃ m, x = .array m) →
    writeXMorphs k ms f = writeMorphs k (ms.filterMap XMorph.toMorph?) f := by
  intro ms
  induction ms with
  | nil => intro k f _; rfl
  | cons x ms ih =>
    intro k f h
    obtain ⟨m, hm⟩ := h x (by simp)
    subst hm
    simp only [writeXMorphs, List.filterMap_cons, XMorph.toMorph?, writeMorphs]
    cases writeSingleCell { m with id := some (dflt m.id "Morphology" k) } f none with
    | error e => rfl
    | ok f' => exact ih (k + 1) f' (fun x hx => h x (by simp [hx]))

theorem writeXDoc_all (d : XDoc) (h : AllArray d) : writeXDoc d = writeDoc d.arrayDoc := by
  unfold writeXDoc writeDoc XDoc.arrayDoc
  rw [writeXCells_all d.cells 0 [] h.1]
  cases writeCells 0 (d.cells.filterMap XCell.toCell?) [] with
  | error e => rfl
  | ok f => exact writeXMorphs_all d.morphs 0 f h.2

/-- a cell without an array morphology stops the writer, wherever it stands -/
theorem writeXCells_nonarray : ∀ (cs : List XCell) (k : Nat) (f : H5), (∃ c ∈ cs, ∀ m, c.morph ≠ .array m) →
    ∀ f', writeXCells k cs f ≠ .ok f' := by
  intro cs
  induction cs with
  | nil => intro k f h; obtain ⟨c, hc, _⟩ := h; simp at hc
  | cons c cs ih =>
    intro k f h f' hf
    cases hm : c.morph with
    | none => simp only [writeXCells, hm] at hf; cases hf
    | plain => simp only [writeXCells, hm] at hf; cases hf
    | array m =>
      simp only [writeXCells, hm] at hf
      cases hw : writeSingleCell { m with id := some (dflt m.id "Morphology" k) } f (some (dflt c.id "Cell" k)) with
      | error e => rw [hw] at hf; cases hf
      | ok f1 =>
        rw [hw] at hf
        obtain ⟨c', hc', hna⟩ := h
        rcases List.mem_cons.mp hc' with rfl | hc'
        · exact hna m hm
        · exact ih (k + 1) f1 ⟨c', hc', hna⟩ f' hf

/-! the repaired loader reads every entry the writer makes -/

theorem flatMap_congr' {α β} {f g : α → List β} : ∀ (l : List α), (∀ x ∈ l, f x = g x) →
    l.flatMap f = l.flatMap g := by
  intro l
  induction l with
  | nil => intro _; rfl
  | cons x xs ih =>
    intro h
    simp only [List.flatMap_cons, h x (by simp), ih (fun y hy => h y (by simp [hy]))]

theorem loadFixed_entries_perm (f : H5) (h : ∀ e ∈ f, ∀ ch, e.2 = .cell ch → ∃ nm a, ch = [(nm, a)]) :
    loadFixed f = (f.mergeSort nameLe).flatMap entryArrs := by
  unfold loadFixed
  apply flatMap_congr'
  intro e he
  have hmem : e ∈ f := (List.mergeSort_perm f nameLe).mem_iff.mp he
  obtain ⟨nm, nd⟩ := e
  cases nd with
  | morph a => rfl
  | cell ch =>
    obtain ⟨cn, a, rfl⟩ := h _ hmem ch rfl
    simp [nodeMorphsFixed, entryArrs]

theorem cellEntries_single : ∀ (cs : List Cell) (k : Nat), ∀ e ∈ cellEntries k cs, ∀ ch, e.2 = .cell ch →
    ∃ nm a, ch = [(nm, a)] := by
  intro cs
  induction cs with
  | nil => intro k e he; simp [cellEntries] at he
  | cons c cs ih =>
    intro k e he ch hch
    simp only [cellEntries, List.mem_cons] at he
    rcases he with rfl | he
    · simp only [Node.cell.injEq] at hch
      exact ⟨_, _, hch.symm⟩
    · exact ih (k + 1) e he ch hch

theorem morphEntries_notcell : ∀ (ms : List Morph) (k : Nat), ∀ e ∈ morphEntries k ms, ∀ ch, e.2 ≠ .cell ch := by
  intro ms
  induction ms with
  | nil => intro k e he; simp [morphEntries] at he
  | cons m ms ih =>
    intro k e he ch
    simp only [morphEntries, List.mem_cons] at he
    rcases he with rfl | he
    · intro h; cases h
    · exact ih (k + 1) e he ch

theorem entries_single (d : Doc) : ∀ e ∈ entries d, ∀ ch, e.2 = .cell ch → ∃ nm a, ch = [(nm, a)] := by
  intro e he ch hch
  unfold entries at he
  rcases List.mem_append.mp he with he | he
  · exact cellEntries_single d.cells 0 e he ch hch
  · exact absurd hch (morphEntries_notcell d.morphs 0 e he ch)

end NmlVerif.ArrayMorph
