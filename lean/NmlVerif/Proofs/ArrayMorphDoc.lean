import NmlVerif.Proofs.ArrayMorph
/-!
Helper lemmas for the document clauses of C18: the loader (a morphology group is recognised by an ARRAY called
`vertices`) reads every entry the writer makes; documents holding cells without an embedded morphology / plain
morphologies (`XDoc`): the writer skips those members, their position still counts for the default names.
The pre-repair writer (`writeXDocOld`: `AttributeError`) is kept for one witness lemma.
-/
namespace NmlVerif.ArrayMorph

/-! ### the loader reads every entry the writer makes -/

theorem flatMap_congr' {α β} {f g : α → List β} : ∀ (l : List α), (∀ x ∈ l, f x = g x) →
    l.flatMap f = l.flatMap g := by
  intro l
  induction l with
  | nil => intro _; rfl
  | cons x xs ih =>
    intro h
    simp only [List.flatMap_cons, h x (by simp), ih (fun y hy => h y (by simp [hy]))]

/-- every cell group of the file holds exactly one morphology group (what the writer produces) -/
def SingleCells (f : H5) : Prop := ∀ e ∈ f, ∀ ch, e.2 = .cell ch → ∃ nm a, ch = [(nm, a)]

/-- on such a file the loader returns the written triples, root groups in name order — whatever the morphology
    group inside a cell is called ("vertices" included) -/
theorem load_entries (f : H5) (h : SingleCells f) : load f = (f.mergeSort nameLe).flatMap entryArrs := by
  unfold load
  apply flatMap_congr'
  intro e he
  have hmem : e ∈ f := (List.mergeSort_perm f nameLe).mem_iff.mp he
  obtain ⟨nm, nd⟩ := e
  cases nd with
  | morph a => rfl
  | cell ch =>
    obtain ⟨cn, a, rfl⟩ := h _ hmem ch rfl
    simp [nodeMorphs, entryArrs]

theorem load_perm (f : H5) (h : SingleCells f) : (load f).Perm (f.flatMap entryArrs) := by
  rw [load_entries f h]
  exact List.Perm.flatMap_right _ (List.mergeSort_perm _ _)

theorem cellEntries_single : ∀ (cs : List Cell) (k : Nat), ∀ e ∈ cellEntries k cs, ∀ ch, e.2 = .cell ch →
    ∃ nm a, ch = [(nm, a)] := by
  intro cs
  induction cs with
  | nil => intro k e he; simp [cellEntries] at he
  | cons c cs ih =>
    intro k e he ch hch
    simp only [cellEntries, List.mem_cons] at he
    rcases he with rfl | he
    · simp only [Node.cell.injEq] at hch
      exact ⟨_, _, hch.symm⟩
    · exact ih (k + 1) e he ch hch

theorem morphEntries_notcell : ∀ (ms : List Morph) (k : Nat), ∀ e ∈ morphEntries k ms, ∀ ch, e.2 ≠ .cell ch := by
  intro ms
  induction ms with
  | nil => intro k e he; simp [morphEntries] at he
  | cons m ms ih =>
    intro k e he ch
    simp only [morphEntries, List.mem_cons] at he
    rcases he with rfl | he
    · intro h; cases h
    · exact ih (k + 1) e he ch

theorem entries_single (d : Doc) : SingleCells (entries d) := by
  intro e he ch hch
  unfold entries at he
  rcases List.mem_append.mp he with he | he
  · exact cellEntries_single d.cells 0 e he ch hch
  · exact absurd hch (morphEntries_notcell d.morphs 0 e he ch)

/-! ### documents with members that are not array morphologies -/

/-- every cell embeds an `ArrayMorphology`, every stand-alone morphology is one -/
def AllArray (d : XDoc) : Prop :=
  (∀ c ∈ d.cells, ∃ m, c.morph = .array m) ∧ (∀ x ∈ d.morphs, ∃ m, x = .array m)

def XCell.toCell? (c : XCell) : Option Cell :=
  match c.morph with
  | .array m => some { id := c.id, morph := m }
  | _ => none

def XMorph.toMorph? : XMorph → Option Morph
  | .array m => some m
  | .plain => none

/-- the array morphologies of a document as a `Doc` (all of it when `AllArray`); NOTE the positions (hence the
    default names) of the members change when something is dropped: use `xEntries` for the file -/
def XDoc.arrayDoc (d : XDoc) : Doc :=
  { cells := d.cells.filterMap XCell.toCell?, morphs := d.morphs.filterMap XMorph.toMorph? }

def Doc.toX (d : Doc) : XDoc :=
  { cells := d.cells.map (fun c => { id := c.id, morph := .array c.morph }), morphs := d.morphs.map .array }

/-- top-level group names the writer uses: only members that ARE array morphologies get a group, under their id or
    the default made of their position among ALL members of their list -/
def xCellNames : Nat → List XCell → List String
  | _, [] => []
  | k, c :: cs => match c.morph with
    | .array _ => dflt c.id "Cell" k :: xCellNames (k + 1) cs
    | _ => xCellNames (k + 1) cs
def xMorphNames : Nat → List XMorph → List String
  | _, [] => []
  | k, x :: ms => match x with
    | .array m => dflt m.id "Morphology" k :: xMorphNames (k + 1) ms
    | .plain => xMorphNames (k + 1) ms
def xTopNames (d : XDoc) : List String := xCellNames 0 d.cells ++ xMorphNames 0 d.morphs

def xCellEntries : Nat → List XCell → H5
  | _, [] => []
  | k, c :: cs => match c.morph with
    | .array m => (dflt c.id "Cell" k, .cell [(dflt m.id "Morphology" k, m.arr)]) :: xCellEntries (k + 1) cs
    | _ => xCellEntries (k + 1) cs
def xMorphEntries : Nat → List XMorph → H5
  | _, [] => []
  | k, x :: ms => match x with
    | .array m => (dflt m.id "Morphology" k, .morph m.arr) :: xMorphEntries (k + 1) ms
    | .plain => xMorphEntries (k + 1) ms
/-- the file a document is written to (when no name collides): one root group per member that is an array morphology -/
def xEntries (d : XDoc) : H5 := xCellEntries 0 d.cells ++ xMorphEntries 0 d.morphs

def xCellArr? (c : XCell) : Option Arr := match c.morph with | .array m => some m.arr | _ => none
def xMorphArr? : XMorph → Option Arr | .array m => some m.arr | .plain => none
/-- the array triples of a document: what the property speaks about (cells first) -/
def xdocArrs (d : XDoc) : List Arr := d.cells.filterMap xCellArr? ++ d.morphs.filterMap xMorphArr?

theorem xCellEntries_names : ∀ cs k, (xCellEntries k cs).map (·.1) = xCellNames k cs := by
  intro cs; induction cs with
  | nil => intro k; rfl
  | cons c cs ih =>
    intro k
    cases hm : c.morph <;> simp [xCellEntries, xCellNames, hm, ih]
theorem xMorphEntries_names : ∀ ms k, (xMorphEntries k ms).map (·.1) = xMorphNames k ms := by
  intro ms; induction ms with
  | nil => intro k; rfl
  | cons x ms ih =>
    intro k
    cases x <;> simp [xMorphEntries, xMorphNames, ih]

theorem writeXCells_ok : ∀ cs k (f : H5), (f.map (·.1) ++ xCellNames k cs).Nodup →
    writeXCells k cs f = .ok (f ++ xCellEntries k cs) := by
  intro cs
  induction cs with
  | nil => intro k f _; simp [writeXCells, xCellEntries]
  | cons c cs ih =>
    intro k f hnd
    cases hm : c.morph with
    | none =>
      simp only [xCellNames, hm] at hnd
      simp only [writeXCells, xCellEntries, hm]
      exact ih (k + 1) f hnd
    | plain =>
      simp only [xCellNames, hm] at hnd
      simp only [writeXCells, xCellEntries, hm]
      exact ih (k + 1) f hnd
    | array m =>
      simp only [xCellNames, hm] at hnd
      have hfresh : dflt c.id "Cell" k ∉ f.map (·.1) := by
        intro hmem
        have := (List.nodup_append.mp hnd).2.2 _ hmem (dflt c.id "Cell" k) (by simp)
        exact this rfl
      simp only [writeXCells, xCellEntries, hm, writeSingleCell, addNode_ok _ hfresh]
      rw [ih (k + 1) _ (by simpa [List.append_assoc] using hnd)]
      simp

theorem writeXMorphs_ok : ∀ ms k (f : H5), (f.map (·.1) ++ xMorphNames k ms).Nodup →
    writeXMorphs k ms f = .ok (f ++ xMorphEntries k ms) := by
  intro ms
  induction ms with
  | nil => intro k f _; simp [writeXMorphs, xMorphEntries]
  | cons x ms ih =>
    intro k f hnd
    cases x with
    | plain =>
      simp only [xMorphNames] at hnd
      simp only [writeXMorphs, xMorphEntries]
      exact ih (k + 1) f hnd
    | array m =>
      simp only [xMorphNames] at hnd
      have hfresh : dflt m.id "Morphology" k ∉ f.map (·.1) := by
        intro hmem
        have := (List.nodup_append.mp hnd).2.2 _ hmem (dflt m.id "Morphology" k) (by simp)
        exact this rfl
      simp only [writeXMorphs, xMorphEntries, writeSingleCell, addNode_ok _ hfresh]
      rw [ih (k + 1) _ (by simpa [List.append_assoc] using hnd)]
      simp

theorem writeXDoc_ok (d : XDoc) (h : (xTopNames d).Nodup) : writeXDoc d = .ok (xEntries d) := by
  unfold writeXDoc xEntries
  unfold xTopNames at h
  have h1 : writeXCells 0 d.cells [] = .ok (xCellEntries 0 d.cells) := by
    have := writeXCells_ok d.cells 0 [] (by simpa using (List.nodup_append.mp h).1)
    simpa using this
  rw [h1]
  simp only []
  exact writeXMorphs_ok d.morphs 0 _ (by rw [xCellEntries_names]; exact h)

theorem xCellEntries_arrs : ∀ cs k, (xCellEntries k cs).flatMap entryArrs = cs.filterMap xCellArr? := by
  intro cs; induction cs with
  | nil => intro k; rfl
  | cons c cs ih =>
    intro k
    cases hm : c.morph <;> simp [xCellEntries, xCellArr?, entryArrs, hm, ih]
theorem xMorphEntries_arrs : ∀ ms k, (xMorphEntries k ms).flatMap entryArrs = ms.filterMap xMorphArr? := by
  intro ms; induction ms with
  | nil => intro k; rfl
  | cons x ms ih =>
    intro k
    cases x <;> simp [xMorphEntries, xMorphArr?, entryArrs, ih, List.filterMap_cons]

theorem xEntries_arrs (d : XDoc) : (xEntries d).flatMap entryArrs = xdocArrs d := by
  unfold xEntries xdocArrs
  rw [List.flatMap_append, xCellEntries_arrs, xMorphEntries_arrs]

theorem xCellEntries_single : ∀ (cs : List XCell) (k : Nat), ∀ e ∈ xCellEntries k cs, ∀ ch, e.2 = .cell ch →
    ∃ nm a, ch = [(nm, a)] := by
  intro cs
  induction cs with
  | nil => intro k e he; simp [xCellEntries] at he
  | cons c cs ih =>
    intro k e he ch hch
    cases hm : c.morph with
    | none => simp only [xCellEntries, hm] at he; exact ih (k + 1) e he ch hch
    | plain => simp only [xCellEntries, hm] at he; exact ih (k + 1) e he ch hch
    | array m =>
      simp only [xCellEntries, hm, List.mem_cons] at he
      rcases he with rfl | he
      · simp only [Node.cell.injEq] at hch
        exact ⟨_, _, hch.symm⟩
      · exact ih (k + 1) e he ch hch

theorem xMorphEntries_notcell : ∀ (ms : List XMorph) (k : Nat), ∀ e ∈ xMorphEntries k ms, ∀ ch, e.2 ≠ .cell ch := by
  intro ms
  induction ms with
  | nil => intro k e he; simp [xMorphEntries] at he
  | cons x ms ih =>
    intro k e he ch
    cases x with
    | plain => simp only [xMorphEntries] at he; exact ih (k + 1) e he ch
    | array m =>
      simp only [xMorphEntries, List.mem_cons] at he
      rcases he with rfl | he
      · intro h; cases h
      · exact ih (k + 1) e he ch

theorem xEntries_single (d : XDoc) : SingleCells (xEntries d) := by
  intro e he ch hch
  unfold xEntries at he
  rcases List.mem_append.mp he with he | he
  · exact xCellEntries_single d.cells 0 e he ch hch
  · exact absurd hch (xMorphEntries_notcell d.morphs 0 e he ch)

/-- the number of root groups = the number of members that are array morphologies -/
theorem xEntries_length (d : XDoc) : (xEntries d).length = (xdocArrs d).length := by
  have h1 : ∀ cs k, (xCellEntries k cs).length = (cs.filterMap xCellArr?).length := by
    intro cs; induction cs with
    | nil => intro k; rfl
    | cons c cs ih => intro k; cases hm : c.morph <;> simp [xCellEntries, xCellArr?, hm, ih]
  have h2 : ∀ ms k, (xMorphEntries k ms).length = (ms.filterMap xMorphArr?).length := by
    intro ms; induction ms with
    | nil => intro k; rfl
    | cons x ms ih => intro k; cases x <;> simp [xMorphEntries, xMorphArr?, ih, List.filterMap_cons]
  simp [xEntries, xdocArrs, h1, h2]

/-! on documents made of array morphologies only, the `XDoc` writer IS the `Doc` writer -/

theorem writeXCells_toX : ∀ (cs : List Cell) (k : Nat) (f : H5),
    writeXCells k (cs.map (fun c => { id := c.id, morph := .array c.morph })) f = writeCells k cs f := by
  intro cs
  induction cs with
  | nil => intro k f; rfl
  | cons c cs ih =>
    intro k f
    simp only [List.map_cons, writeXCells, writeCells]
    cases writeSingleCell { c.morph with id := some (dflt c.morph.id "Morphology" k) } f (some (dflt c.id "Cell" k)) with
    | error e => rfl
    | ok f' => exact ih (k + 1) f'

theorem writeXMorphs_toX : ∀ (ms : List Morph) (k : Nat) (f : H5),
    writeXMorphs k (ms.map .array) f = writeMorphs k ms f := by
  intro ms
  induction ms with
  | nil => intro k f; rfl
  | cons m ms ih =>
    intro k f
    simp only [List.map_cons, writeXMorphs, writeMorphs]
    cases writeSingleCell { m with id := some (dflt m.id "Morphology" k) } f none with
    | error e => rfl
    | ok f' => exact ih (k + 1) f'

theorem writeXDoc_toX (d : Doc) : writeXDoc d.toX = writeDoc d := by
  unfold writeXDoc writeDoc Doc.toX
  simp only [writeXCells_toX]
  cases writeCells 0 d.cells [] with
  | error e => rfl
  | ok f => exact writeXMorphs_toX d.morphs 0 f

theorem filterMap_congr' {α β} {f g : α → Option β} : ∀ (l : List α), (∀ x ∈ l, f x = g x) →
    l.filterMap f = l.filterMap g := by
  intro l
  induction l with
  | nil => intro _; rfl
  | cons x xs ih =>
    intro h
    simp only [List.filterMap_cons, h x (by simp), ih (fun y hy => h y (by simp [hy]))]

theorem xdocArrs_arrayDoc (d : XDoc) : xdocArrs d = docArrs d.arrayDoc := by
  unfold xdocArrs docArrs XDoc.arrayDoc
  simp only [List.map_filterMap]
  congr 1
  · apply filterMap_congr'
    intro c _
    cases hm : c.morph <;> simp [xCellArr?, XCell.toCell?, hm]
  · apply filterMap_congr'
    intro x _
    cases x <;> simp [xMorphArr?, XMorph.toMorph?]

/-! the pre-repair writer: a cell without an array morphology stops it, wherever it stands -/

theorem writeXCellsOld_nonarray : ∀ (cs : List XCell) (k : Nat) (f : H5), (∃ c ∈ cs, ∀ m, c.morph ≠ .array m) →
    ∀ f', writeXCellsOld k cs f ≠ .ok f' := by
  intro cs
  induction cs with
  | nil => intro k f h; obtain ⟨c, hc, _⟩ := h; simp at hc
  | cons c cs ih =>
    intro k f h f' hf
    cases hm : c.morph with
    | none => simp only [writeXCellsOld, hm] at hf; cases hf
    | plain => simp only [writeXCellsOld, hm] at hf; cases hf
    | array m =>
      simp only [writeXCellsOld, hm] at hf
      cases hw : writeSingleCell { m with id := some (dflt m.id "Morphology" k) } f (some (dflt c.id "Cell" k)) with
      | error e => rw [hw] at hf; cases hf
      | ok f1 =>
        rw [hw] at hf
        obtain ⟨c', hc', hna⟩ := h
        rcases List.mem_cons.mp hc' with rfl | hc'
        · exact hna m hm
        · exact ih (k + 1) f1 ⟨c', hc', hna⟩ f' hf

end NmlVerif.ArrayMorph
