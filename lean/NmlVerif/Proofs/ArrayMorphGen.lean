import NmlVerif.Gen.ArrayMorph
import NmlVerif.Proofs.ArrayMorphHist
/-!
Helper lemmas for `Props/C18Gen.lean` (generated translation of `arraymorph.py` = hand model): Python indexing at
position 0, `np.where(...)[0][0]` = first index, coordinate reads, the generated `while` loop of `to_root`
against `rootLoop`, `range(1, n)`.
-/
namespace NmlVerif.ArrayMorph
open NmlVerif.Gen.ArrayMorph

theorem getI_cons_zero {α} (x : α) (l : List α) : getI (x :: l) 0 = .ok x := by
  have := getI_nat (l := x :: l) (k := 0) (by simp)
  simpa using this

theorem getI_nil_zero {α} : getI ([] : List α) 0 = .error .indexError := by
  have := getI_big (l := ([] : List α)) (k := 0) (by simp)
  simpa using this

theorem whereEq_first (x : Int) : ∀ (c : List Int) (k : Nat),
    getI (whereEq x k c) 0 = match firstIdx (fun y => y == x) k c with
      | some j => .ok (j : Int)
      | none => .error .indexError := by
  intro c
  induction c with
  | nil => intro k; simp only [whereEq, firstIdx]; exact getI_nil_zero
  | cons y ys ih =>
    intro k
    by_cases h : y = x
    · simp only [whereEq, firstIdx, h, if_true, BEq.rfl]
      exact getI_cons_zero _ _
    · have hb : (y == x) = false := by simpa using h
      simp only [whereEq, firstIdx, h, if_false, hb]
      exact ih (k + 1)

theorem getComp_err {vs : List Vec4} {i : Int} {e : Err} (h : getI vs i = .error e) (k : Int) :
    getComp vs i k = .error e := by
  unfold getComp; rw [h]; rfl

theorem getComp_ok {vs : List Vec4} {i : Int} {v : Vec4} (h : getI vs i = .ok v) :
    getComp vs i 0 = .ok v.1 ∧ getComp vs i 1 = .ok v.2.1 ∧ getComp vs i 2 = .ok v.2.2.1 ∧
      getComp vs i 3 = .ok v.2.2.2 := by
  unfold getComp; rw [h]
  refine ⟨?_, ?_, ?_, ?_⟩ <;> rfl

/-- the object with another connectivity array -/
def withConn (o : Obj) (c : List Int) : Obj := { o with arr := { o.arr with conn := c } }

/-- the generated `while` loop (carrying the whole object and all three locals) and the hand model's loop
    (carrying the connectivity array) do the same writes -/
theorem gen_to_root_loop (old : Int) : ∀ (f : Nat) (o : Obj) (idx p g : Int),
    (match to_root_loop old f o g idx p with | .ok r => Except.ok r.1 | .error e => .error e) =
    (match rootLoop old f o.arr.conn idx p g with | .ok c => Except.ok (withConn o c) | .error e => .error e) := by
  intro f
  induction f with
  | zero => intro o idx p g; rfl
  | succ f ih =>
    intro o idx p g
    unfold to_root_loop rootLoop
    by_cases h : idx = old
    · have hn : ¬ (idx ≠ old) := fun hh => hh h
      rw [if_neg hn, if_pos h]
      rfl
    · have hn : idx ≠ old := h
      rw [if_pos hn, if_neg h]
      simp only [setConn]
      cases hs : setI o.arr.conn p idx with
      | error e => rfl
      | ok c' =>
        simp only [bind, Except.bind]
        cases hg : getI c' g with
        | error e => rfl
        | ok g' =>
          have := ih (withConn o c') p g g'
          simp only [withConn] at this
          simp only [withConn]
          exact this

theorem mapE_map {α β γ} (f : β → Except Err γ) (g : α → β) : ∀ L : List α,
    mapE f (L.map g) = mapE (fun x => f (g x)) L := by
  intro L
  induction L with
  | nil => rfl
  | cons x xs ih => simp only [List.map_cons, mapE, ih]

theorem pyRange_one (n : Nat) : pyRange 1 (n : Int) = (List.range' 1 (n - 1)).map (fun k : Nat => (k : Int)) := by
  unfold pyRange
  have : ((n : Int) - 1).toNat = n - 1 := by omega
  rw [this, List.range'_eq_map_range, List.map_map]
  apply List.map_congr_left
  intro k _
  simp only [Function.comp]
  omega

end NmlVerif.ArrayMorph
