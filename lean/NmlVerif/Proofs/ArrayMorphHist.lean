import NmlVerif.Proofs.ArrayMorph
/-!
Helper lemmas for the HISTORY clauses of C18 (second pass): one `ArrayMorphology` object, its segment cache
(`SegmentList.instantiated_segments`), any sequence of calls.

* `Coh o` — the cache is coherent with the arrays: every live binding `i ↦ s` is what the arrays define for
  `segments[i]` today (`viewGet o.arr i = .ok s`).
* every call except `to_root` keeps `Coh` and the arrays, and returns the array-defined value when `Coh` holds
  (`step_coh_nt`); `to_root` empties the cache, and an EMPTY cache is coherent with any arrays: `Coh` is an
  invariant of EVERY history (`step_coh`, `run_coh`).
-/
namespace NmlVerif.ArrayMorph

/-- the cache agrees with the arrays -/
def Coh (o : Obj) : Prop := ∀ (i : Int) (s : Segment), o.cache.lookup i = some s → viewGet o.arr i = .ok s

theorem coh_fresh (a : Arr) : Coh (fresh a) := by
  intro i s h
  simp [fresh] at h

theorem coh_of_empty {o : Obj} (h : o.cache = []) : Coh o := by
  intro i s hl
  rw [h] at hl
  simp [List.lookup] at hl

/-- `segments[i]` on a coherent object: the array-defined value; arrays untouched; still coherent -/
theorem getItem_coh {o : Obj} (h : Coh o) (i : Int) :
    (getItem o i).1 = viewGet o.arr i ∧ (getItem o i).2.arr = o.arr ∧ Coh (getItem o i).2 := by
  unfold getItem
  cases hl : o.cache.lookup i with
  | some s => exact ⟨(h i s hl).symm, rfl, h⟩
  | none =>
    cases hv : viewGet o.arr i with
    | error e => exact ⟨rfl, rfl, h⟩
    | ok s =>
      refine ⟨rfl, rfl, ?_⟩
      intro k t hk
      simp only [List.lookup_cons] at hk
      by_cases hki : k = i
      · subst hki
        simp only [BEq.rfl] at hk
        cases hk
        exact hv
      · have : (k == i) = false := by simpa using hki
        rw [this] at hk
        exact h k t hk

theorem getItem_arr (o : Obj) (i : Int) : (getItem o i).2.arr = o.arr := by
  unfold getItem
  cases o.cache.lookup i with
  | some s => rfl
  | none =>
    cases viewGet o.arr i with
    | error e => rfl
    | ok s => rfl

/-- `viewGet` at a position of `segment_distal_vertex_indexes` -/
theorem viewGet_nat (a : Arr) {k : Nat} (hk : k < (distalIdx a).length) :
    viewGet a (k : Int) = segmentFromVertex a (distalIdx a)[k] := by
  unfold viewGet
  rw [getI_nat hk]
  rfl

theorem viewGet_big (a : Arr) {k : Nat} (hk : (distalIdx a).length ≤ k) :
    viewGet a (k : Int) = .error .indexError := by
  unfold viewGet
  rw [getI_big hk]
  rfl

/-- the sequence-protocol loop on a coherent object computes `iterGo` on the rest of the distal indices -/
theorem iterFrom_coh (a : Arr) : ∀ (f : Nat) (o : Obj) (k : Nat), o.arr = a → Coh o →
    (distalIdx a).length < f + k →
    (iterFrom f o k).1 = iterGo a ((distalIdx a).drop k) ∧ (iterFrom f o k).2.arr = a ∧ Coh (iterFrom f o k).2 := by
  intro f
  induction f with
  | zero =>
    intro o k ha hc hf
    have hk : (distalIdx a).length ≤ k := by omega
    rw [List.drop_eq_nil_of_le hk]
    exact ⟨rfl, ha, hc⟩
  | succ f ih =>
    intro o k ha hc hf
    obtain ⟨g1, g2, g3⟩ := getItem_coh hc (k : Int)
    rw [ha] at g1 g2
    unfold iterFrom
    by_cases hk : k < (distalIdx a).length
    · rw [viewGet_nat a hk] at g1
      have hdrop : (distalIdx a).drop k = (distalIdx a)[k] :: (distalIdx a).drop (k + 1) :=
        List.drop_eq_getElem_cons hk
      rw [hdrop]
      cases hs : segmentFromVertex a (distalIdx a)[k] with
      | error e =>
        rw [hs] at g1
        have hp : getItem o (k : Int) = (.error e, (getItem o (k : Int)).2) := by
          rw [← g1]
        rw [hp]
        refine ⟨?_, g2, g3⟩
        simp only [iterGo, hs]
      | ok s =>
        rw [hs] at g1
        have hp : getItem o (k : Int) = (.ok s, (getItem o (k : Int)).2) := by
          rw [← g1]
        rw [hp]
        obtain ⟨i1, i2, i3⟩ := ih (getItem o (k : Int)).2 (k + 1) g2 g3 (by omega)
        refine ⟨?_, i2, i3⟩
        simp only [iterGo, hs, i1]
    · have hk' : (distalIdx a).length ≤ k := by omega
      rw [viewGet_big a hk'] at g1
      have hp : getItem o (k : Int) = (.error .indexError, (getItem o (k : Int)).2) := by
        rw [← g1]
      rw [hp, List.drop_eq_nil_of_le hk']
      exact ⟨rfl, g2, g3⟩

theorem iterObj_coh {o : Obj} (h : Coh o) :
    (iterObj o).1 = viewIter o.arr ∧ (iterObj o).2.arr = o.arr ∧ Coh (iterObj o).2 := by
  have := iterFrom_coh o.arr (iterFuel o) o 0 rfl h (by unfold iterFuel; omega)
  simpa [iterObj, viewIter] using this

/-- a call other than `to_root` on a coherent object: array-defined result, same arrays, still coherent -/
theorem step_coh_nt {o : Obj} (h : Coh o) (op : Op) (hop : op.isToRoot = false) :
    (step o op).1 = (specStep o.arr op).1 ∧ (step o op).2.arr = o.arr ∧ (specStep o.arr op).2 = o.arr ∧
      Coh (step o op).2 := by
  cases op with
  | get i =>
    obtain ⟨g1, g2, g3⟩ := getItem_coh h i
    exact ⟨by simp only [step, specStep, g1], g2, rfl, g3⟩
  | len => exact ⟨rfl, rfl, rfl, h⟩
  | iter =>
    obtain ⟨g1, g2, g3⟩ := iterObj_coh h
    exact ⟨by simp only [step, specStep, g1], g2, rfl, g3⟩
  | sfv k => exact ⟨rfl, rfl, rfl, h⟩
  | conv => exact ⟨rfl, rfl, rfl, h⟩
  | toRoot j => cases hop

theorem run_append (o : Obj) (xs ys : List Op) :
    run o (xs ++ ys) = ((run o xs).1 ++ (run (run o xs).2 ys).1, (run (run o xs).2 ys).2) := by
  induction xs generalizing o with
  | nil => rfl
  | cons x xs ih =>
    simp only [List.cons_append, run, ih, List.cons_append]

theorem specRun_append (a : Arr) (xs ys : List Op) :
    specRun a (xs ++ ys) = ((specRun a xs).1 ++ (specRun (specRun a xs).2 ys).1, (specRun (specRun a xs).2 ys).2) := by
  induction xs generalizing a with
  | nil => rfl
  | cons x xs ih =>
    simp only [List.cons_append, specRun, ih, List.cons_append]

/-- ANY call on a coherent object: array-defined result, array-defined new arrays, still coherent (`to_root`
    empties the cache) -/
theorem step_coh {o : Obj} (h : Coh o) (op : Op) :
    (step o op).1 = (specStep o.arr op).1 ∧ (step o op).2.arr = (specStep o.arr op).2 ∧ Coh (step o op).2 := by
  by_cases hop : op.isToRoot = false
  · obtain ⟨s1, s2, s3, s4⟩ := step_coh_nt h op hop
    rw [s3]
    exact ⟨s1, s2, s4⟩
  · cases op with
    | toRoot j =>
      simp only [step, specStep, toRootObj]
      cases toRoot o.arr j with
      | ok a' => exact ⟨rfl, rfl, coh_of_empty rfl⟩
      | error e => exact ⟨rfl, rfl, h⟩
    | get i => exact absurd rfl hop
    | len => exact absurd rfl hop
    | iter => exact absurd rfl hop
    | sfv k => exact absurd rfl hop
    | conv => exact absurd rfl hop

/-- EVERY history on a coherent object: array-defined results, array-defined arrays, still coherent -/
theorem run_coh : ∀ (ops : List Op) (o : Obj), Coh o →
    (run o ops).1 = (specRun o.arr ops).1 ∧ (run o ops).2.arr = (specRun o.arr ops).2 ∧ Coh (run o ops).2 := by
  intro ops
  induction ops with
  | nil => intro o h; exact ⟨rfl, rfl, h⟩
  | cons op ops ih =>
    intro o hc
    obtain ⟨s1, s2, s3⟩ := step_coh hc op
    obtain ⟨r1, r2, r3⟩ := ih (step o op).2 s3
    simp only [run, specRun]
    rw [s2] at r1 r2
    exact ⟨by rw [s1, r1], r2, r3⟩

/-! fuel sufficiency of the iteration loop, for ANY cache (coherent or not) -/

theorem lookup_none_of_lt (k : Int) : ∀ (c : Cache), (∀ e ∈ c, e.1 < k) → c.lookup k = none := by
  intro c
  induction c with
  | nil => intro _; rfl
  | cons e es ih =>
    intro h
    obtain ⟨a, b⟩ := e
    have ha : a < k := h (a, b) (by simp)
    have hne : (k == a) = false := by
      have : k ≠ a := by omega
      simpa using this
    simp only [List.lookup_cons, hne]
    exact ih (fun x hx => h x (by simp [hx]))

theorem maxKey_ge : ∀ (c : Cache), ∀ e ∈ c, e.1 ≤ maxKey c := by
  intro c
  induction c with
  | nil => intro e he; simp at he
  | cons x xs ih =>
    intro e he
    simp only [maxKey]
    rcases List.mem_cons.mp he with rfl | he
    · split <;> omega
    · have := ih e he
      split <;> omega

theorem getItem_keys (o : Obj) (k : Int) (b : Int) (h : ∀ e ∈ o.cache, e.1 < b) (hk : k < b) :
    ∀ e ∈ (getItem o k).2.cache, e.1 < b := by
  unfold getItem
  cases o.cache.lookup k with
  | some s => exact h
  | none =>
    cases viewGet o.arr k with
    | error e => exact h
    | ok s =>
      intro e he
      simp only [List.mem_cons] at he
      rcases he with rfl | he
      · exact hk
      · exact h e he

/-- once the index is beyond the distal indices and beyond every key, one more unit of fuel changes nothing -/
theorem iterFrom_fuel (B : Nat) : ∀ (f : Nat) (o : Obj) (k : Nat), (distalIdx o.arr).length ≤ B →
    (∀ e ∈ o.cache, e.1 < max (B : Int) (k : Int)) → B < f + k → iterFrom (f + 1) o k = iterFrom f o k := by
  intro f
  induction f with
  | zero =>
    intro o k hL hkeys hf
    have hk : (B : Int) < (k : Int) := by omega
    have hkeys' : ∀ e ∈ o.cache, e.1 < (k : Int) := by
      intro e he; have := hkeys e he; omega
    have hg : getItem o (k : Int) = (.error .indexError, o) := by
      unfold getItem
      rw [lookup_none_of_lt (k : Int) o.cache hkeys', viewGet_big o.arr (by omega)]
    simp only [iterFrom, hg]
  | succ f ih =>
    intro o k hL hkeys hf
    have harr := getItem_arr o (k : Int)
    have hkeys2 : ∀ e ∈ (getItem o (k : Int)).2.cache, e.1 < max (B : Int) ((k + 1 : Nat) : Int) :=
      getItem_keys o (k : Int) _ (fun e he => by have := hkeys e he; omega) (by omega)
    have step := ih (getItem o (k : Int)).2 (k + 1) (by rw [harr]; exact hL) hkeys2 (by omega)
    have e1 : iterFrom (f + 1 + 1) o k = (match getItem o (k : Int) with
        | (.ok s, o') => (s :: (iterFrom (f + 1) o' (k + 1)).1, (iterFrom (f + 1) o' (k + 1)).2)
        | (.error _, o') => ([], o')) := rfl
    have e2 : iterFrom (f + 1) o k = (match getItem o (k : Int) with
        | (.ok s, o') => (s :: (iterFrom f o' (k + 1)).1, (iterFrom f o' (k + 1)).2)
        | (.error _, o') => ([], o')) := rfl
    rw [e1, e2]
    cases hg : getItem o (k : Int) with
    | mk r o' =>
      rw [hg] at step
      cases r with
      | error e => rfl
      | ok s =>
        have step' : iterFrom (f + 1) o' (k + 1) = iterFrom f o' (k + 1) := step
        simp only [step']

/-- **the iteration fuel is enough**: more fuel gives the same result, for every object state -/
theorem iterObj_fuel_enough (o : Obj) (extra : Nat) : iterFrom (iterFuel o + extra) o 0 = iterObj o := by
  unfold iterObj
  induction extra with
  | zero => rfl
  | succ n ih =>
    rw [← ih]
    have hB : ∀ e ∈ o.cache, e.1 < max (((distalIdx o.arr).length + (maxKey o.cache + 1).toNat : Nat) : Int) ((0 : Nat) : Int) := by
      intro e he
      have := maxKey_ge o.cache e he
      omega
    exact iterFrom_fuel ((distalIdx o.arr).length + (maxKey o.cache + 1).toNat) (iterFuel o + n) o 0 (by omega) hB
      (by unfold iterFuel; omega)

/-! validity (a tree without floating vertices) is kept by every history whose `to_root` indices are vertices -/

/-- re-rooting a valid morphology at one of its vertices gives a valid morphology (rooted there) of the same size -/
theorem Valid.toRoot {a : Arr} {r : Nat} (h : Valid a r) (j : Nat) (hj : j < a.conn.length) :
    ∃ a', toRoot a (j : Int) = .ok a' ∧ Valid a' j ∧ a'.conn.length = a.conn.length := by
  obtain ⟨c', h1, h2, h3, _⟩ := toRootFuel_spec a r j h.tree hj
  refine ⟨_, h1, ⟨?_, ?_, h.noFloating, h3⟩, h2⟩
  · show a.vertices.length = c'.length
    rw [h2]; exact h.lenV
  · show a.mask.length = c'.length
    rw [h2]; exact h.lenM

theorem specRun_valid : ∀ (ops : List Op) (a : Arr) (r : Nat), Valid a r →
    (∀ op ∈ ops, op.rootInRange a.conn.length = true) →
    ∃ r', Valid (specRun a ops).2 r' ∧ (specRun a ops).2.conn.length = a.conn.length := by
  intro ops
  induction ops with
  | nil => intro a r h _; exact ⟨r, h, rfl⟩
  | cons op ops ih =>
    intro a r h hops
    have hrest : ∀ op' ∈ ops, op'.rootInRange a.conn.length = true :=
      fun x hx => hops x (by simp [hx])
    cases op with
    | get i => exact ih a r h hrest
    | len => exact ih a r h hrest
    | iter => exact ih a r h hrest
    | sfv k => exact ih a r h hrest
    | conv => exact ih a r h hrest
    | toRoot j =>
      have hj01 := hops (.toRoot j) (by simp)
      simp only [Op.rootInRange, Bool.and_eq_true, decide_eq_true_eq] at hj01
      obtain ⟨j0, j1⟩ := hj01
      have hj : j.toNat < a.conn.length := by omega
      have hcast : ((j.toNat : Nat) : Int) = j := by omega
      obtain ⟨a', e1, v1, l1⟩ := h.toRoot j.toNat hj
      rw [hcast] at e1
      have hs : specRun a (.toRoot j :: ops) = (let rs := specRun a' ops; (Res.unit (.ok ()) :: rs.1, rs.2)) := by
        simp only [specRun, specStep, e1]
      rw [hs]
      obtain ⟨r', v2, l2⟩ := ih a' j.toNat v1 (by rw [l1]; exact hrest)
      exact ⟨r', v2, by rw [← l1]; exact l2⟩

/-! a tree's parent array is determined by its undirected edges and its root -/

theorem isTree_unique {c2 c : List Int} {r : Nat} (h2 : IsTree c2 r) (h : IsTree c r)
    (hlen : c2.length = c.length) (hedge : ∀ u v, EdgeL c2 u v ↔ EdgeL c u v) : c2 = c := by
  obtain ⟨rank, hrank⟩ := h.ranked
  have key : ∀ (k v : Nat), rank v < k → v < c.length → c2[v]? = c[v]? := by
    intro k
    induction k with
    | zero => intro v hv; omega
    | succ k ih =>
      intro v hv hvn
      by_cases hvr : v = r
      · subst hvr; rw [h2.root, h.root]
      · have hx : c[v]? = some c[v] := by simp [hvn]
        obtain ⟨p0, p1⟩ := h.parent v c[v] hx hvr
        have hcast : ((c[v].toNat : Nat) : Int) = c[v] := by omega
        have hpn : c[v].toNat < c.length := by omega
        have hrk := hrank v c[v] hx hvr
        have he : EdgeL c v c[v].toNat := Or.inl (by rw [hx, hcast])
        rcases (hedge v c[v].toNat).mpr he with h3 | h3
        · rw [h3, hx, hcast]
        · exfalso
          by_cases hpr : c[v].toNat = r
          · rw [hpr, h2.root] at h3
            have := Option.some.inj h3
            omega
          · have := ih c[v].toNat (by omega) hpn
            rw [this] at h3
            have h4 := hrank c[v].toNat (v : Int) h3 hpr
            simp only [Int.toNat_natCast] at h4
            omega
  apply List.ext_getElem?
  intro v
  by_cases hv : v < c.length
  · exact key (rank v + 1) v (by omega) hv
  · have h1 : c2[v]? = none := by rw [List.getElem?_eq_none_iff]; omega
    have h2' : c[v]? = none := by rw [List.getElem?_eq_none_iff]; omega
    rw [h1, h2']

theorem isTree_chain4 : IsTree [-1, 0, 1, 2] 0 :=
  ⟨by decide, by
    intro v x hv hne
    match v, hv with
    | 1, hv => simp at hv; subst hv; decide
    | 2, hv => simp at hv; subst hv; decide
    | 3, hv => simp at hv; subst hv; decide
    | 0, _ => exact absurd rfl hne
    | (k + 4), hv => simp at hv,
   ⟨fun v => v, by
    intro v x hv hne
    match v, hv with
    | 1, hv => simp at hv; subst hv; decide
    | 2, hv => simp at hv; subst hv; decide
    | 3, hv => simp at hv; subst hv; decide
    | 0, _ => exact absurd rfl hne
    | (k + 4), hv => simp at hv⟩⟩

end NmlVerif.ArrayMorph
