import NmlVerif.Model.Binding
/-! Generic lemmas and the tree-level round trip for the binding-table interpreter (core Lean only). -/
namespace NmlVerif.Binding

theorem mapOpt_some_of_forall {α β : Type} {f : α → Option β} {g : α → β} :
    ∀ l : List α, (∀ a ∈ l, f a = some (g a)) → mapOpt f l = some (l.map g)
  | [], _ => rfl
  | a :: l, h => by
    have h1 := h a (by simp)
    have h2 := mapOpt_some_of_forall l (fun x hx => h x (by simp [hx]))
    simp [mapOpt, h1, h2]

theorem mapOpt_map {α β γ : Type} (f : β → Option γ) (h : α → β) :
    ∀ l : List α, mapOpt f (l.map h) = mapOpt (fun a => f (h a)) l
  | [] => rfl
  | a :: l => by simp [mapOpt, mapOpt_map f h l]

theorem lookup_filterMap_key {ι β : Type} (key : ι → Nat) (val : ι → Option β) :
    ∀ (l : List ι), (l.map key).Nodup → ∀ a ∈ l,
      lookup (key a) (l.filterMap fun i => (val i).map fun v => (key i, v)) = val a
  | [], _, a, ha => by simp at ha
  | i :: l, hn, a, ha => by
    have hn' : (l.map key).Nodup := (List.nodup_cons.mp (by simpa using hn)).2
    have hi : key i ∉ l.map key := (List.nodup_cons.mp (by simpa using hn)).1
    rcases List.mem_cons.mp ha with rfl | hal
    · cases hv : val a with
      | some v => simp [hv, lookup]
      | none =>
        simp only [List.filterMap_cons, hv, Option.map_none]
        have : ∀ (l' : List ι), key a ∉ l'.map key →
            lookup (key a) (l'.filterMap fun i => (val i).map fun v => (key i, v)) = none := by
          intro l'
          induction l' with
          | nil => intro _; rfl
          | cons j l' ih =>
            intro hj
            have hj1 : key a ≠ key j := by intro h; apply hj; simp [h]
            have hj2 : key a ∉ l'.map key := by intro h; apply hj; simp [h]
            cases hvj : val j with
            | some v => simp [hvj, lookup, hj1, ih hj2]
            | none => simp [hvj, ih hj2]
        exact this l hi
    · have hne : key a ≠ key i := by
        intro h; apply hi; rw [← h]; exact List.mem_map_of_mem hal
      have ih := lookup_filterMap_key key val l hn' a hal
      cases hvi : val i with
      | some v => simp [hvi, lookup, hne, ih]
      | none => simp [hvi, ih]

/-- rebuilding an association list from its key list by lookups gives it back -/
theorem rebuild_assoc {γ : Type} (d : Option γ → γ) (hd : ∀ v, d (some v) = v) :
    ∀ (as : List (Nat × γ)), (as.map (·.1)).Nodup →
      (as.map (·.1)).map (fun m => (m, d (lookup m as))) = as
  | [], _ => rfl
  | (m, v) :: as, hn => by
    have hn' : (as.map (·.1)).Nodup := (List.nodup_cons.mp (by simpa using hn)).2
    have hm : m ∉ as.map (·.1) := (List.nodup_cons.mp (by simpa using hn)).1
    have ih := rebuild_assoc d hd as hn'
    simp only [List.map_cons, lookup, if_true, hd]
    congr 1
    have : (as.map (·.1)).map (fun m' => (m', d (if m' = m then some v else lookup m' as)))
         = (as.map (·.1)).map (fun m' => (m', d (lookup m' as))) := by
      apply List.map_congr_left
      intro m' hm'
      have : m' ≠ m := by intro h; apply hm; rw [← h]; exact hm'
      simp [this]
    exact this.trans ih

theorem getLast_toList_of_le_one {α : Type} : ∀ (l : List α), l.length ≤ 1 → l.getLast?.toList = l
  | [], _ => rfl
  | [_], _ => rfl
  | _ :: _ :: _, h => by simp at h

theorem filter_flatMap_block {ι : Type} (tagOf : ι → Nat) (blk : ι → List Obj) (h : ι → Obj → XNode) :
    ∀ (l : List ι), (l.map tagOf).Nodup →
      (∀ i ∈ l, ∀ o ∈ blk i, (h i o).tag = tagOf i) →
      ∀ i ∈ l, (l.flatMap fun j => (blk j).map (h j)).filter (fun n => n.tag == tagOf i) = (blk i).map (h i)
  | [], _, _, i, hi => by simp at hi
  | j :: l, hn, htag, i, hi => by
    have hn' : (l.map tagOf).Nodup := (List.nodup_cons.mp (by simpa using hn)).2
    have hj : tagOf j ∉ l.map tagOf := (List.nodup_cons.mp (by simpa using hn)).1
    have htag' : ∀ i ∈ l, ∀ o ∈ blk i, (h i o).tag = tagOf i := fun i hi => htag i (by simp [hi])
    simp only [List.flatMap_cons, List.filter_append]
    rcases List.mem_cons.mp hi with rfl | hil
    · have h1 : ((blk i).map (h i)).filter (fun n => n.tag == tagOf i) = (blk i).map (h i) := by
        apply List.filter_eq_self.mpr
        intro n hn
        rcases List.mem_map.mp hn with ⟨o, ho, rfl⟩
        simp [htag i (by simp) o ho]
      have h2 : (l.flatMap fun j => (blk j).map (h j)).filter (fun n => n.tag == tagOf i) = [] := by
        apply List.filter_eq_nil_iff.mpr
        intro n hn
        rcases List.mem_flatMap.mp hn with ⟨j, hjl, hnj⟩
        rcases List.mem_map.mp hnj with ⟨o, ho, rfl⟩
        have : tagOf j ≠ tagOf i := by
          intro e; apply hj; rw [← e]; exact List.mem_map_of_mem hjl
        simp [htag' j hjl o ho, this]
      rw [h1, h2, List.append_nil]
    · have hne : tagOf j ≠ tagOf i := by
        intro e; apply hj; rw [e]; exact List.mem_map_of_mem hil
      have h1 : ((blk j).map (h j)).filter (fun n => n.tag == tagOf i) = [] := by
        apply List.filter_eq_nil_iff.mpr
        intro n hn
        rcases List.mem_map.mp hn with ⟨o, ho, rfl⟩
        simp [htag j (by simp) o ho, hne]
      rw [h1, List.nil_append]
      exact filter_flatMap_block tagOf blk h l hn' htag' i hil

theorem nodupNat_iff : ∀ l : List Nat, nodupNat l = true ↔ l.Nodup
  | [] => by simp [nodupNat]
  | a :: l => by
    simp only [nodupNat, Bool.and_eq_true, Bool.not_eq_true', List.nodup_cons, nodupNat_iff l]
    constructor
    · rintro ⟨h1, h2⟩; exact ⟨by simpa using h1, h2⟩
    · rintro ⟨h1, h2⟩; exact ⟨by simpa using h1, h2⟩

/-! ### flat well-formedness, conformance -/

structure FlatWF (k : FlatClass) : Prop where
  xmlNodup : (k.attrs.map (·.xml)).Nodup
  memNodup : (k.attrs.map (·.member)).Nodup
  tagNodup : (k.kids.map (·.tag)).Nodup
  kmemNodup : (k.kids.map (·.member)).Nodup
  guards : ∀ a ∈ k.attrs, guardOK a = true

theorem flatWF_of_flatOK (k : FlatClass) (h : flatOK k = true) : FlatWF k := by
  simp only [flatOK, Bool.and_eq_true, nodupNat_iff, List.all_eq_true] at h
  exact ⟨h.1.1.1.1, h.1.1.1.2, h.1.1.2, h.1.2, h.2⟩

/-- what the exported attribute list carries for one attribute -/
def expVal (a : FAttr) (v : Option String) : Option String :=
  match a.guard, v with
  | .notNone, v => v
  | .ne d, some s => if s = d then none else some s
  | .ne _, none => none

/-- values a member can hold so that it survives: `None` only where the constructor default is `None` and the
    export guard is `is not None` (a `!= default` guard would raise when formatting `None`) -/
def AttrOK (a : FAttr) (v : Option String) : Prop :=
  match a.guard, v with
  | .notNone, none => a.ctorDefault = none
  | .notNone, some _ => True
  | .ne _, none => False
  | .ne _, some _ => True

def kidCls' (ce : FKid) : Nat := if ce.text then textCls else ce.cls

def Conforms (flat : Nat → Option FlatClass) : Nat → Obj → Prop
  | 0, _ => False
  | fuel+1, .mk c as tx ks =>
    if c = textCls then as = [] ∧ ks = [] ∧ tx ≠ none else
    ∃ k, flat c = some k ∧ tx = none ∧
      as.map (·.1) = k.attrs.map (·.member) ∧
      ks.map (·.1) = k.kids.map (·.member) ∧
      (∀ a ∈ k.attrs, ∀ v, lookup a.member as = some v → AttrOK a v) ∧
      ∀ ce ∈ k.kids, ((¬ ce.container) → (kidsOf ce.member ks).length ≤ 1) ∧
        ∀ o ∈ kidsOf ce.member ks, o.cls = kidCls' ce ∧ Conforms flat fuel o

theorem lookup_of_mem_keys {γ : Type} : ∀ (as : List (Nat × γ)) (m : Nat), m ∈ as.map (·.1) → ∃ v, lookup m as = some v
  | [], m, h => by simp at h
  | (m', v) :: as, m, h => by
    by_cases e : m = m'
    · exact ⟨v, by simp [lookup, e]⟩
    · have h' : m = m' ∨ m ∈ as.map (·.1) := by
        simpa only [List.map_cons, List.mem_cons] using h
      have : m ∈ as.map (·.1) := h'.resolve_left e
      obtain ⟨w, hw⟩ := lookup_of_mem_keys as m this
      exact ⟨w, by simp [lookup, e, hw]⟩

theorem expAttr_ok (a : FAttr) (v : Option String) (h : AttrOK a v) :
    expAttr a (some v) = some ((expVal a v).map fun s => (a.xml, s)) := by
  unfold expAttr expVal
  cases hg : a.guard with
  | notNone => cases v <;> simp
  | ne d =>
    cases v with
    | none => simp [AttrOK, hg] at h
    | some s => by_cases e : s = d <;> simp [e]

theorem bld_expVal (a : FAttr) (v : Option String) (hg : guardOK a = true) (h : AttrOK a v) :
    (match expVal a v with | some s => some s | none => a.ctorDefault) = v := by
  unfold expVal
  cases hgd : a.guard with
  | notNone =>
    cases v with
    | none => simpa [AttrOK, hgd] using h
    | some s => simp
  | ne d =>
    cases v with
    | none => simp [AttrOK, hgd] at h
    | some s =>
      by_cases e : s = d
      · have : a.ctorDefault = some d := by simpa [guardOK, hgd] using hg
        simp [e, this]
      · simp [e]

/-- **Tree-level round trip.** For every flat-class function whose classes are well-formed, every depth and every
    conforming object tree: `export` succeeds, carries the requested tag, and `build` gives the object back. -/
theorem roundtrip (flat : Nat → Option FlatClass) (hW : ∀ c k, flat c = some k → FlatWF k) :
    ∀ fuel tag o, Conforms flat fuel o →
      ∃ x, exportObj flat fuel tag o = some x ∧ x.tag = tag ∧ buildObj flat fuel o.cls x = some o := by
  intro fuel
  induction fuel with
  | zero => intro tag o h; cases o; exact absurd h (by simp [Conforms])
  | succ fuel ih =>
    intro tag o hc
    obtain ⟨c, as, tx, ks⟩ := o
    by_cases hct : c = textCls
    · subst hct
      simp only [Conforms, if_true] at hc
      obtain ⟨rfl, rfl, htx⟩ := hc
      cases tx with
      | none => exact absurd rfl htx
      | some s => exact ⟨.mk tag [] (some s) [], by simp [exportObj], rfl, by simp [buildObj, Obj.cls]⟩
    · simp only [Conforms, hct, if_false] at hc
      obtain ⟨k, hfind, htx, has, hks, hattrs, hkids⟩ := hc
      subst htx
      have hw : FlatWF k := hW c k hfind
      let g : Nat × Obj → XNode := fun p => (exportObj flat fuel p.1 p.2).getD default
      have hpair : ∀ ce ∈ k.kids, ∀ o ∈ kidsOf ce.member ks,
          exportObj flat fuel ce.tag o = some (g (ce.tag, o)) ∧ (g (ce.tag, o)).tag = ce.tag ∧
          buildObj flat fuel (kidCls' ce) (g (ce.tag, o)) = some o := by
        intro ce hce o ho
        obtain ⟨hcls, hco⟩ := (hkids ce hce).2 o ho
        obtain ⟨x, hx, hxt, hxb⟩ := ih ce.tag o hco
        have : g (ce.tag, o) = x := by simp [g, hx]
        rw [this, ← hcls]; exact ⟨hx, hxt, hxb⟩
      have hexp : mapOpt (fun (p : Nat × Obj) => exportObj flat fuel p.1 p.2) (pairsOf k ks)
          = some ((pairsOf k ks).map g) := by
        apply mapOpt_some_of_forall
        intro p hp
        rcases List.mem_flatMap.mp hp with ⟨ce, hce, hp'⟩
        rcases List.mem_map.mp hp' with ⟨o, ho, rfl⟩
        exact (hpair ce hce o ho).1
      -- attribute values present for every flat attribute
      have hval : ∀ a ∈ k.attrs, ∃ v, lookup a.member as = some v ∧ AttrOK a v := by
        intro a ha
        have : a.member ∈ as.map (·.1) := by rw [has]; exact List.mem_map_of_mem ha
        obtain ⟨v, hv⟩ := lookup_of_mem_keys as a.member this
        exact ⟨v, hv, hattrs a ha v hv⟩
      let ev : FAttr → Option String := fun a => expVal a ((lookup a.member as).getD none)
      have hxa : expAttrs k as = some (k.attrs.filterMap fun a => (ev a).map fun s => (a.xml, s)) := by
        unfold expAttrs
        have : mapOpt (fun a => expAttr a (lookup a.member as)) k.attrs
            = some (k.attrs.map fun a => (ev a).map fun s => (a.xml, s)) := by
          apply mapOpt_some_of_forall
          intro a ha
          obtain ⟨v, hv, hok⟩ := hval a ha
          simp only [hv, ev, Option.getD_some]
          exact expAttr_ok a v hok
        rw [this]
        simp only [Option.map_some, List.filterMap_map]
        congr 1
      refine ⟨.mk tag (k.attrs.filterMap fun a => (ev a).map fun s => (a.xml, s)) none ((pairsOf k ks).map g), ?_, rfl, ?_⟩
      · simp only [exportObj, hct, if_false, hfind, hxa, hexp]
      · have hchildren : (pairsOf k ks).map g =
            k.kids.flatMap fun ce => (kidsOf ce.member ks).map fun o => g (ce.tag, o) := by
          simp [pairsOf, List.map_flatMap, List.map_map, Function.comp_def]
        have hkid : ∀ ce ∈ k.kids,
            buildKid (buildObj flat fuel) ((pairsOf k ks).map g) ce = some (ce.member, kidsOf ce.member ks) := by
          intro ce hce
          unfold buildKid
          have hf := filter_flatMap_block (fun ce : FKid => ce.tag) (fun ce => kidsOf ce.member ks)
            (fun ce o => g (ce.tag, o)) k.kids hw.tagNodup
            (fun i hi o ho => (hpair i hi o ho).2.1) ce hce
          rw [hchildren, hf, mapOpt_map]
          have : mapOpt (fun o => buildObj flat fuel (if ce.text then textCls else ce.cls) (g (ce.tag, o))) (kidsOf ce.member ks)
              = some ((kidsOf ce.member ks).map id) :=
            mapOpt_some_of_forall _ (fun o ho => (hpair ce hce o ho).2.2)
          rw [this, List.map_id]
          by_cases hcont : ce.container
          · simp [hcont]
          · have := (hkids ce hce).1 (by simpa using hcont)
            simp [hcont, getLast_toList_of_le_one _ this]
        have hkidsAll : mapOpt (buildKid (buildObj flat fuel) ((pairsOf k ks).map g)) k.kids
            = some (k.kids.map fun ce => (ce.member, kidsOf ce.member ks)) :=
          mapOpt_some_of_forall _ hkid
        have hks' : (k.kids.map fun ce => (ce.member, kidsOf ce.member ks)) = ks := by
          have h1 : (k.kids.map fun ce => (ce.member, kidsOf ce.member ks))
              = (k.kids.map (·.member)).map (fun m => (m, (lookup m ks).getD [])) := by
            simp [List.map_map, Function.comp, kidsOf]
          rw [h1, ← hks]
          exact rebuild_assoc (fun v => v.getD []) (fun v => rfl) ks (by rw [hks]; exact hw.kmemNodup)
        have has' : (k.attrs.map (bldAttr (k.attrs.filterMap fun a => (ev a).map fun s => (a.xml, s)))) = as := by
          have h1 : (k.attrs.map (bldAttr (k.attrs.filterMap fun a => (ev a).map fun s => (a.xml, s))))
              = (k.attrs.map (·.member)).map (fun m => (m, (lookup m as).getD none)) := by
            rw [List.map_map]
            apply List.map_congr_left
            intro a ha
            have hl := lookup_filterMap_key (fun a : FAttr => a.xml) ev k.attrs hw.xmlNodup a ha
            obtain ⟨v, hv, hok⟩ := hval a ha
            simp only [bldAttr, Function.comp, hl]
            have := bld_expVal a v (hw.guards a ha) hok
            simp only [ev, hv, Option.getD_some]
            exact congrArg (Prod.mk a.member) this
          rw [h1, ← has]
          exact rebuild_assoc (fun v => v.getD none) (fun v => rfl) as (by rw [has]; exact hw.memNodup)
        simp only [buildObj, Obj.cls, hct, if_false, hfind, hkidsAll, has', hks']

end NmlVerif.Binding
